# Per-property configuration of ./check: which Lean modules carry the property theorems,
# which bridge theorems they rest on, which harness flavour runs, what is assumed.
PROPS = {
    "C01": {
        "modules": ["Logg.Props.C01"],
        "bridge_modules": ["Logg.Bridge.Level"],
        "bridge_theorems": ["Logg.Bridge.enabled_eq_admits", "Logg.Bridge.level_constants"],
        "flavor": "test",
        "thorough_seeds": 1,
        "explanation": "Level.Enabled and the entry-point table are regenerated from /repo; theorems: the gate is the admission rule for all integer levels/registries/debug states; every logContext site of every public entry point is gated on the emitted severity of the emitting logger; debug mode is sticky. Correspondence: complete product level x severity x entry point x debug phase on three loggers.",
        "assumptions": ["is.SetDebugMode/is.DebugMode and states.Env().GetDebugMode() are the same switch (observed by the harness after every SetLevel)",
                        "Go method promotion through *logimp adds no behaviour (entry points are analysed on *Entry)"],
    },
    "C11": {
        "modules": ["Logg.Props.C11"],
        "flavor": "test",
        "thorough_seeds": 1,
        "explanation": "SetJSONMode/SetColorMode/setentry are regenerated from /repo; theorems: (JSON and colour) unreachable, every call and every sequence of calls refines the 3-state specification (induction), getters and encoder selection agree with the format, other loggers untouched. Correspondence: exhaustive enumeration of call sequences in three application styles.",
        "assumptions": ["With*() = newChildLogger (inherits both bits, C10) followed by the Set* body; New(name, opts...) applies options in order"],
    },
    "C12": {
        "modules": ["Logg.Props.C12"],
        "flavor": "prod",
        "thorough_seeds": 1,
        "explanation": "The tail of logContext is regenerated as Gen.terminate and proved equal to the termination rule of the statement for all severities, flag words and both process modes; print precedes panic/exit in the regenerated call order; no log/slog level other than the explicit constants reaches Panic/Fatal (all integers). Correspondence: one child process per cell of the matrix, production and go-test mode.",
        "assumptions": ["os.Exit(-3) yields exit status 253 and panic(msg) unwinds to the caller (Go runtime)",
                        "is.InTesting() is decided from os.Args at init (harness.test -test.v emulates go test)"],
        "trusted": ["os.Exit / panic semantics of the Go runtime; is.InTesting()"],
    },
    "C17": {
        "modules": ["Logg.Props.C17"],
        "bridge_modules": ["Logg.Bridge.Registry"],
        "flavor": "test",
        "thorough_seeds": 3,
        "explanation": "Registry = the seven tables (initial value regenerated from the composite literals). Theorems: refusal of used value/title, refusal is a no-op, invariant Consistent (title maps back to its level) holds for the regenerated tables (decide) and is preserved by every registration, hence after every history (induction); name/text/JSON round trips; registered behaviour; ShortTag length. Correspondence: random registration histories with all lookups after every step.",
        "assumptions": ["strings.ToLower agrees with ASCII lower-casing on ASCII input (probe strings with letters outside ASCII are used verbatim only)",
                        "the JSON round trip theorem is stated for any quoting function with a left inverse; that of the encoder's Go-syntax quoting is C05's unquote_quote"],
    },
}
