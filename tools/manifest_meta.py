HOOK_COMMITS = ["1a493647ec3b19cd4a14a3dda9c3b59320f27bc6", "f628127618483cce189eb236975d99ae5da67077"]
NOT_APPLICABLE = {}
META = {
    "C01": {
        "text": "Proof: the gate regenerated from Level.Enabled equals the admission rule of the statement for all integer levels, registries and debug states; every logContext site of all 59 public entry points (table regenerated from the source by a symbolic walk) is gated on the severity it emits, on the logger that emits; debug mode is sticky over all operation histories (induction); after every history a logger's level is the one of the last SetLevel on that very logger, untouched by operations on other loggers, registrations and the debug switch (level_is_last_set, level_untouched; induction). Tied to the code by the translator on every run and by a complete-product correspondence run.",
        "design_ref": "DESIGN.md §7 C01",
        "note": "Trusted: Lean kernel; the go/ast extractor (validated by complete enumeration against the real functions); is.DebugMode == states.Env().GetDebugMode(); Go method promotion through *logimp.",
        "technique": "Lean 4 theorems over regenerated decision function + entry-point table (decide), induction over histories; exhaustive differential run",
    },
    "C11": {
        "text": "Proof: with the setters and the per-record mode derivation regenerated from the source, the pair (useJSON,useColor) is never (true,true) in any reachable state, every sequence of mode calls (any variadic argument lists) refines the three-state machine of the statement (induction over the sequence), getters and encoder choice agree with the state, and a call on one logger leaves the others alone. Exhaustive correspondence over call sequences.",
        "design_ref": "DESIGN.md §7 C11",
        "note": "Trusted: Lean kernel; extractor; that With*/New-options apply the same setter bodies to a child that starts with its parent's bits (checked by the correspondence, proved for the tree model in C10).",
        "technique": "Lean 4 refinement proof (induction over call sequences) on regenerated setters; exhaustive differential enumeration",
    },
    "C12": {
        "text": "Proof of the termination decision: the regenerated tail of logContext equals the rule of the statement (Panic -> panic(msg), Fatal -> os.Exit(-3) = status 253; never when not admitted, with no-interrupt, or under go test without interrupt-always; no other severity, no other log/slog level) for all inputs; the record is printed before; for whole programs of calls (runProgram, induction): a program without Panic/Fatal calls runs to its end emitting exactly its admitted calls (program_runs_through), and when a call ends the program its record is the last one emitted (terminating_record_is_last). The runtime part (os.Exit, panic) is exercised by a child-process matrix in production and go-test mode.",
        "design_ref": "DESIGN.md §7 C12",
        "note": "Trusted: Lean kernel; extractor; os.Exit/panic of the Go runtime; is.InTesting(); the admission part rests on C01's theorems.",
        "technique": "Lean 4 proof over the regenerated decision function (case analysis, omega); child-process differential matrix",
    },
    "C17": {
        "text": "Proof: over a model of the seven registry tables whose initial value is regenerated from the source, the invariant 'every level's title maps back to that level' holds initially (decide) and after every history of accepted and refused registrations (induction); refusals are exactly 'value or title in use' and change nothing; a level that has a name, built-in or registered earlier, keeps exactly that name over every later history (names_persist, builtin_names_persist; induction); name, text and JSON round trips follow for every built-in or registered level; ShortTag(n) is n bytes for 1..5 and panics outside. Correspondence on random registration histories with ~200 lookups after each step.",
        "design_ref": "DESIGN.md §7 C17",
        "note": "Trusted: Lean kernel; extractor (tables); fmt %q = strconv.Quote and strconv.Unquote as transcribed in Model/Quote, Model/Unquote (differentially checked); strings.ToLower on ASCII.",
        "technique": "Lean 4 invariant proof by induction over registration histories (decide on regenerated tables); differential random histories",
    },
    "C16": {
        "text": "Partial proof: the logic logg contributes - which zone (three-valued mode x local-time flag) and which layout (logger layout, else the flag table, else the default) - is regenerated from appendTimestamp and proved equal to the statement's rule for every mode value and flag word; setter semantics proved. The rendering of an instant with a layout and the round trip through time.Parse belong to Go's time package; they are exercised on generated instants by the correspondence and the oracle, not proved.",
        "design_ref": "DESIGN.md §7 C16",
        "note": "Trusted / not modelled: time.AppendFormat and time.Parse. Trusted: Lean kernel, extractor.",
        "technique": "Lean 4 proof of the regenerated selection logic (bit arithmetic, case analysis); differential run with time texts as atoms",
    },
    "C03": {
        "text": "Proof: routing regenerated from dualWriter.Get/Entry.findWriter equals the documented routing for all severities, registries and configurations; the eleven configuring calls refine their documented meaning on the three lists for every call sequence on fresh and configured loggers (induction); writers outside the selected list get nothing and each selected one exactly one write; a LevelSettable destination is told the record's severity before its write; printOut has no way out before the Write and the list is walked to its end (regenerated). Tied by the translator and by random operation histories over six writer kinds.",
        "design_ref": "DESIGN.md §7 C03",
        "note": "Trusted: Lean kernel; extractor; Go interface identity of writers (the six harness kinds); os.Stdout/os.Stderr captured at newDualWriter time.",
        "technique": "Lean 4 refinement proof (case analysis + induction over operation sequences) on regenerated routing; differential random histories",
    },
    "C13": {
        "text": "Proof over the pipeline model (gate, regenerated routing, fan-out with the regenerated reaction condition): a call always returns; every selected destination gets exactly one attempt whatever the others do; at most one diagnostic per call, none for a warning or when the logger does not admit warnings, routed as a warning otherwise, and a second record appears only after a failed attempt of the call's own non-warning record (diagnostic_only_after_failure); no sticky state (a call depends on earlier failures only through the position in the failure schedule); lifted to whole histories by induction over the call list (runCalls): one entry per call and at most two records in each whatever the schedule (sequence_bounded), a history splits at any point with only the schedule position carried over (history_splits), and once the schedule holds no further failure every later call produces exactly what a logger whose destinations never failed produces (recovery). Structural facts about LWs.Write/printOut are regenerated. Correspondence enumerates all 2^6 failure schedules per call, and replays three-call histories under one schedule running across the calls against runCalls (protocol line `calls`).",
        "design_ref": "DESIGN.md §7 C13",
        "note": "Trusted: Lean kernel; extractor (structural facts: one loop without early exit in LWs.Write, tell->write->warn order in printOut); errors.Join; the recursion bound rests on the regenerated condition lvl != WarnLevel.",
        "technique": "Lean 4 proof over a pipeline model with failure schedules (case analysis); exhaustive schedule enumeration in the correspondence",
    },
    "C07": {
        "text": "Proof: with the guards of collectArgs/walkParentAttrs regenerated, the assembled list is context values ++ ancestors (outermost first, iff the inherit flag) ++ own ++ call arguments for chains of any depth (induction); after the stable sort and the run-collapsing dedupe the emitted keys are strictly ascending (each once) and the value under a key is that of its last occurrence, for lists of any length (uses stability: core's sublist_mergeSort); sorting and de-duplicating is idempotent (emit_idempotent); the byte-wise key order is proved a total order. The regenerated fact that the code calls SortStableFunc ties the stable model to the code.",
        "design_ref": "DESIGN.md §7 C07",
        "note": "Trusted: Lean kernel; extractor; that slices.SortStableFunc is stable; value identity through unique integers in the correspondence.",
        "technique": "Lean 4 proofs by induction (total order, sortedness, stability, last-wins) over a model with regenerated guards; differential random cases",
    },
    "C10": {
        "text": "Proof over a tree model: frame theorems (a Set call changes only the receiver; New/With change only the receiver's name index and add one node; everything else is untouched), New returns the existing child and is idempotent, a created child has the receiver as parent and starts with its level and format, WithSkip keeps one child per n, a detached logger is parentless/colored/at the package level, parent links form a forest after every history (induction) and Root ends at a parentless logger; Each visits exactly the loggers from which parent links lead to the receiver, each once and at its depth, and Sublogger finds a logger of the name at or below the receiver iff Each reports one (link-table abstraction with a four-part well-formedness kept by every operation, for every history). The isolation of every non-modelled field and the format of every logger (three-state oracle) are checked by the correspondence on random and pinned histories.",
        "design_ref": "DESIGN.md §7 C10",
        "note": "Trusted: Lean kernel; extractor (setters); freshness of anonymous names; Each/Sublogger enumeration order (Go map iteration) canonicalised by sorting (the traversal theorems each_agrees_with_history / sublogger_agrees_with_history are about the set of visited loggers and their depths).",
        "technique": "Lean 4 frame/invariant proofs (induction over histories) on a tree model; differential random histories with full observation of every logger",
    },
    "C20": {
        "text": "Proof: totality of the formatter for every int64 value in both styles (exact length bound 33 <= regenerated array length; 32 is proved insufficient); invertibility: parseDuration (durText d frac) = ok d for every int64 d and both styles (theorem round_trip, with the parser's one float64 product at its exact value - assumption A1, validated on every run on its whole domain); agreement: for every byte string and any behaviour of the float64 step the parser equals the same parser over time.ParseDuration's unit table, or the latter rejected the day unit (theorem agrees_with_std). The model (incl. the standard-table instance) is tied to the implementation and to time.ParseDuration by differential execution over boundary-biased values and grammar-generated/mutated strings.",
        "design_ref": "DESIGN.md §7 C20, §12.4",
        "note": "Trusted: Lean kernel; extractor (array length, unit table); A1 (float64 exactness on the formatter's fractions; Lean Float = IEEE binary64 in the driver); time.ParseDuration as reference for the standard-table model.",
        "technique": "Lean 4 proofs: length bounds by digit-count arithmetic; round trip by induction over digit lists and printed fields; agreement by induction over the parser loop with an uninterpreted float step; differential value-space and grammar sweep as the tie",
    },
    "C19": {
        "text": "Partial proof: over a method-by-method model of the buffer (read offset, unread bookkeeping, grow with its four branches) the representation invariant is proved for every operation sequence (induction), hence no out-of-range slice panic, and the only panics are the documented ones; algebraic laws of Write/Reset/Truncate are proved; the model is proved to refine, operation by operation and over whole histories, a queue specification stated without slices, offsets and capacities (consumed / unread bytes and the last-read kind; making room may only forget the consumed bytes), so every result is independent of capacity, nil-ness and the runtime's growth. Observational equivalence with bytes.Buffer is decided by three-way differential lock-step (PrintCtx vs model, bytes.Buffer vs model, PrintCtx vs bytes.Buffer) over random operation sequences with boundary sizes, invalid runes and failing readers/writers; the Go runtime's capacity growth is an oracle input, not modelled.",
        "design_ref": "DESIGN.md §7 C19",
        "note": "Trusted: Lean kernel; Go runtime slice growth (oracle); bytes.Buffer of the installed toolchain as the reference.",
        "technique": "Lean 4 invariant and refinement proofs (concrete buffer model refines a queue specification) over operation sequences; three-way differential lock-step",
    },
    "C18": {
        "text": "Proof over all iteration orders of the Go map: with the privacy flag on, absolute keys, relative non-empty replacements and rules that keep relative paths relative, no path under a registered mapping keeps that prefix (the first mapping that fires makes the path relative, after which nothing matches and the final relativisation is skipped); the hypotheses are shown necessary by a proved counterexample. One known finding (explicitly removing the home mapping unprotects home) is replayed and reported as KNOWN-FINDING. Correspondence: mapping-table histories, repeated queries, answer accepted iff it equals the model's for some permutation.",
        "design_ref": "DESIGN.md §7 C18",
        "note": "Trusted: Lean kernel; regexp and filepath of the Go standard library (two rule shapes modelled by hand, Rel as atom).",
        "technique": "Lean 4 proof quantified over permutations (List.Perm) of the mapping table; differential run with permutation-set acceptance",
    },
    "C04": {
        "text": "Proof over a byte-exact encoder model (tied by byte-for-byte correspondence on generated records): whatever bytes the message, the logger name, the keys and the string-like values contain, what the JSON escaper puts between quotes is a well-formed JSON string body (proved for all byte strings) that decodes back to the logged string (all valid UTF-8 strings), the escaper of the model being that of the code (safeSet, the special code points and the literal pieces are regenerated and compared); the whole record is one line; and the object reads back: a member reader finds exactly one member per logged field in the order written, each under its escaped key with the encoder's value text, groups again objects of exactly their members at any depth (theorems json_record_reads_back, json_group_reads_back; mutual induction over values and groups). That Go's decoder agrees with the reader model, and the numeric/time value texts, are checked by the encoding/json oracle and Q jmem probes on every run.",
        "design_ref": "DESIGN.md §7 C04",
        "note": "Trusted: Lean kernel; strconv.IsPrint table; atoms from strconv/time/fmt (hypothesis: no quote or backslash in the ones written raw between quotes); the member reader model (compared with encoding/json on every produced line); encoding/json as oracle for value decoding.",
        "technique": "Lean 4 proofs on escapers (safety and round trip) and by mutual induction over the value/attribute encoders (one line; object members read back); byte-exact differential run; JSON decoder oracle and reader-model probes",
    },
    "C05": {
        "text": "Proof over the same encoder model in logfmt mode: Go-syntax quoting of any byte string contains no control byte and reads back exactly (strconv.Unquote model, all byte strings); a whole record is exactly one line; and the line parses back: a logfmt reader finds exactly one key=value pair per logged field in the order written, groups flattened under dotted keys at any depth and position (theorem logfmt_line_parses_back; mutual induction over values and groups) - no value can split a token or forge a pair. The reader model is compared with the oracle's tokenizer (Q tok probes) and the values with strconv.Unquote on every generated record; the model is tied byte for byte.",
        "design_ref": "DESIGN.md §7 C05",
        "note": "Trusted: Lean kernel; strconv.IsPrint table (guarded: printable implies >= 0x20 and != 0x7f); atoms; the logfmt reader model (compared with the harness tokenizer); strconv.Unquote as oracle. Hypotheses of the parse-back theorem: keys without space, quote, '='; bare atoms without space, quote; raw quoted texts without quote, backslash. Production mode only (error dump off).",
        "technique": "Lean 4 proofs (escaper cleanliness and round trip, one-line theorem and whole-line parse-back by mutual induction); byte-exact differential run; logfmt tokenizer oracle and reader-model probes",
    },
    "C06": {
        "text": "Proof over the encoder model in colored mode (tied byte for byte on the fidelity domain): layout_without_escapes - with every SGR sequence removed the payload is exactly the colour-free layout of Model/Layout (timestamp, name, [tag] of the configured width, first line padded to the minimal width, key=value in ascending key order with groups flattened, caller, rest lines indented by four blanks) - and no_color_bleeds (no colour on at any line feed or at the end, only well-formed sequences), for every record of the domain, groups at any depth; values are quoted clean. Partial in that the colour helpers of hedzr/is and the markup translator are modelled from their source / bypassed on the domain (no '<' or '&'), not verified. Oracle: SGR state tracker + stripped-layout parser on every generated record.",
        "design_ref": "DESIGN.md §7 C06",
        "note": "Trusted: Lean kernel; hedzr/is term/color helpers (ESC[<n>m, ESC[0m); the translator is the identity on the domain by the repaired fast path; widths are byte counts.",
        "technique": "Lean 4 proofs on the colored encoder model; byte-exact differential run; SGR tracker oracle",
    },
    "C09": {
        "text": "Proof: the encoder model is a pure function of the call, and the regenerated structure of PrintCtx shows every field reset by set/setentry, written before it is read, restored after use or constant (decide over the regenerated field list - a new unreset field breaks it; only assignments on every path count as a reset, and the constant fields are assigned nowhere in the package); the pool bracket is regenerated. The tie to the recycled-buffer implementation is the byte-exact correspondence of probes replayed after different histories and after adversarially seeded pool contents, which must equal each other and the model.",
        "design_ref": "DESIGN.md §7 C09",
        "note": "Trusted: Lean kernel; extractor; the field classification for non-reset fields (validated by pool seeding); sync.Pool behaviour.",
        "technique": "Lean 4 (pure-function model + decide over regenerated struct facts); differential replay of probes after varied histories",
    },
    "C02": {
        "text": "Proof: the call model composes the regenerated gate, the argsToAttrs state machine, the encoder and the regenerated routing; theorems give exactly-once delivery to the selected destinations with one whole LF-terminated payload for every argument list in the domain, silence when not admitted, the one-byte blank Print, and normal return for non-terminating severities; for whole histories with healthy destinations the output is the per-call output of each call on its own, one record per admitted call and none otherwise (healthy_history_once_each, induction over the call list), and a call after any history delivers what it delivers as the first call of a fresh run (call_independent_of_history). Tied to the code by the translator (gate, routing, termination, blank shortcut, one Write per printOut) and by a byte-exact correspondence over sequences of verb calls with free-form arguments on three loggers sharing the pools.",
        "design_ref": "DESIGN.md §7 C02",
        "note": "Trusted: Lean kernel; extractor; the harness's classification of Go argument kinds into the model's Arg cases; values with panicking methods / cycles / attributes in value position are outside the model.",
        "technique": "Lean 4 (state-machine induction, encoder lemmas, regenerated decisions) + differential replay of call sequences",
    },
    "C15": {
        "text": "Proof: content preservation of the attribute conversion by mutual structural induction over log/slog values (groups nested, LogValuers resolved at every depth), the conversion of the model taking for every value the case of the code's regenerated kind switch (ten cases, no condition, no depth argument) and Handle handing the record's own time, message and converted attributes on with one way out; level conversions decided on the regenerated tables for all integers; Enabled equals the regenerated gate on the namesake severity; a handled record / an admitted bridge message is one LF-terminated payload once per selected destination; the bridge strips exactly one line feed. The part of the statement about derived handlers is false of the code: proved by a witness and reported as KNOWN-FINDING C15-derived-detached. Tied to the code by the translator and a byte-exact correspondence with JSON-decoding oracles.",
        "design_ref": "DESIGN.md §7 C15",
        "note": "Trusted: Lean kernel; extractor; the harness's mapping of log/slog values to the model's SVal; log/slog and log package behaviour.",
        "technique": "Lean 4 (mutual structural induction, decide on regenerated tables) + differential replay through log/slog and log",
    },
    "C14": {
        "text": "Proof: the frame selected by runtime.Callers in a stack model, for all chain lengths, skip counts and stack depths (indexing lemma), combined with the entry-point table regenerated from the source by a symbolic walk (skip constant and library call-chain length of every logContext site): every site passes chain+1 and the logger's skip count, so every entry point attributes to user frame n. Adapter and bridge constants likewise. Tied to the code by the translator and by a sweep over all entry points x formats x logger kinds x skips x repeated call sites, in an inlining and a no-inlining build.",
        "design_ref": "DESIGN.md §7 C14",
        "note": "Trusted: Lean kernel; extractor (symbolic walk); Go runtime frame counting; structure of log/slog and log call paths.",
        "technique": "Lean 4 (list indexing lemma + decide over regenerated entry-point table) + differential stack-frame matching in two builds",
    },
    "C08": {
        "text": "Proof (partial): for the interleaving model - any number of goroutines, programs and schedules - an invariant (no print context in two hands; formatted buffer = owner's record; every call accounted once) is preserved by every step (induction over schedules), giving: every observed payload is the whole record of exactly one call, and at quiescence delivered = admitted as multisets. The structural facts that justify the model are regenerated from the source on every run. Data races at the memory level are outside what a model can exhibit; they are decided by the Go race detector on a stress harness (G up to 64 goroutines, 1..8 loggers, shared groups), whose payload multisets are also compared with the calls issued alone and with the Lean encoder.",
        "design_ref": "DESIGN.md §7 C08",
        "note": "Partial: race freedom itself rests on the race detector over the explored runs. Trusted: Lean kernel; extractor facts; sync.Pool semantics; atomic formatting step.",
        "technique": "Lean 4 (invariant by induction over all schedules of an interleaving model; regenerated structural facts) + -race stress harness with multiset oracle",
    },
}
