#!/bin/bash
# Runs every claimed check (quick tier by default) on the current tree; prints one line each.
cd "$(dirname "$0")/.."
tier=${1:-quick}
rc=0
for p in $(python3 -c "import json;print(' '.join(c['property_id'] for c in json.load(open('MANIFEST.json'))['checks']))"); do
  out=$(./check $p --tier $tier 2>&1); r=$?
  echo "$out" | grep -E "^(VIOLATION|KNOWN-FINDING|BROKEN|$p )" | cut -c1-220
  [ $r -ne 0 ] && rc=1
done
exit $rc
