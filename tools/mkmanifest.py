#!/usr/bin/env python3
"""Regenerates /verif/MANIFEST.json from tools/propcfg.py (claimed checks) and
tools/manifest_meta.py (texts). Unclaimed properties are listed under not_applicable."""
import json, os, sys
VERIF = os.path.dirname(os.path.dirname(os.path.abspath(__file__)))
sys.path.insert(0, os.path.join(VERIF, "tools"))
from propcfg import PROPS
from manifest_meta import META, NOT_APPLICABLE, HOOK_COMMITS

ids = [json.loads(l)["id"] for l in open(os.path.join(VERIF, "properties.jsonl"))]
checks = []
for pid in ids:
    if pid not in PROPS:
        continue
    m = META[pid]
    checks.append({
        "property_id": pid,
        "quick_cmd": f"./check {pid} --tier quick",
        "thorough_cmd": f"./check {pid} --tier thorough",
        "evidence_file": f"/verif/evidence/{pid}.json",
        "replay_cmd_template": f"./check {pid} --replay {{path}}",
        "engine": "lean4-proof+correspondence",
        "level_claimed": {"category": "proof", "text": m["text"], "design_ref": m["design_ref"]},
        "level_note": m["note"],
        "technique": m["technique"],
    })
na = [{"property_id": pid, "reason": NOT_APPLICABLE.get(pid, "check not built yet in this session; listed here until its Lean model, theorems and correspondence exist")}
      for pid in ids if pid not in PROPS]
manifest = {
    "version": 1,
    "setup_cmd": "./setup.sh",
    "hooks": {
        "guard": "verif",
        "enable": "go build -tags verif (harness module with `replace github.com/hedzr/logg => /repo`); hooks live in /repo/slog/verif_hooks.go",
        "baseline_off_cmd": "/verif/tools/baseline.sh",
        "source_commits": HOOK_COMMITS,
        "add_only": True,
    },
    "engines": [
        {"name": "lean4-proof+correspondence", "path": "/verif/lean, /verif/extract, /verif/harness, /verif/check",
         "serves_properties": [c["property_id"] for c in checks],
         "kind_free_text": "Lean 4 theorems about an executable model; model fragments regenerated from /repo by a go/ast translator on every run; hand-written parts tied by differential execution (Go harness vs compiled Lean driver) with an independent Go oracle to locate failing inputs"},
    ],
    "checks": checks,
    "not_applicable": na,
    "notes": "See DESIGN.md. Every check: regenerate Gen/*.lean from /repo, lake build the property theorems, audit axioms, rebuild the harness from /repo with -tags verif, compare implementation and Lean driver line by line, replay known findings.",
}
json.dump(manifest, open(os.path.join(VERIF, "MANIFEST.json"), "w"), indent=1)
print("MANIFEST.json:", len(checks), "checks,", len(na), "not_applicable")
