#!/usr/bin/env python3
"""seed_run.py <Cxx-mN> [property ...]  — applies a seeded change to /repo, runs the named checks
(default: the property it breaks), reverts /repo, and records the outcome in meta.json."""
import json, os, subprocess, sys
sid = sys.argv[1]
d = f"/verif/seeded/{sid}"
meta = json.load(open(f"{d}/meta.json"))
props = sys.argv[2:] or [meta["property"]]
assert subprocess.run(["git", "-C", "/repo", "status", "--porcelain"], stdout=subprocess.PIPE, text=True).stdout.strip() == "", "/repo is dirty"
assert subprocess.run(["git", "-C", "/repo", "apply", f"{d}/patch.diff"]).returncode == 0
import shutil, glob
backup = {f: open(f).read() for f in glob.glob("/verif/evidence/*.json")}
try:
    res = {}
    for p in props:
        r = subprocess.run(["./check", p, "--tier", os.environ.get("TIER", "quick")], cwd="/verif", stdout=subprocess.PIPE, stderr=subprocess.STDOUT, text=True)
        lines = [l for l in r.stdout.splitlines() if l.startswith(("VIOLATION", "BROKEN", "FAILING-INPUT", "KNOWN"))]
        res[p] = {"exit": r.returncode, "violation_line": next((l for l in lines if l.startswith("VIOLATION")), None),
                  "first_reasons": [l[:260] for l in lines if not l.startswith("VIOLATION")][:4]}
        kinds = sorted({l.split(":")[1].strip().split("-broken")[0] + "-broken" for l in lines if l.startswith("BROKEN:") and "-broken" in l})
        res[p]["how"] = {"stages_broken": kinds, "concrete_failing_input": any(l.startswith("FAILING-INPUT") for l in lines),
                         "no_failing_input_found": bool(res[p]["violation_line"] and res[p]["violation_line"].endswith("no-failing-input-found"))}
        print(sid, p, "exit", r.returncode, "|", (res[p]["violation_line"] or "no violation reported")[:160])
        for l in res[p]["first_reasons"][:3]:
            print("    ", l[:220])
    meta["detected_by"] = {p: ("caught" if v["exit"] == 1 and v["violation_line"] else "MISSED") for p, v in res.items()}
    meta["detection_detail"] = res
    json.dump(meta, open(f"{d}/meta.json", "w"), indent=1)
finally:
    for f, c in backup.items():  # evidence files must come from runs on the unchanged tree
        open(f, "w").write(c)
    subprocess.run(["git", "-C", "/repo", "checkout", "--", "."])
    subprocess.run(["git", "-C", "/repo", "clean", "-fdq"])
