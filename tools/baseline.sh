#!/bin/bash
# Runs the repository's pinned baseline (both modules, workspace mode, no build tag).
# Prints the number of passing tests (top-level + subtests) and exits non-zero on any failure.
export GOPROXY=off
fail=0; pass=0
for m in . ./tests; do
  out=$(cd /repo/$m && go test -json -vet=off -count=1 -timeout 25m ./... 2>&1)
  p=$(printf '%s\n' "$out" | grep -c '"Action":"pass".*"Test"')
  f=$(printf '%s\n' "$out" | grep -c '"Action":"fail"')
  pass=$((pass+p)); fail=$((fail+f))
  if [ "$f" != 0 ]; then printf '%s\n' "$out" | grep '"Action":"fail"' | head; fi
done
echo "baseline: pass=$pass fail=$fail"
[ "$fail" = 0 ] && [ "$pass" -ge 155 ]
