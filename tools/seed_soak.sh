#!/bin/bash
# unchanged-tree sweep: every check, quick tier, several seeds; prints anything that is not a clean pass
cd /verif
for seed in "$@"; do
  for i in $(seq -w 1 20); do
    out=$(VERIF_SEED=$seed ./check C$i 2>&1); rc=$?
    if [ $rc -ne 0 ] || echo "$out" | grep -q "VIOLATION"; then echo "seed=$seed C$i rc=$rc"; echo "$out" | tail -5 | cut -c1-600; fi
  done
  echo "seed $seed done"
done
