#!/usr/bin/env python3
"""seed_meta_enrich.py [id ...] — fills title / which part breaks / what it needs to manifest in seeded/*/meta.json from the README."""
import glob, json, os, re, sys
ids = sys.argv[1:] or [os.path.basename(d) for d in sorted(glob.glob("/verif/seeded/C*-m*"))]
def sections(text):
    out, cur, buf = [], "", []
    for line in text.splitlines():
        m = re.match(r"^#+\s*(.*)", line)
        if m:
            out.append((cur, "\n".join(buf).strip())); cur, buf = m.group(1).strip(), []
        else:
            buf.append(line)
    out.append((cur, "\n".join(buf).strip()))
    return out
for sid in ids:
    d = f"/verif/seeded/{sid}"
    meta = json.load(open(f"{d}/meta.json"))
    secs = sections(open(f"{d}/README.md").read())
    title = next((h for h, _ in secs if h), sid)
    def find(*words):
        for h, b in secs:
            if any(w in h.lower() for w in words) and b:
                return re.sub(r"\s+", " ", b)[:700]
        return None
    meta["title"] = re.sub(r"^C\d\d\s*/\s*m\d\s*[-—:]\s*", "", title)
    meta["breaks"] = {"property": meta["property"], "part": find("break") or "see README.md"}
    meta["needs_to_manifest"] = find("need", "manifest") or "see README.md"
    json.dump(meta, open(f"{d}/meta.json", "w"), indent=1)
print(len(ids), "meta files enriched")
