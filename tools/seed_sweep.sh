#!/bin/bash
# runs every seeded change against the check of the property it breaks; /repo is modified while this runs
cd /verif
for d in seeded/C*-m*; do
  grep -q obsolete_since $d/meta.json && continue
  python3 tools/seed_run.py $(basename $d) 2>&1 | grep "exit"
done
.work/bin/extract > /dev/null
git -C /repo status --short
