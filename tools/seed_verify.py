#!/usr/bin/env python3
"""seed_verify.py <Cxx> <mN> [demo-dir-relative-to-repo]
Confirms a seeded change produced by a sub-agent in a fresh scratch worktree of /repo:
 (a) the existing suite passes with the patch, (b) the demonstration fails with it,
 (c) the demonstration passes without it; then stores it under /verif/seeded/<Cxx>-<mN>/."""
import json, os, re, shutil, subprocess, sys
pid, mn = sys.argv[1], sys.argv[2]
demodir = sys.argv[3] if len(sys.argv) > 3 else "slog"
src = f"/tmp/mut/out/{pid}/{mn}"
wt = f"/tmp/sv/{pid}-{mn}"
env = dict(os.environ, GOPROXY="off")
def sh(cmd, cwd):
    p = subprocess.run(cmd, cwd=cwd, env=env, shell=True, stdout=subprocess.PIPE, stderr=subprocess.STDOUT, text=True, errors="replace", timeout=1200)
    return p.returncode, p.stdout
shutil.rmtree(wt, ignore_errors=True)
subprocess.run(["git", "-C", "/repo", "worktree", "prune"])
os.makedirs("/tmp/sv", exist_ok=True)
assert subprocess.run(["git", "-C", "/repo", "worktree", "add", "-q", "--detach", wt, "HEAD"]).returncode == 0
res = {"property": pid, "id": f"{pid}-{mn}"}
try:
    demos = [f for f in os.listdir(src) if f.endswith("_test.go") or f.endswith(".go")]
    demo = [f for f in demos if f.endswith("_test.go")]
    mainprog = False
    if not demo and "main.go" in demos:
        # the demonstration is a small program (needs a production binary, not go test)
        demo, mainprog, demodir = ["main.go"], True, "examples/zzseeddemo"
        os.makedirs(os.path.join(wt, demodir), exist_ok=True)
        os.environ["DEMO_NAME"] = "main.go"
    assert demo, "no demo test file"
    demo = demo[0]
    tests = re.findall(r"^func (Test\w+)\(", open(os.path.join(src, demo)).read(), re.M)
    runre = "^(" + "|".join(tests) + ")$"
    extra = "-race" if "race" in open(os.path.join(src, "README.md")).read().lower() and pid == "C08" and not os.environ.get("NO_RACE") else ""
    democmd = f"go test {extra} -vet=off -count=1 -run '{runre}' ./{demodir}/"
    if mainprog:
        democmd = f"go run ./{demodir}"
    # (c) demo on clean tree
    shutil.copy(os.path.join(src, demo), os.path.join(wt, demodir, os.environ.get("DEMO_NAME", "zz_seeded_demo_test.go")))
    rc_c, out_c = sh(democmd, wt)
    os.remove(os.path.join(wt, demodir, os.environ.get("DEMO_NAME", "zz_seeded_demo_test.go")))
    # apply
    rc, out = sh(f"git apply {src}/patch.diff", wt)
    assert rc == 0, "patch does not apply: " + out
    rc_a1, out_a1 = sh("go build ./... && go test -vet=off -count=1 ./...", wt)
    rc_a2, out_a2 = sh("go test -vet=off -count=1 ./...", os.path.join(wt, "tests"))
    shutil.copy(os.path.join(src, demo), os.path.join(wt, demodir, os.environ.get("DEMO_NAME", "zz_seeded_demo_test.go")))
    rc_b, out_b = sh(democmd, wt)
    res.update({"suite_with_patch_passes": rc_a1 == 0 and rc_a2 == 0, "demo_fails_with_patch": rc_b != 0, "demo_passes_without_patch": rc_c == 0,
                "demo_cmd": democmd, "demo_dir": demodir})
    ok = res["suite_with_patch_passes"] and res["demo_fails_with_patch"] and res["demo_passes_without_patch"]
    res["confirmed"] = ok
    if not ok:
        print(json.dumps(res, indent=1)); print("--- (c)\n", out_c[-800:], "\n--- (a)\n", out_a1[-800:], out_a2[-300:], "\n--- (b)\n", out_b[-800:])
    else:
        dst = f"/verif/seeded/{pid}-{mn}"
        shutil.rmtree(dst, ignore_errors=True); os.makedirs(dst)
        shutil.copy(os.path.join(src, "patch.diff"), dst)
        shutil.copy(os.path.join(src, demo), os.path.join(dst, demo))
        shutil.copy(os.path.join(src, "README.md"), os.path.join(dst, "README.md"))
        readme = open(os.path.join(src, "README.md")).read()
        meta = {"property": pid, "id": f"{pid}-{mn}", "breaks": pid, "source": "independent sub-agent given only the property text and a scratch worktree",
                "needs_to_manifest": "see README.md", "demo": demo, "demo_dir": demodir,
                "confirmed_by_me": {"base_commit": subprocess.run(["git","-C","/repo","rev-parse","HEAD"],stdout=subprocess.PIPE,text=True).stdout.strip(),
                                    "suite_with_patch": "pass (go test -vet=off -count=1 ./... in . and ./tests)",
                                    "demo_with_patch": "FAIL (" + democmd + ")", "demo_without_patch": "pass"},
                "detected_by": None}
        json.dump(meta, open(os.path.join(dst, "meta.json"), "w"), indent=1)
        subprocess.run(["python3", "/verif/tools/seed_meta_enrich.py", f"{pid}-{mn}"])
        print(f"{pid}-{mn}: confirmed")
finally:
    subprocess.run(["git", "-C", "/repo", "worktree", "remove", "--force", wt])
