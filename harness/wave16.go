package main

// Deterministic scenarios added with the sixteenth wave of seeded changes (feature additions whose zero value is
// not neutral on some path, clean-ups that remove load-bearing code). Oracles are the property texts only.

import (
	"context"
	"errors"
	"fmt"
	"strconv"
	"strings"
	"sync"
	"time"

	"github.com/hedzr/logg/slog"
)

type ctxKeyW16 string

// nilContextWithKeys: a logger that was given context keys, called through the Context verbs with a nil context,
// with a context without the keys and with one that has them: every call returns and is delivered once (C02).
func nilContextWithKeys(viol func(violation)) {
	for _, format := range []string{"l", "j", "c"} {
		for _, how := range []string{"SetContextKeys", "WithContextKeys"} {
			slog.VerifResetGlobals()
			rec := &recorder{}
			base := slog.New("ck").SetLevel(slog.InfoLevel).SetWriter(rec).SetErrorWriter(rec)
			setFormat(base, format)
			var l slog.Logger = base
			if how == "SetContextKeys" {
				base.SetContextKeys(ctxKeyW16("rid"), "plain")
			} else {
				l = base.WithContextKeys(ctxKeyW16("rid"), "plain")
				l.SetWriter(rec).SetErrorWriter(rec)
			}
			with := context.WithValue(context.Background(), ctxKeyW16("rid"), "r-17")
			ctxs := []struct {
				name string
				ctx  context.Context
			}{{"nil", nil}, {"context.Background()", context.Background()}, {"a context holding the key", with}}
			for _, cx := range ctxs {
				calls := []struct {
					name string
					f    func(m string)
				}{
					{"InfoContext", func(m string) { l.InfoContext(cx.ctx, m, "k", 1) }},
					{"WarnContext", func(m string) { l.WarnContext(cx.ctx, m, "k", 1) }},
					{"PrintContext", func(m string) { l.PrintContext(cx.ctx, m, "k", 1) }},
					{"Logit", func(m string) { l.Logit(cx.ctx, slog.ErrorLevel, m, "k", 1) }},
					{"LogAttrs", func(m string) { l.LogAttrs(cx.ctx, slog.InfoLevel, m, slog.Int("k", 1)) }},
				}
				for ci, c := range calls {
					marker := fmt.Sprintf("ctx-call-%d.", ci)
					in := map[string]any{"logger": "New(…)." + how + "(key, \"plain\")", "format": format, "context": cx.name, "call": c.name}
					rec.take()
					func() {
						defer func() {
							if e := recover(); e != nil {
								viol(violation{What: fmt.Sprintf("a log call of non-terminating severity did not return normally: panic: %v", e), Input: in})
							}
						}()
						c.f(marker)
					}()
					if msg := wholeOnce(rec.take(), marker); msg != "" {
						viol(violation{What: "an admitted call through a Context verb on a logger with context keys was not delivered exactly once: " + msg, Input: in})
					}
				}
			}
		}
	}
	slog.VerifResetGlobals()
}

// explicitFlagWords: the flag word given as an explicit combination of the documented bits (an absolute SetFlags, as
// applications do to choose the timestamp parts): logfmt records still quote every string-like value, and a list of
// strings keeps its members apart (C05).
func explicitFlagWords(viol func(violation)) {
	words := []struct {
		name string
		f    slog.Flags
	}{
		{"Ltime|Lmicroseconds|LlocalTime|Lattrs|Lprivacypath|Lprivacypathregexp", slog.Ltime | slog.Lmicroseconds | slog.LlocalTime | slog.Lattrs | slog.Lprivacypath | slog.Lprivacypathregexp},
		{"Ldate|Ltime|Lmicroseconds|Lattrs", slog.Ldate | slog.Ltime | slog.Lmicroseconds | slog.Lattrs},
		{"Ldate|Ltime|Lattrs|LattrsR", slog.Ldate | slog.Ltime | slog.Lattrs | slog.LattrsR},
		{"Lattrs", slog.Lattrs},
	}
	for _, wd := range words {
		for _, via := range []string{"SetFlags", "ResetFlags; RemoveFlags(all); AddFlags"} {
			slog.VerifResetGlobals()
			if via == "SetFlags" {
				slog.SetFlags(wd.f | slog.LnoInterrupt)
			} else {
				slog.ResetFlags()
				slog.SetFlags(0)
				slog.AddFlags(wd.f | slog.LnoInterrupt)
			}
			rec := &recorder{}
			l := slog.New("xf").SetLevel(slog.InfoLevel).SetColorMode(false).SetWriter(rec).SetErrorWriter(rec)
			l.Info("ready", "user", "alice", "t", "true", "n", "42", "flag", true, "i", 42, "list", []string{"a,b", "c"}, "list3", []string{"a", "b", "c"}, "empty", "")
			w := rec.take()
			in := map[string]any{"flags": wd.name, "set_by": via, "call": `Info("ready", "user", "alice", "t", "true", "n", "42", "flag", true, "i", 42, "list", []string{"a,b", "c"}, "list3", []string{"a", "b", "c"}, "empty", "")`}
			if len(w) != 1 || !strings.HasSuffix(string(w[0]), "\n") {
				viol(violation{What: "a logfmt record was not delivered as one line", Input: in, Actual: fmt.Sprintf("%q", w)})
				continue
			}
			line := strings.TrimSuffix(string(w[0]), "\n")
			pairs, err := lfTokenize(line)
			if err != nil {
				viol(violation{What: "the logfmt line does not tokenize: " + err.Error(), Input: in, Actual: line})
				continue
			}
			got := map[string]string{}
			for _, p := range pairs {
				got[p.k] = p.v
			}
			for k, want := range map[string]string{"msg": "ready", "level": "info", "logger": "xf", "user": "alice", "t": "true", "n": "42", "empty": ""} {
				u, e := strconv.Unquote(got[k])
				if e != nil || u != want {
					viol(violation{What: "a string-like value of a logfmt record is not quoted (or does not parse back to its exact value)", Input: in,
						Expected: fmt.Sprintf("%s=%q", k, want), Actual: fmt.Sprintf("%s=%s in %s", k, got[k], line)})
				}
			}
			if got["flag"] != "true" || got["i"] != "42" {
				viol(violation{What: "a boolean or integer value of a logfmt record is not printed bare", Input: in, Actual: line})
			}
			if got["list"] == got["list3"] || !strings.Contains(got["list"], `"a,b"`) {
				viol(violation{What: "two different lists of strings are printed alike in a logfmt record: the members cannot be parsed back", Input: in,
					Expected: `list=["a,b","c"] list3=["a","b","c"]`, Actual: "list=" + got["list"] + " list3=" + got["list3"]})
			}
		}
	}
	slog.VerifResetGlobals()
}

// siblingsInheritingAttrs: with the inherit-attributes flag on, sibling children of a parent whose attribute list was
// built in several steps log at the same time: every record carries its own logger's attribute and the parent's (C08).
func siblingsInheritingAttrs(viol func(violation)) {
	slog.VerifResetGlobals()
	restore := slog.SaveFlagsAndMod(slog.LattrsR)
	defer restore()
	const kids, N = 6, 400
	for _, format := range []string{"l", "j"} {
		sink := &recorder{}
		parent := slog.New("fam").SetLevel(slog.InfoLevel).SetWriter(sink).SetErrorWriter(sink)
		setFormat(parent, format)
		parent.Set("p1", 1)
		parent.Set("p2", 2)
		parent.Set("p3", 3) // three steps: the list has room to spare
		var children []slog.Logger
		for k := 0; k < kids; k++ {
			c := parent.New(fmt.Sprintf("kid%d", k)).Set("who", fmt.Sprintf("kid%d.", k))
			c.SetWriter(sink).SetErrorWriter(sink)
			setFormat(c, format)
			children = append(children, c)
		}
		var wg sync.WaitGroup
		for k := range children {
			wg.Add(1)
			go func(k int) {
				defer wg.Done()
				for i := 0; i < N; i++ {
					children[k].Info("rec", "from", fmt.Sprintf("from-kid%d.", k))
				}
			}(k)
		}
		wg.Wait()
		bad, total := 0, 0
		var first string
		for _, p := range sink.take() {
			s := string(p)
			total++
			i := strings.Index(s, "from-kid")
			j := strings.Index(s, "\"kid")
			if format == "j" {
				j = strings.Index(s, "\"who\":\"kid")
				if j >= 0 {
					j += 6
				}
			} else {
				j = strings.Index(s, "who=\"kid")
				if j >= 0 {
					j += 4
				}
			}
			if i < 0 || j < 0 {
				bad++
				if first == "" {
					first = s
				}
				continue
			}
			from := s[i+5 : i+5+strings.IndexByte(s[i+5:], '.')]
			who := s[j+1 : j+1+strings.IndexByte(s[j+1:], '.')]
			if from != who || !strings.Contains(s, "p1") || !strings.Contains(s, "p3") {
				bad++
				if first == "" {
					first = s
				}
			}
		}
		if bad > 0 || total != kids*N {
			viol(violation{What: "records of sibling loggers that inherit a parent's attributes carry another logger's attribute (or are lost) when the siblings log at the same time",
				Input:    map[string]any{"flags": "LattrsR on", "parent": `New("fam").Set("p1",1).Set("p2",2).Set("p3",3)`, "children": kids, "each": `Set("who", name); N × Info("rec", "from", name)`, "N": N, "format": format},
				Expected: fmt.Sprintf("%d records, each with who = from and p1..p3", kids*N), Actual: fmt.Sprintf("%d records, %d wrong; first: %q", total, bad, first)})
		}
	}
	slog.VerifResetGlobals()
}

// widerAndWiderCalls: one goroutine issues calls with more and more arguments (each wider than any call of the process
// before it) while others log narrow records: the race detector of the stress child watches the bookkeeping (C08).
func widerAndWiderCalls(viol func(violation)) {
	slog.VerifResetGlobals()
	sink := &recorder{}
	l := slog.New("wide").SetLevel(slog.InfoLevel).SetColorMode(false).SetWriter(sink).SetErrorWriter(sink)
	stop := make(chan struct{})
	var wg sync.WaitGroup
	narrow := 0
	var mu sync.Mutex
	for g := 0; g < 3; g++ {
		wg.Add(1)
		go func(g int) {
			defer wg.Done()
			n := 0
			for {
				select {
				case <-stop:
					mu.Lock()
					narrow += n
					mu.Unlock()
					return
				default:
				}
				l.Info("narrow", "g", g)
				n++
			}
		}(g)
	}
	wide := 0
	for _, words := range []int{60, 120, 200, 300, 420, 560, 700, 900} {
		args := make([]any, 0, words)
		for k := 0; k+1 < words; k += 2 {
			args = append(args, fmt.Sprintf("w%03d", k/2), k)
		}
		l.Info("wide", args...)
		wide++
		time.Sleep(time.Millisecond)
	}
	close(stop)
	wg.Wait()
	got := sink.take()
	nw := 0
	for _, p := range got {
		if strings.Contains(string(p), "msg=\"wide\"") {
			nw++
			if !strings.Contains(string(p), "w000=0") || !strings.HasSuffix(string(p), "\n") {
				viol(violation{What: "a wide record is incomplete", Input: "Info(\"wide\", 30..450 pairs) while three goroutines log narrow records", Actual: fmt.Sprintf("%.200q", p)})
			}
		}
	}
	if nw != wide || len(got) != wide+narrow {
		viol(violation{What: "the multiset of delivered records differs from the admitted calls", Input: "Info(\"wide\", 30..450 pairs) while three goroutines log narrow records",
			Expected: fmt.Sprintf("%d wide + %d narrow", wide, narrow), Actual: fmt.Sprintf("%d wide of %d", nw, len(got))})
	}
	slog.VerifResetGlobals()
}

// lateErrorDeviceLevels: a severity registered for the error device after loggers (and the default destinations) exist
// is routed to the error writers of those loggers too (C17, C03).
func lateErrorDeviceLevels(viol func(violation)) {
	slog.VerifResetGlobals()
	type lg struct {
		name string
		l    slog.Logger
		n, e *recorder
	}
	mk := func(name string) lg {
		n, e := &recorder{}, &recorder{}
		return lg{name, slog.New(name).SetLevel(slog.AlwaysLevel).SetColorMode(false).SetWriter(n).SetErrorWriter(e), n, e}
	}
	early := mk("made-before-the-registration")
	early.l.Info("warm up")
	early.n.take()
	for i, v := range []int{91, 92} {
		opts := []slog.RegOpt{slog.RegWithPrintToErrorDevice()}
		if i == 1 {
			opts = []slog.RegOpt{}
		}
		if err := slog.RegisterLevel(slog.Level(v), fmt.Sprintf("late%d", v), opts...); err != nil {
			viol(violation{What: "RegisterLevel refused a fresh level: " + err.Error(), Input: v})
		}
	}
	late := mk("made-after-the-registration")
	for _, x := range []lg{early, late} {
		for i, v := range []int{91, 92} {
			marker := fmt.Sprintf("late-%d.", v)
			x.l.Logit(context.Background(), slog.Level(v), marker)
			gn, ge := x.n.take(), x.e.take()
			wantErr := i == 0
			okN, okE := wholeOnce(gn, marker) == "", wholeOnce(ge, marker) == ""
			if (wantErr && (!okE || len(gn) != 0)) || (!wantErr && (!okN || len(ge) != 0)) {
				viol(violation{What: "a severity registered while loggers already exist is not routed as it was registered",
					Input:    map[string]any{"registered": "91 for the error device, 92 plain, after the first logger was made and had logged", "logger": x.name, "logged severity": v},
					Expected: map[string]any{"error writer": wantErr, "normal writer": !wantErr},
					Actual:   map[string]any{"error writer payloads": len(ge), "normal writer payloads": len(gn)}})
			}
		}
	}
	slog.VerifResetGlobals()
}

// quitterW fails and takes itself off its logger while it is being written to.
type quitterW struct {
	recorder
	owner slog.Logger
	down  bool
	calls int
	how   int
}

func (w *quitterW) Write(p []byte) (int, error) {
	w.calls++
	if w.down {
		switch w.how {
		case 0:
			w.owner.RemoveWriter(w)
		case 1:
			w.owner.RemoveErrorWriter(w)
		}
		return 0, errors.New("connection lost")
	}
	return w.recorder.Write(p)
}

// failingDestinationLeaves: a destination that fails and removes itself from the logger during that very Write, with a
// healthy destination after it in the list (C13).
func failingDestinationLeaves(viol func(violation)) {
	for _, format := range []string{"j", "l", "c"} {
		for _, list := range []int{0, 1} {
			slog.VerifResetGlobals()
			l := slog.New("quit").SetLevel(slog.InfoLevel)
			setFormat(l, format)
			a := &quitterW{owner: l, down: true, how: list}
			b, other := &recorder{}, &recorder{}
			c3 := &recorder{} // a third member of the list, after b
			lvl := slog.InfoLevel
			cfg := "SetWriter(a).AddWriter(b).AddWriter(c); SetErrorWriter(e)"
			if list == 0 {
				l.SetWriter(a).AddWriter(b).AddWriter(c3)
				l.SetErrorWriter(other)
			} else {
				lvl = slog.ErrorLevel
				cfg = "SetErrorWriter(a).AddErrorWriter(b).AddErrorWriter(c); SetWriter(n)"
				l.SetErrorWriter(a).AddErrorWriter(b).AddErrorWriter(c3)
				l.SetWriter(other)
			}
			in := map[string]any{"configuration": cfg, "a": "fails and calls Remove…Writer(a) on its logger from inside Write", "format": format, "severity": lvl.String()}
			logIt := func(m string) {
				defer func() {
					if e := recover(); e != nil {
						viol(violation{What: fmt.Sprintf("the logging call did not return normally while a destination was failing: panic: %v", e), Input: in})
					}
				}()
				l.Logit(context.Background(), lvl, m)
			}
			logIt("first-quit.")
			if msg := wholeOnce(b.take(), "first-quit."); msg != "" {
				viol(violation{What: "the destination after a failing one that left the list during the Write did not receive the complete record once: " + msg, Input: in})
			}
			if msg := wholeOnce(c3.take(), "first-quit."); msg != "" {
				viol(violation{What: "the last destination of a list whose first member failed and left during the Write did not receive the complete record once: " + msg, Input: in})
			}
			diag := 0
			warnDest := other
			if list == 1 {
				warnDest = b // warnings are error-class: they go to the error list, where b still is
			}
			for _, p := range append(other.take(), warnDest.take()...) {
				if strings.Contains(string(p), "failed") {
					diag++
				}
			}
			if list == 0 && diag > 1 {
				viol(violation{What: "more than one diagnostic record for one failing record", Input: in, Actual: diag})
			}
			logIt("second-quit.")
			if a.calls != 1 {
				viol(violation{What: "a destination that was removed is still written to", Input: in, Actual: a.calls})
			}
			if msg := wholeOnce(b.take(), "second-quit."); msg != "" {
				viol(violation{What: "after the failing destination left, the remaining destination does not receive records normally: " + msg, Input: in})
			}
			a.down = false
			if list == 0 {
				l.AddWriter(a)
			} else {
				l.AddErrorWriter(a)
			}
			logIt("third-quit.")
			if msg := wholeOnce(a.take(), "third-quit."); msg != "" {
				viol(violation{What: "a destination that works again (re-added) does not receive records normally: " + msg, Input: in})
			}
			if msg := wholeOnce(b.take(), "third-quit."); msg != "" {
				viol(violation{What: "the neighbour of a recovered destination does not receive records normally: " + msg, Input: in})
			}
		}
	}
	slog.VerifResetGlobals()
}
