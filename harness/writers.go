package main

// Recording / fault-injecting destinations shared by C02, C03, C13.

import (
	"io"
	"strings"
	"sync"

	"github.com/hedzr/logg/slog"
)

type wev struct {
	tell    bool
	id      int
	sev     int
	ok      bool
	payload []byte
}

type evLog struct {
	mu      sync.Mutex
	events  []wev
	fails   func(n int) bool // failure schedule over write attempts (nil = never)
	n       int              // attempts so far
	partial bool             // a failing write reports a positive byte count
	short   bool             // … and the error is io.ErrShortWrite itself
	slicey  bool             // the error value is of a slice type (errors of such types cannot be compared with ==)
}

func (l *evLog) take() []wev {
	l.mu.Lock()
	e := l.events
	l.events = nil
	l.mu.Unlock()
	return e
}

type failErr struct{}

func (failErr) Error() string { return "injected write failure" }

// failErrs: an error whose dynamic type is a slice (like scanner.ErrorList): comparing two of them panics
type failErrs []string

func (e failErrs) Error() string { return "injected write failures: " + strings.Join(e, "; ") }

type plainW struct {
	id  int
	log *evLog
}

func (w *plainW) Write(p []byte) (int, error) {
	w.log.mu.Lock()
	defer w.log.mu.Unlock()
	ok := true
	if w.log.fails != nil && w.log.fails(w.log.n) {
		ok = false
	}
	w.log.n++
	w.log.events = append(w.log.events, wev{id: w.id, ok: ok, payload: append([]byte(nil), p...)})
	if !ok {
		if w.log.partial {
			if w.log.short {
				return len(p) / 2, io.ErrShortWrite
			}
			return len(p) / 2, failErr{}
		}
		if w.log.slicey {
			return 0, failErrs{"disk full", "quota"}
		}
		return 0, failErr{}
	}
	return len(p), nil
}

type closeW struct{ plainW }

func (w *closeW) Close() error { return nil }

type setW struct{ plainW }

func (w *setW) SetLevel(l slog.Level) {
	w.log.mu.Lock()
	w.log.events = append(w.log.events, wev{tell: true, id: w.id, sev: int(l)})
	w.log.mu.Unlock()
}

type setCloseW struct{ setW }

func (w *setCloseW) Close() error { return nil }

// writerPool returns writers 1..6 of six kinds (index 0 = nil) and the ids that are LevelSettable.
func writerPool(log *evLog) ([]io.Writer, []int) {
	p := make([]io.Writer, 7)
	p[0] = nil
	p[1] = &plainW{1, log}
	p[2] = &closeW{plainW{2, log}}
	p[3] = &setW{plainW{3, log}}
	p[4] = &setCloseW{setW{plainW{4, log}}}
	p[5] = slog.NewLogWriter(&plainW{5, log})
	p[6] = slog.NewLogWriter(&setW{plainW{6, log}})
	return p, []int{3, 4, 6}
}
