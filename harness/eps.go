package main

import (
	"context"
	logslog "log/slog"

	"github.com/hedzr/logg/slog"
)

// epCall issues one record through a named public entry point. arg is the level argument
// for the entry points that take one (a slog.Level, or a log/slog level for Log); variant
// selects the call shape where an entry point has more than one (Println with / without
// arguments).
type epCall func(l slog.Logger, ctx context.Context, arg int, variant int, msg string, args []any)

// loggerEPs: methods of a logger. Keys are the method names of the extracted table.
var loggerEPs = map[string]epCall{
	"Panic":   func(l slog.Logger, _ context.Context, _ int, _ int, m string, a []any) { l.Panic(m, a...) },
	"Fatal":   func(l slog.Logger, _ context.Context, _ int, _ int, m string, a []any) { l.Fatal(m, a...) },
	"Error":   func(l slog.Logger, _ context.Context, _ int, _ int, m string, a []any) { l.Error(m, a...) },
	"Warn":    func(l slog.Logger, _ context.Context, _ int, _ int, m string, a []any) { l.Warn(m, a...) },
	"Info":    func(l slog.Logger, _ context.Context, _ int, _ int, m string, a []any) { l.Info(m, a...) },
	"Debug":   func(l slog.Logger, _ context.Context, _ int, _ int, m string, a []any) { l.Debug(m, a...) },
	"Trace":   func(l slog.Logger, _ context.Context, _ int, _ int, m string, a []any) { l.Trace(m, a...) },
	"Print":   func(l slog.Logger, _ context.Context, _ int, _ int, m string, a []any) { l.Print(m, a...) },
	"OK":      func(l slog.Logger, _ context.Context, _ int, _ int, m string, a []any) { l.OK(m, a...) },
	"Success": func(l slog.Logger, _ context.Context, _ int, _ int, m string, a []any) { l.Success(m, a...) },
	"Fail":    func(l slog.Logger, _ context.Context, _ int, _ int, m string, a []any) { l.Fail(m, a...) },
	"Verbose": func(l slog.Logger, _ context.Context, _ int, _ int, m string, a []any) { l.Verbose(m, a...) },
	"Println": func(l slog.Logger, _ context.Context, _ int, v int, m string, a []any) {
		if v == 0 {
			l.Println()
		} else {
			l.Println(append([]any{m}, a...)...)
		}
	},
	"PanicContext":   func(l slog.Logger, c context.Context, _ int, _ int, m string, a []any) { l.PanicContext(c, m, a...) },
	"FatalContext":   func(l slog.Logger, c context.Context, _ int, _ int, m string, a []any) { l.FatalContext(c, m, a...) },
	"ErrorContext":   func(l slog.Logger, c context.Context, _ int, _ int, m string, a []any) { l.ErrorContext(c, m, a...) },
	"WarnContext":    func(l slog.Logger, c context.Context, _ int, _ int, m string, a []any) { l.WarnContext(c, m, a...) },
	"InfoContext":    func(l slog.Logger, c context.Context, _ int, _ int, m string, a []any) { l.InfoContext(c, m, a...) },
	"DebugContext":   func(l slog.Logger, c context.Context, _ int, _ int, m string, a []any) { l.DebugContext(c, m, a...) },
	"TraceContext":   func(l slog.Logger, c context.Context, _ int, _ int, m string, a []any) { l.TraceContext(c, m, a...) },
	"PrintContext":   func(l slog.Logger, c context.Context, _ int, _ int, m string, a []any) { l.PrintContext(c, m, a...) },
	"PrintlnContext": func(l slog.Logger, c context.Context, _ int, _ int, m string, a []any) { l.PrintlnContext(c, m, a...) },
	"OKContext":      func(l slog.Logger, c context.Context, _ int, _ int, m string, a []any) { l.OKContext(c, m, a...) },
	"SuccessContext": func(l slog.Logger, c context.Context, _ int, _ int, m string, a []any) { l.SuccessContext(c, m, a...) },
	"FailContext":    func(l slog.Logger, c context.Context, _ int, _ int, m string, a []any) { l.FailContext(c, m, a...) },
	"VerboseContext": func(l slog.Logger, c context.Context, _ int, _ int, m string, a []any) { l.VerboseContext(c, m, a...) },
	"LogAttrs": func(l slog.Logger, c context.Context, lv int, _ int, m string, a []any) {
		l.LogAttrs(c, slog.Level(lv), m, a...)
	},
	"Logit": func(l slog.Logger, c context.Context, lv int, _ int, m string, a []any) {
		l.Logit(c, slog.Level(lv), m, a...)
	},
	"Log": func(l slog.Logger, c context.Context, lv int, _ int, m string, a []any) {
		l.Log(c, logslog.Level(lv), m, a...)
	},
	"Infof":  func(l slog.Logger, _ context.Context, _ int, _ int, m string, _ []any) { _ = l.Infof("%s", m) },
	"Warnf":  func(l slog.Logger, _ context.Context, _ int, _ int, m string, _ []any) { _ = l.Warnf("%s", m) },
	"Errorf": func(l slog.Logger, _ context.Context, _ int, _ int, m string, _ []any) { _ = l.Errorf("%s", m) },
}

// pkgEPs: package-level functions acting on the default logger.
var pkgEPs = map[string]epCall{
	"Panic":   func(_ slog.Logger, _ context.Context, _ int, _ int, m string, a []any) { slog.Panic(m, a...) },
	"Fatal":   func(_ slog.Logger, _ context.Context, _ int, _ int, m string, a []any) { slog.Fatal(m, a...) },
	"Error":   func(_ slog.Logger, _ context.Context, _ int, _ int, m string, a []any) { slog.Error(m, a...) },
	"Warn":    func(_ slog.Logger, _ context.Context, _ int, _ int, m string, a []any) { slog.Warn(m, a...) },
	"Info":    func(_ slog.Logger, _ context.Context, _ int, _ int, m string, a []any) { slog.Info(m, a...) },
	"Debug":   func(_ slog.Logger, _ context.Context, _ int, _ int, m string, a []any) { slog.Debug(m, a...) },
	"Trace":   func(_ slog.Logger, _ context.Context, _ int, _ int, m string, a []any) { slog.Trace(m, a...) },
	"Print":   func(_ slog.Logger, _ context.Context, _ int, _ int, m string, a []any) { slog.Print(m, a...) },
	"OK":      func(_ slog.Logger, _ context.Context, _ int, _ int, m string, a []any) { slog.OK(m, a...) },
	"Success": func(_ slog.Logger, _ context.Context, _ int, _ int, m string, a []any) { slog.Success(m, a...) },
	"Fail":    func(_ slog.Logger, _ context.Context, _ int, _ int, m string, a []any) { slog.Fail(m, a...) },
	"Verbose": func(_ slog.Logger, _ context.Context, _ int, _ int, m string, a []any) { slog.Verbose(m, a...) },
	"Println": func(_ slog.Logger, _ context.Context, _ int, v int, m string, a []any) {
		if v == 0 {
			slog.Println()
		} else {
			slog.Println(append([]any{m}, a...)...)
		}
	},
	"PanicContext": func(_ slog.Logger, c context.Context, _ int, _ int, m string, a []any) { slog.PanicContext(c, m, a...) },
	"FatalContext": func(_ slog.Logger, c context.Context, _ int, _ int, m string, a []any) { slog.FatalContext(c, m, a...) },
	"ErrorContext": func(_ slog.Logger, c context.Context, _ int, _ int, m string, a []any) { slog.ErrorContext(c, m, a...) },
	"WarnContext":  func(_ slog.Logger, c context.Context, _ int, _ int, m string, a []any) { slog.WarnContext(c, m, a...) },
	"InfoContext":  func(_ slog.Logger, c context.Context, _ int, _ int, m string, a []any) { slog.InfoContext(c, m, a...) },
	"DebugContext": func(_ slog.Logger, c context.Context, _ int, _ int, m string, a []any) { slog.DebugContext(c, m, a...) },
	"TraceContext": func(_ slog.Logger, c context.Context, _ int, _ int, m string, a []any) { slog.TraceContext(c, m, a...) },
	"PrintContext": func(_ slog.Logger, c context.Context, _ int, _ int, m string, a []any) { slog.PrintContext(c, m, a...) },
	"PrintlnContext": func(_ slog.Logger, c context.Context, _ int, _ int, m string, a []any) {
		slog.PrintlnContext(c, m, a...)
	},
	"OKContext": func(_ slog.Logger, c context.Context, _ int, _ int, m string, a []any) { slog.OKContext(c, m, a...) },
	"SuccessContext": func(_ slog.Logger, c context.Context, _ int, _ int, m string, a []any) {
		slog.SuccessContext(c, m, a...)
	},
	"FailContext": func(_ slog.Logger, c context.Context, _ int, _ int, m string, a []any) { slog.FailContext(c, m, a...) },
	"VerboseContext": func(_ slog.Logger, c context.Context, _ int, _ int, m string, a []any) {
		slog.VerboseContext(c, m, a...)
	},
}

// fixedSeverity of the verb families (what the statement says each verb issues).
var fixedSeverity = map[string]int{
	"Panic": 0, "Fatal": 1, "Error": 2, "Warn": 3, "Info": 4, "Debug": 5, "Trace": 6,
	"Print": 8, "Println": 8, "OK": 9, "Success": 10, "Fail": 11,
	"Infof": 4, "Warnf": 3, "Errorf": 2,
}

func baseVerb(name string) string {
	if len(name) > 7 && name[len(name)-7:] == "Context" {
		return name[:len(name)-7]
	}
	return name
}
