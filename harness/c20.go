package main

// C20 — duration helpers. Boundary-biased int64 values (0, ±1, unit boundaries ±1, powers of
// ten, the extremes) and uniform ones through both formatter styles and back through the parser;
// strings from the duration grammar and byte mutations of them through the package parser and
// through time.ParseDuration.

import (
	"fmt"
	"math"
	"strings"
	"time"

	"github.com/hedzr/logg/slog"
)

func init() { props["C20"] = runC20 }

// c20Parse calls the library's parser; a panic is an observation, not a crash of the harness
func c20Parse(s string) (d time.Duration, err error, panicked string) {
	defer func() {
		if p := recover(); p != nil {
			panicked = fmt.Sprint(p)
		}
	}()
	d, err = slog.VerifParseDuration(s)
	return
}

func c20ErrKind(err error) string {
	msg := err.Error()
	switch {
	case strings.HasPrefix(msg, "time: invalid duration"):
		return "err invalid"
	case strings.HasPrefix(msg, "time: missing unit"):
		return "err missing-unit"
	case strings.HasPrefix(msg, "time: unknown unit"):
		// time: unknown unit "x" in duration "…": recover the unit text
		rest := strings.TrimPrefix(msg, "time: unknown unit ")
		i := strings.Index(rest, " in duration ")
		if i > 0 {
			if u, e := unquoteGo(rest[:i]); e == nil {
				return "err unknown-unit " + hxs(u)
			}
		}
		return "err unknown-unit ?"
	}
	return "err other"
}

// the package's quote() is time's quote(): a Go-like quoting that escapes non-printable bytes as \xNN
func unquoteGo(q string) (string, error) {
	if len(q) < 2 || q[0] != '"' || q[len(q)-1] != '"' {
		return "", fmt.Errorf("not quoted")
	}
	body := q[1 : len(q)-1]
	var sb strings.Builder
	for i := 0; i < len(body); i++ {
		if body[i] == '\\' && i+1 < len(body) {
			switch body[i+1] {
			case 'x':
				if i+3 < len(body) {
					var v int
					fmt.Sscanf(body[i+2:i+4], "%02x", &v)
					sb.WriteByte(byte(v))
					i += 3
					continue
				}
			case '"', '\\':
				sb.WriteByte(body[i+1])
				i++
				continue
			}
		}
		sb.WriteByte(body[i])
	}
	return sb.String(), nil
}

func runC20(r *run) {
	g := &rng{s: r.seed*67867967 + 20}
	r.rule = "int64 durations (boundary-biased and uniform) through both styles and back through the parser; duration strings (grammar-generated, then byte-mutated) through the package parser and time.ParseDuration; distinct = distinct values / strings; non-trivial = all values except 0, all strings that are not plain valid tokens"
	nv, ns := 6000, 8000
	if r.tier == "thorough" {
		nv, ns = 150000, 200000
	}
	units := []int64{1, 1000, 1000000, 1000000000, 60000000000, 3600000000000, 86400000000000}
	var vals []int64
	vals = append(vals, 0, 1, -1, math.MaxInt64, math.MinInt64, math.MinInt64+1, math.MaxInt64-1)
	for _, u := range units {
		for _, k := range []int64{1, 9, 10, 59, 60, 99, 100, 999, 1000, 23, 24, 100000, 106751} {
			for _, delta := range []int64{-1, 0, 1} {
				if u <= math.MaxInt64/k {
					vals = append(vals, u*k+delta, -(u*k + delta))
				}
			}
		}
	}
	// every field at full width: the longest compact texts
	full := int64(100000)*86400000000000 + 23*3600000000000 + 59*60000000000 + 59*1000000000 + 999*1000000 + 999*1000 + 999
	vals = append(vals, full, -full, full-1000, -(full - 1000))
	for p := int64(1); p > 0 && p < math.MaxInt64/10; p *= 10 {
		vals = append(vals, p, -p, p+1, p-1)
	}
	for len(vals) < nv {
		switch g.intn(4) {
		case 0:
			vals = append(vals, int64(g.next()))
		case 1:
			vals = append(vals, int64(g.next()>>uint(g.intn(63))))
		case 2:
			vals = append(vals, -int64(g.next()>>uint(1+g.intn(62))))
		default:
			var v int64
			for _, u := range units {
				if g.chance(1, 2) {
					v += u * int64(g.intn(60))
				}
			}
			vals = append(vals, v)
		}
	}
	// the texts are produced in two orders: value-major (both styles of one value in a row) and, for the first values of
	// the list (boundary values come as v, -v pairs), style-major (the same style for v and then -v in a row): a value's
	// text does not depend on what was formatted just before it
	type fcase struct {
		i    int
		v    int64
		frac bool
	}
	var cases []fcase
	for i, v := range vals {
		cases = append(cases, fcase{i, v, false}, fcase{i, v, true})
	}
	for _, frac := range []bool{false, true} {
		for i, v := range vals {
			if i >= 600 {
				break
			}
			cases = append(cases, fcase{i + 3, v, frac})
		}
	}
	for _, fc := range cases {
		i, v := fc.i, fc.v
		for _, frac := range []bool{fc.frac} {
			var text string
			panicked := ""
			func() {
				defer func() {
					if rec := recover(); rec != nil {
						panicked = fmt.Sprint(rec)
					}
				}()
				text = slog.VerifShortDur(time.Duration(v), frac)
			}()
			obs := hxs(text)
			if panicked != "" {
				obs = "panic"
			}
			r.emit(fmt.Sprintf("C20 fmt %d %s", v, b01(frac)), obs)
			key := ""
			if v != 0 {
				key = fmt.Sprintf("%d|%v", v, frac)
			}
			r.seen(key)
			if panicked != "" {
				r.violate(violation{What: "the duration formatter panicked", Input: map[string]any{"duration_ns": v, "fractional_style": frac}, Actual: panicked})
				continue
			}
			back, err, pp := c20Parse(text)
			if pp != "" {
				r.emit("C20 parse "+hxs(text), "panic")
				r.violate(violation{What: "the duration parser panicked", Input: map[string]any{"text": text}, Actual: pp})
				continue
			}
			if err != nil {
				r.emit("C20 parse "+hxs(text), c20ErrKind(err))
			} else {
				r.emit("C20 parse "+hxs(text), fmt.Sprintf("ok %d", int64(back)))
			}
			if err != nil || int64(back) != v {
				r.violate(violation{What: "parsing the formatted duration does not give back the duration", Input: map[string]any{"duration_ns": v, "fractional_style": frac, "text": text},
					Expected: v, Actual: fmt.Sprint(int64(back), err)})
			}
			if i < 3 {
				r.sample(map[string]any{"duration_ns": v, "frac": frac, "text": text})
			}
		}
	}
	// A1 of the round-trip theorem: on the fractions the formatter writes (k digits, 10^k divides the unit, f < 10^k)
	// the parser's float64 expression has exactly the value f * (unit / 10^k)
	for _, p := range []int{3, 6, 9} {
		unit := uint64(1)
		for j := 0; j < p; j++ {
			unit *= 10
		}
		for k := 1; k <= p; k++ {
			pow := uint64(1)
			for j := 0; j < k; j++ {
				pow *= 10
			}
			fs := []uint64{1, pow - 1, pow / 2, pow/10 + 1}
			for j := 0; j < 12; j++ {
				fs = append(fs, 1+g.next()%(pow-1+1))
			}
			for _, f := range fs {
				if f == 0 || f >= pow {
					continue
				}
				scale := float64(1)
				for j := 0; j < k; j++ {
					scale *= 10
				}
				got := uint64(float64(f) * (float64(unit) / scale))
				r.emit(fmt.Sprintf("C20 fm %d %d %d", f, unit, k), fmt.Sprintf("%d %d", got, got))
				if got != f*(unit/pow) {
					r.violate(violation{What: "assumption A1: the float64 product of the duration parser is not exact on a fraction the formatter can write", Input: map[string]any{"f": f, "unit": unit, "digits": k}, Expected: f * (unit / pow), Actual: got})
				}
			}
		}
	}
	// strings
	unitToks := []string{"ns", "us", "µs", "μs", "ms", "s", "m", "h", "d", "x", "", "ss", "D"}
	digits := func() string {
		switch g.intn(8) {
		case 0:
			return ""
		case 1:
			return "9223372036854775807"
		case 2:
			return "9223372036854775808"
		case 3:
			return "92233720368547758079"
		case 4:
			return strings.Repeat("3", 1+g.intn(26))
		case 5:
			return strings.Repeat("0", g.intn(5)) + fmt.Sprint(g.intn(1000))
		}
		return fmt.Sprint(g.intn(100000))
	}
	for i := 0; i < ns; i++ {
		var sb strings.Builder
		switch g.intn(6) {
		case 0:
			sb.WriteString("-")
		case 1:
			sb.WriteString("+")
		}
		for k := g.intn(4); k >= 0; k-- {
			sb.WriteString(digits())
			if g.chance(1, 2) {
				sb.WriteString(".")
				sb.WriteString(digits())
			}
			sb.WriteString(unitToks[g.intn(len(unitToks))])
		}
		s := sb.String()
		if g.chance(1, 3) && len(s) > 0 { // byte mutation
			bs := []byte(s)
			switch g.intn(3) {
			case 0:
				bs[g.intn(len(bs))] = byte(g.intn(256))
			case 1:
				bs = append(bs[:g.intn(len(bs))], bs[g.intn(len(bs)):]...)
			default:
				j := g.intn(len(bs))
				bs = append(bs[:j], append([]byte{"0.-+ hmsd"[g.intn(9)]}, bs[j:]...)...)
			}
			s = string(bs)
		}
		if g.chance(1, 200) {
			s = []string{"", "0", "-0", "+0", "-", "+", ".", ".s", "-.s", "0.0s", "1d", "1.5d", "3d7s",
				"9223372036854775808ns9223372036854775808ns", "9223372036854775808ns", "-9223372036854775808ns", "9223372036854775807ns1ns", "2562047h47m16.854775808s"}[g.intn(18)]
		}
		if pinned := []string{"00", "0.0", "0.", ".0", "-00", "+00", "1h0", "1m0.0", "0h0", "0.00h000", "000", "0s0", "1.5h0.", "-.0", "0e0", "1h00m0", "0 ", " 0",
			"1h+0", "0x0", "1", "30", "1h30", "0.5", "1m.", "00s", "0.s", "0.0h", "-0h", "1h0s", "1h 0s"}; i < len(pinned) {
			s = pinned[i] // bare numbers: only the single text "0" (with a sign or not) needs no unit
		}
		d1, e1, pp := c20Parse(s)
		if pp != "" {
			r.emit("C20 parse "+hxs(s), "panic")
			r.violate(violation{What: "the duration parser panicked instead of rejecting the input", Input: fmt.Sprintf("%q", s), Actual: pp})
			continue
		}
		d2, e2 := time.ParseDuration(s)
		o1 := fmt.Sprintf("ok %d", int64(d1))
		if e1 != nil {
			o1 = c20ErrKind(e1)
		}
		o2 := fmt.Sprintf("ok %d", int64(d2))
		if e2 != nil {
			o2 = c20ErrKind(e2)
		}
		r.emit("C20 parse "+hxs(s), o1)
		r.emit("C20 std "+hxs(s), o2)
		r.seen("s|" + s)
		if e1 == nil {
			r.count("parse=ok")
		} else {
			r.count("parse=" + strings.Join(strings.Fields(o1 + " -")[:2], "/"))
		}
		// oracle: same decision and result as the standard parser unless the day unit is involved
		usesDay := strings.Contains(s, "d")
		if !usesDay && o1 != o2 {
			r.violate(violation{What: "the duration parser disagrees with time.ParseDuration", Input: s, Expected: o2, Actual: o1})
		}
		if usesDay && e2 == nil && o1 != o2 {
			r.violate(violation{What: "the duration parser disagrees with time.ParseDuration on a string the standard parser accepts", Input: s, Expected: o2, Actual: o1})
		}
	}
	// the formatter in a process started in a non-UTF-8 locale
	envProbe(r, false, "dur", "LC_ALL=C", "LANG=C")
	envProbe(r, false, "dur", "LANG=en_US.ISO-8859-1", "-LC_ALL")
}
