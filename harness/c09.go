package main

// C09 — history independence. Each probe call (any format, any severity incl. unregistered and
// freshly registered custom levels, groups, errors, multi-line messages, caller field) is replayed
// after several different histories: other records on other loggers in all formats (multi-line
// colored messages, attributes named "time", errors), registrations, flag scopes that are
// restored, and adversarially seeded pool contents. Explicit timestamps make the payloads comparable
// byte for byte — with each other (oracle) and with the Lean encoder model.

import (
	"context"
	"fmt"
	"os"
	"os/exec"
	"path/filepath"
	"runtime"
	"strings"
	"time"

	errorsv3 "gopkg.in/hedzr/errors.v3"

	"github.com/hedzr/is/term/color"
	"github.com/hedzr/logg/slog"
)

func init() { props["C09"] = runC09 }

// c09PC is the one call site all probes (and some history records) claim to come from.
func c09PC() uintptr {
	var pcs [1]uintptr
	runtime.Callers(1, pcs[:])
	return pcs[0]
}

func c09History(r *run, g *rng, kind int, tagW, minW int, probeLvl int, pc uintptr) string {
	desc := []string{}
	n := g.intn(5)
	if kind == 0 {
		n = 0
	}
	for i := 0; i < n; i++ {
		switch g.intn(11) {
		case 10: // a record whose last attribute is a group holding nothing but unset slots (JSON: the object stays empty)
			c := &encCase{format: []string{"j", "j", "l", "c"}[g.intn(4)], lvl: 4, ts: g.encTime(), msg: "ends in an empty group", tagW: tagW, minW: minW, name: "h12",
				attrs: []gattr{{key: "a", val: g.genScalar(true)}, {key: "zz", isGroup: true, val: gval{kind: "group", items: []gattr{{nilAttr: true}, {nilAttr: true}}[:1+g.intn(2)]}}}}
			encRun(r, "C09", c)
			desc = append(desc, "record ending in a group of unset slots only")
		case 9: // a record one of whose values panics while it is rendered (the caller recovers): the
			// half-used formatting context must not come back
			rec := &recorder{}
			var l slog.Logger = slog.New("h9").SetWriter(rec).SetErrorWriter(rec).SetLevel(slog.TraceLevel)
			switch g.intn(3) {
			case 0:
				l.SetJSONMode(true)
			case 1:
				l.SetColorMode(false)
			}
			func() {
				defer func() { _ = recover() }()
				l.Info("a value panics", "req", slog.NewGroupedAttr("inner", slog.NewAttr("boom", c09Panicker{})), "after", 1)
			}()
			desc = append(desc, "record with a value whose String() panics (recovered)")
		case 7: // a record from the probe's call site that carries an error with a stack trace (its
			// rendering of the error's origin is outside the encoder model: no protocol line)
			rec := &recorder{}
			var l slog.Logger = slog.New("h7").SetWriter(rec).SetErrorWriter(rec).SetLevel(slog.TraceLevel)
			switch g.intn(3) {
			case 0:
				l.SetJSONMode(true)
			case 1:
				l.SetColorMode(false)
			}
			slog.SetFlags(slog.LstdFlags | slog.Lcaller | slog.LnoInterrupt)
			l.(slog.LogSlogAware).WriteThru(context.Background(), slog.ErrorLevel, g.encTime(), pc, "failed", slog.Attrs{slog.NewAttr("err", c09Err)})
			desc = append(desc, "record from the probe's call site with a stack-carrying error")
		case 8: // a record from the probe's call site formatted under other privacy flags
			c := &encCase{format: []string{"c", "l", "j"}[g.intn(3)], lvl: 4, ts: g.encTime(), msg: "other flags", tagW: tagW, minW: minW, name: "h8", caller: true, pc: pc}
			rec := &recorder{}
			var l slog.Logger = slog.New("h8").SetWriter(rec).SetLevel(slog.TraceLevel)
			if g.chance(1, 2) {
				slog.SetFlags((slog.LstdFlags | slog.Lcaller | slog.LnoInterrupt) &^ (slog.Lprivacypath | slog.Lprivacypathregexp))
				l.(slog.LogSlogAware).WriteThru(context.Background(), slog.InfoLevel, c.ts, pc, c.msg, nil)
				desc = append(desc, "record from the probe's call site without the privacy flags")
			} else {
				// … inside a save / modify / restore scope; afterwards the probe's own flag word is in force again
				// without any flag setter having been called
				slog.SetFlags(slog.LstdFlags | slog.Lcaller | slog.LnoInterrupt)
				restore := slog.SaveFlagsAndMod(0, slog.Lprivacypath|slog.Lprivacypathregexp)
				l.(slog.LogSlogAware).WriteThru(context.Background(), slog.InfoLevel, c.ts, pc, c.msg, nil)
				restore()
				desc = append(desc, "record from the probe's call site inside a scope without the privacy flags")
			}
		case 0: // a multi-line colored record ending in a newline
			c := &encCase{format: "c", lvl: encLevels[g.intn(len(encLevels))], ts: g.encTime(), msg: "first\nsecond\nthird\n", attrs: g.genAttrs(g.intn(3), 1, true, true), tagW: tagW, minW: minW, name: "h1"}
			encRun(r, "C09", c)
			desc = append(desc, "colored multi-line")
		case 1: // a JSON record whose last key is "time"
			c := &encCase{format: "j", lvl: 4, ts: g.encTime(), msg: "m", tagW: tagW, minW: minW, name: "h2",
				attrs: []gattr{{key: "a", val: g.genScalar(true)}, {key: "time", val: c09TimeAttr(time.Unix(1, 0))}}}
			encRun(r, "C09", c)
			desc = append(desc, "json with trailing time attribute")
		case 2: // an error-class colored record (sets red)
			c := &encCase{format: "c", lvl: 2, ts: g.encTime(), msg: "boom", attrs: g.genAttrs(1+g.intn(3), 2, true, true), tagW: tagW, minW: minW}
			encRun(r, "C09", c)
			desc = append(desc, "colored error record")
		case 3: // a record at the probe's level before anything else (memoised presentation)
			c := &encCase{format: []string{"c", "l", "j"}[g.intn(3)], lvl: probeLvl, ts: g.encTime(), msg: "same level", tagW: tagW, minW: minW, name: "h3"}
			encRun(r, "C09", c)
			desc = append(desc, "earlier record at the probe level")
		case 4: // a flag scope that is restored
			restore := slog.SaveFlagsAndMod(slog.Ldate|slog.LattrsR, slog.Lprivacypath)
			c := &encCase{format: "l", lvl: 4, ts: g.encTime(), msg: "inside scope", attrs: g.genAttrs(2, 1, true, true), tagW: tagW, minW: minW}
			encRun(r, "C09", c)
			restore()
			desc = append(desc, "record inside a restored flag scope")
		case 5: // adversarial pool contents
			// prefix / inGroupedMode / skipComma are at rest whenever a context is returned to the
			// pool (checked below with VerifPoolRestState); every other field takes arbitrary values
			slog.VerifPoolPutCtx(31+g.intn(7), 1+g.intn(5), "", false, false,
				g.pick([]string{"", "stale rest\nlines"}), g.chance(1, 2), []byte("junk"), g.chance(1, 2), g.chance(1, 2))
			desc = append(desc, "seeded pool context")
		default:
			c := &encCase{format: []string{"c", "l", "j"}[g.intn(3)], lvl: encLevels[g.intn(len(encLevels))], ts: g.encTime(), msg: g.encMessage(true, true),
				attrs: g.genAttrs(g.intn(5), 2, true, true), tagW: tagW, minW: minW, name: "h4", caller: g.chance(1, 3)}
			c.msg = strings.NewReplacer("<", "(", ">", ")", "&", "+").Replace(c.msg)
			encRun(r, "C09", c)
			desc = append(desc, "random record "+c.format)
		}
	}
	return strings.Join(desc, "; ")
}

// an attribute named "time" holding a time.Time is rendered like the record's own timestamp
func c09TimeAttr(t time.Time) gval {
	return gval{kind: "tstamp", goVal: t, tok: "TS:" + hxs(t.UTC().Format(encLayout))}
}

// c09Rest checks that the context the last record returned to the pool is at rest.
func c09Rest(r *run, after string) {
	prefix, inGrouped, skipComma := slog.VerifPoolRestState()
	if prefix != "" || inGrouped || skipComma {
		r.violate(violation{What: "a print context went back to the pool with per-record scratch state that the next record inherits",
			Input:  map[string]any{"after": after},
			Actual: fmt.Sprintf("prefix=%q inGroupedMode=%v skipComma=%v", prefix, inGrouped, skipComma), Expected: `prefix="" inGroupedMode=false skipComma=false`})
	}
}

// c09Tag is the bracketed severity tag of a colored payload.
func c09Tag(p []byte) string {
	s := string(reAnsi.ReplaceAll(p, nil))
	i := strings.Index(s, "[")
	j := strings.Index(s, "]")
	if i < 0 || j < i {
		return ""
	}
	return s[i+1 : j]
}

type c09Panicker struct{}

func (c09Panicker) String() string { panic("c09: String() of a value panics") }

var c09Err = errorsv3.New("stack carrying error")

func c09Site(l slog.Logger, withErr bool) (file string, line int) {
	_, file, line, _ = runtime.Caller(0)
	var v any = 1
	if withErr {
		v = c09Err
	}
	l.Info("site", "v", v) // line + 5
	return
}

func init() {
	// c09wd <earlier:0|1> <dir>: a fresh production process; optionally one record first, then a change of the working
	// directory, then the record in question (explicit time and call site, privacy flags off, caller on): its bytes
	childModes["c09wd"] = func(a []string) {
		rec := &recorder{}
		slog.SetFlags((slog.LstdFlags | slog.Lcaller | slog.LnoInterrupt) &^ (slog.Lprivacypath | slog.Lprivacypathregexp))
		l := slog.New("c09wd").SetWriter(rec).SetErrorWriter(rec).SetLevel(slog.InfoLevel).SetColorMode(false)
		pc := c09PC()
		ts := time.Date(2024, 2, 29, 12, 30, 45, 0, time.UTC)
		if a[0] == "1" {
			l.WriteThru(context.Background(), slog.InfoLevel, ts, pc, "starting", nil)
			rec.take()
		}
		must(os.Chdir(a[1]))
		l.WriteThru(context.Background(), slog.InfoLevel, ts, pc, "ready", nil)
		for _, w := range rec.take() {
			fmt.Println("PAYLOAD " + hx(w))
		}
	}
}

// c09WorkingDir: the bytes of a record are those of its call in the state of the moment (the working directory of the
// moment included), whether or not the process formatted another record before it changed directory.
func c09WorkingDir(r *run) {
	exe := os.Getenv("VERIF_HARNESS")
	if exe == "" {
		return
	}
	wd, _ := os.Getwd()
	for _, dir := range []string{filepath.Dir(wd), filepath.Join(wd, "harness"), os.TempDir()} {
		var outs []string
		for _, earlier := range []string{"0", "1"} {
			out, _ := exec.Command(exe, "c09wd", earlier, dir).CombinedOutput()
			p := ""
			for _, line := range strings.Split(string(out), "\n") {
				if strings.HasPrefix(line, "PAYLOAD ") {
					p = line[8:]
				}
			}
			outs = append(outs, p)
		}
		r.seen("working-directory|" + dir)
		if outs[0] == "" || outs[0] != outs[1] {
			r.violate(violation{What: "the same call produced different bytes depending on whether the process had formatted a record before it changed its working directory",
				Input:    map[string]any{"new_working_directory": dir, "call": "WriteThru(Info, fixed time, fixed call site, \"ready\") with the caller flag on and the privacy flags off"},
				Expected: outs[0], Actual: outs[1]})
		}
	}
}

func runC09(r *run) {
	g := &rng{s: r.seed*236887699 + 9}
	r.rule = "probe calls replayed after 4 different histories each (empty history, random other records in all formats, registrations, restored flag scopes, seeded pool contexts); distinct = distinct (probe format, severity class, has group/error/multi-line, history shape); non-trivial = probes preceded by a non-empty history"
	nProbes := 500
	if r.tier == "thorough" {
		nProbes = 8000
	}
	for i := 0; i < nProbes; i++ {
		slog.VerifResetGlobals()
		r.emit("C17 reset", "ok")
		format := []string{"c", "l", "j"}[g.intn(3)]
		lvl := append(append([]int{}, encLevels...), 57, 58, 57, 58)[g.intn(len(encLevels)+4)]
		tagW, minW := 1+g.intn(5), 16+g.intn(30)
		if i%5 == 4 {
			minW = 90 + g.intn(90) // a message column wider than any constant a fast path may pad from
		}
		probe := func() *encCase {
			c := &encCase{format: format, lvl: lvl, ts: time.Date(2024, 2, 29, 12, 30, 45, 123456789, time.UTC), attrs: nil, caller: false, tagW: tagW, minW: minW, name: "probe"}
			return c
		}
		base := probe()
		base.msg = strings.NewReplacer("<", "(", ">", ")", "&", "+").Replace(g.encMessage(true, true))
		base.attrs = g.genAttrs(g.intn(6), 2, true, true)
		base.caller = g.chance(1, 2)
		pc := c09PC()
		if g.chance(3, 4) {
			base.pc = pc
		}
		if g.chance(1, 5) {
			base.attrs = append(base.attrs, gattr{key: "time", val: c09TimeAttr(g.encTime())})
		}
		registerLate := (lvl == 57 || lvl == 58) && g.chance(2, 3)
		fgOnly, fgColor := g.chance(1, 2), 31+g.intn(6)
		if registerLate {
			lvl = 100 + i // a number no earlier group has used: the first history sees it fresh
			base.lvl = lvl
		}
		if i%6 == 1 {
			// a long list with repeated keys, built once and passed every time: every rendering shows the same values
			base.attrs = append(base.attrs, g.genWideAttrs(false)...)
		}
		// the application builds the probe's attributes once and passes the same value every time
		if len(base.attrs) > 0 && (g.chance(1, 2) || i%6 == 1) {
			base.built = toAttrs(base.attrs)
		}
		var outputs []string
		var hdescs []string
		for h := 0; h < 4; h++ {
			slog.VerifResetGlobals()
			r.emit("C17 reset", "ok")
			hd := c09History(r, g, h, tagW, minW, lvl, pc)
			earlyTag := ""
			if registerLate {
				// the level is printed in the probe's own format while it is still unregistered
				c := &encCase{format: format, lvl: lvl, ts: g.encTime(), msg: "before the registration", tagW: tagW, minW: minW, name: "early"}
				encRun(r, "C09", c)
				earlyTag = c09Tag(c.payload)
				hd += "; a record at the probe's level before it is registered"
			}
			if base.built != nil && h > 0 && g.chance(1, 2) {
				rec := &recorder{}
				var hl slog.Logger = slog.New("h10").SetWriter(rec).SetErrorWriter(rec).SetLevel(slog.TraceLevel).SetColorMode(false)
				var other slog.Logger = slog.New("h11").SetWriter(rec).SetErrorWriter(rec).SetLevel(slog.TraceLevel).SetJSONMode(true)
				func() {
					defer func() {
						if p := recover(); p != nil {
							r.violate(violation{What: "a log call panicked after the probe's attribute slice had been passed to an earlier call",
								Input: map[string]any{"probe": encDescribe(base)}, Actual: fmt.Sprint(p)})
						}
					}()
					hl.Info("an earlier call that was handed the probe's attribute slice", base.built)
					other.Info("another record with its own attributes", "x", 1, "y", 2, "z", 3)
				}()
				hd += "; a verb call given the probe's Attrs value as its only argument, then another record"
			}
			c09Rest(r, hd)
			if registerLate {
				// the level gets registered (title only) after the history may already have printed it
				title := fmt.Sprintf("NOTICE-%d", lvl)
				if fgOnly {
					// a foreground color only: the background of such a level is "none", whatever was printed before
					_ = slog.RegisterLevel(slog.Level(lvl), title, slog.RegWithColor(color.Color(fgColor)))
					r.emit(fmt.Sprintf("C17 reg %d %s x x x x x x %d -1 12 0", lvl, hxs(title), fgColor), "ok")
					hd += "; RegisterLevel(" + title + ", foreground color only)"
				} else {
					_ = slog.RegisterLevel(slog.Level(lvl), title)
					r.emit(fmt.Sprintf("C17 reg %d %s x x x x x x -1 -1 12 0", lvl, hxs(title)), "ok")
					hd += "; RegisterLevel(" + title + ")"
				}
			}
			if h > 0 && g.chance(1, 2) {
				// the record formatted right before the probe: a level with a background color, on another logger
				n := &encCase{format: "c", lvl: []int{6, 8, 9, 10, 11}[g.intn(5)], ts: g.encTime(), msg: "right before the probe", tagW: tagW, minW: minW, name: "prev"}
				encRun(r, "C09", n)
				hd += "; a colored record at a level with a background color right before"
			}
			c := *base
			encRun(r, "C09", &c)
			c09Rest(r, "the probe "+fmt.Sprint(encDescribe(&c)))
			if t := c09Tag(c.payload); registerLate && format == "c" && t != "" && t == earlyTag {
				r.violate(violation{What: "a record shows the severity tag its level had before the level was registered: the bytes depend on an earlier record at that level",
					Input:    map[string]any{"probe": encDescribe(&c), "history": hd},
					Expected: "a tag cut from the registered title NOTICE-" + fmt.Sprint(lvl), Actual: fmt.Sprintf("%q in %q", t, c.payload)})
			}
			outputs = append(outputs, string(c.payload))
			hdescs = append(hdescs, hd)
		}
		if base.built != nil {
			// … and the same as a call that is given a freshly built list of the same attributes
			slog.VerifResetGlobals()
			r.emit("C17 reset", "ok")
			if registerLate {
				title := fmt.Sprintf("NOTICE-%d", lvl)
				if fgOnly {
					_ = slog.RegisterLevel(slog.Level(lvl), title, slog.RegWithColor(color.Color(fgColor)))
					r.emit(fmt.Sprintf("C17 reg %d %s x x x x x x %d -1 12 0", lvl, hxs(title), fgColor), "ok")
				} else {
					_ = slog.RegisterLevel(slog.Level(lvl), title)
					r.emit(fmt.Sprintf("C17 reg %d %s x x x x x x -1 -1 12 0", lvl, hxs(title)), "ok")
				}
			}
			c := *base
			c.built = toAttrs(base.attrs)
			encRun(r, "C09", &c)
			outputs = append(outputs, string(c.payload))
			hdescs = append(hdescs, "a freshly built list of the same attributes instead of the kept one")
		}
		hasGroup, hasErr := false, false
		for _, a := range base.attrs {
			hasGroup = hasGroup || a.val.kind == "group"
			hasErr = hasErr || a.val.kind == "error"
		}
		key := fmt.Sprintf("%s|%d|%v|%v|%v|%v", format, lvl, hasGroup, hasErr, strings.Contains(base.msg, "\n"), registerLate)
		r.seen(key)
		r.count("format=" + format)
		for h := 1; h < len(outputs); h++ {
			if outputs[h] != outputs[0] {
				r.violate(violation{What: "the same call produced different bytes after a different history",
					Input:    map[string]any{"probe": encDescribe(base), "history_a": hdescs[0], "history_b": hdescs[h]},
					Expected: fmt.Sprintf("%q", outputs[0]), Actual: fmt.Sprintf("%q", outputs[h])})
				break
			}
		}
		if i < 4 {
			r.sample(map[string]any{"probe": encDescribe(base), "histories": hdescs})
		}
	}
	c09Chains(r, g)
	c09WorkingDir(r)
	// caller attribution of one call site must not depend on what the previous record from that site carried
	slog.VerifResetGlobals()
	slog.SetFlags(slog.LstdFlags | slog.Lcaller)
	rec := &recorder{}
	for _, format := range []string{"l", "j", "c"} {
		l := slog.New("c09site-" + format).SetWriter(rec).SetErrorWriter(rec).SetLevel(slog.InfoLevel)
		switch format {
		case "j":
			l.SetJSONMode(true)
		case "l":
			l.SetColorMode(false)
		}
		var first string
		for k := 0; k < 8; k++ {
			rec.take()
			withErr := k%2 == 0
			file, line := c09Site(l, withErr)
			w := rec.take()
			if len(w) != 1 {
				continue
			}
			wantLine := line + 5
			got := string(reAnsi.ReplaceAll(w[0], nil))
			short := slog.Safety(file)
			ok := strings.Contains(got, fmt.Sprintf(`"line":%d`, wantLine)) || strings.Contains(got, fmt.Sprintf("caller.line=%d", wantLine)) || strings.Contains(got, fmt.Sprintf("%s:%d ", short, wantLine))
			r.seen(fmt.Sprintf("site|%s|%d", format, k))
			if !ok {
				r.violate(violation{What: "the caller of a record depends on the previous record formatted from the same call site",
					Input: map[string]any{"format": format, "round": k, "expected_line": wantLine, "file": short}, Actual: got})
			}
			_ = first
		}
	}
	slog.VerifResetGlobals()
}

// c09Chains: two chains of loggers with identical configuration (inherit flag on / off, the same attributes set in the
// same order on the same members) give the same bytes for the same final call, whether or not members of the chain
// had formatted records before the configuration was completed.
func c09Chains(r *run, g *rng) {
	rounds := 60
	if r.tier == "thorough" {
		rounds = 900
	}
	for round := 0; round < rounds; round++ {
		slog.VerifResetGlobals()
		fl := (slog.LstdFlags &^ slog.Lcaller) | slog.LnoInterrupt
		inherit := g.chance(2, 3)
		if inherit {
			fl |= slog.LattrsR
		}
		slog.SetFlags(fl)
		depth := 2 + g.intn(3)
		format := []string{"l", "j", "c"}[g.intn(3)]
		type step struct {
			member int
			key    string
			val    int
		}
		var steps []step
		for k := 1 + g.intn(5); k > 0; k-- {
			steps = append(steps, step{g.intn(depth), keyPoolLegal[g.intn(len(keyPoolLegal))], g.intn(1000)})
		}
		earlyAt := g.intn(len(steps) + 1) // chain B: members format records before this step
		build := func(early bool) string {
			rec := &recorder{}
			var chain []slog.Logger
			var cur slog.Logger = slog.New("svc")
			for d := 0; d < depth; d++ {
				if d > 0 {
					cur = cur.New(fmt.Sprintf("m%d", d))
				}
				cur.SetWriter(rec).SetErrorWriter(rec).SetLevel(slog.InfoLevel)
				c14Format(cur, format)
				cur.SetUTCMode(true).SetTimeFormat("@")
				chain = append(chain, cur)
			}
			for k, st := range steps {
				if early && k == earlyAt {
					for d := depth - 1; d >= 0; d-- {
						chain[d].Info("an earlier record of this member", "n", d)
					}
				}
				chain[st.member].Set(st.key, st.val)
			}
			if early && earlyAt == len(steps) {
				chain[depth-1].Info("an earlier record of the innermost member")
			}
			rec.take()
			chain[depth-1].Info("commit", "rows", 3)
			w := rec.take()
			if len(w) != 1 {
				return fmt.Sprintf("<%d writes>", len(w))
			}
			return string(w[0])
		}
		fresh, used := build(false), build(true)
		r.seen(fmt.Sprintf("chain|%s|%d|%v|%d", format, depth, inherit, len(steps)))
		if fresh != used {
			r.violate(violation{What: "the same call on identically configured logger chains gives different bytes depending on records the chain formatted earlier",
				Input:    map[string]any{"format": format, "chain_depth": depth, "inherit_flag": inherit, "Set_calls_member_key_value": fmt.Sprint(steps), "earlier_records_before_step": earlyAt},
				Expected: fmt.Sprintf("%q", fresh), Actual: fmt.Sprintf("%q", used)})
		}
	}
}
