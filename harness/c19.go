package main

// C19 — PrintCtx's buffer API vs bytes.Buffer. Three-way lock step per operation: PrintCtx
// against the Lean model (protocol lines C19P) and bytes.Buffer against the same model (C19B),
// both started from equal slices so that capacities evolve identically; the oracle compares
// PrintCtx with bytes.Buffer directly. Sequences of 1..200 of the 20 listed operations with zero /
// negative / boundary sizes, multi-byte and invalid runes, readers and writers that fail or
// short-write.

import (
	"bytes"
	"errors"
	"fmt"
	"io"
	"strings"

	"github.com/hedzr/logg/slog"
)

func init() { props["C19"] = runC19 }

type bufAPI interface {
	Write(p []byte) (int, error)
	WriteString(s string) (int, error)
	WriteByte(c byte) error
	WriteRune(r rune) (int, error)
	Read(p []byte) (int, error)
	ReadByte() (byte, error)
	ReadRune() (rune, int, error)
	UnreadByte() error
	UnreadRune() error
	Next(n int) []byte
	ReadBytes(delim byte) ([]byte, error)
	ReadString(delim byte) (string, error)
	ReadFrom(r io.Reader) (int64, error)
	WriteTo(w io.Writer) (int64, error)
	Truncate(n int)
	Grow(n int)
	Reset()
	Len() int
	Bytes() []byte
	String() string
}

var errInjectedReader = errors.New("injected reader error")

var c19ReadFroms int // readfrom operations generated so far (pins the idle-source scenario)

// an error that wraps io.EOF is an error like any other: only the bare io.EOF value ends ReadFrom silently
var errWrappedEOF = fmt.Errorf("source truncated: %w", io.EOF)
var errInjectedWriter = errors.New("injected writer error")

type scriptReader struct {
	steps []readStep
	i     int
	caps  *[]int
	capFn func() int
	last  int
}
type readStep struct {
	chunk []byte
	kind  byte // n none, e eof, o other, g negative
}

func (r *scriptReader) Read(p []byte) (int, error) {
	if c := r.capFn(); c != r.last {
		*r.caps = append(*r.caps, c)
		r.last = c
	}
	if r.i >= len(r.steps) {
		return 0, io.EOF
	}
	st := r.steps[r.i]
	r.i++
	n := copy(p, st.chunk)
	switch st.kind {
	case 'e':
		return n, io.EOF
	case 'o':
		return n, errInjectedReader
	case 'w':
		return n, errWrappedEOF
	case 'g':
		return -1, nil
	}
	return n, nil
}

type scriptWriter struct {
	accept int
	fail   bool
}

func (w *scriptWriter) Write(p []byte) (int, error) {
	if w.fail {
		return w.accept, errInjectedWriter
	}
	return w.accept, nil
}

func errName(err error) string {
	switch {
	case err == nil:
		return ""
	case err == io.EOF:
		return "EOF"
	case err == errInjectedReader, err == errWrappedEOF:
		return "reader-error"
	case err == errInjectedWriter:
		return "writer-error"
	case err == io.ErrShortWrite:
		return "short-write"
	case strings.Contains(err.Error(), "UnreadRune"):
		return "unread-rune"
	case strings.Contains(err.Error(), "UnreadByte"):
		return "unread-byte"
	}
	return "other:" + err.Error()
}

func panicName(v any) string {
	s := fmt.Sprint(v)
	switch {
	case strings.Contains(s, "truncation out of range"):
		return "truncate"
	case strings.Contains(s, "negative count"):
		return "grow-negative"
	case strings.Contains(s, "too large"):
		return "too-large"
	case strings.Contains(s, "negative count from Read") || strings.Contains(s, "returned negative"):
		return "negative-read"
	case strings.Contains(s, "invalid Write count"):
		return "invalid-write-count"
	case strings.Contains(s, "runtime error"):
		return "runtime"
	}
	return "other:" + s
}

type c19Op struct {
	name  string
	bs    []byte
	n     int
	steps []readStep
	fail  bool
}

func (o c19Op) proto() string {
	switch o.name {
	case "write", "writestring":
		return o.name + " " + hx(o.bs)
	case "writebyte", "writerune", "read", "next", "readbytes", "readstring", "truncate", "grow":
		return fmt.Sprintf("%s %d", o.name, o.n)
	case "readfrom":
		var parts []string
		for _, s := range o.steps {
			kind := s.kind
			if kind == 'w' {
				kind = 'o'
			}
			parts = append(parts, hx(s.chunk)+":"+string(kind))
		}
		return "readfrom " + strings.Join(parts, " ")
	case "writeto":
		return fmt.Sprintf("writeto %d %s", o.n, b01(o.fail))
	}
	return o.name
}

// apply runs one operation and renders the result exactly as the Lean driver does.
func c19Apply(b bufAPI, capFn func() int, o c19Op) (res string, caps []int) {
	before := capFn()
	defer func() {
		if rec := recover(); rec != nil {
			name := panicName(rec)
			if strings.Contains(fmt.Sprint(rec), "negative") && o.name == "readfrom" {
				name = "negative-read"
			}
			res = "panic=" + name
		}
		if after := capFn(); after != before && o.name != "readfrom" {
			caps = append(caps, after)
		}
		res += func() (st string) {
			defer func() {
				if rec := recover(); rec != nil {
					st = " ; state-unreadable: " + fmt.Sprint(rec)
				}
			}()
			return fmt.Sprintf(" ; len=%d s=%s", b.Len(), hxs(b.String()))
		}()
	}()
	switch o.name {
	case "write":
		n, err := b.Write(o.bs)
		return fmt.Sprintf("n=%d err=%s", n, errName(err)), nil
	case "writestring":
		n, err := b.WriteString(string(o.bs))
		return fmt.Sprintf("n=%d err=%s", n, errName(err)), nil
	case "writebyte":
		return "err=" + errName(b.WriteByte(byte(o.n))), nil
	case "writerune":
		n, err := b.WriteRune(rune(o.n))
		return fmt.Sprintf("n=%d err=%s", n, errName(err)), nil
	case "read":
		p := make([]byte, o.n)
		n, err := b.Read(p)
		return fmt.Sprintf("b=%s err=%s", hx(p[:n]), errName(err)), nil
	case "readbyte":
		c, err := b.ReadByte()
		return fmt.Sprintf("c=%d err=%s", c, errName(err)), nil
	case "readrune":
		r, sz, err := b.ReadRune()
		return fmt.Sprintf("r=%d size=%d err=%s", r, sz, errName(err)), nil
	case "unreadbyte":
		return "err=" + errName(b.UnreadByte()), nil
	case "unreadrune":
		return "err=" + errName(b.UnreadRune()), nil
	case "next":
		return "b=" + hx(b.Next(o.n)), nil
	case "readbytes":
		p, err := b.ReadBytes(byte(o.n))
		return fmt.Sprintf("b=%s err=%s", hx(p), errName(err)), nil
	case "readstring":
		p, err := b.ReadString(byte(o.n))
		return fmt.Sprintf("b=%s err=%s", hxs(p), errName(err)), nil
	case "readfrom":
		rd := &scriptReader{steps: o.steps, caps: &caps, capFn: capFn, last: before}
		n, err := b.ReadFrom(rd)
		return fmt.Sprintf("n=%d err=%s", n, errName(err)), caps
	case "writeto":
		n, err := b.WriteTo(&scriptWriter{o.n, o.fail})
		return fmt.Sprintf("n=%d err=%s", n, errName(err)), nil
	case "truncate":
		b.Truncate(o.n)
		return "ok", nil
	case "grow":
		b.Grow(o.n)
		return "ok", nil
	case "reset":
		b.Reset()
		return "ok", nil
	case "len":
		return fmt.Sprintf("n=%d", b.Len()), nil
	case "bytes":
		return "b=" + hx(b.Bytes()), nil
	case "string":
		return "b=" + hxs(b.String()), nil
	}
	return "?", nil
}

func runC19(r *run) {
	g := &rng{s: r.seed*141650939 + 19}
	r.rule = "random sequences of 1..200 of the 20 buffer operations (sizes zero / negative / at capacity boundaries, multi-byte and invalid runes, failing / short readers and writers) from empty, nil and pre-filled buffers; distinct = distinct (operation, result class) pairs per sequence position bucket; non-trivial = operations executed on a non-empty buffer or producing an error/panic"
	nseq := 150
	if r.tier == "thorough" {
		nseq = 3000
	}
	names := []string{"write", "write", "writestring", "writebyte", "writerune", "read", "read", "readbyte", "readrune", "unreadbyte", "unreadrune",
		"next", "readbytes", "readstring", "readfrom", "writeto", "truncate", "grow", "reset", "len", "bytes", "string"}
	runes := []int{65, 0x7f, 0x80, 0xe9, 0x7ff, 0x800, 0x20ac, 0xffff, 0x10000, 0x1f600, 0x10ffff, 0x110000, -1, 0xd800, 0xdfff, 0xfffd}
	randBytes := func(n int) []byte {
		p := make([]byte, n)
		for i := range p {
			switch g.intn(6) {
			case 0:
				p[i] = '\n'
			case 1:
				p[i] = byte(0x80 + g.intn(0x80))
			default:
				p[i] = byte(32 + g.intn(95))
			}
		}
		if n >= 4 && g.chance(1, 3) {
			copy(p[g.intn(n-3):], "\xf0\x9f\x98\x80")
		}
		return p
	}
	for sidx := 0; sidx < nseq; sidx++ {
		var init []byte
		isNil := false
		capInit := 0
		switch g.intn(4) {
		case 0:
			isNil = true
		case 1:
			capInit = g.intn(100)
			init = make([]byte, 0, capInit)
		default:
			n := g.intn(80)
			capInit = n + g.intn(80)
			init = make([]byte, n, capInit)
			copy(init, randBytes(n))
		}
		var pInit, bInit []byte
		if !isNil {
			pInit = append(make([]byte, 0, capInit), init...)
			bInit = append(make([]byte, 0, capInit), init...)
		}
		pc := slog.NewPrintCtx(pInit)
		bb := bytes.NewBuffer(bInit)
		r.emit(fmt.Sprintf("C19P new %s %d %s", hx(init), capInit, b01(isNil)), "ok")
		r.emit(fmt.Sprintf("C19B new %s %d %s", hx(init), capInit, b01(isNil)), "ok")
		nOps := 1 + g.intn(200)
		if sidx < 20 {
			nOps = 1 + g.intn(12)
		}
		var history []string
		// short scripts that random choice seldom produces: a read that can be undone, followed by a Grow that fits /
		// slides / reallocates, followed by the Unread; contents cut in the middle of a multi-byte rune (with the rest
		// of the rune still behind the end of the contents), then ReadRune
		var queued []func() c19Op
		for k := 0; k < nOps; k++ {
			if len(queued) == 0 && g.chance(1, 14) {
				mb := []byte("a\xc3\xa9\xe2\x82\xac\xf0\x9f\x98\x80z\xf0\x9f\x98\x80")
				switch g.intn(4) {
				case 0:
					unread := []string{"unreadrune", "unreadbyte"}[g.intn(2)]
					queued = []func() c19Op{
						func() c19Op { return c19Op{name: "write", bs: mb} },
						func() c19Op { return c19Op{name: "readrune"} },
						func() c19Op {
							return c19Op{name: "grow", n: []int{1, pc.VerifCap() + 1000, pc.VerifCap() / 3, 70000}[g.intn(4)]}
						},
						func() c19Op { return c19Op{name: unread} },
						func() c19Op { return c19Op{name: "string"} },
					}
				case 1:
					queued = []func() c19Op{
						func() c19Op { return c19Op{name: "write", bs: mb} },
						func() c19Op { return c19Op{name: "truncate", n: pc.Len() - 1 - g.intn(3)} },
						func() c19Op { return c19Op{name: "next", n: pc.Len() - 1 - g.intn(3)} },
						func() c19Op { return c19Op{name: "readrune"} },
						func() c19Op { return c19Op{name: "readrune"} },
						func() c19Op { return c19Op{name: "len"} },
					}
				case 2:
					queued = []func() c19Op{
						func() c19Op { return c19Op{name: "write", bs: mb} },
						func() c19Op { return c19Op{name: "reset"} },
						func() c19Op { return c19Op{name: "write", bs: mb[:1+g.intn(len(mb)-1)]} },
						func() c19Op { return c19Op{name: "next", n: pc.Len() - 1 - g.intn(3)} },
						func() c19Op { return c19Op{name: "readrune"} },
						func() c19Op { return c19Op{name: "string"} },
					}
				default:
					queued = []func() c19Op{
						func() c19Op { return c19Op{name: "write", bs: mb} },
						func() c19Op { return c19Op{name: "read", n: pc.Len()} },
						func() c19Op { return c19Op{name: "grow", n: []int{1, 8, pc.VerifCap() + 1}[g.intn(3)]} },
						func() c19Op { return c19Op{name: []string{"unreadbyte", "unreadrune"}[g.intn(2)]} },
						func() c19Op { return c19Op{name: "write", bs: []byte("xyz")} },
						func() c19Op { return c19Op{name: "string"} },
					}
				}
			}
			o := c19Op{name: names[g.intn(len(names))]}
			scripted := false
			if len(queued) > 0 {
				o, queued, scripted = queued[0](), queued[1:], true
			}
			room := pc.VerifCap() - len(pInit) // rough; only used to bias sizes
			_ = room
			size := func() int {
				switch g.intn(8) {
				case 0:
					return 0
				case 1:
					return 1
				case 2:
					return pc.Len()
				case 3:
					return pc.Len() + 1
				case 4:
					return pc.VerifCap() / 2
				case 5:
					return 500 + g.intn(200)
				case 6:
					return g.intn(5000)
				}
				return g.intn(40)
			}
			switch map[bool]string{true: "scripted", false: o.name}[scripted] {
			case "write", "writestring":
				o.bs = randBytes(size())
			case "writebyte":
				o.n = g.intn(256)
			case "writerune":
				o.n = runes[g.intn(len(runes))]
			case "read":
				o.n = size()
			case "next", "truncate", "grow":
				o.n = size()
				if g.chance(1, 10) {
					o.n = -1 - g.intn(5)
				}
				if o.name == "truncate" && g.chance(1, 3) {
					o.n = pc.Len() - g.intn(3) + 1
				}
			case "readbytes", "readstring":
				o.n = []int{'\n', 'a', 0x80, 0, 'z'}[g.intn(5)]
			case "readfrom":
				for j := g.intn(4); j > 0; j-- {
					o.steps = append(o.steps, readStep{randBytes(g.intn(513)), 'n'})
				}
				last := readStep{randBytes(g.intn(300)), "eeogw"[g.intn(5)]}
				if last.kind == 'g' {
					last.chunk = nil
				}
				c19ReadFroms++
				if c19ReadFroms%16 == 5 {
					// a source that answers (0, nil) many times in a row before it goes on: ReadFrom keeps asking, as bytes.Buffer does
					idle := []int{99, 100, 101, 250, 1, 512}[(c19ReadFroms/16)%6]
					for k := 0; k < idle; k++ {
						o.steps = append(o.steps, readStep{nil, 'n'})
					}
					o.steps = append(o.steps, readStep{[]byte("after the idle reads"), 'n'})
				}
				o.steps = append(o.steps, last)
			case "writeto":
				switch g.intn(5) {
				case 0:
					o.n = pc.Len() + 1 + g.intn(3)
				case 1:
					o.n = pc.Len() / 2
				case 2:
					o.n = 0
				default:
					o.n = pc.Len()
				}
				o.fail = g.chance(1, 4)
			}
			nonTrivial := pc.Len() > 0
			resP, capsP := c19Apply(pc, pc.VerifCap, o)
			resB, capsB := c19Apply(bb, bb.Cap, o)
			cs := func(c []int) string {
				var p []string
				for _, x := range c {
					p = append(p, fmt.Sprint(x))
				}
				return "c=" + strings.Join(p, ",")
			}
			r.emit("C19P op "+o.proto()+" "+cs(capsP), resP)
			r.emit("C19B op "+o.proto()+" "+cs(capsB), resB)
			history = append(history, o.proto())
			class := strings.SplitN(strings.SplitN(resP, " ;", 2)[0], "=", 2)[0]
			if strings.Contains(resP, "err=") && !strings.Contains(resP, "err= ;") && !strings.HasSuffix(strings.SplitN(resP, " ;", 2)[0], "err=") {
				class += "+err"
				nonTrivial = true
			}
			if strings.HasPrefix(resP, "panic") {
				nonTrivial = true
			}
			key := ""
			if nonTrivial {
				key = fmt.Sprintf("%d|%s|%s|%d", sidx, o.name, class, k/10)
			}
			r.seen(key)
			r.count("op=" + o.name)
			if resP != resB {
				h := history
				if len(h) > 30 {
					h = h[len(h)-30:]
				}
				r.violate(violation{What: "PrintCtx and bytes.Buffer differ after the same operation sequence",
					Input:    map[string]any{"initial": hx(init), "initial_cap": capInit, "nil_buffer": isNil, "last_operations": h},
					Expected: "bytes.Buffer: " + resB, Actual: "PrintCtx: " + resP})
				break
			}
			if sidx == 0 && k < 4 {
				r.sample(map[string]any{"op": o.proto(), "result": resP})
			}
		}
	}
	// the buffer API in a process started with DEBUG=1 (the debug switches are read once, at start-up)
	envProbe(r, false, "buf", "DEBUG=1")
	envProbe(r, true, "buf", "DEBUG=true")
}
