package main

// C07 — attribute assembly. Logger chains of depth 1..4 with arbitrary own-attribute lists
// (also empty), call-site argument lists of 0..64 attributes with key collisions (counts
// concentrated around 11..14), context keys (string and Stringer keys, present / absent, a nil
// context), inherit flag on and off, three formats. Values are unique integers, so the winning
// occurrence of a key is identifiable in the output.

import (
	"bytes"
	"context"
	"encoding/json"
	"fmt"
	"regexp"
	"sort"
	"strconv"
	"strings"

	"github.com/hedzr/logg/slog"
)

func init() { props["C07"] = runC07 }

type c07Key string

func (k c07Key) String() string { return string(k) }

type c07Stringer struct{ name string }

func (k *c07Stringer) String() string { return k.name }

type kvp struct {
	k string
	v int
}

var c07Keys = []string{"a", "b", "c", "d", "e", "f", "g", "ab", "b1", "zz", "A", "k_9", "x.y"}

var reAnsi = regexp.MustCompile("\x1b\\[[0-9;]*m")

// c07Parse extracts the attributes (after the msg field) in output order.
func c07Parse(format string, p []byte) ([]kvp, error) {
	var out []kvp
	switch format {
	case "json":
		dec := json.NewDecoder(bytes.NewReader(p))
		dec.UseNumber()
		tok, err := dec.Token()
		if err != nil || tok != json.Delim('{') {
			return nil, fmt.Errorf("not an object")
		}
		for dec.More() {
			kt, err := dec.Token()
			if err != nil {
				return nil, err
			}
			key := kt.(string)
			var raw json.RawMessage
			if err := dec.Decode(&raw); err != nil {
				return nil, err
			}
			if key == "time" || key == "level" || key == "msg" || key == "logger" {
				continue
			}
			n, err := strconv.Atoi(strings.Trim(string(raw), `"`))
			if err != nil {
				return nil, fmt.Errorf("value of %q is %s", key, raw)
			}
			out = append(out, kvp{key, n})
		}
		return out, nil
	default:
		s := string(p)
		if format == "color" {
			s = reAnsi.ReplaceAllString(s, "")
		}
		s = strings.TrimRight(s, "\n")
		i := strings.Index(s, "probe-message")
		if i < 0 {
			return nil, fmt.Errorf("no message")
		}
		rest := s[i+len("probe-message"):]
		rest = strings.TrimPrefix(rest, `"`)
		for _, f := range strings.Fields(rest) {
			eq := strings.IndexByte(f, '=')
			if eq < 0 {
				return nil, fmt.Errorf("token without key: %q", f)
			}
			n, err := strconv.Atoi(f[eq+1:])
			if err != nil {
				return nil, fmt.Errorf("value of %q is %q", f[:eq], f[eq+1:])
			}
			out = append(out, kvp{f[:eq], n})
		}
		return out, nil
	}
}

func runC07(r *run) {
	g := &rng{s: r.seed*49979687 + 7}
	slog.VerifResetGlobals()
	r.rule = "random cases (chain depth 1..4 with own-attribute lists incl. empty, 0..64 call attributes with collisions, context keys of both kinds, inherit flag, format); distinct = distinct (depth, #own lists empty, #args bucket, collision, #ctx, inherit, format); non-trivial = cases with at least one key collision or inheritance"
	n := 1500
	if r.tier == "thorough" {
		n = 20000
	}
	baseFlags := slog.GetFlags() &^ (slog.Lcaller | slog.LattrsR)
	vid := 0
	next := func() int { vid++; return vid }
	for i := 0; i < n; i++ {
		i := i
		func() {
			defer func() {
				if p := recover(); p != nil {
					r.violate(violation{What: "a log call of the case panicked (none of its own values can): something of an earlier record was rendered again",
						Input: map[string]any{"case": i}, Actual: fmt.Sprint(p)})
				}
			}()
			inherit := g.chance(1, 2)
			fl := baseFlags
			if inherit {
				fl |= slog.LattrsR
			}
			slog.SetFlags(fl)
			format := []string{"logfmt", "json", "color"}[g.intn(3)]
			depth := 1 + g.intn(4)
			rec := &recorder{}
			var chain [][]kvp // outermost first
			var l slog.Logger = slog.New(fmt.Sprintf("c07-%d", i))
			var cur slog.Logger = l
			keyPool := c07Keys[:3+g.intn(len(c07Keys)-3)]
			emptyKey := i%6 == 5
			// (the empty string is a key like any other when it comes in an Attr object - it sorts first -; unset slots after
			// it do not stand in for it. As the first half of a pair it cannot be told from "no key yet": not used that way.)
			// one prepared Attrs value handed to the first two loggers of the chain, each of which then
			// gets another attribute of its own: the loggers' own attributes stay their own
			sharedCase := depth >= 2 && g.chance(1, 4)
			var sharedKV kvp
			var sharedAttrs slog.Attrs
			var extras []kvp
			var chainLoggers []slog.Logger
			if sharedCase {
				sharedKV = kvp{g.pick(keyPool), next()}
				sharedAttrs = slog.NewAttrs(sharedKV.k, sharedKV.v)
			}
			for d := 0; d < depth; d++ {
				if d > 0 {
					switch (i + d) % 5 {
					case 1:
						cur = cur.With() // a child made by the builder that binds attributes, given none: a logger of its own all the same
					case 2:
						cur = cur.WithAttrs()
					default:
						cur = cur.New(fmt.Sprintf("child%d", d))
					}
				}
				chainLoggers = append(chainLoggers, cur)
				if sharedCase && d < 2 {
					cur.SetAttrs1(sharedAttrs)
					e := kvp{g.pick(keyPool), next()}
					extras = append(extras, e)
					chain = append(chain, []kvp{sharedKV, e})
					continue
				}
				var own []kvp
				if !g.chance(1, 3) {
					for j := g.intn(5); j > 0; j-- {
						own = append(own, kvp{g.pick(keyPool), next()})
						if emptyKey && g.chance(1, 3) {
							own[len(own)-1].k = ""
						}
					}
				}
				if len(own) > 0 {
					form := g.intn(3)
					if emptyKey {
						form = 0
					}
					switch form {
					case 0:
						var as []slog.Attr
						for _, a := range own {
							as = append(as, slog.Int(a.k, a.v))
						}
						cur.SetAttrs(as...)
					case 1:
						var args []any
						for _, a := range own {
							args = append(args, a.k, a.v)
						}
						cur.Set(args...)
					default:
						// a prepared list whose entries are pairs and ready Attr objects in any mix (duplicates included:
						// the last occurrence in the list wins)
						var args []any
						for _, a := range own {
							if g.chance(1, 2) {
								args = append(args, a.k, a.v)
							} else {
								args = append(args, slog.Int(a.k, a.v))
							}
						}
						cur.SetAttrs1(slog.NewAttrs(args...))
					}
				}
				chain = append(chain, own)
			}
			if sharedCase {
				for d, e := range extras {
					chainLoggers[d].SetAttrs(slog.Int(e.k, e.v))
				}
			}
			cur.SetWriter(rec).SetErrorWriter(rec).SetLevel(slog.InfoLevel)
			switch format {
			case "json":
				cur.SetJSONMode(true)
			case "logfmt":
				cur.SetColorMode(false)
			default:
				cur.SetColorMode(true)
			}
			// context keys
			var ctx context.Context = context.Background()
			var fromCtx []kvp
			nCtxKeys := 0
			if g.chance(1, 2) || i < 4 {
				var keys []any
				for j := 1 + g.intn(3); j > 0; j-- {
					name := g.pick(keyPool)
					present := g.chance(2, 3)
					if i < 4 {
						name, present = fmt.Sprintf("ctxonly%d", j), true // not overridden by any call-site key
					}
					v := next()
					switch g.intn(3) {
					case 0:
						keys = append(keys, name)
						if present {
							ctx = context.WithValue(ctx, name, v) //nolint
						}
					case 1:
						k := &c07Stringer{name}
						keys = append(keys, k)
						if present {
							ctx = context.WithValue(ctx, k, v)
						}
					default:
						keys = append(keys, 12345+j) // neither string nor Stringer: never printed
						if present {
							ctx = context.WithValue(ctx, 12345+j, v)
						}
						present = false
					}
					nCtxKeys++
				}
				// the keys may be registered in two steps, with records emitted before and in between: a
				// key registered after the logger's first record counts like any other
				if g.chance(1, 3) {
					cur.InfoContext(ctx, "warm-up before any key is registered")
				}
				if g.chance(1, 3) {
					// keys registered earlier and dropped again leave no trace
					cur.SetContextKeys(&c07Stringer{"dropped-1"}, "dropped-2", &c07Stringer{"dropped-3"})
					cur.InfoContext(ctx, "warm-up with keys that are reset afterwards")
					cur.(interface{ ResetContextKeys(keys ...any) *slog.Entry }).ResetContextKeys()
				}
				if len(keys) >= 2 && g.chance(1, 2) {
					cur.SetContextKeys(keys[:1]...)
					cur.InfoContext(ctx, "warm-up between two registrations")
					cur.SetContextKeys(keys[1:]...)
				} else {
					cur.SetContextKeys(keys...)
				}
				rec.take()
				// what the context holds for the registered keys, in registration order (the later
				// WithValue for an equal key shadows the earlier)
				for _, k := range keys {
					if v := ctx.Value(k); v != nil {
						switch kk := k.(type) {
						case string:
							fromCtx = append(fromCtx, kvp{kk, v.(int)})
						case *c07Stringer:
							fromCtx = append(fromCtx, kvp{kk.name, v.(int)})
						}
					}
				}
			}
			if g.chance(1, 3) {
				// a record under the other inherit flag, inside a save / modify / restore scope: what was collected there
				// does not outlive the scope
				var restore func()
				if inherit {
					restore = slog.SaveFlagsAndMod(0, slog.LattrsR)
				} else {
					restore = slog.SaveFlagsAndMod(slog.LattrsR)
				}
				cur.InfoContext(ctx, "warm-up under the other inherit flag")
				restore()
				rec.take()
			}
			if depth >= 2 && !sharedCase && g.chance(1, 3) {
				// a record first, then one more attribute on an ancestor: the next record knows about it
				cur.InfoContext(ctx, "warm-up before an ancestor gets another attribute")
				rec.take()
				d := g.intn(depth - 1)
				e := kvp{g.pick(keyPool), next()}
				chainLoggers[d].Set(e.k, e.v)
				chain[d] = append(chain[d], e)
			}
			if i%7 == 3 {
				// an unrelated record that is cut short by a value whose String() panics (the application recovers): nothing of
				// it may turn up in the next record
				encPanicNoise([]string{"l", "j", "c"}[(i/7)%3])
			}
			nilCtx := g.chance(1, 10) && i >= 4
			// call-site arguments
			na := g.intn(20)
			if g.chance(1, 2) {
				na = 9 + g.intn(8)
			} else if g.chance(1, 8) {
				na = 30 + g.intn(35)
			}
			if i < 4 {
				// the very first records of the process are large ones with context values: whatever is
				// recycled between records has never carried that many attributes before
				na = 100 + 20*i + g.intn(20)
			}
			var args []kvp
			var callArgs []any
			for j := 0; j < na; j++ {
				a := kvp{g.pick(keyPool), next()}
				form := g.intn(3)
				if emptyKey && g.chance(1, 4) {
					a.k, form = "", 1+g.intn(2)
				}
				args = append(args, a)
				switch form {
				case 0:
					callArgs = append(callArgs, a.k, a.v)
				case 1:
					callArgs = append(callArgs, slog.Int(a.k, a.v))
				default:
					callArgs = append(callArgs, slog.NewAttr(a.k, a.v))
				}
			}
			if len(callArgs) > 0 && g.chance(1, 6) {
				callArgs = []any{slog.NewAttrs(callArgs...)} // the same arguments as one prepared list
			}
			if emptyKey {
				// unset slots at the end of the argument list, and (half of the time) at the end of the logger's own list
				callArgs = append(callArgs, []slog.Attr{nil}, slog.NewAttrs())
				if i%12 == 5 {
					cur.SetAttrs(nil)
				}
			}
			func() {
				defer func() {
					if p := recover(); p != nil {
						r.violate(violation{What: "the probe call panicked (none of its own values can): something of an earlier record was rendered again",
							Input: map[string]any{"format": format, "call_args": fmt.Sprint(args), "case": i}, Actual: fmt.Sprint(p)})
					}
				}()
				if nilCtx {
					fromCtx = nil
					cur.InfoContext(nil, "probe-message", callArgs...) //nolint
				} else {
					cur.InfoContext(ctx, "probe-message", callArgs...)
				}
			}()
			w := rec.take()
			obs := "no-record"
			var got []kvp
			if len(w) == 1 {
				var err error
				got, err = c07Parse(format, w[0])
				if err != nil {
					obs = "unparsable"
				} else {
					var parts []string
					for _, a := range got {
						parts = append(parts, hxs(a.k)+":"+strconv.Itoa(a.v))
					}
					obs = strings.Join(parts, ",")
					if obs == "" {
						obs = "-"
					}
				}
			}
			enc := func(xs []kvp) string {
				var parts []string
				for _, a := range xs {
					parts = append(parts, hxs(a.k)+":"+strconv.Itoa(a.v))
				}
				return strings.Join(parts, ",")
			}
			var h []string
			for d := len(chain) - 1; d >= 0; d-- { // innermost first for the model
				h = append(h, enc(chain[d]))
			}
			r.emit(fmt.Sprintf("C07 rec %d %d c=%s h=%s a=%s", int64(fl), nCtxKeys, enc(fromCtx), strings.Join(h, "/"), enc(args)), obs)
			// oracle: reference merge from the statement
			var all []kvp
			all = append(all, fromCtx...)
			if inherit {
				for _, own := range chain {
					all = append(all, own...)
				}
			} else {
				all = append(all, chain[len(chain)-1]...)
			}
			all = append(all, args...)
			last := map[string]int{}
			for _, a := range all {
				last[a.k] = a.v
			}
			var keys []string
			for k := range last {
				keys = append(keys, k)
			}
			sort.Strings(keys)
			var want []kvp
			for _, k := range keys {
				want = append(want, kvp{k, last[k]})
			}
			collision := len(all) != len(last)
			empties := 0
			for _, own := range chain {
				if len(own) == 0 {
					empties++
				}
			}
			key := ""
			if collision || (inherit && depth > 1) {
				key = fmt.Sprintf("%d|%d|%d|%v|%d|%v|%s", depth, empties, len(args)/4, collision, len(fromCtx), inherit, format)
			}
			r.seen(key)
			r.count(fmt.Sprintf("nargs=%02d-%02d", len(args)/8*8, len(args)/8*8+7))
			if fmt.Sprint(got) != fmt.Sprint(want) || len(w) != 1 {
				r.violate(violation{What: "emitted attributes differ from the reference merge (sources, last-wins, ascending order)",
					Input:    map[string]any{"inherit_flag": inherit, "format": format, "chain_outermost_first": fmt.Sprint(chain), "context_values": fmt.Sprint(fromCtx), "call_args": fmt.Sprint(args), "nil_context": nilCtx},
					Expected: fmt.Sprint(want), Actual: fmt.Sprint(got)})
			}
			if i < 5 {
				r.sample(map[string]any{"chain": fmt.Sprint(chain), "ctx": fmt.Sprint(fromCtx), "args": fmt.Sprint(args), "inherit": inherit, "emitted": fmt.Sprint(got)})
			}
		}()
	}
	// groups built from free-form arguments (slog.Group): inside a group too the last occurrence of a
	// key wins and the members come out in ascending key order — also for large groups
	ng := 150
	if r.tier == "thorough" {
		ng = 3000
	}
	for i := 0; i < ng; i++ {
		slog.SetFlags(baseFlags)
		rec := &recorder{}
		format := []string{"logfmt", "json", "color"}[g.intn(3)]
		l := slog.New(fmt.Sprintf("c07g-%d", i)).SetWriter(rec).SetErrorWriter(rec).SetLevel(slog.InfoLevel)
		switch format {
		case "json":
			l.SetJSONMode(true)
		case "logfmt":
			l.SetColorMode(false)
		default:
			l.SetColorMode(true)
		}
		np := 1 + g.intn(20)
		big := g.chance(1, 5)
		if big {
			np = 35 + g.intn(120) // larger than any pooled or pre-sized scratch list
		}
		keyPool := c07Keys[:2+g.intn(len(c07Keys)-2)]
		var pairs []kvp
		var gargs []any
		var gattrs []slog.Attr
		for j := 0; j < np; j++ {
			a := kvp{g.pick(keyPool), next()}
			if big && g.chance(9, 10) {
				a.k = fmt.Sprintf("k%03d", (j*37)%211)
			}
			pairs = append(pairs, a)
			gargs = append(gargs, a.k, a.v)
			gattrs = append(gattrs, slog.Int(a.k, a.v))
		}
		if i%5 == 2 {
			// members already in ascending key order, with keys repeated next to each other: still one member per key, the last
			sort.SliceStable(pairs, func(a, b int) bool { return pairs[a].k < pairs[b].k })
			if len(pairs) >= 2 && g.chance(2, 3) {
				pairs[len(pairs)-1].k = pairs[len(pairs)-2].k
				pairs = append(pairs, kvp{pairs[0].k, next()})
				sort.SliceStable(pairs, func(a, b int) bool { return pairs[a].k < pairs[b].k })
			}
			gargs, gattrs = nil, nil
			for _, a := range pairs {
				gargs = append(gargs, a.k, a.v)
				gattrs = append(gattrs, slog.Int(a.k, a.v))
			}
		}
		if i%2 == 0 {
			l.Info("group-probe", slog.Group("grp", gargs...))
		} else {
			l.Info("group-probe", slog.NewGroupedAttr("grp", gattrs...))
		}
		w := rec.take()
		last := map[string]int{}
		for _, a := range pairs {
			last[a.k] = a.v
		}
		var keys []string
		for k := range last {
			keys = append(keys, k)
		}
		sort.Strings(keys)
		var want []string
		for _, k := range keys {
			want = append(want, fmt.Sprintf("%s=%d", k, last[k]))
		}
		var got []string
		if len(w) == 1 {
			text := string(reAnsi.ReplaceAll(w[0], nil))
			if format == "json" {
				var obj map[string]any
				if json.Unmarshal(w[0], &obj) == nil {
					if m, ok := obj["grp"].(map[string]any); ok {
						// member order as written
						body := text[strings.Index(text, `"grp":{`)+7:]
						for _, mm := range regexp.MustCompile(`"([^"]+)":(\d+)`).FindAllStringSubmatch(body[:strings.Index(body, "}")], -1) {
							got = append(got, mm[1]+"="+mm[2])
						}
						_ = m
					}
				}
			} else {
				for _, mm := range regexp.MustCompile(`grp\.([^= ]+)=(\d+)`).FindAllStringSubmatch(text, -1) {
					got = append(got, mm[1]+"="+mm[2])
				}
			}
		}
		r.seen(fmt.Sprintf("group|%s|%d|%v", format, np/4, len(pairs) != len(last)))
		if fmt.Sprint(got) != fmt.Sprint(want) {
			r.violate(violation{What: "the members of a group differ from the reference (last occurrence wins, ascending key order)",
				Input:    map[string]any{"format": format, "group_pairs": fmt.Sprint(pairs)},
				Expected: fmt.Sprint(want), Actual: fmt.Sprint(got)})
		}
	}
	// groups nested in groups (built as Attr lists and from free-form arguments), several records through the
	// same logger: every level of nesting has its own members, in ascending key order, each exactly once
	nn := 120
	if r.tier == "thorough" {
		nn = 2500
	}
	type node struct {
		key  string
		val  int
		kids []*node // nil = scalar
	}
	var build func(depth int) []*node
	build = func(depth int) []*node {
		var ms []*node
		used := map[string]bool{}
		for j := 1 + g.intn(6); j > 0; j-- {
			k := g.pick(c07Keys)
			if used[k] {
				continue
			}
			used[k] = true
			ms = append(ms, &node{key: k, val: next()})
		}
		if depth > 0 {
			for j := g.intn(3); j > 0; j-- {
				k := []string{"a-inner", "m-inner", "z-inner", "0grp", "kk"}[g.intn(5)]
				if used[k] {
					continue
				}
				used[k] = true
				kids := build(depth - 1)
				if kids == nil {
					kids = []*node{}
				}
				ms = append(ms, &node{key: k, kids: kids})
			}
		}
		for j := len(ms) - 1; j > 0; j-- { // shuffle
			k := g.intn(j + 1)
			ms[j], ms[k] = ms[k], ms[j]
		}
		return ms
	}
	var asAttrs func(ms []*node, free bool) []any
	asAttrs = func(ms []*node, free bool) []any {
		var out []any
		for _, m := range ms {
			switch {
			case m.kids != nil && free:
				out = append(out, slog.Group(m.key, asAttrs(m.kids, free)...))
			case m.kids != nil:
				var as []slog.Attr
				for _, a := range asAttrs(m.kids, free) {
					as = append(as, a.(slog.Attr))
				}
				out = append(out, slog.NewGroupedAttr(m.key, as...))
			case free:
				out = append(out, m.key, m.val)
			default:
				out = append(out, slog.NewAttr(m.key, m.val))
			}
		}
		return out
	}
	var flat func(prefix string, ms []*node, out *[]string)
	flat = func(prefix string, ms []*node, out *[]string) {
		sorted := append([]*node{}, ms...)
		sort.Slice(sorted, func(i, j int) bool { return sorted[i].key < sorted[j].key })
		for _, m := range sorted {
			if m.kids != nil {
				flat(prefix+m.key+".", m.kids, out)
			} else {
				*out = append(*out, fmt.Sprintf("%s%s=%d", prefix, m.key, m.val))
			}
		}
	}
	for i := 0; i < nn; i++ {
		slog.SetFlags(baseFlags)
		rec := &recorder{}
		format := []string{"logfmt", "color"}[g.intn(2)]
		l := slog.New(fmt.Sprintf("c07n-%d", i)).SetWriter(rec).SetErrorWriter(rec).SetLevel(slog.InfoLevel)
		l.SetColorMode(format == "color")
		free := g.chance(1, 2)
		for round := 0; round < 3; round++ {
			tree := build(2)
			var arg any
			if free {
				arg = slog.Group("grp", asAttrs(tree, true)...)
			} else {
				var as []slog.Attr
				for _, a := range asAttrs(tree, false) {
					as = append(as, a.(slog.Attr))
				}
				arg = slog.NewGroupedAttr("grp", as...)
			}
			l.Info("nested-group-probe", arg)
			w := rec.take()
			var want, got []string
			flat("", tree, &want)
			if len(w) == 1 {
				text := string(reAnsi.ReplaceAll(w[0], nil))
				for _, mm := range regexp.MustCompile(`grp\.([^= ]+)=(\d+)`).FindAllStringSubmatch(text, -1) {
					got = append(got, mm[1]+"="+mm[2])
				}
			}
			r.seen(fmt.Sprintf("nested|%s|%v|%d|%d", format, free, round, len(want)/4))
			if fmt.Sprint(got) != fmt.Sprint(want) {
				r.violate(violation{What: "the members of nested groups differ from the reference (each group its own members, ascending key order at every level)",
					Input:    map[string]any{"format": format, "built_from_free_form_arguments": free, "record_number_through_this_logger": round + 1, "members_in_call_order": fmt.Sprint(want)},
					Expected: fmt.Sprint(want), Actual: fmt.Sprint(got)})
			}
		}
	}
	callArgsDoNotStick(r.violate)
	slog.VerifResetGlobals()
}
