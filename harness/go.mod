module verif/harness

go 1.23.0

require (
	github.com/hedzr/is v0.7.13
	github.com/hedzr/logg v0.0.0
	gopkg.in/hedzr/errors.v3 v3.3.5
)

require (
	golang.org/x/net v0.39.0 // indirect
	golang.org/x/sys v0.32.0 // indirect
	golang.org/x/term v0.31.0 // indirect
)

replace github.com/hedzr/logg => /repo
