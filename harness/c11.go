package main

// C11 — the output format is a three-state machine. Exhaustive enumeration of all
// sequences (up to a length) of mode calls over a 10-letter alphabet (JSON/colour setter ×
// argument lists (), (true), (false), (true,false), (false,true)), applied as Set… calls
// on one logger, as a chain of With… calls, and as options of New(…); after each sequence
// every logger involved is probed: getters and the shape of an emitted record.

import (
	"bytes"
	"context"
	"encoding/json"
	"fmt"
	"os"
	"os/exec"
	"strings"

	"github.com/hedzr/logg/slog"
)

func init() { props["C11"] = runC11 }

type modeLetter struct {
	tok  string // protocol token: j / c followed by the bits
	json bool
	bits []bool
}

var c11Alphabet = []modeLetter{
	{"j", true, nil}, {"j1", true, []bool{true}}, {"j0", true, []bool{false}}, {"j10", true, []bool{true, false}}, {"j01", true, []bool{false, true}},
	{"c", false, nil}, {"c1", false, []bool{true}}, {"c0", false, []bool{false}}, {"c10", false, []bool{true, false}}, {"c01", false, []bool{false, true}},
}

// specFmt: 0 json, 1 color, 2 logfmt — the statement's machine, independent of the code.
func specFmt(f int, l modeLetter) int {
	last := true
	for _, b := range l.bits {
		last = b
	}
	if l.json {
		if last {
			return 0
		}
		if f == 0 {
			return 2
		}
		return f
	}
	if last {
		return 1
	}
	return 2
}

var fmtNames = []string{"json", "color", "logfmt"}

func classify(p []byte) string {
	oneLine := bytes.Count(p, []byte{'\n'}) == 1 && bytes.HasSuffix(p, []byte{'\n'})
	esc := bytes.Contains(p, []byte{0x1b})
	switch {
	case len(p) > 0 && p[0] == '{':
		if !oneLine || esc || !bytes.HasSuffix(p, []byte("}\n")) || !json.Valid(p) {
			return "broken-json"
		}
		return "json"
	case esc && bytes.HasPrefix(p, []byte("\x1b[")):
		// no field of another format inside (the probes' own texts hold neither of these)
		if bytes.Contains(p, []byte("\":")) || bytes.Contains(p, []byte("logger=")) || bytes.Contains(p, []byte("level=")) {
			return "broken-color"
		}
		return "color"
	case bytes.HasPrefix(p, []byte("time=")):
		if !oneLine || esc || bytes.Contains(p, []byte("\":")) || bytes.Contains(p, []byte("\",")) {
			return "broken-logfmt"
		}
		return "logfmt"
	}
	return "unknown"
}

func runC11(r *run) {
	slog.VerifResetGlobals()
	r.rule = "all sequences of mode calls up to the tier's length over a 10-letter alphabet, in three application styles (Set on one logger, With-chain, New options); distinct = distinct (style, sequence); non-trivial = sequences of length >= 1"
	maxLen := 3
	if r.tier == "thorough" {
		maxLen = 5
	}
	type lg struct {
		l    slog.Logger
		rec  *recorder
		spec int
	}
	var loggers []*lg
	n := 0
	mk := func(l slog.Logger, spec int) *lg {
		rc := &recorder{}
		l.SetWriter(rc).SetErrorWriter(rc)
		l.SetLevel(slog.InfoLevel)
		x := &lg{l, rc, spec}
		loggers = append(loggers, x)
		return x
	}
	reset := func() {
		n++
		loggers = nil
		root := slog.New(fmt.Sprintf("r%d", n))
		mk(root, 1)
		mk(root.New("c"), 1)
		mk(slog.New(fmt.Sprintf("o%d", n)), 1)
		r.emit("C11 reset", "ok")
	}
	// a registered custom severity without colors or tags of its own: its records have the logger's format too
	_ = slog.RegisterLevel(slog.Level(77), "C11PLAIN", slog.RegWithTreatedAsLevel(slog.InfoLevel))
	probeN := 0
	probeAll := func(what string, seq []modeLetter) {
		for k, x := range loggers {
			x.rec.take()
			probeN++
			if probeN%4 == 0 {
				x.l.Logit(context.Background(), slog.Level(77), "probe\nsecond line\nthird\n", "k", 1)
			} else {
				x.l.Info("probe\nsecond line\nthird\n", "k", 1)
			}
			w := x.rec.take()
			shape := "none"
			if len(w) == 1 {
				shape = classify(w[0])
			}
			j, c := x.l.JSONMode(), x.l.ColorMode()
			r.emit(fmt.Sprintf("C11 probe %d", k), b01(j)+" "+b01(c)+" "+shape)
			want := fmtNames[x.spec]
			if shape != want || j != (x.spec == 0) || c != (x.spec == 1) {
				var toks []string
				for _, l := range seq {
					toks = append(toks, l.tok)
				}
				r.violate(violation{What: "format differs from the three-state machine",
					Input:    map[string]any{"style": what, "sequence": toks, "logger_index": k},
					Expected: map[string]any{"format": want},
					Actual:   map[string]any{"JSONMode": j, "ColorMode": c, "record_shape": shape}})
			}
		}
	}
	apply := func(l slog.Logger, m modeLetter) {
		if m.json {
			l.SetJSONMode(m.bits...)
		} else {
			l.SetColorMode(m.bits...)
		}
	}
	var seqs [][]modeLetter
	var gen func(prefix []modeLetter, left int)
	gen = func(prefix []modeLetter, left int) {
		seqs = append(seqs, append([]modeLetter(nil), prefix...))
		if left == 0 {
			return
		}
		for _, l := range c11Alphabet {
			gen(append(prefix, l), left-1)
		}
	}
	gen(nil, maxLen)
	for _, seq := range seqs {
		key := func(style string) string {
			if len(seq) == 0 {
				return ""
			}
			var sb strings.Builder
			sb.WriteString(style)
			for _, l := range seq {
				sb.WriteString("," + l.tok)
			}
			return sb.String()
		}
		// style 1: Set… on the root's child (index 1); root and sibling must not move
		reset()
		for _, m := range seq {
			apply(loggers[1].l, m)
			loggers[1].spec = specFmt(loggers[1].spec, m)
			r.emit("C11 set 1 "+m.tok, "ok")
		}
		probeAll("set", seq)
		r.seen(key("set"))
		r.count(fmt.Sprintf("len=%d", len(seq)))
		if len(seq) == 0 || len(seq) > 4 {
			continue
		}
		// style 1b: the same calls with a record emitted (and the getters read) after every call
		if len(seq) >= 2 {
			reset()
			for i, m := range seq {
				apply(loggers[1].l, m)
				loggers[1].spec = specFmt(loggers[1].spec, m)
				r.emit("C11 set 1 "+m.tok, "ok")
				probeAll("set, probing after every call", seq[:i+1])
			}
			r.seen(key("set-probe-each"))
		}
		// style 1c: the same, but only the logger whose mode is changed emits records — no other
		// logger formats anything in between (the formatting context is pooled)
		if len(seq) >= 1 && len(seq) <= 4 {
			reset()
			only := loggers[1]
			for i, m := range seq {
				only.rec.take()
				only.l.Info("before the call", "i", i)
				only.rec.take()
				apply(only.l, m)
				only.spec = specFmt(only.spec, m)
				r.emit("C11 set 1 "+m.tok, "ok")
				only.l.Info("probe\nsecond line\nthird\n", "k", 1)
				w := only.rec.take()
				shape := "none"
				if len(w) == 1 {
					shape = classify(w[0])
				}
				j, c := only.l.JSONMode(), only.l.ColorMode()
				r.emit("C11 probe 1", b01(j)+" "+b01(c)+" "+shape)
				if want := fmtNames[only.spec]; shape != want || j != (only.spec == 0) || c != (only.spec == 1) {
					var toks []string
					for _, l := range seq[:i+1] {
						toks = append(toks, l.tok)
					}
					r.violate(violation{What: "format differs from the three-state machine (records of the same logger right before and right after a mode call)",
						Input: map[string]any{"style": "set, one logger only", "sequence": toks}, Expected: map[string]any{"format": want},
						Actual: map[string]any{"JSONMode": j, "ColorMode": c, "record_shape": shape}})
				}
			}
			r.seen(key("set-one-logger"))
		}
		// style 2: With… chain starting at the root
		reset()
		cur := loggers[0]
		curIdx := 0
		for _, m := range seq {
			var ch *slog.Entry
			if m.json {
				ch = cur.l.WithJSONMode(m.bits...)
			} else {
				ch = cur.l.WithColorMode(m.bits...)
			}
			nx := mk(ch, specFmt(cur.spec, m))
			r.emit(fmt.Sprintf("C11 child %d %s", curIdx, m.tok), fmt.Sprint(len(loggers)-1))
			cur, curIdx = nx, len(loggers)-1
		}
		probeAll("with-chain", seq)
		r.seen(key("with"))
		if len(seq) == 2 {
			// style 2b: the same With… call issued twice on one parent gives two loggers of their own; a mode call
			// on the second (seq[1]) must not move the first — and asking a third time must not move either
			reset()
			m := seq[0]
			withOf := func() *slog.Entry {
				if m.json {
					return loggers[0].l.WithJSONMode(m.bits...)
				}
				return loggers[0].l.WithColorMode(m.bits...)
			}
			first := mk(withOf(), specFmt(loggers[0].spec, m))
			r.emit(fmt.Sprintf("C11 child 0 %s", m.tok), fmt.Sprint(len(loggers)-1))
			second := mk(withOf(), specFmt(loggers[0].spec, m))
			r.emit(fmt.Sprintf("C11 child 0 %s", m.tok), fmt.Sprint(len(loggers)-1))
			apply(second.l, seq[1])
			second.spec = specFmt(second.spec, seq[1])
			r.emit(fmt.Sprintf("C11 set %d %s", len(loggers)-1, seq[1].tok), "ok")
			mk(withOf(), specFmt(loggers[0].spec, m))
			r.emit(fmt.Sprintf("C11 child 0 %s", m.tok), fmt.Sprint(len(loggers)-1))
			_ = first
			probeAll("with-twice-then-set-on-the-second", seq)
			r.seen(key("with-twins"))
		}
		// style 3: New(name, options…) on the child
		reset()
		var opts []any
		opts = append(opts, "viaopts")
		spec := loggers[1].spec
		var toks []string
		for _, m := range seq {
			if m.json {
				opts = append(opts, slog.WithJSONMode(m.bits...))
			} else {
				opts = append(opts, slog.WithColorMode(m.bits...))
			}
			spec = specFmt(spec, m)
			toks = append(toks, m.tok)
		}
		ch := loggers[1].l.New(opts...)
		mk(ch, spec)
		r.emit("C11 child 1 "+strings.Join(toks, " "), fmt.Sprint(len(loggers)-1))
		probeAll("new-options", seq)
		r.seen(key("newopts"))
		if len(seq) == 3 && r.evals%50 == 0 {
			r.sample(map[string]any{"sequence": toks, "final_format": fmtNames[spec]})
		}
		// style 4: children asked for with the empty name (each is a logger of its own with a generated name): the
		// first gets the first call of the sequence as its option, the second the rest
		if len(seq) >= 2 {
			reset()
			optOf := func(m modeLetter) any {
				if m.json {
					return slog.WithJSONMode(m.bits...)
				}
				return slog.WithColorMode(m.bits...)
			}
			a := loggers[1].l.New("", optOf(seq[0]))
			mk(a, specFmt(loggers[1].spec, seq[0]))
			r.emit("C11 child 1 "+seq[0].tok, fmt.Sprint(len(loggers)-1))
			rest := []any{""}
			spec2 := loggers[1].spec
			var toks2 []string
			for _, m := range seq[1:] {
				rest = append(rest, optOf(m))
				spec2 = specFmt(spec2, m)
				toks2 = append(toks2, m.tok)
			}
			b := loggers[1].l.New(rest...)
			if b == a {
				r.violate(violation{What: "New with an empty name handed out a logger that exists already: its options were ignored and the two callers share one logger",
					Input: map[string]any{"style": "new-empty-name", "sequence": toks}})
			}
			mk(b, spec2)
			r.emit("C11 child 1 "+strings.Join(toks2, " "), fmt.Sprint(len(loggers)-1))
			probeAll("new-empty-name", seq)
			r.seen(key("newempty"))
		}
	}
	r.extra["exhaustive"] = true
	r.extra["max_sequence_length"] = maxLen
	slog.VerifResetGlobals()
	// a Print whose message is white space of the less common kinds (form feed, vertical tab, NEL, NBSP, U+3000) is a record
	// like any other: it has the shape of its logger's format (only blank / tab / CR / LF messages give the bare empty line)
	for k, format := range []string{"json", "logfmt", "color"} {
		for _, msg := range []string{"\f", "\v", "\u0085", "\u00a0", "\u3000 \f", "\u2028"} {
			rc := &recorder{}
			l := slog.New(fmt.Sprintf("c11ws-%d", k)).SetWriter(rc).SetErrorWriter(rc).SetLevel(slog.InfoLevel)
			switch format {
			case "json":
				l.SetJSONMode(true)
			case "logfmt":
				l.SetColorMode(false)
			}
			l.Print(msg, "k", 1)
			w := rc.take()
			shape := "none"
			if len(w) == 1 {
				shape = classify(w[0])
			}
			r.seen(fmt.Sprintf("exotic-whitespace|%s|%q", format, msg))
			if shape != format {
				r.violate(violation{What: "a Print record whose message is uncommon white space does not have the shape of the logger's format",
					Input: map[string]any{"format": format, "message": fmt.Sprintf("%q", msg), "call": "Print(msg, \"k\", 1)"}, Expected: format, Actual: fmt.Sprintf("%s: %q", shape, w)})
			}
		}
	}
	c11SkipChildren(r)
	noColorEnvironment(r.violate)
	envProbe(r, false, "color", "NO_COLOR=1")
	envProbe(r, true, "color", "NO_COLOR=true")
	// JSON loggers under go test with error values: the records keep the JSON shape (the twin binary, oracle only)
	if exe := os.Getenv("VERIF_HARNESS"); exe != "" {
		if err := r.mergeChild(exec.Command(exe+".test", "-test.v", "c11test", fmt.Sprint(r.seed), r.tier)); err != nil {
			r.violate(violation{What: "the go-test-mode twin of the harness failed: " + err.Error()})
		}
	}
}

// c11SkipChildren: a child made with WithSkip(n) is a logger like any other: its format is decided by its own most recent
// mode call, whoever asks the parent for WithSkip(n) again (a helper that logs through parent.WithSkip(1) on every call),
// and whatever mode calls the parent gets afterwards. Oracle only.
func c11SkipChildren(r *run) {
	probe := func(l slog.Logger, rc *recorder) (bool, bool, string) {
		rc.take()
		l.Info("probe\nsecond line\n", "k", 1)
		w := rc.take()
		shape := "none"
		if len(w) == 1 {
			shape = classify(w[0])
		}
		return l.JSONMode(), l.ColorMode(), shape
	}
	n := 0
	for _, pm := range []int{-1, 0, 2, 7} { // the parent's own format: untouched, j, j0, c0
		for _, m1 := range c11Alphabet {
			for _, pm2 := range []int{-1, 1, 6, 7} { // the parent's later mode call: none, j1, c1, c0
				n++
				prc, crc := &recorder{}, &recorder{}
				p := slog.New(fmt.Sprintf("skp%d", n)).SetLevel(slog.InfoLevel).SetWriter(prc).SetErrorWriter(prc)
				pspec := 1
				toks := []string{}
				if pm >= 0 {
					if c11Alphabet[pm].json {
						p.SetJSONMode(c11Alphabet[pm].bits...)
					} else {
						p.SetColorMode(c11Alphabet[pm].bits...)
					}
					pspec = specFmt(pspec, c11Alphabet[pm])
					toks = append(toks, "parent:"+c11Alphabet[pm].tok)
				}
				skip := 1 + n%2
				c := p.WithSkip(skip)
				c.SetWriter(crc).SetErrorWriter(crc)
				if m1.json {
					c.SetJSONMode(m1.bits...)
				} else {
					c.SetColorMode(m1.bits...)
				}
				cspec := specFmt(pspec, m1)
				toks = append(toks, fmt.Sprintf("c := parent.WithSkip(%d)", skip), "c:"+m1.tok, fmt.Sprintf("parent.WithSkip(%d).Info(…)", skip))
				p.WithSkip(skip).Info("from a helper")
				if pm2 >= 0 {
					if c11Alphabet[pm2].json {
						p.SetJSONMode(c11Alphabet[pm2].bits...)
					} else {
						p.SetColorMode(c11Alphabet[pm2].bits...)
					}
					pspec = specFmt(pspec, c11Alphabet[pm2])
					toks = append(toks, "parent:"+c11Alphabet[pm2].tok, fmt.Sprintf("parent.WithSkip(%d).Info(…)", skip))
					p.WithSkip(skip).Info("from a helper again")
				}
				r.seen(fmt.Sprintf("skip-child|%d|%s|%d", pm, m1.tok, pm2))
				if j, cm, shape := probe(c, crc); shape != fmtNames[cspec] || j != (cspec == 0) || cm != (cspec == 1) {
					r.violate(violation{What: "the format of a WithSkip child differs from the three-state machine after the parent was asked for WithSkip again",
						Input: map[string]any{"calls": toks, "probed": "c"}, Expected: map[string]any{"format": fmtNames[cspec]},
						Actual: map[string]any{"JSONMode": j, "ColorMode": cm, "record_shape": shape}})
				}
				if j, cm, shape := probe(p, prc); shape != fmtNames[pspec] || j != (pspec == 0) || cm != (pspec == 1) {
					r.violate(violation{What: "the format of a logger differs from the three-state machine after mode calls on its WithSkip child",
						Input: map[string]any{"calls": toks, "probed": "parent"}, Expected: map[string]any{"format": fmtNames[pspec]},
						Actual: map[string]any{"JSONMode": j, "ColorMode": cm, "record_shape": shape}})
				}
			}
		}
	}
	slog.VerifResetGlobals()
}
