package main

// Deterministic scenarios added with the seventeenth wave of seeded changes (behaviour aligned with the conventions
// of other libraries; bug fixes that correct one case too many). Oracles are the property texts only.

import (
	"context"
	"errors"
	"fmt"
	"io"
	"os"
	"regexp"
	"strings"
	"time"

	"github.com/hedzr/is"
	"github.com/hedzr/logg/slog"
)

// discardPlusLevelWriter: the normal destination is io.Discard and a destination is registered for one severity: records
// of that severity reach it, once (C02, C03).
func discardPlusLevelWriter(viol func(violation)) {
	sevs := []slog.Level{slog.InfoLevel, slog.DebugLevel, slog.AlwaysLevel, slog.OKLevel, slog.ErrorLevel}
	for _, format := range []string{"l", "j", "c"} {
		for order := 0; order < 3; order++ {
			for _, sev := range sevs {
				slog.VerifResetGlobals()
				lw, errs := &recorder{}, &recorder{}
				var l slog.Logger
				how := ""
				switch order {
				case 0:
					l, how = slog.New("dl").SetWriter(io.Discard), "SetWriter(io.Discard); AddLevelWriter(sev, w)"
					l.AddLevelWriter(sev, lw)
				case 1:
					l, how = slog.New("dl"), "AddLevelWriter(sev, w); SetWriter(io.Discard)"
					l.AddLevelWriter(sev, lw)
					l.SetWriter(io.Discard)
				default:
					l, how = slog.New("dl", slog.WithWriter(io.Discard)), "New(WithWriter(io.Discard)); AddLevelWriter(sev, w)"
					l.AddLevelWriter(sev, lw)
				}
				l.SetErrorWriter(errs).SetLevel(slog.AlwaysLevel)
				setFormat(l, format)
				l.Logit(context.Background(), sev, "to-the-level-writer.", "k", 1)
				in := map[string]any{"configuration": how, "severity": sev.String(), "format": format}
				if msg := wholeOnce(lw.take(), "to-the-level-writer."); msg != "" {
					viol(violation{What: "a destination registered for exactly the record's severity did not receive it once (the normal destination is io.Discard): " + msg, Input: in})
				}
				if n := len(errs.take()); n != 0 {
					viol(violation{What: "a destination outside the selected set received the record", Input: in, Actual: n})
				}
			}
		}
	}
	slog.VerifResetGlobals()
}

var reWordValue = map[string]*regexp.Regexp{}

// wordValueOf finds the lower-case word printed as the value of key in a payload of any format ("?" if there is none).
func wordValueOf(p []byte, key string) string {
	re := reWordValue[key]
	if re == nil {
		re = regexp.MustCompile(`\b` + key + `"?[=:]"?([a-z]+)`)
		reWordValue[key] = re
	}
	m := re.FindSubmatch(reAnsi.ReplaceAll(p, nil))
	if m == nil {
		return "?"
	}
	return string(m[1])
}

// callArgsDoNotStick: a call argument that overrides a logger attribute (or an ancestor's) counts for that record only;
// Set on one logger does not reach another logger that was given the same attribute object (C07).
func callArgsDoNotStick(viol func(violation)) {
	for _, format := range []string{"l", "j", "c"} {
		// the logger's own attribute
		slog.VerifResetGlobals()
		rec := &recorder{}
		l := slog.New("stick").SetLevel(slog.InfoLevel).SetWriter(rec).SetErrorWriter(rec)
		setFormat(l, format)
		l.Set("user", "alice", "n", 1)
		l.Info("first", "user", "bob", "n", 2)
		l.Info("second-plain")
		l.Info("third", slog.String("user", "carol"))
		l.Info("fourth-plain")
		w := rec.take()
		in := map[string]any{"format": format, "calls": `l.Set("user","alice","n",1); l.Info("first","user","bob","n",2); l.Info("second-plain"); l.Info("third", String("user","carol")); l.Info("fourth-plain")`}
		if len(w) != 4 {
			viol(violation{What: "four admitted calls, other than four payloads", Input: in, Actual: len(w)})
		} else {
			for k, want := range []string{"bob", "alice", "carol", "alice"} {
				got := wordValueOf(w[k], "user")
				if !strings.Contains(got, want) {
					viol(violation{What: "a call argument that overrode a logger attribute for one record changed what later records of the logger print", Input: in,
						Expected: fmt.Sprintf("record %d: user=%s", k+1, want), Actual: fmt.Sprintf("user=%s in %q", got, w[k])})
				}
			}
		}
		// an ancestor's attribute, with the inherit flag on
		slog.VerifResetGlobals()
		restore := slog.SaveFlagsAndMod(slog.LattrsR)
		rec = &recorder{}
		parent := slog.New("stick-p").SetLevel(slog.InfoLevel).SetWriter(rec).SetErrorWriter(rec)
		setFormat(parent, format)
		parent.Set("zone", "eu")
		child := parent.New("kid").Set("who", "kid")
		child.SetWriter(rec).SetErrorWriter(rec)
		setFormat(child, format)
		sib := parent.New("sib")
		sib.SetWriter(rec).SetErrorWriter(rec)
		setFormat(sib, format)
		child.Info("first", "zone", "us")
		parent.Info("parent-plain")
		sib.Info("sibling-plain")
		child.Info("child-plain")
		w = rec.take()
		in = map[string]any{"format": format, "flags": "LattrsR on", "calls": `parent.Set("zone","eu"); child.Info("first","zone","us"); parent.Info(…); sibling.Info(…); child.Info(…)`}
		if len(w) == 4 {
			for k, want := range []string{"us", "eu", "eu", "eu"} {
				got := wordValueOf(w[k], "zone")
				if !strings.Contains(got, want) {
					viol(violation{What: "a call argument that overrode an ancestor's attribute for one record changed what the ancestor and its other descendants print", Input: in,
						Expected: fmt.Sprintf("record %d: zone=%s", k+1, want), Actual: fmt.Sprintf("zone=%s in %q", got, w[k])})
				}
			}
		} else {
			viol(violation{What: "four admitted calls, other than four payloads", Input: in, Actual: len(w)})
		}
		restore()
	}
	slog.VerifResetGlobals()
}

// emptyWithCalls: With… given nothing still returns a child of its own (C10).
func emptyWithCalls(viol func(violation)) {
	slog.VerifResetGlobals()
	var none []any
	calls := []struct {
		name string
		f    func(l slog.Logger) *slog.Entry
	}{
		{"With()", func(l slog.Logger) *slog.Entry { return l.With() }},
		{"With(empty...)", func(l slog.Logger) *slog.Entry { return l.With(none...) }},
		{"WithAttrs()", func(l slog.Logger) *slog.Entry { return l.WithAttrs() }},
		{"WithAttrs1(nil)", func(l slog.Logger) *slog.Entry { return l.WithAttrs1(nil) }},
		{"WithAttrs1(Attrs{})", func(l slog.Logger) *slog.Entry { return l.WithAttrs1(slog.Attrs{}) }},
	}
	for i, c := range calls {
		rec := &recorder{}
		l := slog.New(fmt.Sprintf("ew%d", i))
		l.SetLevel(slog.WarnLevel).SetColorMode(false).SetWriter(rec).SetErrorWriter(rec)
		kid := c.f(l)
		in := map[string]any{"call": "l." + c.name, "receiver": "a logger made by the package-level New, level Warn, logfmt"}
		if pr := kid.Parent(); pr == nil || pr.Name() != l.Name() {
			viol(violation{What: "the parent of a logger returned by a With… call is not the receiver", Input: in})
		}
		kid.SetLevel(slog.DebugLevel)
		kid.SetJSONMode(true)
		kid.Set("only", "the child")
		if l.Level() != slog.WarnLevel || l.JSONMode() {
			viol(violation{What: "Set… calls on the logger returned by a With… call changed the receiver", Input: in,
				Expected: "receiver: level warning, logfmt", Actual: fmt.Sprintf("level %v JSONMode=%v", l.Level(), l.JSONMode())})
		}
		l.Warn("receiver-record")
		if w := rec.take(); len(w) != 1 || strings.Contains(string(w[0]), "only") {
			viol(violation{What: "attributes set on the logger returned by a With… call are printed by the receiver", Input: in, Actual: fmt.Sprintf("%q", w)})
		}
	}
	slog.VerifResetGlobals()
}

// skipChildKeepsItsSettings: asking a logger for WithSkip(n) again leaves the level and format of the child it keeps for
// that n (and of the children kept for other n) as their own Set… calls put them (C10).
func skipChildKeepsItsSettings(viol func(violation)) {
	slog.VerifResetGlobals()
	for i, parentMove := range []string{"none", "SetLevel(Debug)", "SetJSONMode(true)", "SetColorMode(false)"} {
		p := slog.New(fmt.Sprintf("sk%d", i)).SetLevel(slog.WarnLevel)
		c2 := p.WithSkip(2)
		c3 := p.WithSkip(3)
		c2.SetLevel(slog.ErrorLevel)
		c2.SetJSONMode(true)
		c3.SetLevel(slog.InfoLevel)
		c3.SetColorMode(false)
		switch parentMove {
		case "SetLevel(Debug)":
			p.SetLevel(slog.DebugLevel)
		case "SetJSONMode(true)":
			p.SetJSONMode(true)
		case "SetColorMode(false)":
			p.SetColorMode(false)
		}
		again := p.WithSkip(2)
		_ = p.WithSkip(3)
		in := map[string]any{"calls": "c2 := p.WithSkip(2); c3 := p.WithSkip(3); c2.SetLevel(Error); c2.SetJSONMode(true); c3.SetLevel(Info); c3.SetColorMode(false); p." + parentMove + "; p.WithSkip(2); p.WithSkip(3)"}
		if again != c2 {
			viol(violation{What: "WithSkip(n) does not keep one child per n", Input: in})
		}
		if c2.Level() != slog.ErrorLevel || !c2.JSONMode() || c2.ColorMode() || c2.Skip() != 2 {
			viol(violation{What: "asking the parent for WithSkip(n) again changed the level, format or skip count of the child kept for n", Input: in,
				Expected: "c2: level error, JSON, skip 2", Actual: fmt.Sprintf("level %v JSONMode=%v ColorMode=%v skip %d", c2.Level(), c2.JSONMode(), c2.ColorMode(), c2.Skip())})
		}
		if c3.Level() != slog.InfoLevel || c3.JSONMode() || c3.ColorMode() || c3.Skip() != 3 {
			viol(violation{What: "asking the parent for WithSkip(n) again changed the level, format or skip count of the child kept for another n", Input: in,
				Expected: "c3: level info, logfmt, skip 3", Actual: fmt.Sprintf("level %v JSONMode=%v ColorMode=%v skip %d", c3.Level(), c3.JSONMode(), c3.ColorMode(), c3.Skip())})
		}
	}
	slog.VerifResetGlobals()
}

// noColorEnvironment: the process-wide "no colour" switches (the NO_COLOR variable, the is package's no-color mode) do not
// move a logger out of the format its own mode calls selected: getters and record shape still agree (C11).
func noColorEnvironment(viol func(violation)) {
	slog.VerifResetGlobals()
	old, had := os.LookupEnv("NO_COLOR")
	defer func() {
		if had {
			os.Setenv("NO_COLOR", old)
		} else {
			os.Unsetenv("NO_COLOR")
		}
		is.SetNoColorMode(false)
	}()
	for _, sw := range []string{"NO_COLOR=1", "is.SetNoColorMode(true)", "both"} {
		os.Unsetenv("NO_COLOR")
		is.SetNoColorMode(false)
		if sw != "is.SetNoColorMode(true)" {
			os.Setenv("NO_COLOR", "1")
		}
		if sw != "NO_COLOR=1" {
			is.SetNoColorMode(true)
		}
		for _, m := range c11Alphabet {
			for _, start := range []int{-1, 0, 7} { // untouched (colored), j, c0
				rc := &recorder{}
				l := slog.New("nc").SetLevel(slog.InfoLevel).SetWriter(rc).SetErrorWriter(rc)
				spec := 1
				toks := []string{}
				if start >= 0 {
					a := c11Alphabet[start]
					if a.json {
						l.SetJSONMode(a.bits...)
					} else {
						l.SetColorMode(a.bits...)
					}
					spec = specFmt(spec, a)
					toks = append(toks, a.tok)
				}
				if m.json {
					l.SetJSONMode(m.bits...)
				} else {
					l.SetColorMode(m.bits...)
				}
				spec = specFmt(spec, m)
				toks = append(toks, m.tok)
				l.Info("probe\nsecond line\n", "k", 1)
				w := rc.take()
				shape := "none"
				if len(w) == 1 {
					shape = classify(w[0])
				}
				j, c := l.JSONMode(), l.ColorMode()
				if shape != fmtNames[spec] || j != (spec == 0) || c != (spec == 1) {
					viol(violation{What: "format differs from the three-state machine while a process-wide no-colour switch is on",
						Input: map[string]any{"switch": sw, "sequence": toks}, Expected: map[string]any{"format": fmtNames[spec]},
						Actual: map[string]any{"JSONMode": j, "ColorMode": c, "record_shape": shape}})
				}
			}
		}
	}
}

// childTimeSettings: a logger without a layout and zone mode of its own prints its timestamps with the layout the flags
// select and in the zone the flags say, whatever its parent was given (C16).
func childTimeSettings(viol func(violation)) {
	inst := time.Date(2024, 2, 29, 23, 59, 58, 123456000, time.FixedZone("JST", 9*3600))
	for _, format := range []string{"json", "logfmt", "color"} {
		for _, hist := range []string{"parent.SetTimeFormat(RFC1123Z), child made afterwards", "child made first, then parent.SetTimeFormat(RFC1123Z)",
			"parent.SetUTCMode(true), local flag on", "parent.SetUTCMode(false), local flag off"} {
			slog.VerifResetGlobals()
			fl := (slog.LstdFlags &^ slog.Lcaller) | slog.LnoInterrupt
			want := inst.Format("15:04:05.000000Z07:00")
			if strings.Contains(hist, "local flag off") {
				fl &^= slog.LlocalTime
				want = inst.UTC().Format("15:04:05.000000Z07:00")
			}
			slog.SetFlags(fl)
			rec := &recorder{}
			parent := slog.New("tp").SetLevel(slog.InfoLevel).SetWriter(rec).SetErrorWriter(rec)
			var child *slog.Entry
			if strings.HasPrefix(hist, "child made first") {
				child = parent.New("sub")
			}
			switch {
			case strings.Contains(hist, "SetTimeFormat"):
				parent.SetTimeFormat(time.RFC1123Z)
			case strings.Contains(hist, "SetUTCMode(true)"):
				parent.SetUTCMode(true)
			default:
				parent.SetUTCMode(false)
			}
			if child == nil {
				child = parent.New("sub")
			}
			child.SetWriter(rec).SetErrorWriter(rec)
			switch format {
			case "json":
				child.SetJSONMode(true)
			case "logfmt":
				child.SetColorMode(false)
			default:
				child.SetColorMode(true)
			}
			child.WriteThru(context.Background(), slog.InfoLevel, inst, 0, "child-record", nil)
			w := rec.take()
			in := map[string]any{"history": hist, "format": format, "instant": inst.Format(time.RFC3339Nano), "probed": "the child (no SetTimeFormat / SetUTCMode of its own)"}
			if len(w) != 1 {
				viol(violation{What: "one admitted call, other than one payload", Input: in, Actual: len(w)})
				continue
			}
			got, ok := c16TimeText(format, w[0])
			if !ok || got != want {
				viol(violation{What: "timestamp differs from the instant in the zone and layout the logger's own settings and the flags select", Input: in, Expected: want, Actual: fmt.Sprintf("%q in %q", got, w[0])})
			}
		}
	}
	slog.VerifResetGlobals()
}

// levelOffsetTitles: titles that look like a built-in name with a numeric offset are titles like any other (C17).
func levelOffsetTitles(viol func(violation)) {
	slog.VerifResetGlobals()
	titles := []string{"TRACE-2", "debug+1", "INFO-1", "warn+4", "ERROR+12", "info+0", "Notice-3"}
	for i, title := range titles {
		v := slog.Level(60 + i)
		if err := slog.RegisterLevel(v, title); err != nil {
			viol(violation{What: "RegisterLevel refused a fresh value and title: " + err.Error(), Input: title})
			continue
		}
		in := map[string]any{"registered": fmt.Sprintf("RegisterLevel(%d, %q)", int(v), title)}
		if v.String() != title {
			viol(violation{What: "a registered level does not print its title", Input: in, Actual: v.String()})
		}
		if got, err := slog.ParseLevel(title); err != nil || got != v {
			viol(violation{What: "the name printed for a registered level does not parse back to it", Input: in, Expected: int(v), Actual: fmt.Sprint(int(got), " ", err)})
		}
		var t1 slog.Level
		if txt, err := v.MarshalText(); err != nil || t1.UnmarshalText(txt) != nil || t1 != v {
			viol(violation{What: "text round trip fails", Input: in, Actual: fmt.Sprint(string(txt), " -> ", int(t1))})
		}
		var t2 slog.Level
		if js, err := v.MarshalJSON(); err != nil || t2.UnmarshalJSON(js) != nil || t2 != v {
			viol(violation{What: "JSON round trip fails", Input: in, Actual: fmt.Sprint(string(js), " -> ", int(t2))})
		}
	}
	slog.VerifResetGlobals()
}

// brokenW always fails.
type brokenW struct{ n int }

func (b *brokenW) Write(p []byte) (int, error) { b.n++; return 0, errors.New("device gone") }

// subloggerDiagnostics: failing destinations of a logger that has an owner: at most one diagnostic per failing record,
// none for a failed warning, nothing travels up the chain of owners (C13).
func subloggerDiagnostics(viol func(violation)) {
	countDiag := func(rs ...*recorder) int {
		n := 0
		for _, r := range rs {
			for _, p := range r.take() {
				if strings.Contains(string(p), "failed") {
					n++
				}
			}
		}
		return n
	}
	for _, format := range []string{"l", "j"} {
		slog.VerifResetGlobals()
		rootN, rootE := &recorder{}, &recorder{}
		root := slog.New("root").SetLevel(slog.InfoLevel).SetWriter(rootN).SetErrorWriter(rootE)
		setFormat(root, format)
		// a sub-logger whose warning device is [broken, good]
		good, subN := &recorder{}, &recorder{}
		sub := root.New("sub")
		sub.SetWriter(subN).SetErrorWriter(&brokenW{}).AddErrorWriter(good)
		setFormat(sub, format)
		sub.Error("sub-error-record.")
		in := map[string]any{"format": format, "logger": `root.New("sub") with SetErrorWriter(broken).AddErrorWriter(good)`, "call": "sub.Error(…)"}
		if msg := wholeOnce(good.take(), "sub-error-record."); msg != "" {
			// the diagnostic goes to the same list: count only the record itself
			_ = msg
		}
		if d := countDiag(rootN, rootE); d != 0 {
			viol(violation{What: "a failing destination of a sub-logger produced a diagnostic on its owner's destinations", Input: in, Expected: 0, Actual: d})
		}
		sub.Warn("sub-warn-record.")
		in["call"] = "sub.Warn(…)"
		if d := countDiag(rootN, rootE, subN); d != 0 {
			viol(violation{What: "a failed warning record produced a diagnostic", Input: in, Expected: 0, Actual: d})
		}
		good.take()
		// a chain of owners, every error device broken
		a := root.New("a")
		b := a.New("b")
		c := b.New("c")
		for _, x := range []*slog.Entry{a, b, c} {
			x.SetWriter(subN).SetErrorWriter(&brokenW{})
			setFormat(x, format)
		}
		c.Error("deep-error-record.")
		c.Warn("deep-warn-record.")
		in = map[string]any{"format": format, "chain": "root -> a -> b -> c, error devices of a, b, c broken", "calls": "c.Error(…); c.Warn(…)"}
		if d := countDiag(rootN, rootE, subN); d != 0 {
			viol(violation{What: "failing records of a logger deep in a chain of owners produced diagnostics on other loggers' destinations (a cascade)", Input: in, Expected: 0, Actual: d})
		}
	}
	slog.VerifResetGlobals()
}

// returnedListIsACopy: what GetWriter / GetWriterBy hand out is the caller's to keep and to change: writing into it is
// no writer operation, the logger's destinations stay what its own set/add/remove/reset history denotes (C03, C10).
func returnedListIsACopy(viol func(violation)) {
	for _, members := range []int{1, 2, 3} {
		for _, which := range []string{"normal", "error", "level(Info)"} {
			slog.VerifResetGlobals()
			own := make([]*recorder, members)
			l := slog.New("kept").SetLevel(slog.InfoLevel).SetColorMode(false)
			other := &recorder{}
			l.SetWriter(other).SetErrorWriter(other)
			for k := range own {
				own[k] = &recorder{}
				switch which {
				case "normal":
					if k == 0 {
						l.SetWriter(own[k])
					} else {
						l.AddWriter(own[k])
					}
				case "error":
					if k == 0 {
						l.SetErrorWriter(own[k])
					} else {
						l.AddErrorWriter(own[k])
					}
				default:
					l.AddLevelWriter(slog.InfoLevel, own[k])
				}
			}
			lvl := slog.InfoLevel
			if which == "error" {
				lvl = slog.ErrorLevel
			}
			foreign := &recorder{}
			in := map[string]any{"list": which, "members": members, "caller": "kept := l.GetWriterBy(level).(LWs); kept[0] = NewLogWriter(foreign); kept = append(kept[:0], …)"}
			kept, ok := l.GetWriterBy(lvl).(slog.LWs)
			if !ok || len(kept) != members {
				viol(violation{What: "GetWriterBy does not hand out the list of the destinations selected for the severity", Input: in, Actual: fmt.Sprintf("%T %v", l.GetWriterBy(lvl), kept)})
				continue
			}
			kept[0] = slog.NewLogWriter(foreign)
			kept = append(kept[:0], slog.NewLogWriter(foreign))
			_ = kept
			l.Logit(context.Background(), lvl, "after-the-caller-wrote-into-the-list.")
			for k := range own {
				if msg := wholeOnce(own[k].take(), "after-the-caller-wrote-into-the-list."); msg != "" {
					viol(violation{What: "writing into the list GetWriterBy handed out changed the logger's destinations: " + msg, Input: in})
				}
			}
			if n := len(foreign.take()); n != 0 {
				viol(violation{What: "a destination the logger was never given received its record (the caller wrote it into the list GetWriterBy handed out)", Input: in, Actual: n})
			}
		}
	}
	slog.VerifResetGlobals()
}
