package main

// C16 — timestamps. Instants (years 0..9999, any nanosecond, fixed zones with whole-minute
// offsets) × 8 date/time/microsecond flag sets × local flag × histories of SetUTCMode /
// SetTimeFormat calls × 3 formats, through WriteThru with an explicit timestamp.

import (
	"context"
	"encoding/json"
	"fmt"
	logslog "log/slog"
	"strings"
	"time"

	"github.com/hedzr/logg/slog"
)

func init() { props["C16"] = runC16 }

var c16Layouts = []string{
	time.RFC3339Nano, time.RFC1123Z, "2006-01-02 15:04:05.000 -0700", time.Kitchen,
	"Jan _2 15:04:05.000000000 2006 Z07:00", time.StampMicro, time.RFC1123, time.RFC850, time.UnixDate, "2006-01-02T15:04:05.000000000Z07:00", "15:04:05.999999Z07:00",
}

var c16Defaults = []string{"2006-01-02", "15:04:05Z07:00", "15:04:05.000000Z07:00", "2006-01-0215:04:05Z07:00", "2006-01-02T15:04:05.000000Z07:00"}

func c16TimeText(format string, p []byte) (string, bool) {
	s := string(p)
	switch format {
	case "json":
		var m map[string]any
		if json.Unmarshal(p, &m) != nil {
			return "", false
		}
		t, ok := m["time"].(string)
		return t, ok
	case "logfmt":
		if !strings.HasPrefix(s, `time="`) {
			return "", false
		}
		rest := s[6:]
		i := strings.IndexByte(rest, '"')
		if i < 0 {
			return "", false
		}
		return rest[:i], true
	default:
		if !strings.HasPrefix(s, "\x1b[32m") {
			return "", false
		}
		rest := s[5:]
		i := strings.IndexByte(rest, '|')
		if i < 0 {
			return "", false
		}
		return rest[:i], true
	}
}

func runC16(r *run) {
	g := &rng{s: r.seed*104729 + 16}
	slog.VerifResetGlobals()
	r.rule = "random cases (instant, zone, flag set, local flag, history of SetUTCMode/SetTimeFormat calls, format); distinct = distinct (date/time/micro bits, local flag, resulting UTC mode, layout source, format, zone class); non-trivial = all"
	n := 3000
	if r.tier == "thorough" {
		n = 40000
	}
	ctx := context.Background()
	base := slog.LstdFlags &^ (slog.Ldate | slog.Ltime | slog.Lmicroseconds | slog.LlocalTime | slog.Lcaller)
	zones := []*time.Location{time.UTC, time.FixedZone("", 5*3600+45*60), time.FixedZone("NST", -(3*3600 + 30*60)), time.FixedZone("", 14*3600), time.FixedZone("", -12*3600), time.FixedZone("X", 60), time.FixedZone("GMT", 0), time.FixedZone("WET", 0)}
	for i := 0; i < n; i++ {
		rec := &recorder{}
		l := slog.New(fmt.Sprintf("t%d", i)).SetWriter(rec).SetErrorWriter(rec).SetLevel(slog.TraceLevel)
		format := []string{"json", "logfmt", "color"}[g.intn(3)]
		switch format {
		case "json":
			l.SetJSONMode(true)
		case "logfmt":
			l.SetColorMode(false)
		default:
			l.SetColorMode(true)
		}
		r.emit("C16 reset", "ok")
		// reference state from the statement
		mode, layout := 0, ""
		src := "flags"
		for k := g.intn(4); k > 0; k-- {
			if g.chance(1, 2) {
				var bs []bool
				for j := g.intn(3); j > 0; j-- {
					bs = append(bs, g.chance(1, 2))
				}
				l.SetUTCMode(bs...)
				toks := []string{"C16", "utcmode"}
				mode = 2
				for _, b := range bs {
					toks = append(toks, b01(b))
					if b {
						mode = 2
					} else {
						mode = 1
					}
				}
				r.emit(strings.Join(toks, " "), "ok")
			} else {
				var ls []string
				for j := g.intn(3); j > 0; j-- {
					if g.chance(1, 4) {
						ls = append(ls, "")
					} else {
						ls = append(ls, c16Layouts[g.intn(len(c16Layouts))])
					}
				}
				l.SetTimeFormat(ls...)
				toks := []string{"C16", "timeformat"}
				layout = time.RFC3339Nano
				for _, x := range ls {
					toks = append(toks, hxs(x))
					if x != "" {
						layout = x
					}
				}
				src = "logger"
				r.emit(strings.Join(toks, " "), "ok")
			}
		}
		// a quarter of the records arrive through the log/slog adapter (the record's own time) instead of WriteThru
		var viaHandler logslog.Handler
		if g.chance(1, 4) {
			viaHandler = slog.NewSlogHandler(l, &slog.HandlerOptions{NoColor: format != "color", JSON: format == "json", NoSource: true})
		}
		bits := g.intn(8)
		local := g.chance(1, 2)
		fl := base | slog.Flags(bits)
		if local {
			fl |= slog.LlocalTime
		}
		// the same flag word reached through different API paths (the state at the time of the call is identical)
		switch g.intn(4) {
		case 0:
			slog.SetFlags(fl)
		case 1:
			slog.SetFlags(fl)
			// enter and leave a scope that changes the date/time/zone bits
			restore := slog.SaveFlagsAndMod(^fl&(slog.Ldatetimeflags|slog.LlocalTime), fl&(slog.Ldatetimeflags|slog.LlocalTime))
			if g.chance(2, 3) {
				// a record formatted while the scope's flags are in force must not be remembered afterwards
				l.WriteThru(ctx, slog.InfoLevel, time.Unix(int64(g.intn(2000000000)), 0), 0, "inside the scope", nil)
				rec.take()
			}
			restore()
		case 2:
			slog.ResetFlags()
			slog.RemoveFlags(slog.GetFlags())
			slog.AddFlags(fl)
		default:
			slog.SetFlags(^fl)
			slog.RemoveFlags(^fl)
			slog.AddFlags(fl)
		}
		if slog.GetFlags() != fl {
			r.violate(violation{What: "harness: the flag word was not reached", Input: fmt.Sprint(int64(fl)), Actual: fmt.Sprint(int64(slog.GetFlags()))})
		}
		// the instant
		year := g.intn(10000)
		if g.chance(1, 5) {
			year = []int{0, 1, 1969, 1970, 2038, 9999, 2024}[g.intn(7)]
		}
		nano := g.intn(1000000000)
		if g.chance(1, 4) {
			nano = []int{0, 999999999, 123456789, 1000, 999, 500000000}[g.intn(6)]
		}
		zone := zones[g.intn(len(zones))]
		t := time.Date(year, time.Month(1+g.intn(12)), 1+g.intn(28), g.intn(24), g.intn(60), g.intn(60), nano, zone)
		if g.chance(1, 12) {
			t = time.Time{} // the zero instant is an instant like any other: it is the record's own time
			if g.chance(1, 2) {
				t = t.In(zone)
			}
		}
		if viaHandler != nil {
			_ = viaHandler.Handle(ctx, logslog.NewRecord(t, logslog.LevelInfo, "m", 0))
		} else {
			l.WriteThru(ctx, slog.InfoLevel, t, 0, "m", nil)
		}
		w := rec.take()
		text, ok := "", false
		if len(w) == 1 {
			text, ok = c16TimeText(format, w[0])
		}
		// atoms for the model
		cands := append(append([]string{}, c16Defaults...), c16Layouts...)
		var atoms []string
		for _, lay := range cands {
			atoms = append(atoms, "u,"+hxs(lay)+","+hxs(t.UTC().Format(lay)), "o,"+hxs(lay)+","+hxs(t.Format(lay)))
		}
		obs := "no-record"
		if ok {
			obs = format + " " + hxs(text)
		}
		r.emit(fmt.Sprintf("C16 ts %d %s %s", int64(fl), format, strings.Join(atoms, " ")), obs)
		// oracle from the statement
		wantUTC := mode == 2 || (mode == 0 && !local)
		wantLayout := layout
		if wantLayout == "" {
			d, tm, us := bits&1 != 0, bits&2 != 0, bits&4 != 0
			switch {
			case d && !tm && !us:
				wantLayout = "2006-01-02"
			case !d && tm && !us:
				wantLayout = "15:04:05Z07:00"
			case !d && tm && us:
				wantLayout = "15:04:05.000000Z07:00"
			case d && tm && !us:
				wantLayout = "2006-01-0215:04:05Z07:00"
			case d && us:
				wantLayout = "2006-01-02T15:04:05.000000Z07:00"
			default:
				wantLayout = "15:04:05.000000Z07:00"
			}
		}
		tm := t
		if wantUTC {
			tm = t.UTC()
		}
		want := tm.Format(wantLayout)
		zclass := "utc-instant"
		if zone != time.UTC {
			zclass = "offset-instant"
		}
		r.seen(fmt.Sprintf("%d|%v|%d|%s|%s|%s", bits, local, mode, src, format, zclass))
		r.count("zone=" + map[bool]string{true: "utc", false: "own"}[wantUTC])
		r.count("layout-from=" + src)
		input := map[string]any{"through_the_log_slog_adapter": viaHandler != nil, "instant": t.Format(time.RFC3339Nano), "flag_bits_date_time_micro": bits, "local_flag": local, "utc_mode": mode, "logger_layout": layout, "format": format}
		if !ok || text != want {
			r.violate(violation{What: "timestamp differs from the instant in the configured zone and layout", Input: input, Expected: want, Actual: text})
		} else if strings.Contains(wantLayout, "MST") {
			// a zone abbreviation does not determine the offset (and an unnamed zone is printed as a
			// numeric offset that the MST verb cannot read): no parse-back for such layouts, the text
			// comparison above is the whole check
		} else if p, err := time.Parse(wantLayout, text); err != nil {
			r.violate(violation{What: "printed timestamp does not parse with its layout", Input: input, Actual: err.Error()})
		} else if strings.Contains(wantLayout, "2006") && strings.Contains(wantLayout, "15") && strings.Contains(wantLayout, "07") {
			prec := time.Second
			switch {
			case strings.Contains(wantLayout, ".000000000") || strings.Contains(wantLayout, ".999999999"):
				prec = time.Nanosecond
			case strings.Contains(wantLayout, ".000000") || strings.Contains(wantLayout, ".999999"):
				prec = time.Microsecond
			case strings.Contains(wantLayout, ".000"):
				prec = time.Millisecond
			}
			if !p.Equal(t.Truncate(prec)) && year > 0 {
				r.violate(violation{What: "parsing the printed timestamp does not give back the instant", Input: input, Expected: t.Truncate(prec).Format(time.RFC3339Nano), Actual: p.Format(time.RFC3339Nano)})
			}
		}
		if i < 6 {
			r.sample(map[string]any{"case": input, "printed": text})
		}
	}
	childTimeSettings(r.violate)
	// machines in zones with daylight saving and with offsets that are not whole hours
	for _, tz := range []string{"Europe/Berlin", "America/New_York", "Asia/Kolkata", "Australia/Lord_Howe", "America/St_Johns"} {
		envProbe(r, false, "tz", "TZ="+tz)
	}
	slog.VerifResetGlobals()
}
