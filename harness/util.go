package main

import logslog "log/slog"

func logslogLevel(l int) logslog.Level { return logslog.Level(l) }
