package main

// C05 — logfmt. Byte-exact correspondence with the Lean encoder model, and an independent
// oracle: a logfmt tokenizer + strconv.Unquote that must give back the message and every attribute
// under its own (dotted) key with its exact value, wherever groups occur. Production mode only
// (the harness binary is not a test binary, so the error dump is off).

import (
	"errors"
	"fmt"
	"strconv"
	"strings"
	"time"

	"github.com/hedzr/logg/slog"
)

func init() { props["C05"] = runC05 }

type lfPair struct{ k, v string }

// lfTokenize splits a logfmt line into key=value pairs; values are bare tokens, quoted strings
// or bracketed lists. Several spaces may separate pairs.
func lfTokenize(s string) ([]lfPair, error) {
	var out []lfPair
	i := 0
	for i < len(s) {
		if s[i] == ' ' {
			i++
			continue
		}
		j := i
		for j < len(s) && s[j] != '=' && s[j] != ' ' {
			j++
		}
		if j >= len(s) || s[j] != '=' {
			return nil, fmt.Errorf("token without '=' at %d: %q", i, s[i:min(len(s), i+20)])
		}
		key := s[i:j]
		j++
		start := j
		switch {
		case j < len(s) && s[j] == '"':
			j++
			for j < len(s) && s[j] != '"' {
				if s[j] == '\\' {
					j++
				}
				j++
			}
			if j >= len(s) {
				return nil, fmt.Errorf("unterminated quote for key %q", key)
			}
			j++
		case j < len(s) && s[j] == '[':
			depth := 0
			inq := false
			for j < len(s) {
				c := s[j]
				if inq {
					if c == '\\' {
						j++
					} else if c == '"' {
						inq = false
					}
				} else if c == '"' {
					inq = true
				} else if c == '[' {
					depth++
				} else if c == ']' {
					depth--
					if depth == 0 {
						j++
						break
					}
				}
				j++
			}
		default:
			for j < len(s) && s[j] != ' ' {
				j++
			}
		}
		out = append(out, lfPair{key, s[start:j]})
		if j < len(s) && s[j] != ' ' {
			return nil, fmt.Errorf("no space between the value of %q and what follows: %q", key, s[start:min(len(s), j+12)])
		}
		i = j
	}
	return out, nil
}

// lfExpect flattens the effective attributes into dotted key → expected raw value text.
func lfExpect(prefix string, as []gattr, out *[]lfPair) {
	for _, a := range as {
		key := a.key
		if prefix != "" {
			key = prefix + "." + a.key
		}
		v := a.val
		switch v.kind {
		case "group":
			lfExpect(key, v.items, out)
		case "nil":
			*out = append(*out, lfPair{key, "<nil>"})
		case "string", "stringer", "duration", "error", "bytes", "level", "fallback", "textm":
			*out = append(*out, lfPair{key, "Q" + v.text})
		case "time", "tstamp":
			*out = append(*out, lfPair{key, "Q" + v.text})
		default:
			*out = append(*out, lfPair{key, "R"}) // raw / list: checked for being one token, content by the model correspondence
		}
	}
}

func runC05(r *run) {
	g := &rng{s: r.seed*179424673 + 5}
	slog.VerifResetGlobals()
	r.rule = "random records in logfmt mode (all value kinds, groups nested to depth 3 at every position, awkward bytes in messages and values, legal logfmt keys), caller on/off; distinct = distinct (value kinds present, group positions, message class); non-trivial = records with at least one awkward byte or one group"
	if slog.VerifErrorDumpActive() {
		r.violate(violation{What: "harness precondition: the error dump must be off (production mode)", Input: "C05 must run the non-test binary"})
	}
	n := 2500
	if r.tier == "thorough" {
		n = 40000
	}
	judge := func(c *encCase, i int) {
		// oracle
		if c.payload == nil {
			r.violate(violation{What: "a logfmt record was not delivered as one write", Input: encDescribe(c), Actual: c.writes})
			return
		}
		line := string(c.payload)
		blank := c.lvl == 8 && strings.Trim(c.msg, "\n\r \t") == ""
		if blank {
			if line != "\n" {
				r.violate(violation{What: "a blank Print is not a single newline", Input: encDescribe(c), Actual: line})
			}
			return
		}
		if strings.Count(line, "\n") != 1 || !strings.HasSuffix(line, "\n") {
			r.violate(violation{What: "a logfmt record is not exactly one line", Input: encDescribe(c), Actual: fmt.Sprintf("%q", line)})
			return
		}
		for _, ch := range []byte(line[:len(line)-1]) {
			if ch < 0x20 || ch == 0x7f {
				r.violate(violation{What: "a raw control byte reached the logfmt line", Input: encDescribe(c), Actual: fmt.Sprintf("%q", line)})
				break
			}
		}
		pairs, err := lfTokenize(line[:len(line)-1])
		if i%3 == 0 && len(line) < 1<<14 { // (the Lean reader is quadratic in the length of one value: long lines are left to the oracle)
			// the reader model of the proof (split at spaces outside quotes, then at the first '=') against this tokenizer
			obs := "err"
			if err == nil {
				var parts []string
				for _, p := range pairs {
					parts = append(parts, hxs(p.k)+":"+hxs(p.v))
				}
				obs = "ok " + strings.Join(parts, " ")
			}
			r.emit("Q tok "+hxs(line[:len(line)-1]), obs)
		}
		if err != nil {
			r.violate(violation{What: "the logfmt line does not tokenize", Input: encDescribe(c), Actual: err.Error() + " in " + fmt.Sprintf("%q", line)})
			return
		}
		var want []lfPair
		want = append(want, lfPair{"time", "Q" + c.tsText})
		if c.name != "" {
			want = append(want, lfPair{"logger", "Q" + c.name})
		}
		want = append(want, lfPair{"level", "Q" + slog.Level(c.lvl).String()}, lfPair{"msg", "Q" + c.msg})
		lfExpect("", effective(c.attrs), &want)
		if c.caller {
			want = append(want, lfPair{"caller.file", "Q"}, lfPair{"caller.line", "R"}, lfPair{"caller.function", "Q"})
		}
		ok := len(pairs) == len(want)
		detail := ""
		for j := 0; ok && j < len(want); j++ {
			if pairs[j].k != want[j].k {
				ok, detail = false, fmt.Sprintf("pair %d has key %q, want %q", j, pairs[j].k, want[j].k)
				break
			}
			switch {
			case strings.HasPrefix(want[j].v, "Q"):
				u, e := strconv.Unquote(pairs[j].v)
				if e != nil || u != want[j].v[1:] {
					ok, detail = false, fmt.Sprintf("value of %q is %s, want the quoted form of %q", want[j].k, pairs[j].v, want[j].v[1:])
				}
			case want[j].v == "<nil>":
				if pairs[j].v != "<nil>" {
					ok, detail = false, fmt.Sprintf("value of %q is %s, want <nil>", want[j].k, pairs[j].v)
				}
			}
		}
		if !ok {
			if detail == "" {
				detail = fmt.Sprintf("%d pairs, want %d", len(pairs), len(want))
			}
			r.violate(violation{What: "parsing the logfmt line does not give back what was logged: " + detail, Input: encDescribe(c), Actual: fmt.Sprintf("%q", line)})
		}
	}
	for i := 0; i < n; i++ {
		c := &encCase{format: "l", lvl: encLevels[g.intn(len(encLevels))], ts: g.encTime(), msg: g.encMessage(true, false),
			attrs: g.genAttrs(g.intn(9), 3, true, false), caller: g.chance(1, 4), tagW: 3, minW: 36}
		if i%16 == 7 {
			// a severity printed while still unregistered and registered afterwards
			v := 300 + i
			early := &encCase{format: "l", lvl: v, ts: g.encTime(), msg: "before the registration", tagW: 3, minW: 36, name: c.name}
			encRun(r, "C05", early)
			title := fmt.Sprintf("AUDIT-%d", i)
			if err := slog.RegisterLevel(slog.Level(v), title); err != nil {
				r.violate(violation{What: "harness: registration refused", Actual: err.Error()})
			}
			r.emit(fmt.Sprintf("C17 reg %d %s x x x x x x -1 -1 12 0", v, hxs(title)), "ok")
			c.lvl = v
		}
		if i%8 == 3 {
			// long lists with keys given more than once: the value given last is the pair's value
			c.attrs = append(c.attrs, g.genWideAttrs(false)...)
		}
		if g.chance(1, 8) {
			// a group member named like the reserved field: its full key (req.time) is an ordinary key
			t := time.Unix(int64(g.intn(2000000000)), int64(g.intn(1000000000))).In(time.FixedZone("", (g.intn(27)-12)*3600))
			leaf := gattr{key: "time", val: gval{kind: "time", goVal: t, tok: "T:" + hxs(t.Format(time.RFC3339Nano)), text: t.Format(time.RFC3339Nano)}}
			items := []gattr{leaf}
			if g.chance(1, 2) {
				items = []gattr{{key: "inner", isGroup: true, val: gval{kind: "group", items: []gattr{leaf}}}, {key: "n", val: gval{kind: "int", goVal: 1, tok: "I:1"}}}
			}
			c.attrs = append(c.attrs, gattr{key: "req", isGroup: true, val: gval{kind: "group", items: items}})
		}
		if g.chance(1, 8) {
			// attributes named like the built-in fields and holding any value that is not a time.Time are ordinary
			// attributes, at top level and inside groups
			var items []gattr
			for _, name := range []string{"time", "level", "msg", "logger"} {
				if g.chance(1, 2) {
					v := g.genScalar(true)
					for v.kind == "time" || v.kind == "times" {
						v = g.genScalar(true)
					}
					items = append(items, gattr{key: name, val: v})
				}
			}
			if g.chance(1, 2) {
				c.attrs = append(c.attrs, gattr{key: []string{"req", "g", "zz"}[g.intn(3)], isGroup: true, val: gval{kind: "group", items: items}})
			} else {
				c.attrs = append(c.attrs, items...)
			}
		} else if g.chance(1, 6) {
			// a top-level attribute named like the reserved field and holding a time.Time (printed like the record's
			// own timestamp); half of the time it is the last key in sort order
			t := time.Unix(int64(g.intn(2000000000)), int64(g.intn(1000000))*1000)
			tv := c09TimeAttr(t)
			tv.text = t.UTC().Format(encLayout)
			if g.chance(1, 2) {
				var keep []gattr
				for _, a := range c.attrs {
					if a.key < "time" {
						keep = append(keep, a)
					}
				}
				c.attrs = keep
			}
			c.attrs = append(c.attrs, gattr{key: "time", val: tv})
		}
		if g.chance(1, 2) {
			c.name = []string{"app", "my logger", "q\"uote"}[g.intn(3)]
		}
		if i%25 == 7 {
			// one group value shared between records, each time below another parent (and at another depth): its
			// members appear under the keys of the parent they were logged under
			leafG := gattr{key: "req", isGroup: true, val: gval{kind: "group", items: []gattr{{key: "id", val: gval{kind: "int", goVal: 7, tok: "I:7"}}, {key: "path", val: gval{kind: "string", goVal: "/x y", tok: "S:" + hxs("/x y"), text: "/x y"}}}}}
			shared := toAttrs([]gattr{leafG})[0]
			for _, parents := range [][]string{{"http"}, {"grpc"}, {"grpc", "inner"}, {}, {"http"}} {
				cur, curV := leafG, shared
				for k := len(parents) - 1; k >= 0; k-- {
					cur = gattr{key: parents[k], isGroup: true, val: gval{kind: "group", items: []gattr{cur}}}
					curV = slog.NewGroupedAttr(parents[k], curV)
				}
				sc := &encCase{format: "l", lvl: 4, ts: g.encTime(), msg: "shared group value", attrs: []gattr{cur}, built: slog.Attrs{curV}, tagW: 3, minW: 36}
				encRun(r, "C05", sc)
				judge(sc, i)
			}
		}
		if g.chance(1, 3) {
			// a record in another format right before: the pooled formatting context is shared by all loggers
			noise := &encCase{format: []string{"j", "c"}[g.intn(2)], lvl: 4, ts: g.encTime(), msg: g.encMessage(true, true),
				attrs: g.genAttrs(1+g.intn(4), 2, true, true), tagW: 3, minW: 36, name: "other"}
			encRun(r, "C05", noise)
		}
		if i%128 == 21 {
			// a record far longer than any line buffer
			big := strings.Repeat("0123456789abcdefghijklmnopqrstuvwxyz", 1900+i/128)
			c.attrs = append(c.attrs, gattr{key: "zzbig", val: gval{kind: "string", goVal: big, tok: "S:" + hxs(big), text: big}})
		}
		if i%10 == 4 {
			encPanicNoise([]string{"c", "l", "j"}[(i/10)%3])
		}
		if i%10 == 9 {
			encStringerNoise([]string{"l", "j", "c"}[(i/10)%3])
		}
		encRun(r, "C05", c)
		kinds := map[string]bool{}
		hasGroup, awkwardBytes := false, false
		var walk func(as []gattr, pos int)
		walk = func(as []gattr, pos int) {
			for _, a := range as {
				kinds[a.val.kind] = true
				if a.val.kind == "group" {
					hasGroup = true
					walk(a.val.items, pos+1)
				}
				for _, ch := range []byte(a.val.text) {
					if ch < 0x20 || ch >= 0x7f || ch == '"' || ch == '\\' {
						awkwardBytes = true
					}
				}
			}
		}
		walk(c.attrs, 0)
		for _, ch := range []byte(c.msg) {
			if ch < 0x20 || ch >= 0x7f || ch == '"' || ch == '\\' {
				awkwardBytes = true
			}
		}
		var ks []string
		for k := range kinds {
			ks = append(ks, k)
		}
		sortStrings(ks)
		key := ""
		if hasGroup || awkwardBytes {
			key = strings.Join(ks, ",") + fmt.Sprint(hasGroup, awkwardBytes, len(c.msg) > 0)
		}
		r.seen(key)
		for k := range kinds {
			r.count("kind=" + k)
		}
		judge(c, i)
		line := string(c.payload)
		if i < 4 {
			r.sample(map[string]any{"record": encDescribe(c), "line": line})
		}
	}
	// some logger of the process is set to the Debug level (which switches the process-wide debug mode on): in
	// production the records of every logger stay one line, error values included
	slog.New("c05dbg").SetLevel(slog.DebugLevel)
	for i := 0; i < 80; i++ {
		m := g.text(8, true)
		c := &encCase{format: "l", lvl: encLevels[g.intn(len(encLevels))], ts: g.encTime(), msg: g.encMessage(true, false),
			attrs: append(g.genAttrs(g.intn(4), 2, true, false), gattr{key: "err", val: gval{kind: "error", goVal: errors.New(m), tok: "E:" + hxs(m), text: m}}), caller: g.chance(1, 4), tagW: 3, minW: 36}
		encRun(r, "C05", c)
		judge(c, 1000+i)
	}
	// the quoting functions themselves, and the standard readers of their output
	nq := 1500
	if r.tier == "thorough" {
		nq = 30000
	}
	quoteProbes(r, g, false, nq)
	// the flag word given as an explicit combination of bits
	explicitFlagWords(r.violate)
	// a production process started with DEBUG=1, and one started without HOME: records stay one line each
	envProbe(r, false, "oneline", "DEBUG=1")
	envProbe(r, false, "oneline", "-HOME")
	slog.VerifResetGlobals()
}
