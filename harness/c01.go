package main

// C01 — level gating. Complete product (no sampling): logger levels × severities × debug
// mode phases × every public entry point, on three loggers (the default logger, a detached
// logger and a child). Observation: how many records reached the logger's recording writers
// and with which severity; Enabled() results.

import (
	"context"
	"errors"
	"fmt"
	"regexp"
	"sort"
	"strconv"

	"github.com/hedzr/is"
	"github.com/hedzr/logg/slog"
)

func init() { props["C01"] = runC01 }

type customLevel struct {
	v       int
	title   string
	treatAs int // -1000 = none
}

var c01Custom = []customLevel{
	{-3, "neg3", -1000}, {-21, "neginfo", 4}, {-6, "negwarn", 3}, {13, "thirteen", 4}, {17, "seventeen", 2}, {40, "forty", 0},
	{12, "atmax", 5}, {50, "asoff", 7}, {51, "asalways", 8}, {60, "aswarn", 3}, {61, "astrace", 6}, {62, "asmax", 12},
}

// admitsRef is the admission rule, written from the property statement (independent of
// both the library and the Lean model).
func admitsRef(debug bool, treat map[int]int, L, r int) bool {
	const off, always, dbg = 7, 8, 5
	if L == off || r == off {
		return false
	}
	if L == always || r == always {
		return true
	}
	if debug && r == dbg {
		return true
	}
	if t, ok := treat[r]; ok {
		r = t
	}
	return r <= L
}

// c01Broken is a destination that always fails.
type c01Broken struct{}

func (c01Broken) Write(p []byte) (int, error) { return 0, errors.New("c01: destination broken") }

var reLevelField = regexp.MustCompile(`level="([^"]*)"`)

func runC01(r *run) {
	slog.VerifResetGlobals()
	ctx := context.Background()
	r.rule = "complete product of logger level × severity × debug phase × entry point × logger; a case is (phase, logger, L, entry point, variant, severity argument); distinct = distinct (debug, treated-as(r), L, effective r, entry point) tuples; non-trivial = all (every cell exercises the gate)"

	// register the custom levels (successful registrations; refusals are C17's subject)
	treat := map[int]int{9: 4, 10: 4, 11: 2}
	names := map[string]int{}
	for _, c := range c01Custom {
		// a registration that is refused (the title is taken) leaves nothing behind: the value is registered
		// for real right afterwards, possibly with another treated-as level or none
		if err := slog.RegisterLevel(slog.Level(c.v), "info", slog.RegWithTreatedAsLevel(slog.ErrorLevel)); err == nil {
			fmt.Println("harness: C01 registration under a used title unexpectedly accepted")
		}
		var opts []slog.RegOpt
		tstr := "none"
		if c.treatAs != -1000 {
			opts = append(opts, slog.RegWithTreatedAsLevel(slog.Level(c.treatAs)))
			tstr = strconv.Itoa(c.treatAs)
		}
		err := slog.RegisterLevel(slog.Level(c.v), c.title, opts...)
		if err != nil {
			fmt.Println("harness: C01 registration unexpectedly refused:", err)
		}
		if c.treatAs != -1000 && c.treatAs < 12 {
			treat[c.v] = c.treatAs
		}
		_ = tstr
	}
	levels := []int{0, 1, 2, 3, 4, 5, 6, 7, 8, 9, 10, 11, 33, -7}
	for _, c := range c01Custom {
		levels = append(levels, c.v)
	}
	for _, lv := range levels {
		names[slog.Level(lv).String()] = lv
	}
	slogLevels := []int{-20, -16, -9, -8, -5, -4, -3, -2, -1, 0, 1, 2, 3, 4, 5, 6, 7, 8, 9, 12, 16, 17, 18, 20}

	// the three loggers and their recorders
	recs := []*recorder{{name: "default"}, {name: "detached"}, {name: "child"}}
	def := slog.Default()
	def.SetWriter(recs[0]).SetErrorWriter(recs[0])
	def.SetColorMode(false)
	det := slog.New("c01det")
	det.SetWriter(recs[1]).SetErrorWriter(recs[1])
	det.SetColorMode(false)
	child := det.New("c01child")
	child.SetWriter(recs[2]).SetErrorWriter(recs[2])
	child.SetColorMode(false)
	loggers := []slog.Logger{def, det, child}
	slog.SetFlags(slog.GetFlags() &^ slog.Lcaller)

	debug := is.DebugMode()
	initLv := make([]int, 3)
	for k, l := range loggers {
		initLv[k] = int(l.Level())
	}
	r.emit(fmt.Sprintf("C01 reset %s %d %d %d", b01(debug), initLv[0], initLv[1], initLv[2]), "ok")
	for _, c := range c01Custom {
		t := "none"
		if c.treatAs != -1000 {
			t = strconv.Itoa(c.treatAs)
		}
		r.emit(fmt.Sprintf("C01 reg %d %s", c.v, t), "ok")
	}

	epNames := func(m map[string]epCall) []string {
		var ns []string
		for n := range m {
			ns = append(ns, n)
		}
		sort.Strings(ns)
		return ns
	}
	lNames, pNames := epNames(loggerEPs), epNames(pkgEPs)
	// the model must know exactly these entry points
	r.emit("C01 eps", "l:"+fmt.Sprint(lNames)+" p:"+fmt.Sprint(pNames))

	drain := func() {
		for _, rc := range recs {
			rc.take()
		}
	}
	// one call: returns the observation "n sev" (n records on the logger's own recorder)
	call := func(k int, recvPkg bool, name string, arg, variant int, L int, expectSev int) {
		drain()
		var f epCall
		recv := "l"
		if recvPkg {
			f, recv = pkgEPs[name], "p"
		} else {
			f = loggerEPs[name]
		}
		func() {
			defer func() {
				if rec := recover(); rec != nil {
					r.violate(violation{What: "entry point panicked", Input: fmt.Sprint(recv, ":", name, " L=", L, " arg=", arg), Actual: fmt.Sprint(rec)})
				}
			}()
			f(loggers[k], ctx, arg, variant, "probe", nil)
		}()
		n, sev, stray := 0, -999, 0
		for j, rc := range recs {
			w := rc.take()
			if j == k {
				n = len(w)
				if n > 0 {
					if m := reLevelField.FindSubmatch(w[0]); m != nil {
						if v, ok := names[string(m[1])]; ok {
							sev = v
						}
					} else if string(w[0]) == "\n" {
						sev = 8
					}
				}
			} else {
				stray += len(w)
			}
		}
		obs := strconv.Itoa(n)
		if n > 0 {
			obs += " " + strconv.Itoa(sev)
		}
		r.emit(fmt.Sprintf("C01 call %s %s %d %d %d", recv, name, k, arg, variant), obs)
		// oracle
		isVerbose := baseVerb(name) == "Verbose"
		want := 0
		if !isVerbose && admitsRef(debug, treat, L, expectSev) {
			want = 1
		}
		eff := expectSev
		if t, ok := treat[expectSev]; ok {
			eff = t
		}
		r.seen(fmt.Sprintf("%v|%d|%d|%s%s", debug, L, eff, recv, name))
		r.count("admitted=" + b01(want == 1))
		if n != want || stray != 0 || (n == 1 && sev != expectSev) {
			r.violate(violation{What: "gating differs from the admission rule",
				Input:    map[string]any{"logger": recs[k].name, "logger_level": L, "entry_point": recv + ":" + name, "level_arg": arg, "variant": variant, "severity": expectSev, "debug_mode": debug},
				Expected: map[string]any{"records": want, "severity": expectSev},
				Actual:   map[string]any{"records": n, "severity": sev, "records_on_other_loggers": stray}})
		}
		if r.evals%997 == 1 {
			r.sample(map[string]any{"logger": recs[k].name, "L": L, "ep": recv + ":" + name, "arg": arg, "debug": debug, "records": n})
		}
	}

	slog2lv := func(l int) int { return int(slog.VerifLogslogToLevel(logslogLevel(l))) }

	product := func(phase string, Ls []int) {
		for k := range loggers {
			for _, L := range Ls {
				// set the level through the public API; note the side effect on debug mode
				if k == 0 && L%3 == 2 {
					// the package level was switched off earlier; the default logger is then levelled on its own: the
					// package-level functions act on the default logger
					slog.SetLevel(slog.OffLevel)
					loggers[k].SetLevel(slog.Level(L))
				} else if k == 0 && L%2 == 0 {
					slog.SetLevel(slog.Level(L)) // package-level: also the default logger
				} else if k == 0 {
					slog.SetLevel(slog.InfoLevel) // the package level and the default logger's own level differ
					loggers[k].SetLevel(slog.Level(L))
				} else {
					loggers[k].SetLevel(slog.Level(L))
				}
				if L == 5 {
					debug = true
				}
				r.emit(fmt.Sprintf("C01 setlevel %d %d", k, L), "ok")
				if got := is.DebugMode(); got != debug {
					r.violate(violation{What: "debug mode differs from the history", Input: phase, Expected: debug, Actual: got})
					debug = got
				}
				// Enabled / EnabledContext
				for _, q := range levels {
					got := loggers[k].Enabled(slog.Level(q))
					got2 := loggers[k].EnabledContext(ctx, slog.Level(q))
					r.emit(fmt.Sprintf("C01 enabled %d %d", k, q), b01(got))
					want := admitsRef(debug, treat, L, q)
					r.seen(fmt.Sprintf("%v|%d|%d|enabled", debug, L, q))
					if got != want || got2 != want {
						r.violate(violation{What: "Enabled differs from the admission rule",
							Input: map[string]any{"logger_level": L, "severity": q, "debug_mode": debug}, Expected: want, Actual: []bool{got, got2}})
					}
				}
				for _, name := range lNames {
					base := baseVerb(name)
					switch {
					case name == "LogAttrs" || name == "Logit":
						for _, q := range levels {
							call(k, false, name, q, 0, L, q)
						}
					case name == "Log":
						for _, q := range slogLevels {
							sv := slog2lv(q)
							// from the statement, independently of the library's table: a log/slog level that is none of
							// the named constants counts as the nearest standard level below it
							named := map[int]bool{-16: true, -8: true, -4: true, 0: true, 2: true, 3: true, 4: true, 8: true, 16: true, 17: true}
							if !named[q] {
								ref := 2
								switch {
								case q < 0:
									ref = 5
								case q < 4:
									ref = 4
								case q < 8:
									ref = 3
								}
								if sv != ref {
									r.violate(violation{What: "Log maps a log/slog level to another severity than the nearest standard level below it",
										Input: map[string]any{"logslog_level": q}, Expected: ref, Actual: sv})
								}
							}
							call(k, false, name, q, 0, L, sv)
						}
					case base == "Verbose":
						call(k, false, name, 0, 0, L, 6)
					case name == "Println":
						call(k, false, name, 0, 0, L, 8)
						call(k, false, name, 0, 1, L, 8)
					default:
						call(k, false, name, 0, 0, L, fixedSeverity[base])
					}
				}
				if k == 0 {
					for _, name := range pNames {
						base := baseVerb(name)
						switch {
						case base == "Verbose":
							call(k, true, name, 0, 0, L, 6)
						case name == "Println":
							call(k, true, name, 0, 0, L, 8)
							call(k, true, name, 0, 1, L, 8)
						default:
							call(k, true, name, 0, 0, L, fixedSeverity[base])
						}
					}
				}
			}
		}
	}

	var noDebug []int
	for _, L := range levels {
		if L != 5 {
			noDebug = append(noDebug, L)
		}
	}
	if r.tier == "quick" {
		// quick: every logger level once per phase, still the whole entry-point × severity product
		product("debug-off", noDebug)
		product("debug-switched-on-by-SetLevel", []int{5, 3, 6, 0, 7, 8, 13})
		slog.VerifSetDebugMode(false)
		debug = false
		r.emit("C01 setdebug 0", "ok")
		product("debug-off-again", []int{3, 5, 4})
	} else {
		product("debug-off", noDebug)
		product("debug-switched-on-by-SetLevel", append([]int{5}, noDebug...))
		slog.VerifSetDebugMode(false)
		debug = false
		r.emit("C01 setdebug 0", "ok")
		product("debug-off-again", noDebug)
		product("debug-on-again", levels)
	}
	// what the library itself says about a failing destination is a warning of that logger like any other: a logger whose
	// level does not admit warnings says nothing
	for _, format := range []string{"l", "j", "c"} {
		for _, L := range []int{0, 1, 2, 3, 4, 7} {
			errRec := &recorder{}
			fl := slog.New(fmt.Sprintf("c01failing-%s-%d", format, L)).SetWriter(c01Broken{}).SetErrorWriter(errRec).SetLevel(slog.Level(L))
			switch format {
			case "j":
				fl.SetJSONMode(true)
			case "l":
				fl.SetColorMode(false)
			}
			fl.Print("a record for a destination that fails") // Always severity: admitted unless the logger is Off
			w := errRec.take()
			want := 0
			if admitsRef(false, treat, L, 3) && L != 7 {
				want = 1
			}
			r.seen(fmt.Sprintf("failing-destination|%s|%d", format, L))
			if len(w) != want {
				r.violate(violation{What: "gating differs from the admission rule for the warning the library writes about a failing destination",
					Input:    map[string]any{"logger_level": L, "format": format, "call": "Print(...) with a normal writer that returns an error; error writer healthy"},
					Expected: map[string]any{"warning_records_on_the_error_writer": want}, Actual: map[string]any{"records": len(w), "first": fmt.Sprintf("%q", w)}})
			}
		}
	}
	r.extra["exhaustive"] = true
	r.extra["loggers"] = 3
	r.extra["levels"] = levels
	slog.VerifResetGlobals()
	// the application replaces the states holder of the is package after start-up
	envProbe(r, false, "states")
	envProbe(r, true, "states")
}
