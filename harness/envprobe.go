package main

// Environment probes: small oracle-only scenarios that run in a fresh child process of the harness started in an
// environment other than the one the checks themselves run in (locale, NO_COLOR, DEBUG, no HOME, a time zone with
// daylight saving or a half-hour offset) or after the application has replaced process-wide state. The properties do
// not mention the environment: they hold in every one. Each probe prints VIOL lines (the format mergeChild reads).

import (
	"bufio"
	"bytes"
	"context"
	"encoding/json"
	"errors"
	"fmt"
	logslog "log/slog"
	"os"
	"os/exec"
	"path/filepath"
	"strings"
	"time"
	_ "time/tzdata" // the probes choose their zone with TZ: no zone database is needed on the machine

	"github.com/hedzr/is"
	"github.com/hedzr/is/states"
	"github.com/hedzr/logg/slog"
)

func init() { childModes["envprobe"] = envProbeChild }

// envProbe runs one probe in a child process (production flavour unless testFlavour) with env changes: "K=V" sets,
// "-K" removes.
func envProbe(r *run, testFlavour bool, probe string, changes ...string) {
	exe := os.Getenv("VERIF_HARNESS")
	if exe == "" {
		return
	}
	var cmd *exec.Cmd
	if testFlavour {
		cmd = exec.Command(exe+".test", "-test.v", "envprobe", probe, strings.Join(changes, " "))
	} else {
		cmd = exec.Command(exe, "envprobe", probe, strings.Join(changes, " "))
	}
	var env []string
	for _, kv := range os.Environ() {
		keep := true
		for _, c := range changes {
			name := strings.TrimPrefix(strings.SplitN(c, "=", 2)[0], "-")
			if strings.HasPrefix(kv, name+"=") {
				keep = false
			}
		}
		if keep {
			env = append(env, kv)
		}
	}
	for _, c := range changes {
		if !strings.HasPrefix(c, "-") {
			env = append(env, c)
		}
	}
	cmd.Env = env
	before := len(r.violations)
	if probe == "fullstdout" {
		// the child's standard output is a device that refuses every write
		full, ferr := os.OpenFile("/dev/full", os.O_WRONLY, 0)
		if ferr != nil {
			return
		}
		defer full.Close()
		rep := filepath.Join(r.dir, "probe-fullstdout.txt")
		os.Remove(rep)
		cmd.Env = append(cmd.Env, "VERIF_PROBE_OUT="+rep)
		cmd.Stdout, cmd.Stderr = full, nil
		runErr := cmd.Run()
		b, _ := os.ReadFile(rep)
		for _, line := range strings.Split(string(b), "\n") {
			if strings.HasPrefix(line, "VIOL\t") {
				var v violation
				if json.Unmarshal([]byte(line[5:]), &v) == nil {
					r.violate(v)
				}
			}
		}
		r.seen("envprobe|" + probe)
		if runErr != nil && len(r.violations) == before {
			r.violate(violation{What: "a fresh process whose standard output refuses writes ended abnormally: " + runErr.Error(), Input: map[string]any{"probe": probe}})
		}
		return
	}
	err := r.mergeChild(cmd)
	r.seen("envprobe|" + probe + "|" + strings.Join(changes, " "))
	if err != nil && len(r.violations) == before {
		r.violate(violation{What: "a fresh process in another environment ended abnormally: " + err.Error(),
			Input: map[string]any{"probe": probe, "environment": changes, "go_test_mode": testFlavour}})
	}
}

type probeEnv struct {
	states.CmdrMinimal
	debug bool
}

func (e *probeEnv) GetDebugMode() bool  { return e.debug }
func (e *probeEnv) SetDebugMode(b bool) { e.debug = b }

func slogRecord(t time.Time, msg string) logslog.Record {
	return logslog.NewRecord(t, logslog.LevelInfo, msg, 0)
}

func envProbeChild(a []string) {
	var w *bufio.Writer
	if f := os.Getenv("VERIF_PROBE_OUT"); f != "" {
		// the probe's own stdout is part of the scenario (it refuses writes): report through a file
		out, err := os.Create(f)
		if err != nil {
			os.Exit(5)
		}
		defer out.Close()
		w = bufio.NewWriter(out)
	} else {
		w = bufio.NewWriter(os.Stdout)
	}
	defer w.Flush()
	probe, envDesc := "", ""
	if len(a) > 0 {
		probe = a[0]
	}
	if len(a) > 1 {
		envDesc = a[1]
	}
	viol := func(what string, in map[string]any, exp, act any) {
		if in == nil {
			in = map[string]any{}
		}
		in["process"] = "a fresh process started with: " + envDesc
		in["probe"] = "harness envprobe " + probe
		b, _ := json.Marshal(violation{What: what, Input: in, Expected: exp, Actual: act})
		fmt.Fprintf(w, "VIOL\t%s\n", b)
	}
	defer func() {
		if p := recover(); p != nil {
			viol("a library call that must not panic panicked", nil, nil, fmt.Sprint(p))
		}
	}()
	ctx := context.Background()
	switch probe {
	case "dur": // C20: the formatter's text parses back, both styles
		vals := []int64{0, 1, 999, 1000, 1500, 13000, 250000, 999999, 1000000, 1001000, 11_000_013_000, 86_400_000_001_000, -250000, -1500, -1, 3_600_000_000_000 + 7000}
		for i := int64(1); i < 400; i++ {
			vals = append(vals, i*i*i*7919%2_000_000, -(i * 104729 % 1_000_000_000))
		}
		for _, v := range vals {
			for _, frac := range []bool{false, true} {
				text := slog.VerifShortDur(time.Duration(v), frac)
				back, err := slog.VerifParseDuration(text)
				if err != nil || int64(back) != v {
					viol("parsing the formatted duration does not give back the duration", map[string]any{"duration_ns": v, "fractional_style": frac, "text": fmt.Sprintf("%q", text)}, v, fmt.Sprint(int64(back), " ", err))
					break
				}
			}
		}
	case "color": // C11 / C06: colored loggers stay colored and clean
		for _, lvl := range []slog.Level{slog.InfoLevel, slog.WarnLevel, slog.OKLevel, slog.FailLevel, slog.AlwaysLevel, slog.TraceLevel} {
			rc := &recorder{}
			l := slog.New("np").SetLevel(slog.AlwaysLevel).SetWriter(rc).SetErrorWriter(rc)
			l.SetColorMode(true)
			l.Logit(ctx, lvl, "probe\nsecond line\nthird line\nfourth", "k", 1)
			ws := rc.take()
			shape := "none"
			if len(ws) == 1 {
				shape = classify(ws[0])
			}
			if j, c := l.JSONMode(), l.ColorMode(); shape != "color" || j || !c {
				viol("format differs from the three-state machine", map[string]any{"sequence": []string{"c1"}, "severity": lvl.String()}, "color", map[string]any{"JSONMode": j, "ColorMode": c, "record_shape": shape})
			}
			if len(ws) == 1 {
				if d := sgrCheck(ws[0]); d != "" {
					viol("colour hygiene: "+d, map[string]any{"severity": lvl.String(), "message": "four lines"}, nil, fmt.Sprintf("%q", ws[0]))
				}
			}
			for _, m := range []string{"j", "c0"} {
				l2 := slog.New("np2").SetLevel(slog.InfoLevel).SetWriter(rc).SetErrorWriter(rc)
				want := "json"
				if m == "j" {
					l2.SetJSONMode(true)
				} else {
					l2.SetColorMode(false)
					want = "logfmt"
				}
				l2.Info("probe", "k", 1)
				if ws := rc.take(); len(ws) != 1 || classify(ws[0]) != want {
					viol("format differs from the three-state machine", map[string]any{"sequence": []string{m}}, want, fmt.Sprintf("%q", ws))
				}
			}
		}
	case "buf": // C19: the buffer API behaves like bytes.Buffer
		pc, bb := slog.NewPrintCtx(nil), &bytes.Buffer{}
		pc.WriteString("état des lieux, and some more text to move around")
		bb.WriteString("état des lieux, and some more text to move around")
		r1, n1, e1 := pc.ReadRune()
		r2, n2, e2 := bb.ReadRune()
		pc.Grow(4096)
		bb.Grow(4096)
		u1, u2 := pc.UnreadRune(), bb.UnreadRune()
		if r1 != r2 || n1 != n2 || (e1 == nil) != (e2 == nil) || (u1 == nil) != (u2 == nil) || pc.String() != bb.String() || pc.Len() != bb.Len() {
			viol("PrintCtx and bytes.Buffer differ after the same operation sequence", map[string]any{"operations": "WriteString; ReadRune; Grow(4096); UnreadRune; String; Len"},
				fmt.Sprint(r2, n2, e2, u2, " ", bb.Len()), fmt.Sprint(r1, n1, e1, u1, " ", pc.Len()))
		}
		for _, seq := range [][]string{{"readbyte", "grow", "unreadbyte"}, {"readrune", "grow", "unreadbyte"}, {"read3", "grow", "unreadrune"}, {"readstring", "unreadbyte", "grow", "unreadbyte"}} {
			pc, bb := slog.NewPrintCtx(nil), &bytes.Buffer{}
			pc.WriteString("hello, wörld\nnext")
			bb.WriteString("hello, wörld\nnext")
			var t1, t2 []string
			for _, op := range seq {
				switch op {
				case "readbyte":
					b1, x1 := pc.ReadByte()
					b2, x2 := bb.ReadByte()
					t1, t2 = append(t1, fmt.Sprint(b1, x1)), append(t2, fmt.Sprint(b2, x2))
				case "readrune":
					a1, b1, x1 := pc.ReadRune()
					a2, b2, x2 := bb.ReadRune()
					t1, t2 = append(t1, fmt.Sprint(a1, b1, x1)), append(t2, fmt.Sprint(a2, b2, x2))
				case "read3":
					p1, p2 := make([]byte, 3), make([]byte, 3)
					a1, x1 := pc.Read(p1)
					a2, x2 := bb.Read(p2)
					t1, t2 = append(t1, fmt.Sprint(a1, x1, p1)), append(t2, fmt.Sprint(a2, x2, p2))
				case "readstring":
					s1, x1 := pc.ReadString('\n')
					s2, x2 := bb.ReadString('\n')
					t1, t2 = append(t1, fmt.Sprint(s1, x1)), append(t2, fmt.Sprint(s2, x2))
				case "grow":
					pc.Grow(8192)
					bb.Grow(8192)
				case "unreadbyte":
					t1, t2 = append(t1, fmt.Sprint(pc.UnreadByte() == nil)), append(t2, fmt.Sprint(bb.UnreadByte() == nil))
				case "unreadrune":
					t1, t2 = append(t1, fmt.Sprint(pc.UnreadRune() == nil)), append(t2, fmt.Sprint(bb.UnreadRune() == nil))
				}
			}
			t1, t2 = append(t1, pc.String()), append(t2, bb.String())
			if fmt.Sprint(t1) != fmt.Sprint(t2) {
				viol("PrintCtx and bytes.Buffer differ after the same operation sequence", map[string]any{"operations": seq}, fmt.Sprint(t2), fmt.Sprint(t1))
			}
		}
	case "oneline": // C05 / C02 / C04: records stay one line, calls return, whatever the environment
		for _, format := range []string{"l", "j", "c"} {
			rc := &recorder{}
			l := slog.New("ol").SetLevel(slog.InfoLevel).SetWriter(rc).SetErrorWriter(rc)
			setFormat(l, format)
			l.Info("first", "k", 1)
			l.Warn("with an error", "err", errors.New("disk full\nlevel=\"error\" msg=\"forged\""), "n", 2)
			l.Info("third", "user", "alice")
			ws := rc.take()
			if len(ws) != 3 {
				viol("three admitted calls, other than three payloads", map[string]any{"format": format}, 3, len(ws))
				continue
			}
			for k, p := range ws {
				if len(p) == 0 || p[len(p)-1] != '\n' {
					viol("a Write payload does not end with a newline", map[string]any{"format": format, "record": k + 1}, nil, fmt.Sprintf("%q", p))
				}
				if format != "c" && !slog.VerifInTesting() && bytes.Count(p, []byte{'\n'}) != 1 { // (under go test an error value is followed by a dump)
					viol("a record is not exactly one line", map[string]any{"format": format, "record": k + 1, "call": `Warn("with an error", "err", errors.New("disk full\nlevel=\"error\" msg=\"forged\""), "n", 2)`}, nil, fmt.Sprintf("%q", p))
				}
				if format == "j" && !json.Valid(bytes.TrimSpace(p)) {
					viol("the record is not valid JSON", map[string]any{"record": k + 1}, nil, fmt.Sprintf("%q", p))
				}
			}
		}
	case "tz": // C16 / C04 / C15: the printed timestamp is the record's instant, whatever zone the machine is in
		zone := time.Local
		insts := []time.Time{
			time.Date(2024, 1, 15, 12, 0, 0, 250_000_000, zone), time.Date(2024, 7, 15, 12, 0, 0, 250_000_000, zone),
			time.Date(2024, 3, 31, 0, 30, 0, 0, zone), time.Date(2024, 10, 27, 4, 30, 0, 123_456_000, zone), time.Now().Truncate(time.Microsecond),
			time.Date(2024, 7, 15, 12, 0, 0, 0, time.UTC), time.Date(2024, 1, 15, 12, 0, 0, 0, time.FixedZone("X", 5*3600+1800)),
		}
		for _, format := range []string{"json", "logfmt", "color"} {
			for _, mode := range []string{"local", "utc", "unset"} {
				slog.VerifResetGlobals()
				slog.SetFlags((slog.LstdFlags &^ slog.Lcaller) | slog.LnoInterrupt)
				rc := &recorder{}
				l := slog.New("tz").SetLevel(slog.InfoLevel).SetWriter(rc).SetErrorWriter(rc)
				switch format {
				case "json":
					l.SetJSONMode(true)
				case "logfmt":
					l.SetColorMode(false)
				default:
					l.SetColorMode(true)
				}
				switch mode {
				case "local":
					l.SetUTCMode(false)
				case "utc":
					l.SetUTCMode(true)
				}
				h := slog.NewSlogHandler(l, &slog.HandlerOptions{JSON: format == "json", NoColor: format == "logfmt", NoSource: true})
				for k, t := range insts {
					var ws [][]byte
					if k%2 == 0 {
						l.WriteThru(ctx, slog.InfoLevel, t, 0, "tz-probe", nil)
					} else {
						_ = h.Handle(ctx, slogRecord(t, "tz-probe"))
					}
					ws = rc.take()
					want := t
					if mode == "utc" {
						want = t.UTC()
					}
					wantText := want.Format("15:04:05.000000Z07:00")
					got, ok := "", false
					if len(ws) == 1 {
						got, ok = c16TimeText(format, ws[0])
					}
					if !ok || got != wantText {
						viol("timestamp differs from the instant in the configured zone and layout", map[string]any{"format": format, "zone_mode": mode, "instant": t.Format(time.RFC3339Nano), "through": []string{"WriteThru", "log/slog handler"}[k%2]}, wantText, fmt.Sprintf("%q %q", got, ws))
					}
				}
			}
		}
	case "paths": // C18: a mapping registered before the process ever looked at a path
		slog.AddKnownPathMapping("/srv/customers/acme-corp", "~acme")
		slog.AddKnownPathMapping("/opt/build/ws-7f3a", "~ws")
		home, _ := slog.VerifHomeCwd()
		for p, want := range map[string]string{"/srv/customers/acme-corp/billing/invoice.go": "~acme/billing/invoice.go", "/opt/build/ws-7f3a/src/app/main.go": "~ws/src/app/main.go", home + "/proj/cmd/main.go": "~/proj/cmd/main.go"} {
			if home == "" && strings.HasPrefix(want, "~/") {
				continue
			}
			if got := slog.Safety(p); got != want {
				viol("a path under a registered mapping is reported with that directory prefix", map[string]any{"history": "AddKnownPathMapping(\"/srv/customers/acme-corp\", \"~acme\"); AddKnownPathMapping(\"/opt/build/ws-7f3a\", \"~ws\") as the first calls of the process", "path": p}, want, got)
			}
		}
		if got := slog.SafetyFiles([]string{"/srv/customers/acme-corp/a.go"}); len(got) != 1 || got[0] != "~acme/a.go" {
			viol("a path under a registered mapping is reported with that directory prefix (SafetyFiles)", map[string]any{"path": "/srv/customers/acme-corp/a.go"}, "~acme/a.go", fmt.Sprint(got))
		}
	case "fullstdout": // C13: the process's standard output refuses writes, and the logger is configured after its first record
		l := slog.New("early").SetLevel(slog.InfoLevel).SetColorMode(false)
		l.Info("a line before the logger has destinations of its own") // goes to the package default: fails
		errlog, good := &recorder{}, &recorder{}
		l.SetErrorWriter(errlog)
		l.SetWriter(&brokenW{}).AddWriter(good)
		l.Info("after-the-configuration.")
		if msg := wholeOnce(good.take(), "after-the-configuration."); msg != "" {
			viol("a healthy destination next to a failing one did not receive the record once: "+msg, nil, nil, nil)
		}
		diag := 0
		for _, p := range errlog.take() {
			if strings.Contains(string(p), "failed") {
				diag++
			}
		}
		if diag != 1 {
			viol("the diagnostic for a failing destination was not sent (once) to the warning destinations of the logger", map[string]any{"history": "standard output refuses writes; l := New(…); l.Info(…) before any writer call; l.SetErrorWriter(e); l.SetWriter(broken).AddWriter(good); l.Info(…)"}, 1, diag)
		}
		l.SetWriter(good)
		l.Info("recovered.")
		if msg := wholeOnce(good.take(), "recovered."); msg != "" || len(errlog.take()) != 0 {
			viol("after the failing destination was replaced records are not delivered normally", nil, nil, msg)
		}
	case "states": // C01: the application installs its own states holder; debug mode is what the is package says it is
		rc := &recorder{}
		l := slog.New("st").SetLevel(slog.WarnLevel).SetColorMode(false).SetWriter(rc).SetErrorWriter(rc)
		is.SetDebugMode(false)
		app := &probeEnv{CmdrMinimal: states.Env()}
		is.UpdateEnvWith(app)
		for _, on := range []bool{false, true, false} {
			is.SetDebugMode(on)
			rc.take()
			l.Debug("dbg-probe")
			l.DebugContext(ctx, "dbg-probe")
			slog.SetDefault(l)
			slog.Debug("dbg-probe")
			got := len(rc.take())
			en := l.Enabled(slog.DebugLevel)
			if is.DebugMode() != on {
				continue // the replacement did not take: nothing to compare against
			}
			if (got == 3) != on || en != on {
				viol("gating differs from the admission rule: Debug is admitted by a Warn logger exactly while the process-wide debug mode is on", map[string]any{"history": "is.UpdateEnvWith(the application's own holder); is.SetDebugMode(" + fmt.Sprint(on) + ")", "logger_level": "warning", "calls": "l.Debug; l.DebugContext; slog.Debug (default logger = l)"},
					map[string]any{"records": map[bool]int{true: 3, false: 0}[on], "Enabled(Debug)": on}, map[string]any{"records": got, "Enabled(Debug)": en})
			}
		}
	}
}
