package main

// C10 — logger hierarchy. Random histories of New(name|anonymous, options…), With…/Set…
// (level, JSON/colour mode, UTC mode, time format, attrs, skip, context keys, writers), WithSkip
// and package-level New over a growing forest (the default logger's subtree included); after every
// operation every logger is observed through its public getters and a probe record, and Parent /
// Root / Each / Sublogger are compared with the creation history.

import (
	"fmt"
	"os"
	"os/exec"
	"regexp"
	"sort"
	"strconv"
	"strings"

	"github.com/hedzr/logg/slog"
)

func init() {
	props["C10"] = runC10
	childModes["c10env"] = func(a []string) {
		// a fresh production process: the package level and the level a detached logger starts at
		fmt.Printf("LEVELS %d %d %d\n", int(slog.GetLevel()), int(slog.New("c10env").Level()), int(slog.Default().Level()))
	}
}

// c10Env: the package default level of a production process is Warn unless the environment asks for debugging in so many
// words (DEBUG=1 / true / yes / on); every spelling of "no" - and an empty value - leaves it at Warn.
func c10Env(r *run) {
	exe := os.Getenv("VERIF_HARNESS")
	if exe == "" {
		return
	}
	for _, c := range []struct {
		set  bool
		val  string
		want int
	}{{false, "", 3}, {true, "", 3}, {true, "0", 3}, {true, "false", 3}, {true, "off", 3}, {true, "no", 3}, {true, "n", 3}, {true, "disabled", 3},
		{true, "1", 5}, {true, "true", 5}, {true, "yes", 5}, {true, "on", 5}} {
		cmd := exec.Command(exe, "c10env")
		var env []string
		for _, kv := range os.Environ() {
			if !strings.HasPrefix(kv, "DEBUG=") {
				env = append(env, kv)
			}
		}
		if c.set {
			env = append(env, "DEBUG="+c.val)
		}
		cmd.Env = env
		out, _ := cmd.CombinedOutput()
		var pkg, det, def int
		ok := false
		for _, line := range strings.Split(string(out), "\n") {
			if n, _ := fmt.Sscanf(line, "LEVELS %d %d %d", &pkg, &det, &def); n == 3 {
				ok = true
			}
		}
		r.seen(fmt.Sprintf("env|%v|%s", c.set, c.val))
		if !ok || pkg != c.want || det != c.want || def != c.want {
			r.violate(violation{What: "a detached logger of a fresh production process does not start at the package default level the environment implies",
				Input:    map[string]any{"DEBUG_set": c.set, "DEBUG": c.val, "process": "production binary (not go test)"},
				Expected: fmt.Sprintf("package level, New(...).Level() and Default().Level() all %d", c.want), Actual: strings.TrimSpace(string(out))})
		}
	}
}

type c10Logger struct {
	l      slog.Logger
	e      *slog.Entry
	parent int // -1 = none
	depthP int
	spec   int // the format by the statement's three-state machine (0 json, 1 color, 2 logfmt), kept by this harness alone
}

var reKid = regexp.MustCompile(`k(\d+)["]?[=:]`)

// c10WriterIsolation: a logger that was given another logger's writer list (the list GetWriter /
// GetWriterBy return) keeps what it was given: later Add/Remove calls on either logger reach the
// other's destinations in no way. Decided from the statement, no model involved.
type c10cnt struct {
	id int
	n  *[12]int
}

func (c c10cnt) Write(p []byte) (int, error) { c.n[c.id]++; return len(p), nil }

func c10WriterIsolation(r *run, g *rng) {
	for round := 0; round < 24; round++ {
		var n [12]int
		w := func(i int) c10cnt { return c10cnt{i, &n} }
		errSide := g.chance(1, 2)
		lvl := slog.InfoLevel
		if errSide {
			lvl = slog.ErrorLevel
		}
		a := slog.New(fmt.Sprintf("iso-a-%d", round)).SetLevel(slog.InfoLevel)
		k := 2 + g.intn(2)
		if round%4 == 3 {
			k = 1 // a list of exactly one destination is handed over; its owner then removes that destination and adds another
		}
		own := map[int]bool{}
		for i := 0; i < k; i++ {
			own[i] = true
			switch {
			case errSide && i == 0:
				a.SetErrorWriter(w(i))
			case errSide:
				a.AddErrorWriter(w(i))
			case i == 0:
				a.SetWriter(w(i))
			default:
				a.AddWriter(w(i))
			}
		}
		var b slog.Logger = slog.New(fmt.Sprintf("iso-b-%d", round))
		if g.chance(1, 2) {
			b = a.New("child")
		}
		b.SetLevel(slog.InfoLevel)
		given := a.GetWriterBy(lvl)
		if errSide {
			b.SetErrorWriter(given)
		} else {
			b.SetWriter(given)
		}
		snapshot := map[int]bool{}
		for i := range own {
			snapshot[i] = true
		}
		var hist []string
		for step := 0; step < 3; step++ {
			id := 4 + step*2
			choice := g.intn(3)
			if k == 1 {
				choice = []int{2, 0, 1}[step]
			}
			switch choice {
			case 0:
				if errSide {
					a.AddErrorWriter(w(id))
				} else {
					a.AddWriter(w(id))
				}
				own[id] = true
				hist = append(hist, fmt.Sprintf("a.Add(%d)", id))
			case 1:
				if errSide {
					b.AddErrorWriter(w(id + 1))
				} else {
					b.AddWriter(w(id + 1))
				}
				snapshot[id+1] = true
				hist = append(hist, fmt.Sprintf("b.Add(%d)", id+1))
			default:
				victim := g.intn(k)
				if errSide {
					a.RemoveErrorWriter(w(victim))
				} else {
					a.RemoveWriter(w(victim))
				}
				delete(own, victim)
				hist = append(hist, fmt.Sprintf("a.Remove(%d)", victim))
			}
		}
		probe := func(l slog.Logger, want map[int]bool, who string) {
			n = [12]int{}
			if errSide {
				l.Error("probe")
			} else {
				l.Info("probe")
			}
			for i := 0; i < 12; i++ {
				exp := 0
				if want[i] {
					exp = 1
				}
				if n[i] != exp {
					r.violate(violation{What: "an operation on one logger changed the writers of another logger",
						Input: map[string]any{"setup": fmt.Sprintf("a has %d %s writers 0..%d; b was given a.GetWriterBy(%v)", k, map[bool]string{true: "error", false: "normal"}[errSide], k-1, lvl),
							"history": hist, "probed": who},
						Expected: fmt.Sprintf("writer %d receives %d record(s)", i, exp), Actual: fmt.Sprintf("%d (all: %v)", n[i], n)})
					return
				}
			}
		}
		probe(a, own, "a")
		probe(b, snapshot, "b")
		// one list given to two loggers: each of them keeps it for itself
		lst := a.GetWriterBy(lvl)
		c1 := slog.New(fmt.Sprintf("iso-c1-%d", round)).SetLevel(slog.InfoLevel)
		c2 := slog.New(fmt.Sprintf("iso-c2-%d", round)).SetLevel(slog.InfoLevel)
		if errSide {
			c1.SetErrorWriter(lst)
			c2.SetErrorWriter(lst)
			c1.AddErrorWriter(w(10))
			c2.AddErrorWriter(w(11))
		} else {
			c1.SetWriter(lst)
			c2.SetWriter(lst)
			c1.AddWriter(w(10))
			c2.AddWriter(w(11))
		}
		want1, want2 := map[int]bool{10: true}, map[int]bool{11: true}
		for i := range own {
			want1[i], want2[i] = true, true
		}
		hist = append(hist, "lst := a.GetWriterBy(..); c1.Set(lst); c2.Set(lst); c1.Add(10); c2.Add(11)")
		probe(c1, want1, "c1")
		probe(c2, want2, "c2")
		// … also when one of them removes a member that is not the last one
		for i := 0; i < 12; i++ {
			if own[i] {
				if errSide {
					c1.RemoveErrorWriter(w(i))
				} else {
					c1.RemoveWriter(w(i))
				}
				hist = append(hist, fmt.Sprintf("c1.Remove(%d)", i))
				break
			}
		}
		// (whether Remove reaches into a list that was given as one member is C03's business, not judged here: only
		// the other two loggers are probed)
		probe(c2, want2, "c2")
		probe(a, own, "a")
		// the same with the Remove first (nothing was appended yet, so a list adopted as it is would still be shared)
		lst2 := a.GetWriterBy(lvl)
		c3 := slog.New(fmt.Sprintf("iso-c3-%d", round)).SetLevel(slog.InfoLevel)
		c4 := slog.New(fmt.Sprintf("iso-c4-%d", round)).SetLevel(slog.InfoLevel)
		if errSide {
			c3.SetErrorWriter(lst2)
			c4.SetErrorWriter(lst2)
		} else {
			c3.SetWriter(lst2)
			c4.SetWriter(lst2)
		}
		for i := 0; i < 12; i++ {
			if own[i] {
				if errSide {
					c3.RemoveErrorWriter(w(i))
					c3.AddErrorWriter(w(10))
				} else {
					c3.RemoveWriter(w(i))
					c3.AddWriter(w(10))
				}
				hist = append(hist, fmt.Sprintf("lst2 := a.GetWriterBy(..); c3.Set(lst2); c4.Set(lst2); c3.Remove(%d); c3.Add(10)", i))
				break
			}
		}
		probe(c4, own, "c4")
		probe(a, own, "a")
		r.seen(fmt.Sprintf("iso|%v|%d|%s", errSide, k, strings.Join(hist, ",")))
	}
}

func runC10(r *run) {
	g := &rng{s: r.seed*86028121 + 10}
	r.rule = "random histories of 1..40 hierarchy operations on a growing forest, every logger observed after every operation; distinct = distinct (operation kind, target depth, created/existing) ; non-trivial = all operations"
	outF, err := os.CreateTemp("", "c10out")
	must(err)
	errF, err := os.CreateTemp("", "c10err")
	must(err)
	defer os.Remove(outF.Name())
	defer os.Remove(errF.Name())
	realOut, realErr := os.Stdout, os.Stderr
	os.Stdout, os.Stderr = outF, errF
	defer func() { os.Stdout, os.Stderr = realOut, realErr }()
	size := func(f *os.File) int64 {
		st, e := f.Stat()
		must(e)
		return st.Size()
	}
	nh := 40
	if r.tier == "thorough" {
		nh = 500
	}
	layouts := []string{"2006", "Jan 2006", "2006-01-02 MST"}
	names := []string{"db", "http", "core", "a", "b", "cpu%", "50%[x", "q%d"}
	for h := 0; h < nh; h++ {
		slog.VerifResetGlobals()
		slog.SetFlags((slog.GetFlags() &^ (slog.Lcaller | slog.Ltime | slog.Lmicroseconds)) | slog.Ldate)
		recs := []*recorder{nil, {}, {}, {}, {}}
		var ls []*c10Logger
		index := map[*slog.Entry]int{}
		add := func(l slog.Logger, parent int) int {
			e := l.Root()
			if parent >= 0 {
				e = l.(*slog.Entry)
			}
			spec := 1 // a detached logger starts colored
			if parent >= 0 {
				spec = ls[parent].spec // a child starts with the receiver's format
			}
			ls = append(ls, &c10Logger{l: l, e: e, parent: parent, spec: spec})
			index[e] = len(ls) - 1
			return len(ls) - 1
		}
		r.emit("C10 reset", "ok")
		attrID := 0
		skipChild := map[[2]int]int{}
		// prepared Attrs values that are handed to several loggers (SetAttrs1 / WithAttrs1)
		type sharedAttrs struct {
			id int
			as slog.Attrs
		}
		var shared []sharedAttrs
		for j := 0; j < 3; j++ {
			attrID++
			shared = append(shared, sharedAttrs{attrID, slog.NewAttrs(fmt.Sprintf("k%d", attrID), attrID)})
		}
		// the default logger is logger 0
		def := slog.Default()
		add(def, -1)
		// the package's default level as this harness knows it: read once on the fresh state, afterwards
		// changed only by the package-level SetLevel calls made here (never read back)
		pkgLevel := int(slog.GetLevel())
		if int(def.Level()) != pkgLevel {
			r.violate(violation{What: "harness: the fresh default logger is not at the package level"})
		}
		r.emit(fmt.Sprintf("C10 newroot %s %d", hxs(def.Name()), pkgLevel), "0")

		observe := func(i int) (string, string) {
			x := ls[i]
			for _, rc := range recs[1:] {
				rc.take()
			}
			o0 := size(outF)
			x.l.Print("probe")
			var dest []string
			var payload []byte
			if size(outF) > o0 {
				dest = append(dest, "1000")
				buf := make([]byte, size(outF)-o0)
				_, _ = outF.ReadAt(buf, o0)
				payload = buf
			}
			for k, rc := range recs {
				if rc == nil {
					continue
				}
				if w := rc.take(); len(w) > 0 {
					dest = append(dest, strconv.Itoa(k))
					payload = w[0]
				}
			}
			var ids []int
			for _, m := range reKid.FindAllSubmatch(reAnsi.ReplaceAll(payload, nil), -1) {
				n, _ := strconv.Atoi(string(m[1]))
				ids = append(ids, n)
			}
			sort.Ints(ids)
			var idss []string
			for _, n := range ids {
				idss = append(idss, strconv.Itoa(n))
			}
			par := "-"
			if p := x.l.Parent(); p != nil {
				if pi, ok := index[p]; ok {
					par = strconv.Itoa(pi)
				} else {
					par = "unknown"
				}
			}
			// the order in which several normal writers are listed is the configuration order: stdout (if still there) first
			sort.Slice(dest, func(a, b int) bool { return false })
			obs := strings.Join([]string{hxs(x.l.Name()), par, strconv.Itoa(int(x.l.Level())), b01(x.l.JSONMode()), b01(x.l.ColorMode()),
				strconv.Itoa(x.l.Skip()), "a=" + strings.Join(idss, ","), "c=?", "d=" + strings.Join(dest, ",")}, " ")
			return obs, string(reAnsi.ReplaceAll(payload, nil))
		}
		snapshot := func() ([]string, []string) {
			var a, b []string
			for i := range ls {
				o, p := observe(i)
				a = append(a, o)
				b = append(b, p)
			}
			return a, b
		}
		nOps := 1 + g.intn(40)
		// a forced continuation: WithSkip(a) on p; SetSkip(b) on the returned child; WithSkip(b) on p
		forcedStage, forcedParent, forcedChild, forcedN := 0, 0, 0, 0
		// pinned prefix: two attribute-less siblings are given the same prepared Attrs, then each more
		type pin struct{ kind, target, setting, shared, n, name int } // n: attribute count / skip count, name: index into names (-1: free)
		var pins []pin
		base := len(ls)
		switch h % 7 {
		case 1:
			// two attribute-less loggers are given the same prepared Attrs as it is, then each gets one more attribute
			pins = []pin{{15, 0, -1, 0, -1, -1}, {15, 0, -1, 0, -1, -1}, {0, base, 7, 1, 0, -1}, {0, base + 1, 7, 1, 0, -1}, {0, base, 5, 0, 1, -1}, {0, base + 1, 5, 0, 1, -1}}
		case 2:
			// the same through the With… builders: two children made from one prepared list, then each gets more
			pins = []pin{{8, 0, 7, 1, 0, -1}, {8, 0, 7, 1, 0, -1}, {0, base, 5, 0, 1, -1}, {0, base + 1, 5, 0, 1, -1}}
		case 3:
			// … and with the prepared list spread into the variadic forms
			pins = []pin{{15, 0, -1, 0, -1, -1}, {15, 0, -1, 0, -1, -1}, {0, base, 7, 1, 1, -1}, {0, base + 1, 7, 1, 1, -1}, {0, base, 5, 0, 1, -1}, {0, base + 1, 5, 0, 1, -1}}
		case 0:
			// the default logger alone is moved to a level, then the package level is moved to the same one: detached
			// loggers start at the package level
			lv := []int{2, 5, 4}[(h/7)%3]
			pins = []pin{{0, 0, 0, 0, lv, -1}, {18, 0, -1, 0, lv, -1}}
		case 5:
			// a logger in JSON format is told "no colours" (explicit false as the last value): logfmt; the same for a
			// child built from a JSON parent
			pins = []pin{{15, 0, -1, 0, -1, -1}, {0, base, 1, 0, 1, -1}, {0, base, 2, 0, []int{7, 8}[(h/7)%2], -1}, {0, base, 1, 0, 4, -1}, {8, base, 2, 0, []int{8, 7}[(h/7)%2], -1}}
		case 4:
			// a logger whose name holds a per-cent sign keeps one child per skip count like any other
			pins = []pin{{11, 0, -1, 0, -1, 5 + (h/7)%3}, {16, base, -1, 0, 0, -1}, {16, base, -1, 0, 1, -1}, {16, base, -1, 0, 2, -1}, {16, base, -1, 0, 0, -1}}
		}
		if nOps <= len(pins) {
			nOps = len(pins) + 1
		}
		pinSetting, pinShared, pinN, pinName := -1, -1, -1, -1
		for step := 0; step < nOps; step++ {
			before, beforeBytes := snapshot()
			target := g.intn(len(ls))
			kind := g.intn(20)
			pinSetting, pinShared, pinN, pinName = -1, -1, -1, -1
			if len(pins) > 0 {
				target, kind, pinSetting, pinShared, pinN, pinName = pins[0].target, pins[0].kind, pins[0].setting, pins[0].shared, pins[0].n, pins[0].name
				pins = pins[1:]
			}
			if forcedStage == 1 {
				target, kind = forcedChild, 0
			} else if forcedStage == 2 {
				target, kind = forcedParent, 16
			}
			x := ls[target]
			touched := map[int]bool{target: true}
			var opDesc string
			var modeUsed *modeLetter
			settingTok := func() (string, func(l slog.Logger), func(l slog.Logger) *slog.Entry) {
				sel := g.intn(9)
				if pinSetting >= 0 {
					sel = pinSetting
				}
				switch sel {
				case 0:
					lv := []int{0, 2, 3, 4, 5, 6, 8}[g.intn(7)]
					if pinN >= 0 {
						lv = pinN
					}
					return fmt.Sprintf("level %d", lv), func(l slog.Logger) { l.SetLevel(slog.Level(lv)) }, func(l slog.Logger) *slog.Entry { return l.WithLevel(slog.Level(lv)) }
				case 1:
					m := c11Alphabet[g.intn(5)]
					if pinN >= 0 {
						m = c11Alphabet[pinN]
					}
					modeUsed = &m
					return "json " + m.tok, func(l slog.Logger) { l.SetJSONMode(m.bits...) }, func(l slog.Logger) *slog.Entry { return l.WithJSONMode(m.bits...) }
				case 2:
					m := c11Alphabet[5+g.intn(5)]
					if pinN >= 0 {
						m = c11Alphabet[pinN]
					}
					modeUsed = &m
					return "color " + m.tok, func(l slog.Logger) { l.SetColorMode(m.bits...) }, func(l slog.Logger) *slog.Entry { return l.WithColorMode(m.bits...) }
				case 3:
					m := c11Alphabet[5+g.intn(5)]
					return "utc " + m.tok, func(l slog.Logger) { l.SetUTCMode(m.bits...) }, func(l slog.Logger) *slog.Entry { return l.WithUTCMode(m.bits...) }
				case 4:
					lay := layouts[g.intn(len(layouts))]
					return "tf " + hxs(lay), func(l slog.Logger) { l.SetTimeFormat(lay) }, func(l slog.Logger) *slog.Entry { return l.WithTimeFormat(lay) }
				case 5, 6:
					n := 1 + g.intn(2)
					if pinN >= 0 {
						n = pinN
					}
					var toks []string
					var attrs []slog.Attr
					var args []any
					for j := 0; j < n; j++ {
						attrID++
						toks = append(toks, strconv.Itoa(attrID))
						attrs = append(attrs, slog.Int(fmt.Sprintf("k%d", attrID), attrID))
						args = append(args, fmt.Sprintf("k%d", attrID), attrID)
					}
					if g.chance(1, 2) {
						return "attrs " + strings.Join(toks, " "), func(l slog.Logger) { l.SetAttrs(attrs...) }, func(l slog.Logger) *slog.Entry { return l.WithAttrs(attrs...) }
					}
					return "attrs " + strings.Join(toks, " "), func(l slog.Logger) { l.Set(args...) }, func(l slog.Logger) *slog.Entry { return l.With(args...) }
				case 7:
					if g.chance(1, 2) || pinShared >= 0 {
						sh := shared[g.intn(len(shared))]
						if pinShared >= 0 {
							sh = shared[pinShared]
						}
						if variadic := g.chance(1, 2); (variadic && pinN < 0) || pinN == 1 {
							// the same prepared list spread into the variadic forms (the slice has spare capacity)
							return fmt.Sprintf("attrs %d", sh.id), func(l slog.Logger) { l.SetAttrs(sh.as...) }, func(l slog.Logger) *slog.Entry { return l.WithAttrs(sh.as...) }
						}
						return fmt.Sprintf("attrs %d", sh.id), func(l slog.Logger) { l.SetAttrs1(sh.as) }, func(l slog.Logger) *slog.Entry { return l.WithAttrs1(sh.as) }
					}
					return "ctx 1", func(l slog.Logger) { l.SetContextKeys("ck") }, func(l slog.Logger) *slog.Entry { return l.WithContextKeys("ck") }
				default:
					w := 1 + g.intn(4)
					return fmt.Sprintf("w setWriter %d", w), func(l slog.Logger) { l.SetWriter(recs[w]) }, func(l slog.Logger) *slog.Entry { return l.WithWriter(recs[w]) }
				}
			}
			kindName := ""
			switch {
			case kind < 7: // Set…
				kindName = "set"
				tok, set, _ := settingTok()
				if (g.chance(1, 8) && pinSetting < 0) || forcedStage == 1 {
					n := g.intn(4)
					if forcedStage == 1 {
						n, forcedStage = forcedN, 2
					}
					tok, set = fmt.Sprintf("skip %d", n), func(l slog.Logger) { l.SetSkip(n) }
					modeUsed = nil
				}
				set(x.l)
				if modeUsed != nil {
					x.spec = specFmt(x.spec, *modeUsed)
				}
				opDesc = fmt.Sprintf("set %d %s", target, tok)
				r.emit("C10 "+opDesc, strconv.Itoa(target))
			case kind < 11: // With…
				kindName = "with"
				tok, _, with := settingTok()
				ch := with(x.l)
				id, existed := index[ch]
				if !existed {
					id = add(ch, target)
					if modeUsed != nil {
						ls[id].spec = specFmt(ls[id].spec, *modeUsed)
					}
				}
				touched[id] = true
				opDesc = fmt.Sprintf("child %d %s %s ; %s", target, hxs(fmt.Sprintf("#%d", id)), hxs(ch.Name()), tok)
				r.emit("C10 "+opDesc, strconv.Itoa(id))
				if existed {
					r.violate(violation{What: "a With… call returned an existing logger instead of a new child", Input: map[string]any{"history": h, "step": step, "op": opDesc}})
				}
			case kind < 15: // New(name [, options])
				kindName = "new-named"
				name := names[g.intn(len(names))]
				if pinName >= 0 {
					name = names[pinName]
				}
				var opts []any
				opts = append(opts, name)
				var toks []string
				var optLetters []modeLetter
				for j := g.intn(3); j > 0; j-- {
					switch g.intn(3) {
					case 0:
						lv := []int{2, 4, 5, 6}[g.intn(4)]
						opts = append(opts, slog.WithLevel(slog.Level(lv)))
						toks = append(toks, fmt.Sprintf("; level %d", lv))
					case 1:
						m := c11Alphabet[g.intn(10)]
						optLetters = append(optLetters, m)
						if m.json {
							opts = append(opts, slog.WithJSONMode(m.bits...))
							toks = append(toks, "; json "+m.tok)
						} else {
							opts = append(opts, slog.WithColorMode(m.bits...))
							toks = append(toks, "; color "+m.tok)
						}
					default:
						w := 1 + g.intn(4)
						opts = append(opts, slog.WithWriter(recs[w]))
						toks = append(toks, fmt.Sprintf("; w setWriter %d", w))
					}
				}
				ch := x.l.New(opts...)
				id, existed := index[ch]
				if !existed {
					id = add(ch, target)
					for _, m := range optLetters { // the options of New apply in the order given
						ls[id].spec = specFmt(ls[id].spec, m)
					}
				} else {
					kindName = "new-existing"
				}
				touched[id] = true
				opDesc = strings.TrimSpace(fmt.Sprintf("child %d %s %s %s", target, hxs(name), hxs(name), strings.Join(toks, " ")))
				r.emit("C10 "+opDesc, strconv.Itoa(id))
				if ch.Name() != name {
					r.violate(violation{What: "New(name) returned a logger with another name", Input: opDesc, Actual: ch.Name()})
				}
			case kind < 16: // New() anonymous
				kindName = "new-anonymous"
				ch := x.l.New()
				id, existed := index[ch]
				if !existed {
					id = add(ch, target)
				}
				touched[id] = true
				opDesc = fmt.Sprintf("child %d %s %s", target, hxs(fmt.Sprintf("#%d", id)), hxs(ch.Name()))
				r.emit("C10 "+opDesc, strconv.Itoa(id))
			case kind < 18: // WithSkip
				kindName = "withskip"
				n := g.intn(3)
				if pinN >= 0 {
					n = pinN
				}
				if forcedStage == 2 {
					n, forcedStage = forcedN, 0
				}
				ch := x.l.WithSkip(n)
				id, existed := index[ch]
				if !existed {
					id = add(ch, target)
				}
				touched[id] = true
				if forcedStage == 0 && g.chance(1, 2) && len(pins) == 0 {
					forcedStage, forcedParent, forcedChild, forcedN = 1, target, id, (n+1)%3
				}
				if want, ok := skipChild[[2]int{target, n}]; ok && want != id {
					r.violate(violation{What: "WithSkip(n) did not return the one child kept for that n", Input: map[string]any{"history": h, "step": step, "parent": target, "n": n}, Expected: want, Actual: id})
				}
				for k, v := range skipChild {
					if k[0] == target && k[1] != n && v == id {
						r.violate(violation{What: "WithSkip(n) returned the child kept for another skip count: one child per n is not kept",
							Input:    map[string]any{"history": h, "step": step, "parent": target, "parent_name": x.l.Name(), "n": n, "other_n": k[1]},
							Expected: "a child of its own", Actual: fmt.Sprintf("child %d (%s)", id, ch.Name())})
					}
				}
				skipChild[[2]int{target, n}] = id
				if ch.Skip() != n {
					r.violate(violation{What: "WithSkip(n) returned a logger whose skip count is not n", Input: map[string]any{"parent": target, "n": n}, Actual: ch.Skip()})
				}
				key := fmt.Sprintf("c/%s[%d]", x.l.Name(), n)
				opDesc = fmt.Sprintf("withskip %d %s %d", target, hxs(key), n)
				r.emit("C10 "+opDesc, strconv.Itoa(id))
			default: // package-level New
				kindName = "new-detached"
				name := fmt.Sprintf("det%d", step)
				if g.chance(1, 3) || pinN >= 0 {
					pkgLevel = []int{3, 4, 2}[g.intn(3)]
					if pinN >= 0 {
						pkgLevel = pinN
					}
					slog.SetLevel(slog.Level(pkgLevel)) // moves the package default level and the default logger
					touched[0] = true
					r.emit(fmt.Sprintf("C10 set 0 level %d", pkgLevel), "0")
				}
				var l slog.Logger
				if len(ls) > 1 && g.chance(1, 3) {
					// another logger (with whatever level it has) is the default logger for a while: the package level,
					// at which detached loggers start, is not moved by that
					prev := slog.Default()
					slog.SetDefault(ls[1+g.intn(len(ls)-1)].l)
					l = slog.New(name)
					slog.SetDefault(prev)
				} else {
					l = slog.New(name)
				}
				id := add(l, -1)
				touched[id] = true
				opDesc = fmt.Sprintf("newroot %s %d", hxs(name), pkgLevel)
				r.emit("C10 "+opDesc, strconv.Itoa(id))
				if l.Parent() != nil || !l.ColorMode() || l.JSONMode() || int(l.Level()) != pkgLevel {
					r.violate(violation{What: "a detached logger does not start parentless, colored, at the package level",
						Input:  map[string]any{"history": h, "step": step, "op": opDesc, "package_level": pkgLevel, "default_logger_level": int(slog.Default().Level())},
						Actual: fmt.Sprintf("parent=%v color=%v json=%v level=%d", l.Parent() != nil, l.ColorMode(), l.JSONMode(), int(l.Level()))})
				}
			}
			r.seen(fmt.Sprintf("%s|%d", kindName, ls[target].depth(ls)))
			r.count("op=" + kindName)
			after, afterBytes := snapshot()
			for i := range ls {
				r.emit(fmt.Sprintf("C10 node %d", i), after[i])
			}
			// every logger's getters agree with the format the statement's three-state machine gives for its own history
			for i, x := range ls {
				if x.l.JSONMode() != (x.spec == 0) || x.l.ColorMode() != (x.spec == 1) {
					r.violate(violation{What: "a logger's format is not what its own Set…/With…/New-option history gives by the three-state rule",
						Input:    map[string]any{"history": h, "step": step, "op": opDesc, "logger": i},
						Expected: fmtNames[x.spec], Actual: fmt.Sprintf("JSONMode=%v ColorMode=%v", x.l.JSONMode(), x.l.ColorMode())})
					x.spec = map[bool]int{true: 0, false: map[bool]int{true: 1, false: 2}[x.l.ColorMode()]}[x.l.JSONMode()] // report once
				}
			}
			// isolation: nothing but the touched loggers moved
			for i := range before {
				if !touched[i] && (before[i] != after[i] || beforeBytes[i] != afterBytes[i]) {
					r.violate(violation{What: "an operation on one logger changed another logger", Input: map[string]any{"history": h, "step": step, "op": opDesc, "other_logger": i},
						Expected: before[i] + " | " + beforeBytes[i], Actual: after[i] + " | " + afterBytes[i]})
				}
			}
			if kindName == "with" || strings.HasPrefix(kindName, "new") || kindName == "withskip" {
				if target < len(before) && kindName != "new-detached" && (before[target] != after[target] || beforeBytes[target] != afterBytes[target]) {
					r.violate(violation{What: "creating a child changed the receiver", Input: opDesc, Expected: before[target], Actual: after[target]})
				}
			}
			// links
			q := g.intn(len(ls))
			root := q
			for ls[root].parent >= 0 {
				root = ls[root].parent
			}
			gotRoot := index[ls[q].l.Root()]
			r.emit(fmt.Sprintf("C10 root %d", q), strconv.Itoa(gotRoot))
			if gotRoot != root {
				r.violate(violation{What: "Root() disagrees with the creation history", Input: opDesc, Expected: root, Actual: gotRoot})
			}
			var visits []string
			ls[q].l.Each(func(e *slog.Entry, depth int) {
				id, ok := index[e]
				if !ok {
					id = -1
				}
				visits = append(visits, fmt.Sprintf("%d:%d", id, depth))
			})
			sort.Slice(visits, func(a, b int) bool {
				x1, _ := strconv.Atoi(strings.Split(visits[a], ":")[0])
				x2, _ := strconv.Atoi(strings.Split(visits[b], ":")[0])
				if x1 != x2 {
					return x1 < x2
				}
				return visits[a] < visits[b]
			})
			r.emit(fmt.Sprintf("C10 each %d", q), strings.Join(visits, " "))
			var want []string
			for i := range ls {
				d, cur := 0, i
				for cur != q && ls[cur].parent >= 0 {
					cur = ls[cur].parent
					d++
				}
				if cur == q {
					want = append(want, fmt.Sprintf("%d:%d", i, d))
				}
			}
			if strings.Join(visits, " ") != strings.Join(want, " ") {
				r.violate(violation{What: "Each() does not visit every logger of the subtree exactly once at its depth", Input: opDesc, Expected: strings.Join(want, " "), Actual: strings.Join(visits, " ")})
			}
			nm := names[g.intn(len(names))]
			got := ls[q].l.Sublogger(nm)
			obs := "none"
			if got != nil {
				obs = "found"
				if got.Name() != nm {
					r.violate(violation{What: "Sublogger(name) returned a logger with another name", Input: nm, Actual: got.Name()})
				}
			}
			r.emit(fmt.Sprintf("C10 sub %d %s", q, hxs(nm)), obs)
			if h < 2 && step < 3 {
				r.sample(map[string]any{"op": opDesc, "loggers": len(ls)})
			}
		}
	}
	c10WriterIsolation(r, g)
	c10Env(r)
	emptyWithCalls(r.violate)
	returnedListIsACopy(r.violate)
	skipChildKeepsItsSettings(r.violate)
	slog.VerifResetGlobals()
}

func (x *c10Logger) depth(ls []*c10Logger) int {
	d := 0
	for p := x.parent; p >= 0; p = ls[p].parent {
		d++
	}
	return d
}
