package main

// Common part of the encoder correspondences: one generated record through WriteThru with an
// explicit timestamp, the same record as an `ENC` protocol line for the Lean encoder model.

import (
	"context"
	"fmt"
	"io"
	"runtime"
	"strings"
	"time"

	"github.com/hedzr/logg/slog"
)

type encCase struct {
	line    string // the ENC line of this record as sent to the model
	format  string
	lvl     int
	ts      time.Time
	tsText  string
	name    string
	msg     string
	attrs   []gattr
	caller  bool
	pc      uintptr    // a real program counter for the caller field (0: the zero frame)
	built   slog.Attrs // when set: the attribute slice to pass (the caller keeps it and may pass it again)
	tagW    int
	minW    int
	payload []byte
	writes  int
}

const encLayout = "2006-01-02T15:04:05.000000Z07:00"

var encLevels = []int{4, 3, 2, 5, 6, 9, 10, 11, 8, 0, 1, 33, -2, 12}

// encRun executes one case against the implementation and records the protocol line.
func encRun(r *run, prop string, c *encCase) {
	rec := &recorder{}
	var l slog.Logger
	if c.name == "" {
		l = slog.New()
	} else {
		l = slog.New(c.name)
	}
	l.SetWriter(rec).SetErrorWriter(rec).SetLevel(slog.TraceLevel)
	if (len(c.msg)+len(c.attrs)+c.lvl)%3 == 1 {
		// a first destination that itself logs (through an unrelated logger, in another format) while it is written
		// to: what the recording destination receives afterwards is still this record
		ch := &chattyW{side: slog.New("side").SetWriter(&recorder{}).SetErrorWriter(&recorder{}).SetLevel(slog.TraceLevel)}
		switch (len(c.msg) + c.tagW) % 3 {
		case 0:
			ch.side.SetJSONMode(true)
		case 1:
			ch.side.SetColorMode(false)
		}
		l.SetWriter(ch).AddWriter(rec).SetErrorWriter(ch).AddErrorWriter(rec)
	}
	switch c.format {
	case "j":
		l.SetJSONMode(true)
	case "l":
		l.SetColorMode(false)
	default:
		l.SetColorMode(true)
	}
	l.SetUTCMode(true).SetTimeFormat(encLayout)
	fl := slog.LstdFlags &^ slog.Lcaller
	if c.caller {
		fl |= slog.Lcaller
	}
	if slog.GetFlags() != fl|slog.LnoInterrupt { // no setter call when the flag word is in force already (e.g. restored by a scope)
		slog.SetFlags(fl | slog.LnoInterrupt)
	}
	slog.SetLevelOutputWidth(c.tagW)
	slog.SetMessageMinimalWidth(c.minW)
	if (len(c.msg)+c.lvl)%3 == 0 {
		// values outside the documented ranges are refused and leave the configured widths in place
		slog.SetLevelOutputWidth([]int{0, -1, 6, 100}[(len(c.msg)+c.tagW)%4])
		slog.SetMessageMinimalWidth([]int{15, 0, -3}[(len(c.msg)+c.minW)%3])
	}
	c.tsText = c.ts.UTC().Format(encLayout)
	panicked := ""
	func() {
		defer func() {
			if p := recover(); p != nil {
				panicked = fmt.Sprint(p)
			}
		}()
		l.(slog.LogSlogAware).WriteThru(context.Background(), slog.Level(c.lvl), c.ts, c.pc, c.msg, encAttrsOf(c))
	}()
	w := rec.take()
	if prefix, inGrouped, skipComma := slog.VerifPoolRestState(); panicked == "" && (prefix != "" || inGrouped || skipComma) {
		r.violate(violation{What: "a print context went back to the pool with per-record scratch state that the next record inherits",
			Input: encDescribe(c), Actual: fmt.Sprintf("prefix=%q inGroupedMode=%v skipComma=%v", prefix, inGrouped, skipComma)})
	}
	c.writes = len(w)
	obs := "no-write"
	if panicked != "" {
		obs = "panic"
		r.violate(violation{What: "the encoder panicked", Input: encDescribe(c), Actual: panicked})
	} else if len(w) == 1 {
		c.payload = w[0]
		obs = hx(w[0])
	} else if len(w) > 1 {
		obs = fmt.Sprintf("writes=%d", len(w))
	}
	callerTok := "-"
	if c.caller {
		callerTok = "x:0:x:x"
		if c.pc != 0 {
			// the frame as the runtime resolves it; the file as the privacy policy (decided by C18) shows it
			frame, _ := runtime.CallersFrames([]uintptr{c.pc}).Next()
			callerTok = fmt.Sprintf("%s:%d:%s:%s", hxs(slog.Safety(frame.File)), frame.Line, hxs(frame.Function), hxs(frame.Function))
		}
	}
	line := fmt.Sprintf("ENC %s %d %s %s %s %s %d %d %s", c.format, c.lvl, hxs(c.tsText), hxs(c.name), hxs(c.msg), callerTok, c.tagW, c.minW,
		strings.Join(attrsTokens(c.attrs), " "))
	c.line = strings.TrimRight(line, " ")
	r.emit(c.line, obs)
}

// encVS is a user-supplied value stringer; encStringerNoise formats one record of a logger that has one (the
// record itself is not judged): what such a logger brings along stays with it.
type encVS struct{ w io.Writer }

func (v *encVS) SetWriter(w io.Writer) { v.w = w }
func (v *encVS) WriteValue(value any) {
	if v.w != nil {
		fmt.Fprintf(v.w, "%v", value)
	}
}

func encStringerNoise(format string) {
	rec := &recorder{}
	l := slog.New("with-value-stringer").SetWriter(rec).SetErrorWriter(rec).SetLevel(slog.TraceLevel)
	switch format {
	case "j":
		l.SetJSONMode(true)
	case "l":
		l.SetColorMode(false)
	}
	l.SetValueStringer(&encVS{})
	l.Info("a record of a logger with a value stringer of its own", "k", "v w\nx=1", "g", slog.NewGroupedAttr("in", slog.NewAttr("a", 1)))
}

// encPanicNoise: a record one of whose values panics while it is rendered; the application recovers and goes on
// logging. What that record had begun stays with it.
type encPanicker struct{}

func (encPanicker) String() string { panic("a value whose String() panics") }

func encPanicNoise(format string) {
	rec := &recorder{}
	l := slog.New("with-a-panicking-value").SetWriter(rec).SetErrorWriter(rec).SetLevel(slog.TraceLevel)
	switch format {
	case "j":
		l.SetJSONMode(true)
	case "l":
		l.SetColorMode(false)
	}
	func() {
		defer func() { _ = recover() }()
		l.Info("a record with a value that panics", "stale1", 1, "victim", encPanicker{}, "zafter", 2)
	}()
	func() {
		defer func() { _ = recover() }()
		l.Info("… and one inside a group", "grp", slog.NewGroupedAttr("inner", slog.NewAttr("boom", encPanicker{})), "stale2", "x")
	}()
}

// chattyW logs a record of its own from inside Write.
type chattyW struct{ side slog.Logger }

func (w *chattyW) Write(p []byte) (int, error) {
	w.side.Warn("a destination that logs while it is being written to: "+strings.Repeat("#", len(p)%97), "bytes", len(p),
		"grp", slog.NewGroupedAttr("side", slog.NewAttr("b", 2), slog.NewAttr("a", "one")))
	return len(p), nil
}

// encAttrsOf: the prepared slice if there is one, else a fresh one
func encAttrsOf(c *encCase) slog.Attrs {
	if c.built != nil {
		return c.built
	}
	return toAttrs(c.attrs)
}

func encDescribe(c *encCase) map[string]any {
	return map[string]any{"format": c.format, "level": c.lvl, "logger": c.name, "message": fmt.Sprintf("%q", c.msg),
		"attrs": strings.Join(attrsTokens(c.attrs), " "), "caller_flag": c.caller, "tag_width": c.tagW, "min_width": c.minW}
}

func (g *rng) encMessage(multiline bool, plain bool) string {
	switch g.intn(13) {
	case 12:
		// white space of every kind: only \n \r space and tab make a message blank
		return []string{"\f", "\v", "\u00a0", "\u3000", "\u2028", " \f ", "\t\u00a0", "\u0085", " ", "\r\n", "\t \n"}[g.intn(11)]
	case 0:
		return ""
	case 1:
		return "   lead ws"
	case 2:
		if multiline {
			return "first\nsecond\nthird\n"
		}
	case 3:
		if multiline {
			return "a\nb"
		}
	case 4:
		if multiline {
			return "\nstarts with newline"
		}
	case 5:
		return "x" + strings.Repeat("y", g.intn(60))
	}
	m := g.text(20, plain)
	if multiline && g.chance(1, 4) {
		m += "\n" + g.text(10, plain)
		if g.chance(1, 2) {
			m += "\n"
		}
	}
	return m
}

func (g *rng) encTime() time.Time {
	return time.Date(1990+g.intn(60), time.Month(1+g.intn(12)), 1+g.intn(28), g.intn(24), g.intn(60), g.intn(60), g.intn(1000000000), time.FixedZone("", (g.intn(27)-12)*3600))
}
