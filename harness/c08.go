package main

// C08 — concurrent logging. G goroutines x N calls over 1..8 loggers (JSON, logfmt, colored;
// parents and children; logger-level attributes incl. a shared Group), per-call attributes,
// shared Group values, multi-line messages, error values, blank Println calls in between.
// Every Write of every logger is captured by a mutex-protected recording writer (sometimes slow, to
// widen the window in which another call can run). Oracles: the race detector (the stress runs
// in a child built with -race, GORACE log collected); every payload is the record of exactly one
// call (compared with the same call issued alone afterwards — and with the Lean encoder model); the
// multiset of payloads equals the multiset of admitted calls; no call panics.

import (
	"bufio"
	"context"
	"encoding/json"
	"errors"
	"fmt"
	"log"
	logslog "log/slog"
	"os"
	"os/exec"
	"path/filepath"
	"runtime"
	"sort"
	"strings"
	"sync"
	"time"

	"github.com/hedzr/logg/slog"
)

func init() {
	props["C08"] = runC08
	childModes["c08child"] = c08Child
}

type slowRec struct {
	mu     sync.Mutex
	writes []string
	slow   int // every slow-th write yields / sleeps inside Write
	n      int
}

func (s *slowRec) Write(p []byte) (int, error) {
	s.mu.Lock()
	s.n++
	n := s.n
	s.writes = append(s.writes, string(p))
	s.mu.Unlock()
	if s.slow > 0 && n%s.slow == 0 {
		time.Sleep(50 * time.Microsecond)
	} else {
		runtime.Gosched()
	}
	return len(p), nil
}

func (s *slowRec) take() []string {
	s.mu.Lock()
	w := s.writes
	s.writes = nil
	s.mu.Unlock()
	return w
}

type c08call struct {
	logger int
	verb   int // 0 Info 1 Warn 2 Error 3 Debug 4 Print 5 blank Println 6 InfoContext with group value arg
	msg    string
	shape  int
	id     string
}

type c08Kept struct {
	id   string
	list slog.Attrs
}

type c08env struct {
	loggers []slog.Logger
	recs    []*slowRec
	formats []string
	names   []string
	lattrs  [][]gattr
	shared  slog.Attr // a Group value shared by all goroutines (members out of order, duplicate key)
	sharedG gattr
	sorted  slog.Attr // another shared Group whose members are already in key order
	sortedG gattr
	keptMu  sync.Mutex
	kept    []c08Kept // attribute lists that callers of WriteThru built, passed and kept
	inline  slog.Attr // a shared Group under the empty key (its members print without a prefix), members out of order
	inlineG gattr
	long    string // a value that makes the record longer than the initial buffer of a print context
	err     error
	std     []*log.Logger     // a std log bridge per logger
	sl      []*logslog.Logger // a log/slog logger on the adapter per logger
}

func c08Setup(g *rng, nLoggers int) *c08env {
	slog.VerifResetGlobals()
	slog.SetFlags((slog.LstdFlags &^ slog.Lcaller) | slog.LnoInterrupt)
	slog.SetLevelOutputWidth(3)
	slog.SetMessageMinimalWidth(36)
	// custom severities registered by title only (no short tags, no colors of their own): their tags are derived
	for k := 0; k < 4; k++ {
		_ = slog.RegisterLevel(slog.Level(71+k), fmt.Sprintf("AUDIT%c", 'A'+k), slog.RegWithTreatedAsLevel(slog.InfoLevel))
	}
	e := &c08env{err: errors.New("shared error value")}
	// the shared group: members deliberately not in key order, with a duplicate key
	e.sharedG = gattr{key: "grp", isGroup: true, val: gval{kind: "group", items: []gattr{
		{key: "k12", val: gval{kind: "int", goVal: 12, tok: "I:12"}},
		{key: "k11", val: gval{kind: "string", goVal: "eleven", tok: "S:" + hxs("eleven"), text: "eleven"}},
		{key: "zz", val: gval{kind: "bool", goVal: true, tok: "B:1"}},
		{key: "k11", val: gval{kind: "int", goVal: 11, tok: "I:11"}},
		{key: "aa", isGroup: true, val: gval{kind: "group", items: []gattr{
			{key: "y", val: gval{kind: "int", goVal: 2, tok: "I:2"}}, {key: "x", val: gval{kind: "int", goVal: 1, tok: "I:1"}}}}},
	}}}
	e.shared = toAttrs([]gattr{e.sharedG})[0]
	e.sortedG = gattr{key: "ord", isGroup: true, val: gval{kind: "group", items: []gattr{
		{key: "a", val: gval{kind: "int", goVal: 1, tok: "I:1"}},
		{key: "b", val: gval{kind: "string", goVal: "bee", tok: "S:" + hxs("bee"), text: "bee"}},
		{key: "b", val: gval{kind: "int", goVal: 2, tok: "I:2"}}, // in key order, but one key twice: the list is still only read
		{key: "c", val: gval{kind: "bool", goVal: false, tok: "B:0"}},
	}}}
	e.sorted = toAttrs([]gattr{e.sortedG})[0]
	e.inlineG = gattr{key: "", isGroup: true, val: gval{kind: "group", items: []gattr{
		{key: "zeta", val: gval{kind: "int", goVal: 26, tok: "I:26"}},
		{key: "mid", val: gval{kind: "string", goVal: "m", tok: "S:" + hxs("m"), text: "m"}},
		{key: "alpha", val: gval{kind: "bool", goVal: true, tok: "B:1"}},
		{key: "mid", val: gval{kind: "int", goVal: 13, tok: "I:13"}},
	}}}
	e.inline = toAttrs([]gattr{e.inlineG})[0]
	e.long = strings.Repeat("0123456789abcdef", 100) // 1600 bytes
	formats := []string{"j", "l", "c"}
	for i := 0; i < nLoggers; i++ {
		f := formats[(i+g.intn(3))%3]
		name := fmt.Sprintf("c08-%d", i)
		var l slog.Logger
		if i > 0 && g.chance(1, 3) {
			l = e.loggers[g.intn(i)].New(name) // a child of an earlier logger
		} else {
			l = slog.New(name)
		}
		rec := &slowRec{slow: []int{0, 3, 7}[g.intn(3)]}
		l.SetWriter(rec).SetErrorWriter(rec).SetLevel(slog.DebugLevel)
		c14Format(l, f)
		l.SetUTCMode(true).SetTimeFormat("@")
		var la []gattr
		if g.chance(1, 2) {
			la = append(la, gattr{key: "svc", val: gval{kind: "string", goVal: "api", tok: "S:" + hxs("api"), text: "api"}})
			if g.chance(1, 2) {
				la = append(la, e.sharedG) // the shared group as a logger-level attribute
			}
			l.SetAttrs(toAttrsShared(la, e)...)
		}
		e.loggers, e.recs, e.formats, e.names, e.lattrs = append(e.loggers, l), append(e.recs, rec), append(e.formats, f), append(e.names, name), append(e.lattrs, la)
		if g.chance(1, 2) {
			l.SetContextKeys("rid", "trace") // values come from each call's own context
		}
		e.std = append(e.std, slog.NewLogLogger(l, slog.InfoLevel))
		e.sl = append(e.sl, logslog.New(slog.NewSlogHandler(l, &slog.HandlerOptions{NoColor: f != "c", JSON: f == "j", NoSource: true, Level: slog.DebugLevel})))
	}
	slog.SetFlags((slog.LstdFlags &^ slog.Lcaller) | slog.LnoInterrupt)
	return e
}

// toAttrsShared builds attributes, using the one shared Group value wherever the shared group occurs
func toAttrsShared(as []gattr, e *c08env) []slog.Attr {
	var out []slog.Attr
	for _, a := range as {
		if a.key == "grp" && a.isGroup {
			out = append(out, e.shared)
		} else if a.key == "ord" && a.isGroup {
			out = append(out, e.sorted)
		} else if a.key == "" && a.isGroup {
			out = append(out, e.inline)
		} else {
			out = append(out, toAttrs([]gattr{a})[0])
		}
	}
	return out
}

var c08Msgs = []string{"single line", "first line\nsecond line\nthird line\n", "two lines\nand the tail", "", "ends with newline\n"}

func (e *c08env) attrsOf(c c08call) []gattr {
	as := []gattr{{key: "id", val: gval{kind: "string", goVal: c.id, tok: "S:" + hxs(c.id), text: c.id}}}
	switch c.shape {
	case 1:
		as = append(as, e.sharedG)
	case 2:
		as = append(as, gattr{key: "err", val: gval{kind: "error", goVal: e.err, tok: "E:" + hxs(e.err.Error()), text: e.err.Error()}})
	case 3:
		as = append(as, e.sharedG, gattr{key: "n", val: gval{kind: "int", goVal: 7, tok: "I:7"}})
	case 4:
		as = append(as, e.sortedG)
	case 5:
		as = append(as, gattr{key: "blob", val: gval{kind: "string", goVal: e.long, tok: "S:" + hxs(e.long), text: e.long}}, e.sortedG)
	case 7:
		// a top-level attribute named "time" holding a time.Time (printed like the record's own timestamp), last in sort order
		as = append(as, gattr{key: "time", val: gval{kind: "tstamp", goVal: time.Date(2024, 5, 6, 7, 8, 9, 123456000, time.UTC), tok: "TS:" + hxs("@")}}) // the loggers' layout is "@"
	case 8:
		as = append(as, e.inlineG)
	case 6:
		// a group that has slots but no member (sorted last): nothing of it may be left behind for the next record
		as = append(as, gattr{key: "zz", isGroup: true, val: gval{kind: "group", items: []gattr{{nilAttr: true}}}})
	}
	return as
}

func (e *c08env) issue(c c08call) (panicked string) {
	defer func() {
		if p := recover(); p != nil {
			panicked = fmt.Sprint(p)
		}
	}()
	l := e.loggers[c.logger]
	var args []any
	for _, a := range toAttrsShared(e.attrsOf(c), e) {
		args = append(args, a)
	}
	switch c.verb {
	case 0:
		l.Info(c.msg, args...)
	case 1:
		l.Warn(c.msg, args...)
	case 2:
		l.Error(c.msg, args...)
	case 3:
		l.Debug(c.msg, args...)
	case 4:
		l.Print(c.msg, args...)
	case 5:
		l.Println()
	case 6:
		l.Logit(context.Background(), slog.Level(-3), c.msg, args...) // a severity nobody registered: its tag is derived per record
	case 7:
		e.std[c.logger].Print(c.msg) // the std log bridge: a record without attributes of its own
	case 8:
		e.sl[c.logger].Info(c.msg) // log/slog on the adapter, no attributes
	case 11:
		// an adapter of the application's own: it builds the attribute list, hands it to WriteThru and keeps it
		own := make(slog.Attrs, 0, 8)
		own = append(own, slog.NewAttr("a", 1), slog.NewAttr("b", c.id))
		l.(slog.LogSlogAware).WriteThru(context.Background(), slog.InfoLevel, time.Unix(0, 0), 0, c.msg, own)
		e.keptMu.Lock()
		e.kept = append(e.kept, c08Kept{c.id, own})
		e.keptMu.Unlock()
	case 10:
		l.Logit(context.Background(), slog.Level(71+len(c.id)%4), c.msg, args...) // registered by title only
	case 9:
		// a Context verb: loggers with registered context keys print what this call's context holds
		ctx := context.WithValue(context.WithValue(context.Background(), "rid", c.id), "trace", len(c.id)) //nolint
		l.InfoContext(ctx, c.msg, args...)
	}
	return
}

var c08Sev = []int{4, 3, 2, 5, 8, 8, -3}

type c08out struct {
	emit    func(op, obs string)
	violate func(v violation)
	seen    func(k string)
}

func c08Stress(seed uint64, tier string, o c08out) {
	g := &rng{s: seed*7368787 + 8}
	rounds := 6
	if tier == "thorough" {
		rounds = 40
	}
	// deterministic scenarios first: overlapping calls on one logger, misbehaving neighbours in a destination list, and
	// lists / groups the caller keeps and passes as values
	overlapDelivery(o.violate)
	flakyNeighbour(o.violate)
	sharedValuesLeftAlone(o.violate)
	siblingsInheritingAttrs(o.violate)
	widerAndWiderCalls(o.violate)
	for round := 0; round < rounds; round++ {
		nLoggers := 1 + g.intn(8)
		G := []int{2, 4, 8, 16, 32, 64}[g.intn(6)]
		N := 30 + g.intn(60)
		e := c08Setup(g, nLoggers)
		if round%2 == 1 {
			// earlier in the process some records were cut short by a value that panics while it is rendered (recovered)
			for k := 0; k < 3; k++ {
				encPanicNoise([]string{"l", "c", "j"}[k])
			}
		}
		// the programs
		progs := make([][]c08call, G)
		for gi := range progs {
			for i := 0; i < N; i++ {
				c := c08call{logger: g.intn(nLoggers), verb: []int{0, 1, 2, 3, 4, 6, 6, 7, 8, 9, 9, 10, 10, 11, 11}[g.intn(15)], msg: c08Msgs[g.intn(len(c08Msgs))], shape: g.intn(9), id: fmt.Sprintf("g%d-c%d", gi, i)}
				if c.msg != "" || c.verb != 4 {
					c.msg = fmt.Sprintf("call %s. %s", c.id, c.msg)
				}
				if g.chance(1, 25) {
					c = c08call{logger: c.logger, verb: 5, id: c.id} // a blank Println()
				}
				progs[gi] = append(progs[gi], c)
			}
		}
		var wg sync.WaitGroup
		var pmu sync.Mutex
		var panics []string
		start := make(chan struct{})
		for gi := range progs {
			wg.Add(1)
			go func(p []c08call) {
				defer wg.Done()
				<-start
				for _, c := range p {
					if msg := e.issue(c); msg != "" {
						pmu.Lock()
						panics = append(panics, c.id+": "+msg)
						pmu.Unlock()
					}
				}
			}(progs[gi])
		}
		close(start)
		wg.Wait()
		got := make([][]string, nLoggers)
		for i, r := range e.recs {
			got[i] = r.take()
		}
		desc := map[string]any{"round": round, "goroutines": G, "calls_per_goroutine": N, "loggers": nLoggers, "formats": strings.Join(e.formats, ""), "seed": seed}
		for _, p := range panics {
			o.violate(violation{What: "a log call panicked while other goroutines were logging", Input: desc, Actual: p})
		}
		// the lists that callers of WriteThru built and kept are still theirs
		for _, k := range e.kept {
			ok := len(k.list) == 2 && k.list[0] != nil && k.list[1] != nil && k.list[0].Key() == "a" && k.list[1].Key() == "b" && fmt.Sprint(k.list[1].Value()) == k.id
			if !ok {
				o.violate(violation{What: "an attribute list that the caller of WriteThru built and kept was rewritten after the call returned",
					Input: map[string]any{"call": k.id, "round": round, "goroutines": G}, Expected: fmt.Sprintf("[a=1 b=%s]", k.id), Actual: fmt.Sprint(k.list)})
				break
			}
		}
		e.kept = nil
		// the attribute values the goroutines shared were only read: their member lists are as the caller built them
		for _, sh := range []struct {
			a    slog.Attr
			g    gattr
			what string
		}{{e.shared, e.sharedG, "Group(\"grp\", …)"}, {e.sorted, e.sortedG, "Group(\"ord\", …)"}, {e.inline, e.inlineG, "Group(\"\", …)"}} {
			var now, built []string
			if items, ok := sh.a.Value().(slog.Attrs); ok {
				for _, m := range items {
					if m == nil {
						now = append(now, "<nil>")
					} else {
						now = append(now, m.Key())
					}
				}
			}
			for _, m := range toAttrs(sh.g.val.items) {
				if m == nil {
					built = append(built, "<nil>")
				} else {
					built = append(built, m.Key())
				}
			}
			if fmt.Sprint(now) != fmt.Sprint(built) {
				o.violate(violation{What: "a caller-owned attribute list shared between goroutines was rewritten by the library while records were formatted",
					Input: map[string]any{"shared_value": sh.what, "round": round, "goroutines": G}, Expected: fmt.Sprint(built), Actual: fmt.Sprint(now)})
			}
		}
		// what each call produces when issued alone (the same environment, one goroutine)
		want := make([]map[string]int, nLoggers)
		owner := make([]map[string]string, nLoggers)
		for i := range want {
			want[i], owner[i] = map[string]int{}, map[string]string{}
		}
		modelLines := 0
		alone := 0
		for _, p := range progs {
			for _, c := range p {
				if alone++; alone%40 == 7 && round%2 == 1 {
					encPanicNoise([]string{"l", "c", "j"}[(alone/40)%3]) // right before a call: what it began stays with it
				}
				e.issue(c)
				w := e.recs[c.logger].take()
				if len(w) != 1 {
					o.violate(violation{What: "a call issued alone did not produce exactly one Write", Input: desc, Actual: fmt.Sprintf("%s: %d writes", c.id, len(w))})
					continue
				}
				want[c.logger][w[0]]++
				owner[c.logger][w[0]] = c.id
				if modelLines < 150 && c.verb != 5 && c.verb < 7 {
					modelLines++
					msg, attrs := c.msg, e.attrsOf(c)
					line := fmt.Sprintf("C02 %s 5 %d 1 %s %s %s 3 36 1/1/- 0 x LA %s AR %s", e.formats[c.logger], c08Sev[c.verb], hxs("@"), hxs(e.names[c.logger]), hxs(msg),
						strings.Join(attrsTokens(e.lattrs[c.logger]), " "), strings.Join(argTokens(c08Args(attrs)), " "))
					o.emit(strings.Join(strings.Fields(line), " "), "1 "+hxs(w[0]))
				}
			}
		}
		for i := range got {
			seenN := map[string]int{}
			for _, p := range got[i] {
				seenN[p]++
			}
			var keys []string
			for p := range seenN {
				keys = append(keys, p)
			}
			sort.Strings(keys)
			for _, p := range keys {
				if want[i][p] == 0 {
					o.violate(violation{What: "a destination observed a payload that is not the record of any one call (torn, mixed or corrupted)", Input: desc,
						Actual: fmt.Sprintf("logger %s (%s): %q", e.names[i], e.formats[i], p)})
					break
				}
				if seenN[p] != want[i][p] {
					o.violate(violation{What: "a record was delivered a different number of times than it was issued", Input: desc,
						Expected: fmt.Sprintf("%d x the record of %s", want[i][p], owner[i][p]), Actual: fmt.Sprintf("%d x %q", seenN[p], p)})
					break
				}
			}
			var wkeys []string
			for p := range want[i] {
				wkeys = append(wkeys, p)
			}
			sort.Strings(wkeys)
			for _, p := range wkeys {
				if seenN[p] == 0 {
					o.violate(violation{What: "the record of an admitted call was never delivered", Input: desc, Expected: fmt.Sprintf("the record of %s: %q", owner[i][p], p), Actual: "lost"})
					break
				}
			}
		}
		o.seen(fmt.Sprintf("G=%d|loggers=%d|formats=%s", G, nLoggers, strings.Join(e.formats, "")))
	}
	slog.VerifResetGlobals()
}

// c08Args: attributes passed as Attr arguments
func c08Args(as []gattr) []garg {
	var out []garg
	for _, a := range as {
		out = append(out, garg{kind: "attr", a: a})
	}
	return out
}

func runC08(r *run) {
	r.rule = "stress rounds: G in {2..64} goroutines x 30..90 calls over 1..8 loggers (JSON/logfmt/colored, parents and children, logger-level attributes incl. a shared Group), per-call attributes, shared Group values with unsorted duplicate keys, multi-line messages, error values, blank Println calls; -race build; distinct = distinct (G, loggers, format mix); non-trivial = all"
	exe := os.Getenv("VERIF_HARNESS")
	if exe == "" {
		r.violate(violation{What: "VERIF_HARNESS is not set"})
		return
	}
	raceDir, err := os.MkdirTemp(r.dir, "race")
	must(err)
	cmd := exec.Command(exe, "c08child", fmt.Sprint(r.seed), r.tier)
	cmd.Env = append(os.Environ(), "GORACE=halt_on_error=0 exitcode=0 log_path="+filepath.Join(raceDir, "report"))
	cmd.Stderr = os.Stderr
	out, err := cmd.StdoutPipe()
	must(err)
	must(cmd.Start())
	sc := bufio.NewScanner(out)
	sc.Buffer(make([]byte, 1<<20), 1<<26)
	for sc.Scan() {
		line := sc.Text()
		switch {
		case strings.HasPrefix(line, "OP\t"):
			p := strings.SplitN(line, "\t", 3)
			r.emit(p[1], p[2])
		case strings.HasPrefix(line, "SEEN\t"):
			r.seen(line[5:])
		case strings.HasPrefix(line, "VIOL\t"):
			var v violation
			if json.Unmarshal([]byte(line[5:]), &v) == nil {
				r.violate(v)
			}
		case strings.HasPrefix(line, "RACEBUILD\t"):
			r.count("race detector active=" + line[10:])
			if line[10:] != "true" {
				r.violate(violation{What: "the stress child was not built with the race detector"})
			}
		}
	}
	if err := cmd.Wait(); err != nil {
		r.violate(violation{What: "the stress child failed: " + err.Error()})
	}
	reports, _ := filepath.Glob(filepath.Join(raceDir, "report*"))
	for _, f := range reports {
		b, _ := os.ReadFile(f)
		text := string(b)
		n := strings.Count(text, "WARNING: DATA RACE")
		if n == 0 {
			continue
		}
		first := text
		if i := strings.Index(text, "=================="); i >= 0 {
			first = text[i:]
			if j := strings.Index(first[18:], "=================="); j >= 0 {
				first = first[:j+36]
			}
		}
		if len(first) > 3000 {
			first = first[:3000]
		}
		r.violate(violation{What: "the race detector reported a data race between concurrently logging goroutines",
			Input:  map[string]any{"seed": r.seed, "tier": r.tier, "reports": n, "how": "harness c08child built with -race, GORACE=halt_on_error=0"},
			Actual: first})
	}
}

func c08Child(a []string) {
	seed, tier := uint64(1), "quick"
	if len(a) >= 2 {
		fmt.Sscan(a[0], &seed)
		tier = a[1]
	}
	w := bufio.NewWriterSize(os.Stdout, 1<<20)
	defer w.Flush()
	var mu sync.Mutex
	fmt.Fprintf(w, "RACEBUILD\t%v\n", raceEnabled)
	c08Stress(seed, tier, c08out{
		emit: func(op, obs string) { mu.Lock(); fmt.Fprintf(w, "OP\t%s\t%s\n", op, obs); mu.Unlock() },
		violate: func(v violation) {
			b, _ := json.Marshal(v)
			mu.Lock()
			fmt.Fprintf(w, "VIOL\t%s\n", b)
			mu.Unlock()
		},
		seen: func(k string) { mu.Lock(); fmt.Fprintf(w, "SEEN\t%s\n", k); mu.Unlock() },
	})
}
