package main

import (
	"flag"
	"fmt"
	"os"
	"strconv"
)

var props = map[string]func(r *run){}

func main() {
	// The binary is also installed under the name harness.test and started with a
	// `-test.v` argument so that the library believes it runs under `go test`
	// (is.InTesting() looks at os.Args). Strip such arguments before parsing ours.
	var args []string
	for _, a := range os.Args[1:] {
		if len(a) >= 6 && a[:6] == "-test." {
			continue
		}
		args = append(args, a)
	}
	fs := flag.NewFlagSet("harness", flag.ExitOnError)
	seed := fs.Uint64("seed", 1, "PRNG seed")
	tier := fs.String("tier", "quick", "quick | thorough")
	out := fs.String("out", "", "output directory")
	if len(args) < 1 {
		fmt.Fprintln(os.Stderr, "usage: harness <property|child-mode> [flags]")
		os.Exit(3)
	}
	prop := args[0]
	if child, ok := childModes[prop]; ok {
		child(args[1:])
		return
	}
	must(fs.Parse(args[1:]))
	if s := os.Getenv("VERIF_SEED"); s != "" && !flagSet(fs, "seed") {
		if v, err := strconv.ParseUint(s, 10, 64); err == nil {
			*seed = v
		}
	}
	f, ok := props[prop]
	if !ok || *out == "" {
		fmt.Fprintln(os.Stderr, "harness: unknown property or missing -out:", prop)
		os.Exit(3)
	}
	r := newRun(prop, *seed, *tier, *out)
	f(r)
	r.finish()
}

func flagSet(fs *flag.FlagSet, name string) bool {
	found := false
	fs.Visit(func(f *flag.Flag) {
		if f.Name == name {
			found = true
		}
	})
	return found
}

// childModes are entered when the harness re-executes itself (C12, C03 fallback).
var childModes = map[string]func(args []string){}
