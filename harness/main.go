package main

import (
	"flag"
	"fmt"
	"os"
	"runtime"
	"strconv"
	"strings"
)

var props = map[string]func(r *run){}

func main() {
	// The binary is also installed under the name harness.test and started with a
	// `-test.v` argument so that the library believes it runs under `go test`
	// (is.InTesting() looks at os.Args). Strip such arguments before parsing ours.
	var args []string
	for _, a := range os.Args[1:] {
		if len(a) >= 6 && a[:6] == "-test." {
			continue
		}
		args = append(args, a)
	}
	fs := flag.NewFlagSet("harness", flag.ExitOnError)
	seed := fs.Uint64("seed", 1, "PRNG seed")
	tier := fs.String("tier", "quick", "quick | thorough")
	out := fs.String("out", "", "output directory")
	if len(args) < 1 {
		fmt.Fprintln(os.Stderr, "usage: harness <property|child-mode> [flags]")
		os.Exit(3)
	}
	prop := args[0]
	if child, ok := childModes[prop]; ok {
		child(args[1:])
		return
	}
	must(fs.Parse(args[1:]))
	if s := os.Getenv("VERIF_SEED"); s != "" && !flagSet(fs, "seed") {
		if v, err := strconv.ParseUint(s, 10, 64); err == nil {
			*seed = v
		}
	}
	f, ok := props[prop]
	if !ok || *out == "" {
		fmt.Fprintln(os.Stderr, "harness: unknown property or missing -out:", prop)
		os.Exit(3)
	}
	r := newRun(prop, *seed, *tier, *out)
	func() {
		// a panic that escapes from a library call made here (every call that may panic is wrapped where it is made) ends
		// the run: what was observed so far is kept and the panic is reported with the last operation as its input
		defer func() {
			if p := recover(); p != nil {
				lo := r.lastOp
				if len(lo) > 600 {
					lo = lo[:600] + "…"
				}
				r.violate(violation{What: "a library call that must not panic panicked (the run stopped there)",
					Input: map[string]any{"last_protocol_line_before": lo, "operations_so_far": r.nOps}, Actual: fmt.Sprint(p) + " | " + firstFrames(8)})
			}
		}()
		f(r)
	}()
	r.finish()
}

// firstFrames: the innermost frames of the panicking goroutine that are not the runtime's
func firstFrames(n int) string {
	pcs := make([]uintptr, 48)
	k := runtime.Callers(3, pcs)
	fr := runtime.CallersFrames(pcs[:k])
	var out []string
	for {
		f, more := fr.Next()
		if !strings.HasPrefix(f.Function, "runtime.") && f.Function != "" {
			out = append(out, fmt.Sprintf("%s:%d", f.Function, f.Line))
		}
		if !more || len(out) >= n {
			break
		}
	}
	return strings.Join(out, " < ")
}

func flagSet(fs *flag.FlagSet, name string) bool {
	found := false
	fs.Visit(func(f *flag.Flag) {
		if f.Name == name {
			found = true
		}
	})
	return found
}

// childModes are entered when the harness re-executes itself (C12, C03 fallback).
var childModes = map[string]func(args []string){}
