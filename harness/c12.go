package main

// C12 — Panic and Fatal. Every cell runs in a child process built from the tree, in
// production mode (binary `harness`) and in go-test mode (binary `harness.test -test.v`,
// which makes is.InTesting() true). Observation: records written, then returned / recovered
// panic value / exit status.

import (
	"bufio"
	"bytes"
	"context"
	"encoding/hex"
	"fmt"
	"io"
	"os"
	"os/exec"
	"strconv"
	"strings"
	"sync"

	"github.com/hedzr/logg/slog"
)

func init() {
	props["C12"] = runC12
	childModes["c12child"] = c12Child
	childModes["c12neg"] = c12Neg
	childModes["c12muted"] = c12Muted
	childModes["c12hist"] = c12Hist
}

type stdoutRec struct{}

func (stdoutRec) Write(p []byte) (int, error) {
	os.Stdout.WriteString("REC " + hex.EncodeToString(p) + "\n")
	return len(p), nil
}

// c12Setup establishes flags, logger, format and level. `via` selects the API path by which
// the same flag word and level are reached (the state at the time of the call is identical).
func c12Setup(recv string, L int, flags uint64, format string, via int) slog.Logger {
	want := (slog.GetFlags() &^ slog.Lcaller) | slog.Flags(flags)
	switch via % 3 {
	case 0:
		slog.SetFlags(want)
	case 1:
		slog.RemoveFlags(slog.Lcaller)
		slog.AddFlags(slog.Flags(flags))
	case 2:
		slog.SetFlags(want)
		// enter and leave a scope that toggles both termination flags
		restore := slog.SaveFlagsAndMod(^want&(slog.LnoInterrupt|slog.Linterruptalways), want&(slog.LnoInterrupt|slog.Linterruptalways))
		restore()
	}
	var l slog.Logger
	byConstruction := false
	switch {
	case recv == "p" && via%5 == 3:
		// the default logger replaced by a user-made one (SetDefault): the package functions act on it
		// (a setter's result, i.e. the *Entry itself — the usual spelling SetDefault(New(..).SetLevel(..)))
		e := slog.New("c12app").SetLevel(slog.InfoLevel)
		slog.SetDefault(e)
		l = e
	case recv == "p":
		l = slog.Default()
	case via%5 == 1:
		// the level reaches the logger at construction: as an option of New
		l = slog.New("c12", slog.WithLevel(slog.Level(L)))
		byConstruction = true
	case via%5 == 4:
		// … or inherited from the parent it is created from
		l = slog.New("c12parent").SetLevel(slog.Level(L)).New("c12")
		byConstruction = true
	default:
		l = slog.New("c12")
	}
	l.SetWriter(stdoutRec{}).SetErrorWriter(stdoutRec{})
	switch format {
	case "json":
		l.SetJSONMode(true)
	case "color":
		l.SetColorMode(true)
	default:
		l.SetColorMode(false)
	}
	if recv == "p" && via%2 == 0 {
		slog.SetLevel(slog.Level(L))
	} else {
		if recv == "p" && via%3 == 1 {
			slog.SetLevel(slog.OffLevel) // the package level was switched off earlier; the default logger is levelled on its own
		} else if recv == "p" {
			slog.SetLevel(slog.InfoLevel) // the package level and the default logger's own level differ
		}
		if !byConstruction {
			l.SetLevel(slog.Level(L))
		}
	}
	if int(l.Level()) != L {
		fmt.Println("HARNESS-ERROR level not reached", int(l.Level()), L)
	}
	return l
}

// c12child <recv> <name> <arg> <variant> <L> <flags> <format> <msghex> <via>
func c12Child(a []string) {
	if len(a) != 9 && len(a) != 10 { // an optional tenth argument is ignored by the child itself
		os.Exit(4)
	}
	arg, _ := strconv.Atoi(a[2])
	variant, _ := strconv.Atoi(a[3])
	L, _ := strconv.Atoi(a[4])
	flags, _ := strconv.ParseUint(a[5], 10, 64)
	msgb, _ := hex.DecodeString(a[7])
	fmt.Println("INTESTING", slog.VerifInTesting())
	via, _ := strconv.Atoi(a[8])
	l := c12Setup(a[0], L, flags, a[6], via)
	if via%7 == 3 {
		// an earlier Panic call of the same process (recovered by its caller, if it panicked at all): every later
		// terminating call terminates as if it were the first
		func() {
			defer func() { _ = recover() }()
			pre := slog.New("c12earlier")
			pre.SetWriter(io.Discard).SetErrorWriter(io.Discard).SetLevel(slog.TraceLevel)
			pre.Panic("an earlier panic, recovered")
		}()
	}
	f := loggerEPs[a[1]]
	if a[0] == "p" {
		f = pkgEPs[a[1]]
	}
	defer func() {
		if r := recover(); r != nil {
			os.Stdout.WriteString("PANIC " + hex.EncodeToString([]byte(fmt.Sprint(r))) + "\n")
			os.Exit(10)
		}
	}()
	// the shape of the argument list varies with the cell; it has no bearing on termination
	var args []any
	switch (via / 3) % 4 {
	case 1:
		args = []any{"k", 1}
	case 2:
		args = []any{slog.Attrs{slog.Int("k", 1)}}
	case 3:
		args = []any{slog.Int("k", 1)}
	}
	if via%4 == 3 {
		// refused presentation settings stay refused: a tag width outside 1..5, a minimal width below 16
		slog.SetLevelOutputWidth(6)
		slog.SetLevelOutputWidth(0)
		slog.SetMessageMinimalWidth(3)
	}
	// … nor has the context: a logger with registered context keys, given a context without them or no context at all
	ctx := context.Background()
	if via%4 == 2 {
		l.SetContextKeys("c12key", 12)
		if via%8 == 6 {
			ctx = nil
		}
	}
	f(l, ctx, arg, variant, string(msgb), args)
	os.Stdout.WriteString("RETURNED\n")
	os.Exit(0)
}

// c12neg <flags> <format>: every non-terminating severity through every entry point, in one
// process; each call is announced before and acknowledged after.
func c12Neg(a []string) {
	flags, _ := strconv.ParseUint(a[0], 10, 64)
	fmt.Println("INTESTING", slog.VerifInTesting())
	_ = slog.RegisterLevel(slog.Level(40), "c12aspanic", slog.RegWithTreatedAsLevel(slog.PanicLevel))
	_ = slog.RegisterLevel(slog.Level(41), "c12asfatal", slog.RegWithTreatedAsLevel(slog.FatalLevel), slog.RegWithPrintToErrorDevice())
	// levels without short tags of their own whose titles are shorter than the tag column: the tag is the padded title
	_ = slog.RegisterLevel(slog.Level(50), "V", slog.RegWithTreatedAsLevel(slog.InfoLevel))
	_ = slog.RegisterLevel(slog.Level(51), "ab", slog.RegWithTreatedAsLevel(slog.WarnLevel))
	ctx := context.Background()
	for _, recv := range []string{"l", "p"} {
		for _, L := range []int{6, 8, 0} {
			slog.SetLevelOutputWidth(map[int]int{6: 5, 8: 4, 0: 3}[L])
			l := c12Setup(recv, L, flags, a[1], L)
			slog.SetLevelOutputWidth(6) // refused: the width set above stays
			cx := ctx
			if L == 6 {
				// the most admitting logger has context keys registered and is given no context at all
				l.SetContextKeys("c12key", 12)
				cx = nil
			}
			eps := loggerEPs
			if recv == "p" {
				eps = pkgEPs
			}
			for name, f := range eps {
				var argsList []int
				switch {
				case name == "LogAttrs" || name == "Logit":
					argsList = []int{2, 3, 4, 5, 6, 7, 8, 9, 10, 11, 12, 33, 40, 41, -1, 50, 51}
				case name == "Log":
					argsList = []int{-20, -16, -8, -4, 0, 1, 2, 3, 4, 8, 9, 12, 13, 15, 18, 100}
				case fixedSeverity[baseVerb(name)] <= 1 && baseVerb(name) != "Verbose":
					if _, ok := fixedSeverity[baseVerb(name)]; ok {
						continue // Panic / Fatal verbs are the positive cases
					}
					argsList = []int{0}
				default:
					argsList = []int{0}
				}
				for _, arg := range argsList {
					variant := 0
					if name == "Println" {
						variant = 1
					}
					fmt.Printf("CALL %s %s %d %d %d\n", recv, name, arg, variant, L)
					f(l, cx, arg, variant, "negative", nil)
					fmt.Println("ACK")
				}
			}
		}
	}
	fmt.Println("DONE")
}

// c12muted <verb> <format> <flags>: a logger whose error list was given one destination which was taken away again (the
// list is empty: its records are written nowhere). An admitted Panic / Fatal terminates all the same.
func c12Muted(a []string) {
	if len(a) != 3 && len(a) != 4 {
		os.Exit(4)
	}
	flags, _ := strconv.ParseUint(a[2], 10, 64)
	slog.SetFlags((slog.GetFlags() &^ slog.Lcaller) | slog.Flags(flags))
	l := slog.New("c12muted").SetLevel(slog.InfoLevel)
	c14Format(l, map[string]string{"json": "j", "logfmt": "l", "color": "c"}[a[1]])
	gone := &recorder{}
	l.SetErrorWriter(gone)
	l.RemoveErrorWriter(gone)
	if len(a) == 4 && a[3] == "dup" {
		// the same destination registered twice and taken away once: it is still registered, the record is written first
		l.SetErrorWriter(stdoutRec{})
		l.AddErrorWriter(stdoutRec{})
		l.RemoveErrorWriter(stdoutRec{})
	}
	defer func() {
		if r := recover(); r != nil {
			os.Stdout.WriteString("PANIC " + hex.EncodeToString([]byte(fmt.Sprint(r))) + "\n")
			os.Exit(10)
		}
	}()
	switch a[0] {
	case "Panic":
		l.Panic("muted-message", "k", 1)
	case "Fatal":
		l.Fatal("muted-message", "k", 1)
	case "PanicContext":
		l.PanicContext(context.Background(), "muted-message")
	}
	os.Stdout.WriteString("RETURNED\n")
	os.Exit(0)
}

// c12hist <scenario> <flags>: what happened earlier in the process does not change what Panic / Fatal do.
//
//	panics: forty Panic calls on one logger, each recovered (a service behind a recover middleware): every one writes its
//	        record and panics with its message; then an Info record is written; then Fatal exits with 253.
//	args:   the program rewrites os.Args (to something that does not / does look like a test command line) and some logger is
//	        set to the Debug level, which switches the debug mode on; the Panic call that follows behaves as the mode the
//	        process really runs in says.
func c12Hist(a []string) {
	if len(a) != 2 {
		os.Exit(4)
	}
	flags, _ := strconv.ParseUint(a[1], 10, 64)
	slog.SetFlags((slog.GetFlags() &^ slog.Lcaller) | slog.Flags(flags))
	l := slog.New("c12hist").SetLevel(slog.InfoLevel).SetColorMode(false)
	l.SetWriter(stdoutRec{}).SetErrorWriter(stdoutRec{})
	try := func(i int, f func()) {
		defer func() {
			if r := recover(); r != nil {
				os.Stdout.WriteString(fmt.Sprintf("PANIC %d ", i) + hex.EncodeToString([]byte(fmt.Sprint(r))) + "\n")
				return
			}
		}()
		f()
		os.Stdout.WriteString(fmt.Sprintf("RETURNED %d\n", i))
	}
	switch a[0] {
	case "panics":
		for i := 0; i < 40; i++ {
			try(i, func() {
				if i%2 == 0 {
					l.Panic(fmt.Sprintf("msg-%d", i), "i", i)
				} else {
					l.PanicContext(context.Background(), fmt.Sprintf("msg-%d", i), "i", i)
				}
			})
		}
		try(40, func() { l.Info("msg-40", "after", "forty recovered panics") })
		try(41, func() { l.Warn("msg-41") })
		l.Fatal("msg-42")
		os.Stdout.WriteString("RETURNED 42\n")
	case "args":
		if slog.VerifInTesting() {
			os.Args = []string{"myapp", "serve", "--debug"}
		} else {
			os.Args = []string{"/tmp/go-build1/b001/myapp.test", "-test.v", "-test.run", "^TestServe$"}
		}
		slog.New("c12hist-other").SetLevel(slog.DebugLevel)
		l.SetLevel(slog.TraceLevel)
		try(0, func() { l.Panic("msg-0", "port", 8080) })
		try(1, func() { l.Info("msg-1") })
		l.Fatal("msg-2")
		os.Stdout.WriteString("RETURNED 2\n")
	}
	os.Exit(0)
}

type c12Cell struct {
	testing bool
	flags   uint64
	L       int
	recv    string
	name    string
	arg     int
	format  string
	msg     string
}

type c12Result struct {
	intesting string
	recs      [][]byte
	outcome   string // returned | panic | exit N
	panicVal  string
	raw       string
}

func c12Spawn(exe string, testing bool, mode string, args ...string) (string, int) {
	var cmd *exec.Cmd
	if testing {
		cmd = exec.Command(exe+".test", append([]string{"-test.v", mode}, args...)...)
	} else {
		cmd = exec.Command(exe, append([]string{mode}, args...)...)
	}
	var out bytes.Buffer
	cmd.Stdout = &out
	cmd.Stderr = &out
	err := cmd.Run()
	code := 0
	if err != nil {
		if ee, ok := err.(*exec.ExitError); ok {
			code = ee.ExitCode()
		} else {
			code = -1
		}
	}
	return out.String(), code
}

func runC12(r *run) {
	exe := os.Getenv("VERIF_HARNESS")
	if exe == "" {
		must(fmt.Errorf("VERIF_HARNESS not set"))
	}
	r.rule = "one child process per cell: {production, go-test} × {none, no-interrupt, interrupt-always, both} × {admitted, not admitted} × entry points that can carry Panic/Fatal × formats (quick: logfmt everywhere, json/colour on a third); plus one child per (mode, flags) that sends every other severity through every entry point; distinct = distinct cells; non-trivial = all"
	const noInt, always = 1 << 20, 1 << 21
	type epv struct {
		recv, name string
		arg, sev   int
	}
	var eps []epv
	for _, recv := range []string{"l", "p"} {
		for _, n := range []string{"Panic", "PanicContext", "Fatal", "FatalContext"} {
			eps = append(eps, epv{recv, n, 0, fixedSeverity[baseVerb(n)]})
		}
	}
	for _, n := range []string{"LogAttrs", "Logit"} {
		eps = append(eps, epv{"l", n, 0, 0}, epv{"l", n, 1, 1})
	}
	eps = append(eps, epv{"l", "Log", 17, 0}, epv{"l", "Log", 16, 1})
	var cells []c12Cell
	i := 0
	for _, testing := range []bool{false, true} {
		for _, fl := range []uint64{0, noInt, always, noInt | always} {
			for _, L := range []int{4, 7, 0} { // admitted at Info; Off admits nothing; Panic-level logger: Fatal not admitted
				for _, e := range eps {
					formats := []string{"logfmt"}
					i++
					if r.tier == "thorough" || i%3 == 0 {
						formats = []string{"logfmt", "json", "color"}
					}
					for _, f := range formats {
						cells = append(cells, c12Cell{testing, fl, L, e.recv, e.name, e.arg, f, "the message \"q\" 100%"})
					}
				}
			}
		}
	}
	results := make([]c12Result, len(cells))
	var wg sync.WaitGroup
	sem := make(chan struct{}, 16)
	for idx := range cells {
		wg.Add(1)
		sem <- struct{}{}
		go func(idx int) {
			defer wg.Done()
			defer func() { <-sem }()
			c := cells[idx]
			args := []string{c.recv, c.name, strconv.Itoa(c.arg), "0", strconv.Itoa(c.L),
				strconv.FormatUint(c.flags, 10), c.format, hex.EncodeToString([]byte(c.msg)), strconv.Itoa(idx)}
			if !c.testing && idx%4 == 2 {
				// an ordinary program may take arguments of any spelling; that does not make it a test or benchmark run
				args = append(args, []string{"-benchmark-db=off", "-bench", "-test-data=x"}[(idx/4)%3])
			}
			out, code := c12Spawn(exe, c.testing, "c12child", args...)
			res := c12Result{raw: out, outcome: "exit " + strconv.Itoa(code)}
			sc := bufio.NewScanner(strings.NewReader(out))
			sc.Buffer(make([]byte, 1<<20), 1<<20)
			for sc.Scan() {
				line := sc.Text()
				switch {
				case strings.HasPrefix(line, "INTESTING "):
					res.intesting = line[10:]
				case strings.HasPrefix(line, "REC "):
					b, _ := hex.DecodeString(line[4:])
					res.recs = append(res.recs, b)
				case strings.HasPrefix(line, "PANIC "):
					b, _ := hex.DecodeString(line[6:])
					res.outcome, res.panicVal = "panic", string(b)
				case line == "RETURNED":
					res.outcome = "returned"
				}
			}
			results[idx] = res
		}(idx)
	}
	wg.Wait()
	sevOf := func(c c12Cell) int {
		switch c.name {
		case "LogAttrs", "Logit":
			return c.arg
		case "Log":
			return int(slog.VerifLogslogToLevel(logslogLevel(c.arg)))
		}
		return fixedSeverity[baseVerb(c.name)]
	}
	r.emit("C12 reset", "ok")
	for idx, c := range cells {
		res := results[idx]
		op := fmt.Sprintf("C12 call %s %d %d %s %s %d 0", b01(c.testing), c.flags, c.L, c.recv, c.name, c.arg)
		r.emit(op, fmt.Sprintf("%d %s", len(res.recs), res.outcome))
		r.seen(fmt.Sprintf("%v|%d|%d|%s%s|%d|%s", c.testing, c.flags, c.L, c.recv, c.name, c.arg, c.format))
		// oracle, from the statement
		sev := sevOf(c)
		admitted := admitsRef(false, map[int]int{9: 4, 10: 4, 11: 2}, c.L, sev)
		want := "returned"
		if admitted && c.flags&noInt == 0 && (!c.testing || c.flags&always != 0) {
			if sev == 0 {
				want = "panic"
			} else if sev == 1 {
				want = "exit 253"
			}
		}
		wantRecs := 0
		if admitted {
			wantRecs = 1
		}
		r.count("outcome=" + strings.Fields(want)[0])
		bad := res.outcome != want || len(res.recs) != wantRecs || res.intesting != fmt.Sprint(c.testing)
		if !bad && want == "panic" && res.panicVal != c.msg {
			bad = true
		}
		if !bad && wantRecs == 1 && (!bytes.HasSuffix(res.recs[0], []byte("\n")) || !bytes.Contains(res.recs[0], []byte("the message"))) {
			bad = true
		}
		if bad {
			r.violate(violation{What: "termination differs from the documented behaviour",
				Input:    map[string]any{"go_test_mode": c.testing, "flags": c.flags, "logger_level": c.L, "entry_point": c.recv + ":" + c.name, "level_arg": c.arg, "format": c.format, "message": c.msg, "setup_path": idx % 3},
				Expected: map[string]any{"outcome": want, "records": wantRecs, "panic_value": c.msg},
				Actual:   map[string]any{"outcome": res.outcome, "records": len(res.recs), "panic_value": res.panicVal, "in_testing": res.intesting, "output_tail": tail(res.raw, 300)}})
		}
		if idx%97 == 0 {
			r.sample(map[string]any{"cell": op, "format": c.format, "observed": fmt.Sprintf("%d %s", len(res.recs), res.outcome)})
		}
	}
	// negative sweeps (the child registers 40 treated as Panic and 41 treated as Fatal)
	r.emit("C12 reg 40 0", "ok")
	r.emit("C12 reg 41 1", "ok")
	r.emit("C12 reg 50 4", "ok") // "V", treated as Info
	r.emit("C12 reg 51 3", "ok") // "ab", treated as Warn
	for _, testing := range []bool{false, true} {
		for _, fl := range []uint64{0, always} {
			for _, format := range []string{"logfmt", "color"} {
				out, code := c12Spawn(exe, testing, "c12neg", strconv.FormatUint(fl, 10), format)
				lines := strings.Split(out, "\n")
				var cur string
				recs := 0
				done := false
				for _, line := range lines {
					switch {
					case strings.HasPrefix(line, "CALL "):
						cur, recs = line[5:], 0
					case strings.HasPrefix(line, "REC "):
						recs++
					case line == "ACK":
						f := strings.Fields(cur)
						r.emit(fmt.Sprintf("C12 call %s %d %s %s %s %s %s", b01(testing), fl, f[4], f[0], f[1], f[2], f[3]), fmt.Sprintf("%d returned", recs))
						r.seen("neg|" + b01(testing) + "|" + strconv.FormatUint(fl, 10) + "|" + cur)
						r.count("outcome=returned(negative)")
						cur = ""
					case line == "DONE":
						done = true
					}
				}
				if !done || code != 0 {
					r.violate(violation{What: "a severity other than Panic/Fatal terminated the process",
						Input:  map[string]any{"go_test_mode": testing, "flags": fl, "call": cur},
						Actual: map[string]any{"exit": code, "output_tail": tail(out, 400)}})
				}
			}
		}
	}
	// a logger that writes its error-class records nowhere still terminates (production mode, and go-test mode with the
	// interrupt-always flag)
	for _, testing := range []bool{false, true} {
		for _, verb := range []string{"Panic", "Fatal", "PanicContext"} {
			for _, format := range []string{"logfmt", "json"} {
				fl := uint64(0)
				if testing {
					fl = always
				}
				out, code := c12Spawn(exe, testing, "c12muted", verb, format, strconv.FormatUint(fl, 10))
				want := "PANIC " + hex.EncodeToString([]byte("muted-message"))
				ok := code == 10 && strings.Contains(out, want)
				if verb == "Fatal" {
					ok = code == 253
					want = "exit status 253"
				}
				r.seen("muted|" + b01(testing) + "|" + verb + "|" + format)
				out2, code2 := c12Spawn(exe, testing, "c12muted", verb, format, strconv.FormatUint(fl, 10), "dup")
				ok2 := strings.Contains(out2, "REC ") && ((verb != "Fatal" && code2 == 10 && strings.Contains(out2, want)) || (verb == "Fatal" && code2 == 253))
				if !ok2 {
					r.violate(violation{What: "an admitted " + verb + " did not write its record and then terminate: its error destination was registered twice and removed once",
						Input:    map[string]any{"go_test_mode": testing, "flags": fl, "format": format, "configured_by": "SetErrorWriter(w); AddErrorWriter(w); RemoveErrorWriter(w)"},
						Expected: "one record, then " + want, Actual: map[string]any{"exit": code2, "output_tail": tail(out2, 300)}})
				}
				if !ok {
					r.violate(violation{What: "an admitted " + verb + " on a logger whose error writers were all removed did not terminate as " + verb + " does",
						Input:    map[string]any{"go_test_mode": testing, "flags": fl, "format": format, "configured_by": "SetErrorWriter(w); RemoveErrorWriter(w)"},
						Expected: want, Actual: map[string]any{"exit": code, "output_tail": tail(out, 300)}})
				}
			}
		}
	}
	// what happened earlier in the process does not change what Panic / Fatal do
	for _, testing := range []bool{false, true} {
		for _, fl := range []uint64{0, always, noInt} {
			terminates := fl&noInt == 0 && (!testing || fl&always != 0)
			for _, scen := range []string{"panics", "args"} {
				out, code := c12Spawn(exe, testing, "c12hist", scen, strconv.FormatUint(fl, 10))
				r.seen("history|" + scen + "|" + b01(testing) + "|" + fmt.Sprint(fl))
				var got []string
				for _, ln := range strings.Split(out, "\n") {
					switch {
					case strings.HasPrefix(ln, "REC "):
						b, _ := hex.DecodeString(ln[4:])
						m := "?"
						if i := strings.Index(string(b), "msg-"); i >= 0 {
							m = string(b)[i:]
							if j := strings.IndexAny(m, "\" \n"); j >= 0 {
								m = m[:j]
							}
						}
						got = append(got, "record "+m)
					case strings.HasPrefix(ln, "PANIC "):
						f := strings.Fields(ln)
						b, _ := hex.DecodeString(f[2])
						got = append(got, "panic "+string(b))
					case strings.HasPrefix(ln, "RETURNED "):
						got = append(got, "returned")
					}
				}
				var want []string
				last := 41
				if scen == "args" {
					last = 1
				}
				for i := 0; i <= last; i++ {
					want = append(want, fmt.Sprintf("record msg-%d", i))
					isPanic := (scen == "panics" && i < 40) || (scen == "args" && i == 0)
					if isPanic && terminates {
						want = append(want, fmt.Sprintf("panic msg-%d", i))
					} else {
						want = append(want, "returned")
					}
				}
				want = append(want, fmt.Sprintf("record msg-%d", last+1))
				wantCode := 253
				if !terminates {
					want = append(want, "returned")
					wantCode = 0
				}
				if strings.Join(got, "|") != strings.Join(want, "|") || code != wantCode {
					k := 0
					for k < len(got) && k < len(want) && got[k] == want[k] {
						k++
					}
					exp, act := "end of output", "end of output"
					if k < len(want) {
						exp = want[k]
					}
					if k < len(got) {
						act = got[k]
					}
					what := "after forty recovered Panic calls on one logger"
					if scen == "args" {
						what = "after the program rewrote os.Args and a logger was set to the Debug level"
					}
					r.violate(violation{What: "Panic / Fatal / other severities do not behave as stated " + what,
						Input:    map[string]any{"go_test_mode": testing, "flags": fl, "scenario": "harness " + "c12hist " + scen, "step": k},
						Expected: map[string]any{"event": exp, "exit": wantCode}, Actual: map[string]any{"event": act, "exit": code, "output_tail": tail(out, 300)}})
				}
			}
		}
	}
	r.extra["child_processes"] = len(cells) + 4 + 12 + 12
}

func tail(s string, n int) string {
	if len(s) > n {
		return s[len(s)-n:]
	}
	return s
}
