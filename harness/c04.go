package main

// C04 — JSON mode. Byte-exact correspondence with the Lean encoder model; independent oracle:
// every payload is fed to encoding/json and the decoded object is compared with what was logged
// (strings byte for byte when valid UTF-8, numbers exactly — as JSON numbers or as strings holding
// the exact decimal text —, nil as null, groups as nested objects, slices as arrays).

import (
	"bytes"
	"encoding/json"
	"errors"
	"fmt"
	"os"
	"os/exec"
	"strings"
	"unicode/utf8"

	errorsv3 "gopkg.in/hedzr/errors.v3"

	"github.com/hedzr/logg/slog"
)

func init() { props["C04"] = runC04 }

func jsonScalarString(x any) (string, bool) {
	switch v := x.(type) {
	case string:
		return v, true
	case json.Number:
		return v.String(), true
	}
	return "", false
}

// c04Match checks one decoded value against the generated one; returns "" if fine.
func c04Match(key string, got any, v gval) string {
	switch v.kind {
	case "nil":
		if got != nil {
			return fmt.Sprintf("%q: nil came back as %v", key, got)
		}
	case "string", "stringer", "error", "bytes", "level", "fallback", "duration", "time", "textm":
		want := v.text
		if v.kind == "textm" {
			want = v.jtext
		}
		var s string
		var ok bool
		if v.kind == "error" {
			m, isObj := got.(map[string]any)
			if !isObj {
				return fmt.Sprintf("%q: error is not an object with a message", key)
			}
			s, ok = m["message"].(string)
		} else {
			s, ok = got.(string)
		}
		if !ok {
			return fmt.Sprintf("%q: %s did not come back as a string (%T)", key, v.kind, got)
		}
		if utf8.ValidString(want) && s != want {
			return fmt.Sprintf("%q: string %q came back as %q", key, want, s)
		}
	case "bool":
		b, ok := got.(bool)
		if !ok || b != v.goVal.(bool) {
			return fmt.Sprintf("%q: bool came back as %v", key, got)
		}
	case "int", "uint", "float":
		want := v.text
		if v.kind != "float" {
			want = strings.SplitN(v.tok, ":", 2)[1]
		}
		s, ok := jsonScalarString(got)
		if !ok || s != want {
			return fmt.Sprintf("%q: number %s came back as %v", key, want, got)
		}
	case "complex":
		if _, ok := got.(string); !ok {
			return fmt.Sprintf("%q: complex did not come back as a string", key)
		}
	case "[]string", "[]int", "[]uint", "[]float", "[]duration", "[]time", "[]bool", "[]complex":
		arr, ok := got.([]any)
		if !ok {
			return fmt.Sprintf("%q: slice did not come back as an array (%T)", key, got)
		}
		if v.list != nil || v.kind == "[]string" {
			if len(arr) != len(v.list) {
				return fmt.Sprintf("%q: array of %d elements, want %d", key, len(arr), len(v.list))
			}
			for i := range arr {
				s, ok := jsonScalarString(arr[i])
				if !ok || (utf8.ValidString(v.list[i]) && s != v.list[i]) {
					return fmt.Sprintf("%q: element %d is %v, want %q", key, i, arr[i], v.list[i])
				}
			}
		}
	case "group":
		m, ok := got.(map[string]any)
		if !ok {
			return fmt.Sprintf("%q: group did not come back as a nested object (%T)", key, got)
		}
		return c04MatchObject(m, effective(v.items))
	}
	return ""
}

func c04MatchObject(m map[string]any, as []gattr) string {
	for _, a := range as {
		if !utf8.ValidString(a.key) {
			continue // an invalid-UTF-8 key comes back with replacement characters
		}
		got, ok := m[a.key]
		if !ok {
			return fmt.Sprintf("member %q is missing", a.key)
		}
		if d := c04Match(a.key, got, a.val); d != "" {
			return d
		}
	}
	return ""
}

func runC04(r *run) {
	g := &rng{s: r.seed*198491317 + 4}
	slog.VerifResetGlobals()
	r.rule = "random records in JSON mode (all value kinds, groups nested to depth 4, awkward bytes in messages, keys and values), caller on/off; distinct = distinct (value kinds present, awkward classes, nesting depth); non-trivial = records with an awkward byte, a group, nil or []byte"
	n := 2500
	if r.tier == "thorough" {
		n = 40000
	}
	reserved := map[string]bool{"time": true, "level": true, "msg": true, "caller": true, "logger": true}
	for i := 0; i < n; i++ {
		c := &encCase{format: "j", lvl: encLevels[g.intn(len(encLevels))], ts: g.encTime(), msg: g.encMessage(true, false),
			attrs: g.genAttrs(g.intn(9), 4, false, false), caller: g.chance(1, 4), tagW: 3, minW: 36}
		for k := range c.attrs {
			if reserved[c.attrs[k].key] {
				c.attrs[k].key = "k" + c.attrs[k].key
			}
		}
		if g.chance(1, 6) {
			// group members named like the built-in fields, holding any value that is not a time.Time: ordinary members
			var items []gattr
			for _, name := range []string{"time", "level", "msg", "logger", "caller"} {
				if g.chance(1, 2) {
					v := g.genScalar(false)
					for v.kind == "time" || v.kind == "times" {
						v = g.genScalar(false)
					}
					items = append(items, gattr{key: name, val: v})
				}
			}
			if g.chance(1, 2) {
				items = []gattr{{key: "inner", isGroup: true, val: gval{kind: "group", items: items}}, {key: "n", val: gval{kind: "int", goVal: 1, tok: "I:1"}}}
			}
			c.attrs = append(c.attrs, gattr{key: []string{"req", "g", "zz"}[g.intn(3)], isGroup: true, val: gval{kind: "group", items: items}})
		}
		if i%16 == 7 {
			// a severity that is printed while still unregistered ("L#n") and registered afterwards: the level member
			// follows the registration at once
			v := 300 + i
			early := &encCase{format: "j", lvl: v, ts: g.encTime(), msg: "before the registration", tagW: 3, minW: 36, name: c.name}
			encRun(r, "C04", early)
			title := fmt.Sprintf("AUDIT-%d", i)
			if err := slog.RegisterLevel(slog.Level(v), title); err != nil {
				r.violate(violation{What: "harness: registration refused", Actual: err.Error()})
			}
			r.emit(fmt.Sprintf("C17 reg %d %s x x x x x x -1 -1 12 0", v, hxs(title)), "ok")
			c.lvl = v
		}
		if i%8 == 3 {
			// long lists with keys given more than once: the value given last is the member's value
			c.attrs = append(c.attrs, g.genWideAttrs(true)...)
		}
		if i%32 == 5 {
			// code points some readers treat specially (byte order mark, noncharacters, line and paragraph separators)
			// are ordinary characters of a JSON string: they come back as they went in
			sp := []string{"\ufeffstarts with a byte order mark", "non\ufffechar\uffffacters", "sep\u2029arators\u2028", "\ufeff", "\uffff\ufffe\ufeff\ufffd\ufffc"}[(i/32)%5]
			if (i/32)%2 == 0 {
				c.msg = sp
			}
			c.attrs = append(c.attrs, gattr{key: "sp" + sp[:3], val: gval{kind: "string", goVal: sp, tok: "S:" + hxs(sp), text: sp}},
				gattr{key: "spl", val: gval{kind: "stringer", goVal: c04Stringer{sp}, tok: "S:" + hxs(sp), text: sp}})
		}
		if g.chance(1, 2) {
			c.name = []string{"app", "my logger", "q\"uote\nnl", "\xff"}[g.intn(4)]
		}
		if g.chance(1, 4) {
			noise := &encCase{format: []string{"l", "c"}[g.intn(2)], lvl: 4, ts: g.encTime(), msg: g.encMessage(true, true),
				attrs: g.genAttrs(1+g.intn(4), 2, true, true), tagW: 3, minW: 36, name: "other"}
			encRun(r, "C04", noise)
		}
		if i%10 == 4 {
			encPanicNoise([]string{"c", "l", "j"}[(i/10)%3])
		}
		if i%10 == 9 {
			encStringerNoise([]string{"l", "j", "c"}[(i/10)%3])
		}
		encRun(r, "C04", c)
		kinds := map[string]bool{}
		depthMax := 0
		var walk func(as []gattr, d int)
		walk = func(as []gattr, d int) {
			if d > depthMax {
				depthMax = d
			}
			for _, a := range as {
				kinds[a.val.kind] = true
				if a.val.kind == "group" {
					walk(a.val.items, d+1)
				}
			}
		}
		walk(c.attrs, 0)
		var ks []string
		for k := range kinds {
			ks = append(ks, k)
			r.count("kind=" + k)
		}
		sortStrings(ks)
		r.seen(strings.Join(ks, ",") + fmt.Sprint(depthMax))
		if c.payload == nil {
			r.violate(violation{What: "a JSON record was not delivered as one write", Input: encDescribe(c), Actual: c.writes})
			continue
		}
		line := c.payload
		if c.lvl == 8 && strings.Trim(c.msg, "\n\r \t") == "" {
			continue
		}
		if bytes.Count(line, []byte{'\n'}) != 1 || !bytes.HasSuffix(line, []byte{'\n'}) {
			r.violate(violation{What: "a JSON record is not exactly one line", Input: encDescribe(c), Actual: fmt.Sprintf("%q", line)})
			continue
		}
		dec := json.NewDecoder(bytes.NewReader(line))
		dec.UseNumber()
		var obj map[string]any
		if err := dec.Decode(&obj); err != nil {
			r.violate(violation{What: "the record is not valid JSON: " + err.Error(), Input: encDescribe(c), Actual: fmt.Sprintf("%q", line)})
			continue
		}
		if dec.More() {
			r.violate(violation{What: "more than one JSON value on the line", Input: encDescribe(c), Actual: fmt.Sprintf("%q", line)})
		}
		if i%3 == 0 {
			// the member reader of the proof against encoding/json: the ordered members of the record's object,
			// decoded key and raw value text
			obs := "err"
			d2 := json.NewDecoder(bytes.NewReader(line))
			if tok, err := d2.Token(); err == nil && tok == json.Delim('{') {
				var parts []string
				ok := true
				for d2.More() {
					kt, err := d2.Token()
					ks, isStr := kt.(string)
					var raw json.RawMessage
					if err != nil || !isStr || d2.Decode(&raw) != nil {
						ok = false
						break
					}
					parts = append(parts, hxs(ks)+":"+hx(raw))
				}
				if ok {
					obs = "ok " + strings.Join(parts, " ")
				}
			}
			r.emit("Q jmem "+hx(line[:len(line)-1]), obs)
		}
		detail := ""
		if obj["time"] != c.tsText {
			detail = fmt.Sprintf("time is %v, want %q", obj["time"], c.tsText)
		} else if obj["level"] != slog.Level(c.lvl).String() {
			detail = fmt.Sprintf("level is %v", obj["level"])
		} else if s, _ := obj["msg"].(string); utf8.ValidString(c.msg) && s != c.msg {
			detail = fmt.Sprintf("msg is %q, want %q", s, c.msg)
		} else if nm, has := obj["logger"]; (c.name != "") != has || (has && utf8.ValidString(c.name) && nm != c.name) {
			detail = fmt.Sprintf("logger is %v, want %q", nm, c.name)
		} else {
			detail = c04MatchObject(obj, effective(c.attrs))
		}
		if detail == "" && c.caller {
			if _, ok := obj["caller"].(map[string]any); !ok {
				detail = "caller is not an object"
			}
		}
		if detail != "" {
			r.violate(violation{What: "decoding the JSON record does not give back what was logged: " + detail, Input: encDescribe(c), Actual: fmt.Sprintf("%q", line)})
		}
		if i < 4 {
			r.sample(map[string]any{"record": encDescribe(c), "line": string(line)})
		}
	}
	c04PreparedLists(r, g)
	c04GroupGrows(r)
	envProbe(r, false, "tz", "TZ=Europe/Berlin")
	envProbe(r, false, "tz", "TZ=Australia/Sydney")
	envProbe(r, false, "oneline", "DEBUG=1")
	// the quoting functions themselves, and the standard readers of their output
	nq := 1500
	if r.tier == "thorough" {
		nq = 30000
	}
	quoteProbes(r, g, true, nq)
	slog.VerifResetGlobals()
	// the same in go-test mode for records with error values (the twin binary, oracle only)
	if exe := os.Getenv("VERIF_HARNESS"); exe != "" {
		if err := r.mergeChild(exec.Command(exe+".test", "-test.v", "c04test", fmt.Sprint(r.seed), r.tier)); err != nil {
			r.violate(violation{What: "the go-test-mode twin of the harness failed: " + err.Error()})
		}
	}
}

// c04PreparedLists: attribute lists prepared once by the application (Attrs values, []Attr) and passed to the verbs again
// and again, with other loggers' records in between: each record decodes to exactly the members that call was given.
func c04PreparedLists(r *run, g *rng) {
	rounds := 40
	if r.tier == "thorough" {
		rounds = 600
	}
	slog.SetFlags((slog.LstdFlags &^ slog.Lcaller) | slog.LnoInterrupt)
	for round := 0; round < rounds; round++ {
		recA, recB := &recorder{}, &recorder{}
		a := slog.New(fmt.Sprintf("c04pa%d", round)).SetWriter(recA).SetErrorWriter(recA).SetLevel(slog.InfoLevel).SetJSONMode(true)
		b := slog.New(fmt.Sprintf("c04pb%d", round)).SetWriter(recB).SetErrorWriter(recB).SetLevel(slog.InfoLevel).SetJSONMode(true)
		nk := 1 + g.intn(4)
		var pairs []any
		want := map[string]int{}
		for k := 0; k < nk; k++ {
			key := fmt.Sprintf("p%d", k)
			pairs = append(pairs, key, 100+k)
			want[key] = 100 + k
		}
		prepared := slog.NewAttrs(pairs...)
		asSlice := g.chance(1, 3)
		for rep := 0; rep < 3; rep++ {
			recA.take()
			if asSlice {
				a.Info("prepared list", []slog.Attr(prepared))
			} else {
				a.Info("prepared list", prepared)
			}
			w := recA.take()
			// another logger's record with arguments of its own in between
			var other []any
			for k := g.intn(5); k >= 0; k-- {
				other = append(other, fmt.Sprintf("o%d", k), k)
			}
			b.Warn("other record", other...)
			recB.take()
			r.seen(fmt.Sprintf("prepared|%d|%v|%d", nk, asSlice, rep))
			input := map[string]any{"prepared_list": fmt.Sprint(pairs), "passed_as_slice": asSlice, "time_it_is_passed": rep + 1, "in_between": "another logger's record with " + fmt.Sprint(len(other)/2) + " attributes"}
			if len(w) != 1 {
				r.violate(violation{What: "a call with a prepared attribute list did not produce one record", Input: input, Actual: fmt.Sprint(len(w))})
				continue
			}
			var obj map[string]any
			dec := json.NewDecoder(bytes.NewReader(w[0]))
			dec.UseNumber()
			if err := dec.Decode(&obj); err != nil {
				r.violate(violation{What: "the record is not valid JSON: " + err.Error(), Input: input, Actual: fmt.Sprintf("%q", w[0])})
				continue
			}
			got := map[string]string{}
			for k, v := range obj {
				if k != "time" && k != "level" && k != "msg" && k != "logger" {
					got[k] = fmt.Sprint(v)
				}
			}
			wantS := map[string]string{}
			for k, v := range want {
				wantS[k] = fmt.Sprint(v)
			}
			if fmt.Sprint(got) != fmt.Sprint(wantS) {
				r.violate(violation{What: "a record given a prepared attribute list does not decode to exactly the members of that list", Input: input, Expected: fmt.Sprint(wantS), Actual: fmt.Sprint(got)})
			}
		}
	}
}

// c04test / c11test <seed> <tier>: JSON (and logfmt) records carrying error values (plain, joined, with stack traces) in
// go-test mode, where the text formats append a dump of the error's origin: a JSON record stays one line holding one
// JSON object, and every record has the shape of its logger's format. Oracle only (the dump is outside the model).
func init() {
	childModes["c04test"] = func(a []string) { jsonTestTwin("C04", a) }
	childModes["c11test"] = func(a []string) { jsonTestTwin("C11", a) }
}

func jsonTestTwin(prop string, a []string) {
	seed, tier := uint64(1), "quick"
	if len(a) >= 2 {
		fmt.Sscan(a[0], &seed)
		tier = a[1]
	}
	dir, err := os.MkdirTemp("", "jsontest")
	must(err)
	defer os.RemoveAll(dir)
	r := newRun(prop, seed+104659, tier, dir)
	g := &rng{s: r.seed*11 + 4}
	if !slog.VerifErrorDumpActive() {
		r.violate(violation{What: "harness: the twin is not in go-test mode (the error dump is off)"})
	}
	n := 240
	if tier == "thorough" {
		n = 3000
	}
	slog.VerifResetGlobals()
	for i := 0; i < n; i++ {
		rec := &recorder{}
		l := slog.New(fmt.Sprintf("jt-%d", i)).SetWriter(rec).SetErrorWriter(rec).SetLevel(slog.TraceLevel).SetJSONMode(true)
		fl := slog.LstdFlags | slog.LnoInterrupt
		if g.chance(1, 2) {
			fl &^= slog.Lcaller
		}
		slog.SetFlags(fl)
		var e error
		kind := g.intn(4)
		switch kind {
		case 0:
			e = errorsv3.New("an error with a stack trace %d and a \"quote\"", i)
		case 1:
			e = errors.New("a plain error")
		case 2:
			e = errors.Join(errors.New("first"), errors.New("second"))
		default:
			e = fmt.Errorf("wrapped: %w", errorsv3.New("inner with stack"))
		}
		args := []any{"err", e}
		if g.chance(1, 2) {
			args = append(args, "zone", "eu", "n", i)
		}
		if g.chance(1, 3) {
			args = append([]any{"a", 1}, args...)
		}
		if g.chance(1, 4) {
			args = []any{slog.NewGroupedAttr("inner", slog.NewAttr("err", e), slog.NewAttr("k", 1)), "z", 2}
		}
		msg := []string{"failed", "failed\nsecond line", "failed\nsecond line\n", "   lead"}[g.intn(4)]
		verb := g.intn(3)
		func() {
			defer func() { _ = recover() }()
			switch verb {
			case 0:
				l.Error(msg, args...)
			case 1:
				l.Info(msg, args...)
			default:
				l.Warn(msg, args...)
			}
		}()
		w := rec.take()
		r.seen(fmt.Sprintf("testmode-json|%d|%d|%v", kind, verb, fl&slog.Lcaller != 0))
		input := map[string]any{"error_kind": []string{"errors.v3 with stack", "plain", "joined", "wrapped errors.v3"}[kind], "message": fmt.Sprintf("%q", msg), "caller_flag": fl&slog.Lcaller != 0, "args": len(args) / 2, "mode": "go test"}
		if len(w) != 1 {
			r.violate(violation{What: "a JSON record with an error value was not delivered in one Write (go-test mode)", Input: input, Actual: fmt.Sprintf("%d writes", len(w))})
			continue
		}
		p := w[0]
		var obj map[string]any
		if bytes.Count(p, []byte{'\n'}) != 1 || !bytes.HasSuffix(p, []byte("}\n")) || json.Unmarshal(p, &obj) != nil || obj["msg"] != msg {
			r.violate(violation{What: "a JSON logger's record with an error value is not one line holding one JSON object with the message (go-test mode)", Input: input, Actual: fmt.Sprintf("%q", p)})
		}
	}
	r.reportAsChild()
}

// c04GroupGrows: a group the application keeps and extends between two records (SetValue with one more member, or with a
// new member list): each record decodes to the members the group had when that call was made.
func c04GroupGrows(r *run) {
	for _, how := range []string{"SetValue(Attr)", "SetValue(Attrs)", "SetValue([]Attr)", "fresh group each time"} {
		for _, level := range []string{"call argument", "logger attribute"} {
			slog.VerifResetGlobals()
			rec := &recorder{}
			l := slog.New("gg").SetJSONMode(true).SetLevel(slog.InfoLevel).SetWriter(rec).SetErrorWriter(rec)
			grp := slog.Group("request", "method", "GET", "path", "/hello")
			if level == "logger attribute" {
				l.SetAttrs(grp)
			}
			want := []map[string]any{{"method": "GET", "path": "/hello"}}
			emit := func(msg string) {
				if level == "logger attribute" {
					l.Info(msg)
				} else {
					l.Info(msg, grp)
				}
			}
			emit("request received")
			switch how {
			case "SetValue(Attr)":
				grp.SetValue(slog.Int("status", 200))
				want = append(want, map[string]any{"method": "GET", "path": "/hello", "status": json.Number("200")})
			case "SetValue(Attrs)":
				grp.SetValue(slog.Attrs{slog.String("method", "PUT"), slog.Int("status", 201)})
				want = append(want, map[string]any{"method": "PUT", "status": json.Number("201")})
			case "SetValue([]Attr)":
				grp.SetValue([]slog.Attr{slog.Int("status", 204)})
				want = append(want, map[string]any{"status": json.Number("204")})
			default:
				if level == "logger attribute" {
					continue
				}
				grp = slog.Group("request", "method", "GET", "path", "/hello", "status", 200)
				want = append(want, map[string]any{"method": "GET", "path": "/hello", "status": json.Number("200")})
			}
			emit("request served")
			// and once more: what the second record showed stays
			want = append(want, want[1])
			emit("request logged again")
			got := rec.take()
			in := map[string]any{"group": `Group("request", "method", "GET", "path", "/hello")`, "changed between the records by": how, "passed as": level}
			if len(got) != 3 {
				r.violate(violation{What: "three admitted calls, other than three payloads", Input: in, Actual: len(got)})
				continue
			}
			for k, line := range got {
				dec := json.NewDecoder(bytes.NewReader(line))
				dec.UseNumber()
				var obj map[string]any
				if err := dec.Decode(&obj); err != nil {
					r.violate(violation{What: "the record is not valid JSON: " + err.Error(), Input: in, Actual: string(line)})
					continue
				}
				gm, _ := obj["request"].(map[string]any)
				if fmt.Sprint(gm) != fmt.Sprint(want[k]) {
					r.violate(violation{What: "a group that was extended between two records does not decode to the members it had when the record was logged",
						Input: in, Expected: want[k], Actual: string(line)})
				}
			}
			r.seen("group grows " + how + " " + level)
		}
	}
	slog.VerifResetGlobals()
}
