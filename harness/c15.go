package main

// C15 — the log/slog handler and the std log bridge. Records of every log/slog value kind (groups
// nested, LogValuer chains, LogValuers inside groups and inside what LogValuers resolve to) through
// handlers of all option combinations: byte-exact against the Lean adapter model; JSON payloads are
// also decoded and compared with what was logged (independent oracle). Enabled is swept against the
// model; std-log messages of every newline shape go through the bridge (n, admission, message).

import (
	"bytes"
	"context"
	"encoding/json"
	"fmt"
	"log"
	logslog "log/slog"
	"os"
	"reflect"
	"strings"
	"time"
	"unicode/utf8"

	"github.com/hedzr/is"
	"github.com/hedzr/logg/slog"
)

func init() { props["C15"] = runC15 }

type c15Valuer struct{ v logslog.Value }

func (c c15Valuer) LogValue() logslog.Value { return c.v }

type sval struct {
	kind  string
	toks  []string
	v     logslog.Value
	exp   gval // what must come back (LogValuers resolved)
	depth int
}

type sattr struct {
	key string
	val sval
}

func sattrTokens(as []sattr) []string {
	var t []string
	for _, a := range as {
		t = append(t, "K:"+hxs(a.key))
		t = append(t, a.val.toks...)
	}
	return t
}

func sattrExpected(as []sattr) []gattr {
	var out []gattr
	for _, a := range as {
		out = append(out, gattr{key: a.key, isGroup: a.val.exp.kind == "group", val: a.val.exp})
	}
	return out
}

func toSlogAttrs(as []sattr) []logslog.Attr {
	var out []logslog.Attr
	for _, a := range as {
		out = append(out, logslog.Attr{Key: a.key, Value: a.val.v})
	}
	return out
}

func (g *rng) genSVal(depth int) sval {
	switch k := g.intn(12); {
	case k < 2 && depth > 0: // a group with at least one member (log/slog drops empty groups itself)
		items := g.genSAttrs(1+g.intn(3), depth-1)
		t := []string{"("}
		t = append(t, sattrTokens(items)...)
		t = append(t, ")")
		return sval{kind: "group", toks: t, v: logslog.GroupValue(toSlogAttrs(items)...), exp: gval{kind: "group", items: sattrExpected(items)}}
	case k < 4 && depth > 0: // a LogValuer (chains arise by recursion)
		inner := g.genSVal(depth - 1)
		return sval{kind: "valuer", toks: append([]string{"V"}, inner.toks...), v: logslog.AnyValue(c15Valuer{inner.v}), exp: inner.exp}
	}
	v := g.genScalar(false)
	switch v.kind {
	case "bool":
		return sval{kind: "bool", toks: []string{"b:" + b01(v.goVal.(bool))}, v: logslog.BoolValue(v.goVal.(bool)), exp: v}
	case "int":
		i := reflect.ValueOf(v.goVal).Int()
		return sval{kind: "int64", toks: []string{fmt.Sprintf("i:%d", i)}, v: logslog.Int64Value(i), exp: v}
	case "uint":
		u := reflect.ValueOf(v.goVal).Uint()
		return sval{kind: "uint64", toks: []string{fmt.Sprintf("u:%d", u)}, v: logslog.Uint64Value(u), exp: v}
	case "float":
		f := reflect.ValueOf(v.goVal).Float()
		v.text, v.goVal = fmtF(f), f
		return sval{kind: "float64", toks: []string{"f:" + hxs(fmtF(f))}, v: logslog.Float64Value(f), exp: v}
	case "string":
		return sval{kind: "string", toks: []string{"s:" + hxs(v.text)}, v: logslog.StringValue(v.text), exp: v}
	case "duration":
		return sval{kind: "duration", toks: []string{"d:" + hxs(v.text)}, v: logslog.DurationValue(v.goVal.(time.Duration)), exp: v}
	case "time":
		return sval{kind: "time", toks: []string{"t:" + hxs(v.text)}, v: logslog.TimeValue(v.goVal.(time.Time)), exp: v}
	}
	lv := logslog.AnyValue(v.goVal)
	if lv.Kind() == logslog.KindUint64 { // AnyValue(uintptr) is a KindUint64
		u := lv.Uint64()
		return sval{kind: "uint64", toks: []string{fmt.Sprintf("u:%d", u)}, v: lv, exp: gval{kind: "uint", goVal: u, tok: fmt.Sprintf("U:%d", u)}}
	}
	if lv.Kind() != logslog.KindAny {
		panic("c15: unexpected log/slog kind " + lv.Kind().String() + " for " + v.kind)
	}
	return sval{kind: "any:" + v.kind, toks: []string{"A", v.tok}, v: lv, exp: v}
}

func (g *rng) genSAttrs(n, depth int) []sattr {
	var out []sattr
	for i := 0; i < n; i++ {
		if depth == 3 && g.chance(1, 12) {
			// a zero log/slog.Attr (empty key, nil any value) somewhere in the record: whatever is done with
			// it, the attributes after it are still there
			out = append(out, sattr{key: "", val: sval{kind: "any:nil", toks: []string{"A", "N"}, v: logslog.AnyValue(nil), exp: gval{kind: "nil", goVal: nil, tok: "N"}}})
			continue
		}
		key := keyPoolLegal[g.intn(len(keyPoolLegal))]
		if g.chance(1, 8) {
			if k := g.text(5, false); k != "" {
				key = k
			}
		}
		out = append(out, sattr{key: key, val: g.genSVal(depth)})
	}
	return out
}

func sattrKinds(as []sattr, seen map[string]bool, inGroup bool) {
	for _, a := range as {
		k := a.val.kind
		if inGroup {
			k = "in-group:" + k
		}
		seen[k] = true
		if a.val.kind == "group" {
			sattrKinds(nil, seen, true)
		}
	}
}

var c15SlogLevels = []int{-4, 0, 4, 8, -4, 0, 4, 8, -8, -5, -3, -1, 1, 2, 3, 5, 7, 9, 12, 15, 16, 17, 20, -20}

func c15StdName(l int) string {
	return map[int]string{-4: "debug", 0: "info", 4: "warning", 8: "error"}[l]
}

// c15LazyUser reports through another (native) logger while it is being printed.
type c15LazyUser struct {
	id    int
	audit slog.Logger
}

func (u c15LazyUser) String() string {
	u.audit.Info("user loaded on demand", "uid", u.id, "source", "db", "cached", false, "shard", 3)
	return "alice"
}

// c15Counter is a LogValuer whose value moves on.
type c15Counter struct{ n int }

func (c *c15Counter) LogValue() logslog.Value { return logslog.IntValue(c.n) }

type c15PanickingValuer struct{}

func (c15PanickingValuer) LogValue() logslog.Value { panic("c15: LogValue panics") }

func runC15(r *run) {
	g := &rng{s: r.seed*472882027 + 15}
	r.rule = "log/slog records (all level values, every value kind, nested groups, LogValuer chains, LogValuers inside groups) through handlers of all option combinations, directly (explicit time) and through log/slog.Logger; Enabled over all (logger level, debug mode, log/slog level); std-log messages of every newline shape through bridges of all (logger level, bridge severity) pairs; Entry.Log over log/slog levels -30..40; distinct = distinct (path, options, level, value kinds present / message shape); non-trivial = records with a group or LogValuer, messages ending in a newline"
	ctx := context.Background()
	// ---- Entry.Log: where a log/slog level is accepted directly
	slog.VerifResetGlobals()
	r.emit("C17 reset", "ok")
	slog.SetFlags((slog.LstdFlags &^ slog.Lcaller) | slog.LnoInterrupt)
	for lv := -30; lv <= 40; lv++ {
		r.emit(fmt.Sprintf("C15 L %d", lv), fmt.Sprint(int(slog.VerifLogslogToLevel(logslog.Level(lv)))))
		rec := &recorder{}
		l := slog.New("c15log").SetWriter(rec).SetErrorWriter(rec).SetLevel(slog.TraceLevel).SetJSONMode(true)
		func() {
			defer func() { _ = recover() }()
			l.Log(ctx, logslog.Level(lv), "through Entry.Log")
		}()
		w := rec.take()
		r.seen(fmt.Sprintf("log|%d", lv))
		if len(w) != 1 {
			r.violate(violation{What: "Entry.Log did not emit exactly one record at the most verbose logger level", Input: map[string]any{"logslog_level": lv}, Actual: fmt.Sprint(len(w))})
			continue
		}
		var obj map[string]any
		_ = json.Unmarshal(w[0], &obj)
		name, _ := obj["level"].(string)
		if want := c15StdName(lv); want != "" && name != want {
			r.violate(violation{What: "a standard log/slog level did not map to its namesake severity", Input: map[string]any{"entry_point": "Entry.Log", "logslog_level": lv}, Expected: want, Actual: name})
		}
		if (name == "fatal" && lv != 16) || (name == "panic" && lv != 17) {
			r.violate(violation{What: "a log/slog level other than the explicit Fatal/Panic constants maps to a terminating severity", Input: map[string]any{"entry_point": "Entry.Log", "logslog_level": lv}, Actual: name})
		}
	}
	is.SetDebugMode(false)
	is.SetTraceMode(false)

	// ---- the handler
	rounds := 400
	if r.tier == "thorough" {
		rounds = 8000
	}
	for round := 0; round < rounds; round++ {
		slog.VerifResetGlobals()
		r.emit("C17 reset", "ok")
		tagW, minW := 1+g.intn(5), 16+g.intn(40)
		slog.SetLevelOutputWidth(tagW)
		slog.SetMessageMinimalWidth(minW)
		lg := g.c02NewLogger("c", 1, false) // the format is overwritten by the options below
		level0 := lg.level
		opts := &slog.HandlerOptions{NoColor: g.chance(1, 2), JSON: g.chance(1, 2), NoSource: true}
		if g.chance(1, 2) {
			opts.Level = slog.Level(c02LoggerLevels[g.intn(len(c02LoggerLevels))])
		}
		h := slog.NewSlogHandler(lg.l, opts)
		slog.SetFlags(slog.GetFlags() | slog.LnoInterrupt)
		via := g.chance(1, 2)
		layout := encLayout
		if via {
			layout = "@"
		}
		lg.l.SetUTCMode(true).SetTimeFormat(layout)
		format := "c"
		if opts.JSON {
			format = "j"
		} else if opts.NoColor {
			format = "l"
		}
		// Enabled against the model and against the logger's own gate for the four standard levels
		for _, sl := range []int{-4, 0, 4, 8, -8, 2, 12, 16} {
			got := h.Enabled(ctx, logslog.Level(sl))
			r.emit(fmt.Sprintf("C15 E %d %s %d", int(lg.l.Level()), b01(is.DebugMode()), sl), b01(got))
		}
		optLevel, relevelled := int(opts.Level), false
		if g.chance(1, 3) {
			// the logger's level is changed after the handler was built: the handler keeps following the logger
			nl := c02LoggerLevels[g.intn(len(c02LoggerLevels))]
			lg.l.SetLevel(slog.Level(nl))
			optLevel, level0, relevelled = 0, nl, true
			for _, sl := range []int{-4, 0, 4, 8, -8, 2, 12, 16} {
				got := h.Enabled(ctx, logslog.Level(sl))
				r.emit(fmt.Sprintf("C15 E %d %s %d", int(lg.l.Level()), b01(is.DebugMode()), sl), b01(got))
				if std := c15StdName(sl); std != "" {
					if want := lg.l.Enabled(slog.Level(map[string]int{"debug": 5, "info": 4, "warning": 3, "error": 2}[std])); got != want {
						r.violate(violation{What: "after a later SetLevel on the logger the handler's Enabled no longer answers as the logger's gate does",
							Input: map[string]any{"options": fmt.Sprintf("%+v", *opts), "logger_level_set_afterwards": nl, "logslog_level": sl}, Expected: fmt.Sprint(want), Actual: fmt.Sprint(got)})
					}
				}
			}
		}
		if g.chance(1, 3) {
			// the process-wide debug mode flips after the handler has answered once (through the flag itself or through
			// SetLevel(DebugLevel) on an unrelated logger): the handler keeps answering as the logger's gate does
			if is.DebugMode() || g.chance(1, 2) {
				is.SetDebugMode(!is.DebugMode())
			} else {
				slog.New("c15unrelated").SetLevel(slog.DebugLevel)
			}
			for _, sl := range []int{-4, 0, 4, 8, -8, 2, 12, 16} {
				got := h.Enabled(ctx, logslog.Level(sl))
				r.emit(fmt.Sprintf("C15 E %d %s %d", int(lg.l.Level()), b01(is.DebugMode()), sl), b01(got))
				if std := c15StdName(sl); std != "" {
					if want := lg.l.Enabled(slog.Level(map[string]int{"debug": 5, "info": 4, "warning": 3, "error": 2}[std])); got != want {
						r.violate(violation{What: "after the process-wide debug mode changed the handler's Enabled no longer answers as the logger's gate does",
							Input: map[string]any{"options": fmt.Sprintf("%+v", *opts), "logger_level": int(lg.l.Level()), "debug_mode_now": is.DebugMode(), "logslog_level": sl}, Expected: fmt.Sprint(want), Actual: fmt.Sprint(got)})
					}
				}
			}
		}
		for call := 0; call < 4; call++ {
			sl := c15SlogLevels[g.intn(len(c15SlogLevels))]
			msg := strings.NewReplacer("<", "(", "&", "+").Replace(g.encMessage(true, false))
			attrs := g.genSAttrs(g.intn(6), 3)
			ts := g.encTime()
			if call == 3 {
				ts = time.Time{} // a record whose own time is the zero time: that is its time
			}
			tsText := ts.UTC().Format(encLayout)
			enabled := h.Enabled(ctx, logslog.Level(sl))
			if via {
				tsText = "@"
				logslog.New(h).LogAttrs(ctx, logslog.Level(sl), msg, toSlogAttrs(attrs)...)
			} else {
				rec := logslog.NewRecord(ts, logslog.Level(sl), msg, 0)
				rec.AddAttrs(toSlogAttrs(attrs)...)
				_ = h.Handle(ctx, rec)
			}
			evs := lg.log.take()
			var ids []string
			same := true
			for _, e := range evs {
				ids = append(ids, fmt.Sprint(e.id))
				same = same && string(e.payload) == string(evs[0].payload)
			}
			obs := "-"
			if len(evs) > 0 {
				obs = strings.Join(ids, ",") + " " + hx(evs[0].payload)
				if !same {
					obs = "payloads-differ"
				}
			}
			r.emit(strings.Join(strings.Fields(fmt.Sprintf("C15 H %s %s %d %d %s %d %s %s %s %d %d %s %s SA %s", b01(opts.NoColor), b01(opts.JSON), optLevel, level0,
				b01(is.DebugMode()), sl, hxs(tsText), hxs(lg.name), hxs(msg), tagW, minW, lg.wspec, b01(via), strings.Join(sattrTokens(attrs), " "))), " "), obs)
			desc := map[string]any{"options": fmt.Sprintf("%+v", *opts), "logger_level_before": level0, "logger_level_set_after_the_handler_was_built": relevelled, "logslog_level": sl, "message": fmt.Sprintf("%q", msg),
				"attrs": strings.Join(sattrTokens(attrs), " "), "through_slog_logger": via, "writers": lg.wspec, "time": tsText}
			kinds := map[string]bool{}
			sattrKinds(attrs, kinds, false)
			var ks []string
			for k := range kinds {
				ks = append(ks, k)
			}
			sortStrings(ks)
			r.seen(fmt.Sprintf("handler|%s|%v|%d|%s", format, via, sl, strings.Join(ks, "+")))
			r.count("handler format=" + format)
			// oracles
			std := c15StdName(sl)
			if via && !enabled && len(evs) > 0 {
				r.violate(violation{What: "a record the handler reported as not enabled was written", Input: desc, Actual: obs})
			}
			if (!via || enabled) && len(evs) == 0 {
				r.violate(violation{What: "a handled record was not emitted", Input: desc, Expected: "one Write per selected destination"})
			}
			if std != "" {
				want := lg.l.Enabled(slog.Level(map[string]int{"debug": 5, "info": 4, "warning": 3, "error": 2}[std]))
				if enabled != want {
					r.violate(violation{What: "the handler's Enabled differs from the underlying logger's gate for a standard level", Input: desc, Expected: fmt.Sprint(want), Actual: fmt.Sprint(enabled)})
				}
			}
			for i, e := range evs {
				for j := 0; j < i; j++ {
					if evs[j].id == e.id {
						r.violate(violation{What: "a record through the handler was written twice to one destination", Input: desc, Actual: strings.Join(ids, ",")})
					}
				}
			}
			if format == "j" && len(evs) > 0 {
				var obj map[string]any
				dec := json.NewDecoder(strings.NewReader(string(evs[0].payload)))
				dec.UseNumber()
				if err := dec.Decode(&obj); err != nil {
					continue // C04 decides well-formedness
				}
				detail := ""
				if m, _ := obj["msg"].(string); utf8.ValidString(msg) && m != msg {
					detail = fmt.Sprintf("message %q came back as %q", msg, m)
				}
				if t, _ := obj["time"].(string); detail == "" && t != tsText && !via {
					detail = fmt.Sprintf("the record's time %s came back as %q", tsText, t)
				}
				if name, _ := obj["level"].(string); detail == "" {
					if std != "" && name != std {
						detail = fmt.Sprintf("standard level %s came out as %q", std, name)
					} else if name == "fatal" || name == "panic" {
						detail = fmt.Sprintf("log/slog level %d came out at the terminating severity %q", sl, name)
					}
				}
				if detail == "" {
					exp := sattrExpected(attrs)
					clash := false
					for _, a := range exp {
						if a.key == "time" || a.key == "level" || a.key == "msg" || a.key == "logger" {
							clash = true
						}
					}
					if !clash {
						detail = c04MatchObject(obj, effective(exp))
					}
				}
				if detail != "" {
					r.violate(violation{What: "a record through the log/slog handler did not preserve its content", Input: desc, Actual: detail + " in " + string(evs[0].payload)})
				}
			}
			if round < 2 && call < 2 {
				r.sample(desc)
			}
		}
	}

	c15EdgeRecords(r)
	envProbe(r, false, "tz", "TZ=Asia/Kolkata")
	envProbe(r, false, "tz", "TZ=Asia/Kathmandu")

	// ---- the std log bridge
	msgs := []string{"", "a", "a\n", "a\n\n", "two\n\n\n", "\n", "\n\n", "in\nner", "in\nner\n", " lead", "trail \n", "tab\tx",
		"\f", "\v\n", "\u00a0", " \u3000 \n", "\u2028", "\t\v\t", "\u0085\n"} // white space other than blank, tab, CR, LF is a message like any other
	for _, format := range []string{"j", "l", "c"} {
		for _, L := range []int{7, 8, 2, 3, 4, 5, 6, 9, 11} {
			for _, bl := range []int{2, 3, 4, 5, 6, 8, 9, 10, 11, 33} {
				slog.VerifResetGlobals()
				r.emit("C17 reset", "ok")
				slog.SetFlags((slog.LstdFlags &^ slog.Lcaller) | slog.LnoInterrupt)
				lg := g.c02NewLogger(format, 1, false)
				// the bridge may be made before the logger gets its level: admission is decided per message
				var bridge *log.Logger
				if g.chance(1, 2) {
					lg.l.SetLevel(slog.Level([]int{2, 7, 4}[g.intn(3)]))
					bridge = slog.NewLogLogger(lg.l, slog.Level(bl))
					lg.l.SetLevel(slog.Level(L))
				} else {
					lg.l.SetLevel(slog.Level(L))
					bridge = slog.NewLogLogger(lg.l, slog.Level(bl))
				}
				nmsg := 3
				if r.tier == "thorough" {
					nmsg = len(msgs) + 4
				}
				for k := 0; k < nmsg; k++ {
					if k > 0 && g.chance(1, 3) {
						// the process-wide debug mode flips between two messages through the same bridge
						if is.DebugMode() || g.chance(1, 2) {
							is.SetDebugMode(!is.DebugMode())
						} else {
							slog.New("c15unrelated").SetLevel(slog.DebugLevel)
						}
					}
					m := msgs[g.intn(len(msgs))]
					if k >= len(msgs) || g.chance(1, 4) {
						m = strings.NewReplacer("<", "(", "&", "+").Replace(g.encMessage(true, false))
					}
					direct := g.chance(1, 2)
					buf := m
					if !direct && (len(m) == 0 || m[len(m)-1] != '\n') {
						buf = m + "\n" // log.Logger.Output appends the newline
					}
					n := -1
					if direct {
						n, _ = bridge.Writer().Write([]byte(buf))
					} else {
						bridge.Print(m)
					}
					evs := lg.log.take()
					var ids []string
					for _, e := range evs {
						ids = append(ids, fmt.Sprint(e.id))
					}
					obs := "-"
					if len(evs) > 0 {
						obs = strings.Join(ids, ",") + " " + hx(evs[0].payload)
					}
					op := "BP"
					if direct {
						op = "B"
						obs = fmt.Sprintf("n=%d %s", n, obs)
					}
					r.emit(fmt.Sprintf("C15 %s %s %d %s %d %s %s %s %d %d %s", op, format, L, b01(is.DebugMode()), bl, hxs("@"), hxs(lg.name), hxs(buf), 3, 36, lg.wspec), obs)
					lg.l.SetTimeFormat("@")
					shape := "no-newline"
					if strings.HasSuffix(buf, "\n\n") {
						shape = "several-newlines"
					} else if strings.HasSuffix(buf, "\n") {
						shape = "one-newline"
					}
					r.seen(fmt.Sprintf("bridge|%s|%d|%d|%s|%v", format, L, bl, shape, direct))
					desc := map[string]any{"format": format, "logger_level": L, "bridge_severity": bl, "written": fmt.Sprintf("%q", buf), "direct_write": direct}
					want := buf
					if strings.HasSuffix(want, "\n") {
						want = want[:len(want)-1]
					}
					if L >= 2 && L <= 6 && bl >= 2 && bl <= 6 && !is.DebugMode() {
						if admitted := bl <= L; admitted != (len(evs) > 0) {
							r.violate(violation{What: "the bridge does not emit exactly when the logger admits the bridge's severity", Input: desc, Expected: fmt.Sprint(admitted), Actual: fmt.Sprint(len(evs) > 0)})
						}
					}
					if gate := lg.l.Enabled(slog.Level(bl)); gate != (len(evs) > 0) {
						r.violate(violation{What: "the bridge does not emit exactly when the logger's own gate admits the bridge's severity (asked right after the message)",
							Input: map[string]any{"format": format, "logger_level": L, "bridge_severity": bl, "debug_mode": is.DebugMode(), "message_number_through_this_bridge": k + 1}, Expected: fmt.Sprint(gate), Actual: fmt.Sprint(len(evs) > 0)})
					}
					if L == 7 && len(evs) > 0 {
						r.violate(violation{What: "a bridge on a logger at Off emitted a record: the logger admits no severity", Input: desc, Actual: obs})
					}
					if direct && len(evs) > 0 && n != len(buf) {
						r.violate(violation{What: "the bridge writer did not report the whole buffer as written", Input: desc, Expected: fmt.Sprint(len(buf)), Actual: fmt.Sprint(n)})
					}
					if format == "j" && len(evs) > 0 && utf8.ValidString(want) {
						var obj map[string]any
						if err := json.Unmarshal(evs[0].payload, &obj); err != nil {
							if bl == 8 && strings.Trim(want, "\n\r \t") == "" {
								// a blank message at the Always severity is delivered as one line feed (the blank Print rule)
							} else {
								r.violate(violation{What: "what the bridge emitted for a message is not a record (one JSON object with the message)", Input: desc, Expected: fmt.Sprintf("a record with msg %q", want), Actual: fmt.Sprintf("%q", evs[0].payload)})
							}
						} else {
							if lvName, _ := obj["level"].(string); lvName != slog.Level(bl).String() {
								r.violate(violation{What: "the bridge did not emit the record at the bridge's own severity", Input: desc, Expected: slog.Level(bl).String(), Actual: lvName})
							}
							if got, _ := obj["msg"].(string); got != want {
								r.violate(violation{What: "the bridge did not emit the message minus its trailing newline", Input: desc, Expected: fmt.Sprintf("%q", want), Actual: fmt.Sprintf("%q", got)})
							}
						}
					}
				}
			}
		}
	}

	// ---- a handled record one of whose values logs through a native logger while it is being rendered (an entity loaded
	// on demand that reports the cache miss): the handled record still carries exactly its own attributes
	slog.VerifResetGlobals()
	for round := 0; round < 12; round++ {
		out, auditOut := &recorder{}, &recorder{}
		audit := slog.New("c15audit").SetWriter(auditOut).SetErrorWriter(auditOut).SetJSONMode(true).SetLevel(slog.InfoLevel)
		l := slog.New("c15lazy").SetWriter(out).SetErrorWriter(out)
		lg := logslog.New(slog.NewSlogHandler(l, &slog.HandlerOptions{NoColor: true, NoSource: true, JSON: true, Level: slog.InfoLevel}))
		lg.Info("request served", "actor", c15LazyUser{id: round, audit: audit}, "bytes", 512+round, "path", "/index.html", "status", 200)
		w := out.take()
		r.seen(fmt.Sprintf("reentrant|%d", round%3))
		var m map[string]any
		if len(w) != 1 || json.Unmarshal(w[0], &m) != nil {
			r.violate(violation{What: "a handled record with a value that logs while it is rendered was not delivered as one JSON record", Input: map[string]any{"round": round}, Actual: fmt.Sprintf("%q", w)})
			continue
		}
		delete(m, "time")
		got, _ := json.Marshal(m)
		want := fmt.Sprintf(`{"actor":"alice","bytes":%d,"level":"info","logger":"c15lazy","msg":"request served","path":"/index.html","status":200}`, 512+round)
		if string(got) != want {
			r.violate(violation{What: "a record handled through the adapter does not carry exactly its own attributes (another record was formatted while it was being written)",
				Input: map[string]any{"round": round, "call": `Info("request served", "actor", <value whose String() logs natively>, "bytes", n, "path", "/index.html", "status", 200)`}, Expected: want, Actual: string(got)})
		}
	}

	// ---- a group value built once and passed with several records, one member of which is a LogValuer whose value moves
	// on: every record shows the value of its own moment, and the caller's group is not rewritten
	for round := 0; round < 4; round++ {
		out := &recorder{}
		l := slog.New("c15counter").SetWriter(out).SetErrorWriter(out)
		lg := logslog.New(slog.NewSlogHandler(l, &slog.HandlerOptions{NoColor: true, NoSource: true, JSON: round%2 == 0, Level: slog.InfoLevel}))
		ctr := &c15Counter{}
		var grp logslog.Attr
		if round < 2 {
			grp = logslog.Group("stats", logslog.Any("served", ctr), logslog.Int("fixed", 7))
		} else {
			grp = logslog.Group("stats", logslog.Group("inner", logslog.Any("served", ctr)), logslog.Int("fixed", 7))
		}
		for k := 1; k <= 3; k++ {
			ctr.n = k * 11
			lg.Info("snapshot", grp)
			w := out.take()
			want := fmt.Sprintf("served=%d", k*11)
			if round%2 == 0 {
				want = fmt.Sprintf(`"served":%d`, k*11)
			}
			r.seen(fmt.Sprintf("shared-group-valuer|%d|%d", round, k))
			if len(w) != 1 || !strings.Contains(string(w[0]), want) {
				r.violate(violation{What: "a LogValuer inside a group value that is passed with several records is not resolved for each record",
					Input:    map[string]any{"record_number": k, "nested": round >= 2, "json": round%2 == 0, "group": "Group(\"stats\", served=<LogValuer>, fixed=7) built once"},
					Expected: want, Actual: fmt.Sprintf("%q", w)})
				break
			}
		}
	}

	// ---- a LogValuer whose LogValue panics (log/slog's Resolve turns that into an error value): the record is still
	// emitted once, with its other attributes, and the call returns
	for round := 0; round < 8; round++ {
		out := &recorder{}
		l := slog.New("c15badvaluer").SetWriter(out).SetErrorWriter(out)
		lg := logslog.New(slog.NewSlogHandler(l, &slog.HandlerOptions{NoColor: true, NoSource: true, JSON: round%2 == 0, Level: slog.InfoLevel}))
		var bad any = c15PanickingValuer{}
		escaped := ""
		func() {
			defer func() {
				if p := recover(); p != nil {
					escaped = fmt.Sprint(p)
				}
			}()
			if round >= 4 {
				lg.Warn("a bad LogValuer inside a group", "before", 1, logslog.Group("g", logslog.Any("bad", bad), logslog.Int("in", 3)), "after", 2)
			} else {
				lg.Warn("a bad LogValuer", "before", 1, "bad", bad, "after", 2)
			}
		}()
		w := out.take()
		r.seen(fmt.Sprintf("bad-valuer|%d", round))
		text := ""
		if len(w) == 1 {
			text = string(w[0])
		}
		if escaped != "" || len(w) != 1 || !strings.Contains(text, "before") || !strings.Contains(text, "after") {
			r.violate(violation{What: "a record with a LogValuer that panics was not emitted once with its other attributes",
				Input:  map[string]any{"valuer": fmt.Sprintf("%T", bad), "inside_a_group": round >= 4, "json": round%2 == 0},
				Actual: fmt.Sprintf("panic escaped: %q; records: %q", escaped, w)})
		}
	}

	// ---- derived handlers (known finding C15-derived-detached)
	outF, err := os.CreateTemp("", "c15out")
	must(err)
	defer os.Remove(outF.Name())
	realOut, realErr := os.Stdout, os.Stderr
	os.Stdout, os.Stderr = outF, outF
	slog.VerifResetGlobals()
	rec := &recorder{}
	base := slog.New("c15base").SetWriter(rec).SetErrorWriter(rec).SetLevel(slog.DebugLevel)
	h := slog.NewSlogHandler(base, &slog.HandlerOptions{NoColor: true, JSON: true, NoSource: true})
	for _, d := range []struct {
		name string
		h    logslog.Handler
	}{{"WithAttrs", h.WithAttrs([]logslog.Attr{logslog.Int("a", 1)})}, {"WithGroup", h.WithGroup("g")}} {
		rec.take()
		logslog.New(d.h).Info("through a derived handler", "k", "v")
		w := rec.take()
		r.seen("derived|" + d.name)
		if len(w) != 1 {
			r.violate(violation{What: "a handler derived with " + d.name + " does not keep the destination of the handler it was derived from",
				Input:    map[string]any{"derivation": d.name, "base": "JSON handler on a logger with its own writer", "call": `Info("through a derived handler", "k", "v")`},
				Expected: "one record on the base logger's writer", Actual: fmt.Sprintf("%d records there (the record went to the package default destination)", len(w)),
				Finding: "C15-derived-detached"})
		}
	}
	os.Stdout, os.Stderr = realOut, realErr
	slog.VerifResetGlobals()
}

// c15EdgeRecords: records at the edges of the handler's domain - groups nested far deeper than any application nests them,
// and contexts that are already cancelled or past their deadline (the record was made before; it is emitted like any other).
// Oracle only.
func c15EdgeRecords(r *run) {
	slog.VerifResetGlobals()
	slog.SetFlags((slog.LstdFlags &^ slog.Lcaller) | slog.LnoInterrupt)
	for _, depth := range []int{3, 9, 10, 11, 14, 24} {
		for _, via := range []bool{false, true} {
			for _, derived := range []bool{false} { // (derived handlers: see the known finding C15-derived-detached)
				rec := &recorder{}
				l := slog.New("c15deep").SetWriter(rec).SetErrorWriter(rec).SetLevel(slog.InfoLevel)
				var h logslog.Handler = slog.NewSlogHandler(l, &slog.HandlerOptions{JSON: true, NoSource: true})
				// innermost first
				a := logslog.Group(fmt.Sprintf("g%d", depth-1), logslog.Int("n", depth-1), logslog.String("leaf", "bottom"))
				for d := depth - 2; d >= 0; d-- {
					var inner logslog.Attr = a
					if d%3 == 1 {
						inner = logslog.Any(a.Key, c15Valuer{a.Value}) // a LogValuer that resolves to the group
					}
					a = logslog.Group(fmt.Sprintf("g%d", d), logslog.Int("n", d), inner)
				}
				in := map[string]any{"attribute": fmt.Sprintf("groups g0 { n=0, g1 { n=1, … g%d { n=%d, leaf=bottom } } }, every third one given through a LogValuer", depth-1, depth-1), "through_slog_logger": via, "given_by_WithAttrs": derived}
				hh := h
				var callAttrs []logslog.Attr
				if derived {
					hh = h.WithAttrs([]logslog.Attr{a})
				} else {
					callAttrs = []logslog.Attr{a}
				}
				if via {
					logslog.New(hh).LogAttrs(context.Background(), logslog.LevelInfo, "deep", callAttrs...)
				} else {
					sr := logslog.NewRecord(time.Unix(1700000000, 0), logslog.LevelInfo, "deep", 0)
					sr.AddAttrs(callAttrs...)
					_ = hh.Handle(context.Background(), sr)
				}
				w := rec.take()
				r.seen(fmt.Sprintf("deep|%d|%v|%v", depth, via, derived))
				if len(w) != 1 {
					r.violate(violation{What: "a handled record was not emitted exactly once", Input: in, Actual: len(w)})
					continue
				}
				var obj map[string]any
				dec := json.NewDecoder(bytes.NewReader(w[0]))
				dec.UseNumber()
				if err := dec.Decode(&obj); err != nil {
					r.violate(violation{What: "a record through the log/slog handler is not valid JSON: " + err.Error(), Input: in, Actual: string(w[0])})
					continue
				}
				cur := obj
				detail := ""
				for d := 0; d < depth && detail == ""; d++ {
					nx, ok := cur[fmt.Sprintf("g%d", d)].(map[string]any)
					if !ok {
						detail = fmt.Sprintf("group g%d (nesting depth %d) is not a nested object", d, d)
						break
					}
					if fmt.Sprint(nx["n"]) != fmt.Sprint(d) {
						detail = fmt.Sprintf("member n of group g%d is %v", d, nx["n"])
					}
					cur = nx
				}
				if detail == "" && cur["leaf"] != "bottom" {
					detail = fmt.Sprintf("the innermost member came back as %v", cur["leaf"])
				}
				if detail != "" {
					r.violate(violation{What: "a record through the log/slog handler did not preserve its nested groups: " + detail, Input: in, Actual: string(w[0])})
				}
			}
		}
	}
	// contexts that are done already
	cancelled, cancel := context.WithCancel(context.Background())
	cancel()
	expired, cancel2 := context.WithDeadline(context.Background(), time.Unix(1, 0))
	defer cancel2()
	type ctxKey struct{}
	for ci, cx := range []context.Context{cancelled, expired, context.WithValue(cancelled, ctxKey{}, 1)} {
		for _, format := range []string{"j", "l", "c"} {
			for _, via := range []int{0, 1} {
				rec := &recorder{}
				l := slog.New("c15ctx").SetWriter(rec).SetErrorWriter(rec).SetLevel(slog.InfoLevel)
				h := slog.NewSlogHandler(l, &slog.HandlerOptions{JSON: format == "j", NoColor: format == "l", NoSource: true})
				var err error
				switch via {
				case 0:
					sr := logslog.NewRecord(time.Unix(1700000000, 0), logslog.LevelWarn, "ctx-done", 0)
					sr.AddAttrs(logslog.Int("k", 1))
					err = h.Handle(cx, sr)
				case 1:
					logslog.New(h).InfoContext(cx, "ctx-done", "k", 1)
				case 2:
					logslog.New(h.WithAttrs([]logslog.Attr{logslog.String("svc", "a")}).WithGroup("g")).ErrorContext(cx, "ctx-done", "k", 1)
				}
				w := rec.take()
				r.seen(fmt.Sprintf("ctx-done|%d|%s|%d", ci, format, via))
				n := 0
				for _, p := range w {
					if bytes.Contains(p, []byte("ctx-done")) {
						n++
					}
				}
				if n != 1 || err != nil {
					r.violate(violation{What: "a record handled with a context that is already cancelled or past its deadline was not emitted exactly once",
						Input:    map[string]any{"context": []string{"cancelled", "deadline exceeded", "cancelled, with a value"}[ci], "format": format, "path": []string{"Handler.Handle", "Logger.InfoContext", "derived handler, Logger.ErrorContext"}[via]},
						Expected: "one record, nil error", Actual: map[string]any{"records": n, "error": fmt.Sprint(err)}})
				}
			}
		}
	}
	slog.VerifResetGlobals()
}
