package main

// C06 — colored console mode. Byte-exact correspondence with the Lean encoder model on the
// fidelity domain, and an independent oracle: a small SGR state tracker (every colour switched on is
// off again at every line break and at the end), the stripped text parsed against the documented
// layout, and no raw control / escape byte contributed by attribute values.

import (
	"bytes"
	"errors"
	"fmt"
	"os"
	"os/exec"
	"strconv"
	"strings"
	"time"
	"unicode"

	"github.com/hedzr/is/term/color"
	errorsv3 "gopkg.in/hedzr/errors.v3"

	"github.com/hedzr/logg/slog"
)

func init() {
	props["C06"] = runC06
	childModes["c06test"] = c06Test
}

// sgrCheck walks the payload; returns a description of the first place where a colour is still on
// at a line break or at the end, or a malformed escape sequence.
func sgrCheck(p []byte) string {
	on := false
	for i := 0; i < len(p); i++ {
		switch p[i] {
		case 0x1b:
			if i+1 >= len(p) || p[i+1] != '[' {
				return fmt.Sprintf("stray ESC at %d", i)
			}
			j := i + 2
			for j < len(p) && (p[j] >= '0' && p[j] <= '9' || p[j] == ';') {
				j++
			}
			if j >= len(p) || p[j] != 'm' {
				return fmt.Sprintf("escape sequence at %d is not an SGR sequence", i)
			}
			params := string(p[i+2 : j])
			if params == "0" || params == "" {
				on = false
			} else {
				on = true
			}
			i = j
		case '\n':
			if on {
				return fmt.Sprintf("a colour is still on at the line break at byte %d", i)
			}
		}
	}
	if on {
		return "a colour is still on at the end of the record"
	}
	return ""
}

// sgrCheckDump: like sgrCheck for the first ownLines line breaks and for the end of the payload;
// line breaks after that (the error dump) are exempt.
func sgrCheckDump(p []byte, ownLines int) string {
	on := false
	lf := 0
	for i := 0; i < len(p); i++ {
		switch p[i] {
		case 0x1b:
			if i+1 >= len(p) || p[i+1] != '[' {
				return fmt.Sprintf("stray ESC at %d", i)
			}
			j := i + 2
			for j < len(p) && (p[j] >= '0' && p[j] <= '9' || p[j] == ';') {
				j++
			}
			if j >= len(p) || p[j] != 'm' {
				return fmt.Sprintf("escape sequence at %d is not an SGR sequence", i)
			}
			params := string(p[i+2 : j])
			on = !(params == "0" || params == "")
			i = j
		case '\n':
			lf++
			if on && lf <= ownLines {
				return fmt.Sprintf("a colour is still on at line break %d (byte %d) of the record itself", lf, i)
			}
		}
	}
	if on {
		return "a colour or attribute is still on at the end of the record"
	}
	return ""
}

// c06User renders itself through the exported encoder interface.
type c06User struct {
	name string
	id   int
}

func (u c06User) MarshalSlogObject(enc *slog.PrintCtx) error {
	enc.Begin()
	enc.AddString("name", u.name)
	enc.AddComma()
	enc.AddInt("id", u.id)
	enc.End(false)
	return nil
}

func runC06(r *run) {
	g := &rng{s: r.seed*217645177 + 6}
	slog.VerifResetGlobals()
	r.rule = "random records in colored mode: all severities (built-in and unregistered), tag widths 1..5, minimal widths 16..60, single and multi-line messages with/without trailing newline, attributes of all kinds incl. errors and groups, caller on/off; distinct = distinct (severity, tag width, #message lines, trailing newline, value kinds); non-trivial = all"
	n := 2500
	if r.tier == "thorough" {
		n = 40000
	}
	for i := 0; i < n; i++ {
		c := &encCase{format: "c", lvl: encLevels[g.intn(len(encLevels))], ts: g.encTime(), attrs: g.genAttrs(g.intn(7), 2, true, false),
			caller: g.chance(1, 4), tagW: 1 + g.intn(5), minW: []int{16 + g.intn(45), 16 + g.intn(45), 60 + g.intn(140), 200 + g.intn(400)}[g.intn(4)]}
		// messages of the fidelity domain: no markup characters, no control characters other than LF, no escape bytes
		msg := g.encMessage(true, true)
		msg = strings.NewReplacer("<", "(", ">", ")", "&", "+").Replace(msg)
		if g.chance(1, 5) {
			msg = strings.Repeat(" ", g.intn(4)) + msg
		}
		if g.chance(1, 6) {
			msg += "\nline two\nline three"
			if g.chance(1, 2) {
				msg += "\n"
			}
		}
		if g.chance(1, 10) {
			msg = "日本語 héllo " + msg
		}
		c.msg = msg
		ownTag := ""
		if g.chance(1, 2) {
			c.name = []string{"app", "db.conn"}[g.intn(2)]
		}
		if g.chance(1, 4) {
			noise := &encCase{format: []string{"l", "j", "c"}[g.intn(3)], lvl: encLevels[g.intn(len(encLevels))], ts: g.encTime(), msg: g.encMessage(true, true),
				attrs: g.genAttrs(1+g.intn(4), 2, true, true), tagW: c.tagW, minW: c.minW, name: "other"}
			noise.msg = strings.NewReplacer("<", "(", ">", ")", "&", "+").Replace(noise.msg)
			encRun(r, "C06", noise)
		}
		if g.chance(1, 15) {
			// a severity that is printed while still unregistered and registered afterwards (title, maybe
			// short tags, maybe colors): the tag and colors follow the registration at once
			v := 200 + i
			early := &encCase{format: "c", lvl: v, ts: g.encTime(), msg: "before the registration", tagW: c.tagW, minW: c.minW, name: c.name}
			encRun(r, "C06", early)
			title := fmt.Sprintf("AUDIT%d", i)
			var opts []slog.RegOpt
			tags := [6]string{}
			if g.chance(1, 2) {
				tags = [6]string{"", "A", "AU", "AUD", "AUDI", "AUDIT"}
				opts = append(opts, slog.RegWithShortTags(tags))
			}
			clr, bg := -1, -1
			if g.chance(1, 2) {
				clr = 31 + g.intn(6)
				if g.chance(1, 2) {
					bg = 1 + g.intn(5)
					opts = append(opts, slog.RegWithColor(color.Color(clr), color.Color(bg)))
				} else {
					opts = append(opts, slog.RegWithColor(color.Color(clr)))
				}
			}
			if err := slog.RegisterLevel(slog.Level(v), title, opts...); err != nil {
				r.violate(violation{What: "harness: registration refused", Actual: err.Error()})
			}
			r.emit(fmt.Sprintf("C17 reg %d %s %s %s %s %s %s %s %d %d 12 0", v, hxs(title), hxs(tags[0]), hxs(tags[1]), hxs(tags[2]), hxs(tags[3]), hxs(tags[4]), hxs(tags[5]), clr, bg), "ok")
			c.lvl = v
			if tags[c.tagW] != "" {
				ownTag = tags[c.tagW] // the tag the registration gave for this width, whatever the library would answer
			}
		}
		if g.chance(1, 7) {
			// a top-level attribute named like the reserved field and holding a time.Time, half of the time as the
			// last key in sort order: nothing of it may be left behind for the next record
			t := time.Unix(int64(g.intn(2000000000)), int64(g.intn(1000000))*1000)
			if g.chance(1, 2) {
				var keep []gattr
				for _, a := range c.attrs {
					if a.key < "time" {
						keep = append(keep, a)
					}
				}
				c.attrs = keep
			}
			c.attrs = append(c.attrs, gattr{key: "time", val: c09TimeAttr(t)})
		}
		if i%8 == 3 {
			c.attrs = append(c.attrs, g.genWideAttrs(false)...)
		}
		if g.chance(1, 8) {
			// colors of a level changed at run time, including pairs without a foreground or without a background
			fg, bg := []int{-1, 31, 35, 93}[g.intn(4)], []int{-1, 4, 44, 1}[g.intn(4)]
			slog.SetLevelColors(slog.Level(c.lvl), color.Color(fg), color.Color(bg))
			r.emit(fmt.Sprintf("C17 setcolors %d %d %d", c.lvl, fg, bg), "ok")
		}
		if i%64 == 33 {
			// lines after the first are printed as they are, four blanks in front: markup characters, ampersands and their own
			// leading blanks included
			c.msg = []string{"comparison failed\nexpected left < right\n  retry && report", "two lines\na <b>bold</b> word & more", "first\n<\n&amp;\n    indented < line\n"}[(i/64)%3]
		}
		big := ""
		if i%128 == 21 {
			// a record far longer than any line buffer: a long attribute value, or a long second line of the message
			big = strings.Repeat("0123456789abcdefghijklmnopqrstuvwxyz", 1900+i/128)
			if (i/128)%2 == 0 {
				c.attrs = append(c.attrs, gattr{key: "zzbig", val: gval{kind: "string", goVal: big, tok: "S:" + hxs(big), text: big}})
			} else {
				c.msg = "a long dump follows\n" + big
			}
		}
		if i%10 == 4 {
			encPanicNoise([]string{"c", "l", "j"}[(i/10)%3])
		}
		if i%10 == 9 {
			encStringerNoise([]string{"l", "j", "c"}[(i/10)%3])
		}
		encRun(r, "C06", c)
		lines := strings.Count(strings.TrimRight(c.msg, "\n\r"), "\n") + 1
		kinds := map[string]bool{}
		for _, a := range c.attrs {
			kinds[a.val.kind] = true
		}
		var ks []string
		for k := range kinds {
			ks = append(ks, k)
			r.count("kind=" + k)
		}
		sortStrings(ks)
		r.seen(fmt.Sprintf("%d|%d|%d|%v|%s", c.lvl, c.tagW, lines, strings.HasSuffix(c.msg, "\n"), strings.Join(ks, ",")))
		if c.payload == nil {
			r.violate(violation{What: "a colored record was not delivered as one write", Input: encDescribe(c), Actual: c.writes})
			continue
		}
		if c.lvl == 8 && strings.Trim(c.msg, "\n\r \t") == "" {
			continue
		}
		p := c.payload
		// the Lean scanner (the one the hygiene theorem is about) and this oracle's tracker agree on
		// the payload and on a damaged copy of it (one reset sequence removed)
		verdict := func(b []byte) string {
			if sgrCheck(b) == "" {
				return "clean"
			}
			return "dirty"
		}
		r.emit("Q sgr "+hx(p), verdict(p))
		if idx := bytes.LastIndex(p[:len(p)/2+1], []byte("\x1b[0m")); idx >= 0 && i%3 == 0 {
			damaged := append(append([]byte{}, p[:idx]...), p[idx+4:]...)
			r.emit("Q sgr "+hx(damaged), verdict(damaged))
		}
		if d := sgrCheck(p); d != "" {
			r.violate(violation{What: "colour hygiene: " + d, Input: encDescribe(c), Actual: fmt.Sprintf("%q", p)})
			continue
		}
		// attribute values contribute no raw control byte: the only control bytes are ESC of SGR sequences and LF of the message
		plain := reAnsi.ReplaceAll(p, nil)
		msgLF := strings.Count(strings.TrimRight(c.msg, "\n\r"), "\n")
		if strings.HasSuffix(c.msg, "\n") && msgLF > 0 {
			msgLF++
		}
		gotLF := bytes.Count(plain, []byte{'\n'}) - 1
		ctl := 0
		for _, ru := range string(plain) {
			if unicode.IsControl(ru) && ru != '\n' {
				ctl++
			}
		}
		for _, ru := range c.msg {
			if unicode.IsControl(ru) && ru != '\n' {
				ctl--
			}
		}
		if ctl > 0 || gotLF != msgLF {
			r.violate(violation{What: "attribute values contributed raw control bytes or line breaks", Input: encDescribe(c), Actual: fmt.Sprintf("%q", plain)})
			continue
		}
		// the record without its sequences is the layout the model states without any colour (Model/Layout, theorem
		// layout_without_escapes); the remover of the theorem, this oracle's expression and the library's own
		// StripEscapes agree on what "removed" means for these records
		if big != "" && (!bytes.Contains(plain, []byte(big)) || !bytes.HasSuffix(plain, []byte("\n"))) {
			r.violate(violation{What: "layout: a long record is not printed in full", Input: map[string]any{"record": "a " + fmt.Sprint(len(big)) + "-byte run of digits and letters as the value of attribute zzbig, or as the second line of the message", "index": i},
				Expected: fmt.Sprintf("a payload holding all %d bytes", len(big)), Actual: fmt.Sprintf("%d bytes, ending with %q", len(plain), plain[max(0, len(plain)-40):])})
			continue
		}
		r.emit("Q strip "+hx(p), hx(plain))
		if lib := slog.StripEscapes(string(p)); lib == string(plain) {
			r.count("library StripEscapes = SGR expression")
		} else {
			r.count("library StripEscapes differs from the SGR expression")
		}
		r.emit("LAY"+strings.TrimPrefix(c.line, "ENC"), hx(plain))
		// layout of the first line
		first := string(plain)
		if k := strings.IndexByte(first, '\n'); k >= 0 {
			first = first[:k]
		}
		want := c.tsText + "| "
		if c.name != "" {
			want += c.name + " "
		}
		tag := slog.Level(c.lvl).ShortTag(c.tagW)
		if ownTag != "" {
			tag = ownTag
		}
		firstMsg := strings.TrimRight(c.msg, "\n\r")
		if strings.HasSuffix(c.msg, "\n") == false {
			firstMsg = c.msg
		}
		if k := strings.IndexByte(firstMsg, '\n'); k >= 0 {
			firstMsg = firstMsg[:k]
		}
		if len(firstMsg) < c.minW {
			firstMsg += strings.Repeat(" ", c.minW-len(firstMsg))
		}
		want += "[" + tag + "] " + firstMsg
		if !strings.HasPrefix(first, want) {
			r.violate(violation{What: "layout: the record does not start with timestamp, name, [tag], padded first line", Input: encDescribe(c), Expected: want, Actual: first})
			continue
		}
		// attributes in ascending key order after the message
		rest := first[len(want):]
		if c.caller && c.pc == 0 && !strings.HasSuffix(rest, " :0 ") {
			// a record without a resolvable caller: no file, line 0, no function name
			r.violate(violation{What: "layout: the caller of a record without a program counter is not the empty file, line 0 and no function", Input: encDescribe(c),
				Expected: "… :0 ", Actual: fmt.Sprintf("%q", first)})
		}
		eff := effective(c.attrs)
		if len(eff) == 0 || eff[0].val.kind != "group" {
			// the message field is exactly as wide as configured: what follows is one blank and the next field
			if len(rest) >= 2 && rest[0] == ' ' && rest[1] == ' ' && !strings.HasSuffix(firstMsg, " ") || len(rest) >= 2 && strings.HasPrefix(rest, "   ") {
				r.violate(violation{What: "layout: the first line of the message is padded beyond the configured minimal width", Input: encDescribe(c), Expected: fmt.Sprintf("%q", want+" …"), Actual: fmt.Sprintf("%q", first)})
			}
		}
		pos := 0
		for _, a := range eff {
			needle := " " + a.key + "="
			if a.val.kind == "group" {
				continue
			}
			k := strings.Index(rest[pos:], needle)
			if k < 0 {
				r.violate(violation{What: fmt.Sprintf("layout: attribute %q is missing or out of order", a.key), Input: encDescribe(c), Actual: first})
				break
			}
			pos += k + len(needle)
		}
		// remaining lines indented by four spaces
		if msgLF > 0 {
			ls := strings.Split(strings.TrimSuffix(string(plain), "\n"), "\n")
			tail := ls[1:]
			if strings.HasSuffix(c.msg, "\n") && len(tail) > 0 && tail[len(tail)-1] == "" {
				tail = tail[:len(tail)-1]
			}
			for _, l := range tail {
				if !strings.HasPrefix(l, "    ") {
					r.violate(violation{What: "layout: a remaining message line is not indented by four spaces", Input: encDescribe(c), Actual: fmt.Sprintf("%q", plain)})
					break
				}
			}
			if i%64 == 33 {
				// and, for the pinned messages, it is the line of the message itself that follows the four blanks
				ml := strings.Split(strings.TrimSuffix(c.msg, "\n"), "\n")[1:]
				for k := range ml {
					if k >= len(tail) || tail[k] != "    "+ml[k] {
						got := "nothing"
						if k < len(tail) {
							got = tail[k]
						}
						r.violate(violation{What: "layout: a remaining message line is not the line of the message behind four blanks", Input: encDescribe(c),
							Expected: fmt.Sprintf("%q", "    "+ml[k]), Actual: fmt.Sprintf("%q", got)})
						break
					}
				}
			}
		}
		if i < 4 {
			r.sample(map[string]any{"record": encDescribe(c), "stripped": string(plain)})
		}
	}
	// values that render themselves through the exported encoder interface (ObjectMarshaller: Begin / AddString / AddInt /
	// End): what they hand to AddString is quoted like every string-like value, in colored mode too
	for k, evil := range []string{"bob", "a\x1b[31mred", "line\nbreak", "bell\x07", "q\"uote", "c1\u009bcsi"} {
		rec := &recorder{}
		l := slog.New(fmt.Sprintf("c06obj-%d", k)).SetWriter(rec).SetErrorWriter(rec).SetLevel(slog.InfoLevel).SetColorMode(true)
		l.Info("an object that marshals itself", "user", c06User{name: evil, id: k})
		w := rec.take()
		r.seen(fmt.Sprintf("object-marshaller|%d", k))
		if len(w) != 1 {
			r.violate(violation{What: "a colored record with a self-marshalling value was not delivered as one write", Input: map[string]any{"name": fmt.Sprintf("%q", evil)}, Actual: len(w)})
			continue
		}
		plain := reAnsi.ReplaceAll(w[0], nil)
		ctl := 0
		for _, ru := range string(plain) {
			if unicode.IsControl(ru) && ru != '\n' {
				ctl++
			}
		}
		if d := sgrCheck(w[0]); d != "" || ctl > 0 || bytes.Count(plain, []byte{'\n'}) != 1 || !bytes.Contains(plain, []byte("name="+strconv.Quote(evil))) {
			r.violate(violation{What: "a string handed to the encoder's AddString by a self-marshalling value is not quoted in colored mode (raw control or escape bytes reach the record)",
				Input: map[string]any{"value": "ObjectMarshaller{AddString(\"name\", s); AddInt(\"id\", n)}", "s": fmt.Sprintf("%q", evil)}, Expected: "name=" + strconv.Quote(evil), Actual: fmt.Sprintf("%q", w[0])})
		}
	}
	// processes started with NO_COLOR set: a colored logger still closes every colour it opens
	envProbe(r, false, "color", "NO_COLOR=1")
	// in go-test mode an error value with a stack trace is followed by a dump of its origin inside the
	// same payload: colour hygiene holds for that part as well (the twin binary, oracle only)
	if exe := os.Getenv("VERIF_HARNESS"); exe != "" {
		if err := r.mergeChild(exec.Command(exe+".test", "-test.v", "c06test", fmt.Sprint(r.seed), r.tier)); err != nil {
			r.violate(violation{What: "the go-test-mode twin of the harness failed: " + err.Error()})
		}
	}
	slog.VerifResetGlobals()
}

// c06test <seed> <tier>: colored records carrying error values (plain, joined, with stack traces) in go-test mode
func c06Test(a []string) {
	seed, tier := uint64(1), "quick"
	if len(a) >= 2 {
		fmt.Sscan(a[0], &seed)
		tier = a[1]
	}
	dir, err := os.MkdirTemp("", "c06test")
	must(err)
	defer os.RemoveAll(dir)
	r := newRun("C06", seed+104651, tier, dir)
	g := &rng{s: r.seed*7 + 6}
	if !slog.VerifErrorDumpActive() {
		r.violate(violation{What: "harness: the twin is not in go-test mode (the error dump is off)"})
	}
	n := 300
	if tier == "thorough" {
		n = 4000
	}
	slog.VerifResetGlobals()
	for i := 0; i < n; i++ {
		rec := &recorder{}
		l := slog.New(fmt.Sprintf("c06t-%d", i)).SetWriter(rec).SetErrorWriter(rec).SetLevel(slog.TraceLevel).SetColorMode(true)
		fl := slog.LstdFlags | slog.LnoInterrupt
		if g.chance(1, 2) {
			fl &^= slog.Lcaller
		}
		slog.SetFlags(fl)
		var e error
		kind := g.intn(4)
		switch kind {
		case 0:
			e = errorsv3.New("an error with a stack trace %d", i)
		case 1:
			e = errors.New("a plain error")
		case 2:
			e = errors.Join(errors.New("first"), errors.New("second"))
		default:
			e = fmt.Errorf("wrapped: %w", errorsv3.New("inner with stack"))
		}
		args := []any{"err", e}
		if g.chance(1, 2) {
			args = append(args, "zone", "eu", "n", i)
		}
		if g.chance(1, 3) {
			args = append([]any{"a", 1}, args...)
		}
		msg := []string{"failed", "failed\nsecond line", "failed\nsecond line\n", "   lead"}[g.intn(4)]
		verb := g.intn(3)
		func() {
			defer func() { _ = recover() }()
			switch verb {
			case 0:
				l.Error(msg, args...)
			case 1:
				l.Info(msg, args...)
			default:
				l.Warn(msg, args...)
			}
		}()
		w := rec.take()
		r.seen(fmt.Sprintf("testmode|%d|%d|%v", kind, verb, fl&slog.Lcaller != 0))
		for _, p := range w {
			// the lines of the record itself end with every colour off; the error dump that follows them
			// may keep one colour across its own lines (the statement allows that) but the payload as a
			// whole ends with everything off
			ownLines := strings.Count(strings.TrimRight(msg, "\n"), "\n") + 1
			if strings.HasSuffix(msg, "\n") && ownLines > 1 {
				ownLines++
			}
			if d := sgrCheckDump(p, ownLines); d != "" {
				r.violate(violation{What: "colour hygiene (go-test mode, error dump): " + d,
					Input:  map[string]any{"error_kind": []string{"errors.v3 with stack", "plain", "joined", "wrapped errors.v3"}[kind], "message": fmt.Sprintf("%q", msg), "caller_flag": fl&slog.Lcaller != 0, "args": len(args) / 2},
					Actual: fmt.Sprintf("%q", p)})
				break
			}
		}
	}
	r.reportAsChild()
}
