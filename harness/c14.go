package main

// C14 — caller attribution. Every public entry point is called from a one-line function literal
// that first records its own stack (logical frames, inlined ones included); the literal is reached
// through a chain of four small wrappers. The caller printed in the record is matched against the
// frames of that stack: with skip count n it must be frame n — in all three formats, for root,
// child and default loggers, the log/slog adapter and the std log bridge; every call site is
// executed repeatedly, with stack-carrying errors in between. The whole sweep runs twice: in this
// binary (inlining on) and in a second binary built with -gcflags=all=-l.

import (
	"bufio"
	"context"
	"encoding/json"
	"errors"
	"fmt"
	"log"
	logslog "log/slog"
	"os"
	"os/exec"
	"path/filepath"
	"regexp"
	"runtime"
	"strconv"
	"strings"

	"github.com/hedzr/logg/slog"
)

func init() {
	props["C14"] = runC14
	childModes["c14child"] = c14Child
}

type c14ctx struct {
	l      slog.Logger
	sl     *logslog.Logger
	std    *log.Logger
	ctx    context.Context
	msg    string
	args   []any
	frames []runtime.Frame
}

//go:noinline
func (c *c14ctx) mark() {
	pcs := make([]uintptr, 24)
	n := runtime.Callers(2, pcs)
	it := runtime.CallersFrames(pcs[:n])
	c.frames = c.frames[:0]
	for {
		f, more := it.Next()
		c.frames = append(c.frames, f)
		if !more {
			break
		}
	}
}

func c14w1(c *c14ctx, f func(*c14ctx)) { f(c) }
func c14w2(c *c14ctx, f func(*c14ctx)) { c14w1(c, f) }
func c14w3(c *c14ctx, f func(*c14ctx)) { c14w2(c, f) }
func c14w4(c *c14ctx, f func(*c14ctx)) { c14w3(c, f) }

// small helpers that the compiler inlines into their callers: two logical functions in one physical one
func c14InnerA(c *c14ctx) { c.mark(); c.l.Info("from the first inlined helper") }
func c14InnerB(c *c14ctx) { c.mark(); c.l.Info("from the second inlined helper") }

func c14Outer(c *c14ctx, obs func()) {
	c14InnerA(c)
	obs()
	c14InnerB(c)
	obs()
}

type c14call struct {
	recv string // l: logger method, p: package function, h: log/slog adapter, b: std log bridge
	name string
	site int
	f    func(c *c14ctx)
}

var c14calls = []c14call{
	{"l", "Panic", 0, func(c *c14ctx) { c.mark(); c.l.Panic(c.msg, c.args...) }},
	{"l", "Fatal", 0, func(c *c14ctx) { c.mark(); c.l.Fatal(c.msg, c.args...) }},
	{"l", "Error", 0, func(c *c14ctx) { c.mark(); c.l.Error(c.msg, c.args...) }},
	{"l", "Warn", 0, func(c *c14ctx) { c.mark(); c.l.Warn(c.msg, c.args...) }},
	{"l", "Info", 0, func(c *c14ctx) { c.mark(); c.l.Info(c.msg, c.args...) }},
	{"l", "Debug", 0, func(c *c14ctx) { c.mark(); c.l.Debug(c.msg, c.args...) }},
	{"l", "Trace", 0, func(c *c14ctx) { c.mark(); c.l.Trace(c.msg, c.args...) }},
	{"l", "Print", 0, func(c *c14ctx) { c.mark(); c.l.Print(c.msg, c.args...) }},
	{"l", "OK", 0, func(c *c14ctx) { c.mark(); c.l.OK(c.msg, c.args...) }},
	{"l", "Success", 0, func(c *c14ctx) { c.mark(); c.l.Success(c.msg, c.args...) }},
	{"l", "Fail", 0, func(c *c14ctx) { c.mark(); c.l.Fail(c.msg, c.args...) }},
	{"l", "Verbose", 0, func(c *c14ctx) { c.mark(); c.l.Verbose(c.msg, c.args...) }},
	{"l", "Println", 1, func(c *c14ctx) { c.mark(); c.l.Println(append([]any{c.msg}, c.args...)...) }},
	{"l", "Println", 1, func(c *c14ctx) { c.mark(); c.l.Println(42, "k", 1) }},
	{"l", "Println", 1, func(c *c14ctx) { c.mark(); c.l.Println(errors.New("first argument is an error")) }},
	{"l", "PanicContext", 0, func(c *c14ctx) { c.mark(); c.l.PanicContext(c.ctx, c.msg, c.args...) }},
	{"l", "FatalContext", 0, func(c *c14ctx) { c.mark(); c.l.FatalContext(c.ctx, c.msg, c.args...) }},
	{"l", "ErrorContext", 0, func(c *c14ctx) { c.mark(); c.l.ErrorContext(c.ctx, c.msg, c.args...) }},
	{"l", "WarnContext", 0, func(c *c14ctx) { c.mark(); c.l.WarnContext(c.ctx, c.msg, c.args...) }},
	{"l", "InfoContext", 0, func(c *c14ctx) { c.mark(); c.l.InfoContext(c.ctx, c.msg, c.args...) }},
	{"l", "DebugContext", 0, func(c *c14ctx) { c.mark(); c.l.DebugContext(c.ctx, c.msg, c.args...) }},
	{"l", "TraceContext", 0, func(c *c14ctx) { c.mark(); c.l.TraceContext(c.ctx, c.msg, c.args...) }},
	{"l", "PrintContext", 0, func(c *c14ctx) { c.mark(); c.l.PrintContext(c.ctx, c.msg, c.args...) }},
	{"l", "PrintlnContext", 0, func(c *c14ctx) { c.mark(); c.l.PrintlnContext(c.ctx, c.msg, c.args...) }},
	{"l", "OKContext", 0, func(c *c14ctx) { c.mark(); c.l.OKContext(c.ctx, c.msg, c.args...) }},
	{"l", "SuccessContext", 0, func(c *c14ctx) { c.mark(); c.l.SuccessContext(c.ctx, c.msg, c.args...) }},
	{"l", "FailContext", 0, func(c *c14ctx) { c.mark(); c.l.FailContext(c.ctx, c.msg, c.args...) }},
	{"l", "VerboseContext", 0, func(c *c14ctx) { c.mark(); c.l.VerboseContext(c.ctx, c.msg, c.args...) }},
	{"l", "LogAttrs", 0, func(c *c14ctx) { c.mark(); c.l.LogAttrs(c.ctx, slog.InfoLevel, c.msg, c.args...) }},
	{"l", "Logit", 0, func(c *c14ctx) { c.mark(); c.l.Logit(c.ctx, slog.WarnLevel, c.msg, c.args...) }},
	{"l", "Log", 0, func(c *c14ctx) { c.mark(); c.l.Log(c.ctx, logslog.LevelInfo, c.msg, c.args...) }},
	{"l", "Infof", 0, func(c *c14ctx) { c.mark(); _ = c.l.Infof("%s", c.msg) }},
	{"l", "Warnf", 0, func(c *c14ctx) { c.mark(); _ = c.l.Warnf("%s", c.msg) }},
	{"l", "Errorf", 0, func(c *c14ctx) { c.mark(); _ = c.l.Errorf("%s", c.msg) }},
	{"l", "Infof", 0, func(c *c14ctx) { c.mark(); _ = c.l.Infof("a constant message, no operands") }},
	{"l", "Warnf", 0, func(c *c14ctx) { c.mark(); _ = c.l.Warnf("100%% done, no operands") }},
	{"l", "Errorf", 0, func(c *c14ctx) { c.mark(); _ = c.l.Errorf(c.msg) }},
	{"l", "Infof", 0, func(c *c14ctx) { c.mark(); _ = c.l.Infof("%d operands of %s kinds", 2, "two") }},
	{"p", "Panic", 0, func(c *c14ctx) { c.mark(); slog.Panic(c.msg, c.args...) }},
	{"p", "Fatal", 0, func(c *c14ctx) { c.mark(); slog.Fatal(c.msg, c.args...) }},
	{"p", "Error", 0, func(c *c14ctx) { c.mark(); slog.Error(c.msg, c.args...) }},
	{"p", "Warn", 0, func(c *c14ctx) { c.mark(); slog.Warn(c.msg, c.args...) }},
	{"p", "Info", 0, func(c *c14ctx) { c.mark(); slog.Info(c.msg, c.args...) }},
	{"p", "Debug", 0, func(c *c14ctx) { c.mark(); slog.Debug(c.msg, c.args...) }},
	{"p", "Trace", 0, func(c *c14ctx) { c.mark(); slog.Trace(c.msg, c.args...) }},
	{"p", "Print", 0, func(c *c14ctx) { c.mark(); slog.Print(c.msg, c.args...) }},
	{"p", "OK", 0, func(c *c14ctx) { c.mark(); slog.OK(c.msg, c.args...) }},
	{"p", "Success", 0, func(c *c14ctx) { c.mark(); slog.Success(c.msg, c.args...) }},
	{"p", "Fail", 0, func(c *c14ctx) { c.mark(); slog.Fail(c.msg, c.args...) }},
	{"p", "Verbose", 0, func(c *c14ctx) { c.mark(); slog.Verbose(c.msg, c.args...) }},
	{"p", "VerboseContext", 0, func(c *c14ctx) { c.mark(); slog.VerboseContext(c.ctx, c.msg, c.args...) }},
	{"p", "Println", 1, func(c *c14ctx) { c.mark(); slog.Println(append([]any{c.msg}, c.args...)...) }},
	{"p", "Println", 1, func(c *c14ctx) { c.mark(); slog.Println(3.14) }},
	{"p", "PanicContext", 0, func(c *c14ctx) { c.mark(); slog.PanicContext(c.ctx, c.msg, c.args...) }},
	{"p", "FatalContext", 0, func(c *c14ctx) { c.mark(); slog.FatalContext(c.ctx, c.msg, c.args...) }},
	{"p", "ErrorContext", 0, func(c *c14ctx) { c.mark(); slog.ErrorContext(c.ctx, c.msg, c.args...) }},
	{"p", "WarnContext", 0, func(c *c14ctx) { c.mark(); slog.WarnContext(c.ctx, c.msg, c.args...) }},
	{"p", "InfoContext", 0, func(c *c14ctx) { c.mark(); slog.InfoContext(c.ctx, c.msg, c.args...) }},
	{"p", "DebugContext", 0, func(c *c14ctx) { c.mark(); slog.DebugContext(c.ctx, c.msg, c.args...) }},
	{"p", "TraceContext", 0, func(c *c14ctx) { c.mark(); slog.TraceContext(c.ctx, c.msg, c.args...) }},
	{"p", "PrintContext", 0, func(c *c14ctx) { c.mark(); slog.PrintContext(c.ctx, c.msg, c.args...) }},
	{"p", "PrintlnContext", 0, func(c *c14ctx) { c.mark(); slog.PrintlnContext(c.ctx, c.msg, c.args...) }},
	{"p", "OKContext", 0, func(c *c14ctx) { c.mark(); slog.OKContext(c.ctx, c.msg, c.args...) }},
	{"p", "SuccessContext", 0, func(c *c14ctx) { c.mark(); slog.SuccessContext(c.ctx, c.msg, c.args...) }},
	{"p", "FailContext", 0, func(c *c14ctx) { c.mark(); slog.FailContext(c.ctx, c.msg, c.args...) }},
	{"h", "Info", 0, func(c *c14ctx) { c.mark(); c.sl.Info(c.msg, c.args...) }},
	{"h", "Warn", 0, func(c *c14ctx) { c.mark(); c.sl.Warn(c.msg, c.args...) }},
	{"h", "Error", 0, func(c *c14ctx) { c.mark(); c.sl.Error(c.msg, c.args...) }},
	{"h", "InfoContext", 0, func(c *c14ctx) { c.mark(); c.sl.InfoContext(c.ctx, c.msg, c.args...) }},
	{"h", "Log", 0, func(c *c14ctx) { c.mark(); c.sl.Log(c.ctx, logslog.LevelWarn, c.msg, c.args...) }},
	{"h", "LogAttrs", 0, func(c *c14ctx) { c.mark(); c.sl.LogAttrs(c.ctx, logslog.LevelInfo, c.msg, logslog.String("k", "v")) }},
	{"b", "Print", 0, func(c *c14ctx) { c.mark(); c.std.Print(c.msg) }},
	{"b", "Printf", 0, func(c *c14ctx) { c.mark(); c.std.Printf("%s", c.msg) }},
	{"b", "Println", 0, func(c *c14ctx) { c.mark(); c.std.Println(c.msg) }},
	{"b", "Output", 0, func(c *c14ctx) { c.mark(); _ = c.std.Output(1, c.msg) }},
}

type c14obs struct {
	frame   string // user[k] / none / no-record
	payload string
	detail  string
}

// c14Observe matches the caller printed in the last record against the recorded stack.
func c14Observe(c *c14ctx, rec *recorder, format string) c14obs {
	w := rec.take()
	if len(w) == 0 {
		return c14obs{frame: "no-record"}
	}
	p := string(reAnsi.ReplaceAll(w[0], nil))
	first := p
	if i := strings.IndexByte(p, '\n'); i >= 0 {
		first = p[:i]
	}
	for k, f := range c.frames {
		file := slog.Safety(f.File)
		var hit bool
		switch format {
		case "j":
			fj, _ := json.Marshal(file)
			fn, _ := json.Marshal(f.Function)
			hit = strings.Contains(p, fmt.Sprintf(`"caller":{"file":%s,"line":%d,"function":%s}`, fj, f.Line, fn))
		case "l":
			hit = strings.Contains(p, fmt.Sprintf(`caller.file=%q caller.line=%d caller.function=%q`, file, f.Line, f.Function))
		default:
			short := f.Function
			if i := strings.LastIndex(short, "/"); i >= 0 {
				short = short[i+1:]
			}
			hit = strings.HasSuffix(strings.TrimRight(first, " "), fmt.Sprintf(" %s:%d %s", file, f.Line, short))
		}
		if hit {
			return c14obs{frame: fmt.Sprintf("user[%d]", k), payload: p}
		}
	}
	return c14obs{frame: "none-of-the-user-frames", payload: p}
}

func c14Format(l slog.Logger, format string) {
	switch format {
	case "j":
		l.SetJSONMode(true)
	case "l":
		l.SetColorMode(false)
	default:
		l.SetColorMode(true)
	}
}

// c14Sweep produces protocol lines (op, observation) and violations; build = "inline" | "noinline".
func c14Sweep(seed uint64, tier string, build string, emit func(op, obs string), violate func(v violation), seen func(k string)) {
	ctx := context.Background()
	reps := 3
	for _, format := range []string{"j", "l", "c"} {
		for _, kind := range []string{"root", "child", "default"} {
			slog.VerifResetGlobals()
			slog.SetFlags(slog.LstdFlags | slog.Lcaller | slog.LnoInterrupt)
			rec := &recorder{}
			var base slog.Logger
			switch kind {
			case "root":
				base = slog.New("c14root")
			case "child":
				base = slog.New("c14parent").New("c14child")
			default:
				base = slog.Default()
			}
			base.SetWriter(rec).SetErrorWriter(rec).SetLevel(slog.TraceLevel)
			slog.SetLevel(slog.TraceLevel)
			c14Format(base, format)
			for skip := 0; skip <= 4; skip++ {
				// the skip count reaches the logger by WithSkip (a child) or by SetSkip
				l := base
				how := "SetSkip"
				if kind != "default" && (skip+len(format))%2 == 0 {
					l = base.WithSkip(skip).SetWriter(rec).SetErrorWriter(rec) // a child does not inherit the writers
					how = "WithSkip"
				} else {
					base.SetSkip(skip)
				}
				h := slog.NewSlogHandler(l, &slog.HandlerOptions{NoColor: format != "c", JSON: format == "j"})
				slog.SetFlags(slog.LstdFlags | slog.Lcaller | slog.LnoInterrupt)
				slog.SetLevel(slog.TraceLevel)
				l.SetLevel(slog.TraceLevel)
				c := &c14ctx{l: l, sl: logslog.New(h), std: slog.NewLogLogger(l, slog.InfoLevel), ctx: ctx, msg: "m"}
				for _, call := range c14calls {
					if call.recv == "p" && kind != "default" {
						continue
					}
					for rep := 0; rep < reps; rep++ {
						c.args = nil
						c.ctx = ctx
						c.msg = "m"
						if skip == 3 && rep == 2 {
							c.msg = "\f\u00a0" // white space of the less common kinds is a message like any other: the record has its caller
						}
						if rep == 1 || (skip == 2 && rep == 0) {
							c.ctx = nil // no context given to the …Context verbs: the caller is the same
						}
						if rep == 1 && call.recv != "b" {
							c.args = []any{"err", c09Err} // an error that carries a stack trace
						}
						rec.take()
						func() {
							defer func() { _ = recover() }()
							c14w4(c, call.f)
						}()
						o := c14Observe(c, rec, format)
						want := skip
						if call.recv == "b" {
							want = 0 // a bridge has no skip count of its own
						}
						op := ""
						switch call.recv {
						case "l", "p":
							op = fmt.Sprintf("C14 v %s %s %d %d %d", call.recv, call.name, call.site, skip, len(c.frames))
						case "h":
							op = fmt.Sprintf("C14 h %d %d", skip, len(c.frames))
						case "b":
							op = fmt.Sprintf("C14 b %d %d", 0, len(c.frames))
						}
						emit(op, o.frame)
						seen(fmt.Sprintf("%s|%s|%s|%s|%s|%d", build, format, kind, call.recv, call.name, skip))
						if o.frame != "no-record" && o.frame != fmt.Sprintf("user[%d]", want) {
							exp := "?"
							if want < len(c.frames) {
								f := c.frames[want]
								exp = fmt.Sprintf("%s:%d %s", slog.Safety(f.File), f.Line, f.Function)
							}
							violate(violation{What: "the caller of a record is not the frame the skip count selects",
								Input: map[string]any{"build": build, "format": format, "logger": kind, "entry_point": call.recv + "." + call.name, "skip": skip, "skip_set_by": how,
									"repetition_at_the_same_call_site": rep, "previous_record_had_stack_error": rep == 2},
								Expected: exp, Actual: o.frame + " in " + o.payload})
						}
					}
				}
				// SetSkip after the adapter was made must be honoured per record
				if kind != "default" {
					for _, n := range []int{1, 0, 2} {
						l.SetSkip(n)
						rec.take()
						c14w4(c, c14calls[len(c14calls)-10].f) // h.Info
						o := c14Observe(c, rec, format)
						emit(fmt.Sprintf("C14 h %d %d", n, len(c.frames)), o.frame)
						if o.frame != fmt.Sprintf("user[%d]", n) {
							violate(violation{What: "the log/slog adapter ignores a skip count set after the handler was made",
								Input:    map[string]any{"build": build, "format": format, "logger": kind, "handler_made_at_skip": skip, "SetSkip_afterwards": n},
								Expected: fmt.Sprintf("user[%d]", n), Actual: o.frame + " in " + o.payload})
						}
					}
					l.SetSkip(skip)
				}
			}
			// WithSkip(n) with n equal to the receiver's own skip count still gives a logger of its own:
			// a later SetSkip on it does not move the attribution of records issued through the receiver
			if kind != "default" {
				base.SetSkip(0)
				twin := base.WithSkip(0).SetWriter(rec).SetErrorWriter(rec)
				twin.SetSkip(2)
				cc := &c14ctx{l: base, ctx: ctx, msg: "m"}
				rec.take()
				c14w4(cc, c14calls[4].f) // l.Info
				o := c14Observe(cc, rec, format)
				emit(fmt.Sprintf("C14 v l Info 0 0 %d", len(cc.frames)), o.frame)
				seen(fmt.Sprintf("%s|%s|%s|withskip-same-n", build, format, kind))
				if o.frame != "user[0]" {
					violate(violation{What: "SetSkip on the logger returned by WithSkip(n) moved the attribution of the logger it was derived from",
						Input:    map[string]any{"build": build, "format": format, "logger": kind, "sequence": "base.SetSkip(0); twin := base.WithSkip(0); twin.SetSkip(2); base.Info(...)"},
						Expected: "user[0]", Actual: o.frame + " in " + o.payload})
				}
				cc.l = twin
				rec.take()
				c14w4(cc, c14calls[4].f)
				o = c14Observe(cc, rec, format)
				emit(fmt.Sprintf("C14 v l Info 0 2 %d", len(cc.frames)), o.frame)
				if o.frame != "user[2]" {
					violate(violation{What: "the logger returned by WithSkip(n) does not follow its own SetSkip",
						Input: map[string]any{"build": build, "format": format, "logger": kind}, Expected: "user[2]", Actual: o.frame + " in " + o.payload})
				}
			}
			if kind != "default" {
				// asking again for WithSkip(n) gives a logger with skip n, whatever was done to the one handed out before
				again := base.WithSkip(0).SetWriter(rec).SetErrorWriter(rec)
				cc := &c14ctx{l: again, ctx: ctx, msg: "m"}
				rec.take()
				c14w4(cc, c14calls[4].f)
				o := c14Observe(cc, rec, format)
				emit(fmt.Sprintf("C14 v l Info 0 0 %d", len(cc.frames)), o.frame)
				seen(fmt.Sprintf("%s|%s|%s|withskip-again", build, format, kind))
				if o.frame != "user[0]" {
					violate(violation{What: "WithSkip(n) requested a second time returned a logger that does not attribute n frames up",
						Input:    map[string]any{"build": build, "format": format, "logger": kind, "sequence": "a := base.WithSkip(0); a.SetSkip(2); b := base.WithSkip(0); b.Info(...)"},
						Expected: "user[0]", Actual: o.frame + " in " + o.payload})
				}
			}
			if kind != "default" {
				// loggers derived from a logger that has a skip count start at skip 0: New(name) and the With… builders
				base.SetSkip(2)
				kids := map[string]slog.Logger{
					"New":       base.New("c14kid"),
					"WithAttrs": base.WithAttrs(slog.NewAttr("kid", 1)),
					"WithLevel": base.WithLevel(slog.TraceLevel),
				}
				for how, kid := range kids {
					kid.SetWriter(rec).SetErrorWriter(rec).SetLevel(slog.TraceLevel)
					cc := &c14ctx{l: kid, ctx: ctx, msg: "m"}
					rec.take()
					c14w4(cc, c14calls[4].f)
					o := c14Observe(cc, rec, format)
					emit(fmt.Sprintf("C14 v l Info 0 0 %d", len(cc.frames)), o.frame)
					seen(fmt.Sprintf("%s|%s|%s|derived-from-skipping-logger|%s", build, format, kind, how))
					if o.frame != "user[0]" {
						violate(violation{What: "a logger derived from a logger with a skip count does not start at skip 0",
							Input:    map[string]any{"build": build, "format": format, "logger": kind, "sequence": "base.SetSkip(2); kid := base." + how + "(...); kid.Info(...)"},
							Expected: "user[0]", Actual: o.frame + " in " + o.payload})
					}
				}
				base.SetSkip(0)
			}
			// a std log bridge made while caller information was switched off attributes its records as soon as
			// caller information is switched on (the flag is read per record)
			{
				base.SetSkip(0)
				slog.RemoveFlags(slog.Lcaller)
				late := slog.NewLogLogger(base, slog.InfoLevel)
				slog.AddFlags(slog.Lcaller)
				cc := &c14ctx{l: base, std: late, ctx: ctx, msg: "m"}
				for _, call := range c14calls {
					if call.recv != "b" {
						continue
					}
					rec.take()
					c14w4(cc, call.f)
					o := c14Observe(cc, rec, format)
					emit(fmt.Sprintf("C14 b 0 %d", len(cc.frames)), o.frame)
					seen(fmt.Sprintf("%s|%s|%s|bridge-made-with-caller-off|%s", build, format, kind, call.name))
					if o.frame != "user[0]" {
						violate(violation{What: "a std log bridge built while caller information was off does not attribute its records after caller information was switched on",
							Input:    map[string]any{"build": build, "format": format, "logger": kind, "entry_point": call.name, "sequence": "RemoveFlags(Lcaller); b := NewLogLogger(l, Info); AddFlags(Lcaller); b.Print(...)"},
							Expected: "user[0]", Actual: o.frame + " in " + o.payload})
					}
				}
			}
			if format != "c" {
				// other working directories (a daemon's chdir("/"), a sibling whose name starts like the source directory),
				// privacy flags off: the reported file is the file of the statement, or a relative path that leads to it
				wd0, _ := os.Getwd()
				for _, dir := range []string{"/", filepath.Dir(wd0), os.TempDir()} {
					if os.Chdir(dir) != nil {
						continue
					}
					slog.SetFlags((slog.LstdFlags | slog.Lcaller | slog.LnoInterrupt) &^ (slog.Lprivacypath | slog.Lprivacypathregexp))
					base.SetSkip(0)
					cc := &c14ctx{l: base, ctx: ctx, msg: "m"}
					rec.take()
					c14w4(cc, c14calls[4].f)
					w := rec.take()
					reported := ""
					if len(w) == 1 {
						if format == "j" {
							var obj struct {
								Caller struct{ File string } `json:"caller"`
							}
							_ = json.Unmarshal(w[0], &obj)
							reported = obj.Caller.File
						} else if m := regexp.MustCompile(`caller\.file=("(?:[^"\\]|\\.)*")`).FindSubmatch(w[0]); m != nil {
							reported, _ = strconv.Unquote(string(m[1]))
						}
					}
					want := ""
					if len(cc.frames) > 0 {
						want = cc.frames[0].File
					}
					resolved := reported
					if !filepath.IsAbs(reported) {
						resolved = filepath.Join(dir, reported)
					}
					seen(fmt.Sprintf("%s|%s|%s|cwd=%s", build, format, kind, dir))
					if reported == "" || filepath.Clean(resolved) != want {
						violate(violation{What: "the reported file does not name the file of the statement (working directory changed, privacy flags off)",
							Input:    map[string]any{"build": build, "format": format, "logger": kind, "working_directory": dir},
							Expected: want, Actual: reported})
					}
				}
				_ = os.Chdir(wd0)
				slog.SetFlags(slog.LstdFlags | slog.Lcaller | slog.LnoInterrupt)
			}
			// two logical functions in one physical function (when the helper is inlined)
			base.SetSkip(0)
			c := &c14ctx{l: base, ctx: ctx, msg: "m"}
			var obs []c14obs
			for rep := 0; rep < 2; rep++ {
				c14Outer(c, func() { obs = append(obs, c14Observe(c, rec, format)) })
			}
			for i, o := range obs {
				seen(fmt.Sprintf("%s|%s|%s|inlined-helper|%d", build, format, kind, i))
				if o.frame != "user[0]" {
					violate(violation{What: "a record issued from a small helper function (inlined by the compiler) is attributed to another function",
						Input: map[string]any{"build": build, "format": format, "logger": kind, "sequence": "a function calls two small helpers that each log; twice", "record": i}, Expected: "user[0]", Actual: o.frame + " in " + o.payload})
				}
			}
		}
	}
	slog.VerifResetGlobals()
}

func runC14(r *run) {
	r.rule = "every public entry point (32 logger methods, 26 package functions, 6 log/slog methods through the adapter, 4 std log methods through the bridge) x 3 formats x root/child/default logger x skip 0..4 through a chain of 4 wrappers x 3 repetitions of the same call site (the 2nd with a stack-carrying error), SetSkip after NewSlogHandler, inlined helper functions; once in this binary (inlining on) and once in a binary built with -gcflags=all=-l; distinct = distinct (build, format, logger kind, entry point, skip); non-trivial = skip > 0 or adapter/bridge"
	c14Sweep(r.seed, r.tier, "inline", r.emit, r.violate, r.seen)
	exe := os.Getenv("VERIF_HARNESS")
	if exe == "" {
		r.violate(violation{What: "VERIF_HARNESS is not set: the no-inline build cannot be run"})
		return
	}
	noinl := exe + "-noinline"
	if _, err := os.Stat(noinl); err != nil {
		r.violate(violation{What: "the no-inline build of the harness is missing: " + noinl})
		return
	}
	cmd := exec.Command(noinl, "c14child", fmt.Sprint(r.seed), r.tier)
	cmd.Stderr = os.Stderr
	out, err := cmd.StdoutPipe()
	must(err)
	must(cmd.Start())
	sc := bufio.NewScanner(out)
	sc.Buffer(make([]byte, 1<<20), 1<<24)
	for sc.Scan() {
		line := sc.Text()
		switch {
		case strings.HasPrefix(line, "OP\t"):
			p := strings.SplitN(line, "\t", 3)
			r.emit(p[1], p[2])
		case strings.HasPrefix(line, "SEEN\t"):
			r.seen(line[5:])
		case strings.HasPrefix(line, "VIOL\t"):
			var v violation
			if json.Unmarshal([]byte(line[5:]), &v) == nil {
				r.violate(v)
			}
		}
	}
	if err := cmd.Wait(); err != nil {
		r.violate(violation{What: "the no-inline build of the harness failed: " + err.Error()})
	}
}

// c14child <seed> <tier>: the same sweep in the binary built without inlining
func c14Child(a []string) {
	w := bufio.NewWriter(os.Stdout)
	defer w.Flush()
	c14Sweep(1, "quick", "noinline",
		func(op, obs string) { fmt.Fprintf(w, "OP\t%s\t%s\n", op, obs) },
		func(v violation) {
			b, _ := json.Marshal(v)
			fmt.Fprintf(w, "VIOL\t%s\n", b)
		},
		func(k string) { fmt.Fprintf(w, "SEEN\t%s\n", k) })
}
