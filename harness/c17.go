package main

// C17 — level registry. Random registration histories (values negative / colliding / above
// MaxLevel, titles of mixed case colliding with built-ins and aliases, awkward bytes, option
// subsets) interleaved with every lookup; the oracle keeps its own reference of used values
// and titles and checks refusals, no side effects of refusals, and the round trips.

import (
	"context"
	"fmt"
	"strings"

	"github.com/hedzr/is"
	"github.com/hedzr/is/term/color"
	"github.com/hedzr/logg/slog"
)

func init() { props["C17"] = runC17 }

func c17Title(r *rng) string {
	switch r.intn(12) {
	case 0:
		return r.pick([]string{"info", "INFO", "Info", "warn", "warning", "WARNING", "dev", "ok", "OK", "no", "disabled", "fail", "Fail"})
	case 1:
		return r.pick([]string{"NOTICE", "Notice", "notice", "AUDIT", "audit", "Audit"})
	case 2:
		return ""
	case 4:
		// white space at either end is part of the title
		return r.pick([]string{"HNT ", " pad", " both ", "tab\t", "nl\n", "\u00a0nbsp", "in side"})
	case 3:
		return r.pick([]string{"net\\io", "\"quoted\"", "tab\there", "nl\nx", "trail\\", "x\x01y", "é-acc", "日本", "a b", "\xffbad", "L#33"})
	}
	n := 1 + r.intn(7)
	const alpha = "abcXYZ019-_"
	var sb strings.Builder
	for i := 0; i < n; i++ {
		sb.WriteByte(alpha[r.intn(len(alpha))])
	}
	return sb.String()
}

func isASCII(s string) bool {
	for i := 0; i < len(s); i++ {
		if s[i] >= 0x80 {
			return false
		}
	}
	return true
}

func runC17(r *run) {
	g := &rng{s: r.seed*7919 + 17}
	r.rule = "random registration histories of 1..14 RegisterLevel calls, each followed by the full set of lookups on every known level and probes; distinct = distinct (value class, title class, option subset, accepted/refused) registrations; non-trivial = every registration (each is followed by ~200 lookups)"
	histories := 60
	if r.tier == "thorough" {
		histories = 600
	}
	quiet := &recorder{}
	for h := 0; h < histories; h++ {
		slog.VerifResetGlobals()
		slog.Default().SetWriter(quiet).SetErrorWriter(quiet)
		r.emit("C17 reset", "ok")
		usedVals := map[int]bool{}
		wantErrDev := map[int]bool{} // custom levels registered so far: was the error device requested
		for i := 0; i <= 11; i++ {
			usedVals[i] = true
		}
		usedTitles := map[string]bool{}
		for _, t := range []string{"fail", "success", "ok", "always", "off", "no", "disabled", "trace", "debug", "devel", "dev", "develop", "info", "warn", "warning", "error", "fatal", "panic"} {
			usedTitles[t] = true
		}
		known := []int{0, 3, 4, 7, 8, 9, 11}
		titled := map[int]string{0: "panic", 1: "fatal", 2: "error", 3: "warning", 4: "info", 5: "debug", 6: "trace", 7: "off", 8: "always", 9: "ok", 10: "success", 11: "fail"}
		var probes []string
		queries := func(record bool) []string {
			var obs []string
			q := func(op, o string) {
				if record {
					r.emit(op, o)
				}
				obs = append(obs, o)
			}
			lv := append(append([]int{}, known...), 33, -2, 12)
			for _, l := range lv {
				L := slog.Level(l)
				name := L.String()
				q(fmt.Sprintf("C17 name %d", l), hxs(name))
				for _, n := range []int{1, 2, 3, 4, 5} {
					q(fmt.Sprintf("C17 tag %d %d", l, n), hxs(L.ShortTag(n)))
				}
				mt, err := L.MarshalText()
				if err != nil {
					q(fmt.Sprintf("C17 mtext %d", l), "err")
				} else {
					q(fmt.Sprintf("C17 mtext %d", l), "ok "+hx(mt))
					var back slog.Level
					if e := back.UnmarshalText(mt); e != nil {
						q("C17 utext "+hx(mt), "err")
					} else {
						q("C17 utext "+hx(mt), fmt.Sprintf("ok %d", int(back)))
					}
				}
				mj, err := L.MarshalJSON()
				if err != nil || mt == nil {
					q(fmt.Sprintf("C17 mjson %d", l), "err")
				} else {
					q(fmt.Sprintf("C17 mjson %d", l), "ok "+hx(mj))
					var back slog.Level
					if e := back.UnmarshalJSON(mj); e != nil {
						q("C17 ujson "+hx(mj), "err")
					} else {
						q("C17 ujson "+hx(mj), fmt.Sprintf("ok %d", int(back)))
					}
				}
				if t, ok := slog.VerifTreatedAs(L); ok {
					q(fmt.Sprintf("C17 treat %d", l), fmt.Sprint(int(t)))
				} else {
					q(fmt.Sprintf("C17 treat %d", l), "none")
				}
				q(fmt.Sprintf("C17 errdev %d", l), b01(slog.VerifUsesErrorDevice(L)))
				if l != 7 {
					// … and where a record of that level really goes: a logger whose normal and error writers differ
					slog.SetFlags(slog.GetFlags() | slog.LnoInterrupt)
					outW, errW := &recorder{}, &recorder{}
					pl := slog.New("c17route").SetWriter(outW).SetErrorWriter(errW).SetLevel(slog.AlwaysLevel)
					if l%2 == 1 {
						// a writer of its own for that level that is taken away again: the device of the registration applies
						gone := &recorder{}
						pl.AddLevelWriter(L, gone)
						pl.RemoveLevelWriter(L, gone)
					}
					func() {
						defer func() { _ = recover() }()
						pl.Logit(context.Background(), L, "route probe")
					}()
					no, ne := len(outW.take()), len(errW.take())
					if no+ne == 1 {
						q(fmt.Sprintf("C17 errdev %d", l), b01(ne == 1))
						if want, custom := wantErrDev[l]; custom && want != (ne == 1) {
							r.violate(violation{What: "a registered level is not routed to the device its registration asked for",
								Input: map[string]any{"level": l, "title": titled[l], "registered_for_the_error_device": want}, Expected: map[bool]string{true: "error writers", false: "normal writers"}[want],
								Actual: map[bool]string{true: "error writers", false: "normal writers"}[ne == 1]})
						}
					} else {
						r.violate(violation{What: "a record was not routed to exactly one of the two devices", Input: map[string]any{"level": l}, Actual: fmt.Sprintf("normal=%d error=%d", no, ne)})
					}
				}
				q(fmt.Sprintf("C17 colors %d", l), b01(slog.VerifHasColors(L)))
			}
			for _, s := range probes {
				if pl, err := slog.ParseLevel(s); err != nil {
					q("C17 parse "+hxs(s), "err")
				} else {
					q("C17 parse "+hxs(s), fmt.Sprintf("ok %d", int(pl)))
				}
			}
			var all []string
			for _, l := range slog.AllLevels() {
				all = append(all, fmt.Sprint(int(l)))
			}
			q("C17 all", strings.Join(all, " "))
			// ShortTag outside 1..5 panics
			for _, n := range []int{0, 6, -1} {
				func() {
					defer func() {
						if recover() != nil {
							q(fmt.Sprintf("C17 tag 4 %d", n), "panic")
						}
					}()
					q(fmt.Sprintf("C17 tag 4 %d", n), hxs(slog.InfoLevel.ShortTag(n)))
				}()
			}
			return obs
		}
		probes = []string{"info", "INFO", "Warning", "nope", "", "DEV", "L#33"}
		nOps := 1 + g.intn(14)
		for i := 0; i < nOps; i++ {
			var v int
			switch g.intn(6) {
			case 0:
				v = g.intn(13) // collides with a built-in (or is MaxLevel)
			case 1:
				v = -1 - g.intn(20)
			case 2:
				if len(known) > 7 {
					v = known[7+g.intn(len(known)-7)] // collides with an earlier registration
				} else {
					v = 12
				}
			default:
				v = 12 + g.intn(60)
			}
			title := c17Title(g)
			var opts []slog.RegOpt
			var tags [6]string
			optKey := ""
			if g.chance(1, 2) {
				for k := 0; k < 6; k++ {
					if g.chance(2, 3) {
						tags[k] = strings.Repeat(string(rune('A'+g.intn(26))), k)
						if k == 0 {
							tags[k] = "z"
						}
					}
				}
				opts = append(opts, slog.RegWithShortTags(tags))
				optKey += "T"
			}
			clr, bg := -1, -1
			if g.chance(1, 2) {
				clr = 31 + g.intn(6)
				if g.chance(1, 2) {
					bg = 1 + g.intn(5)
					opts = append(opts, slog.RegWithColor(color.Color(clr), color.Color(bg)))
				} else {
					opts = append(opts, slog.RegWithColor(color.Color(clr)))
				}
				optKey += "C"
			}
			treat := 12
			if g.chance(2, 3) {
				treat = []int{0, 1, 2, 3, 4, 5, 6, 7, 8, 11, 12, 13, -1}[g.intn(13)]
				opts = append(opts, slog.RegWithTreatedAsLevel(slog.Level(treat)))
				optKey += "A"
			}
			toErr := false
			if g.chance(1, 2) {
				switch g.intn(3) {
				case 0:
					opts = append(opts, slog.RegWithPrintToErrorDevice())
					toErr = true
				case 1:
					opts = append(opts, slog.RegWithPrintToErrorDevice(false))
				default:
					opts = append(opts, slog.RegWithPrintToErrorDevice(false, true))
					toErr = true
				}
				optKey += "E"
			}
			probes = append(probes, title)
			if isASCII(title) {
				probes = append(probes, strings.ToUpper(title), strings.ToLower(title))
			}
			before := queries(false)
			err := slog.RegisterLevel(slog.Level(v), title, opts...)
			obs := "ok"
			if err != nil {
				obs = "refused"
			}
			r.emit(fmt.Sprintf("C17 reg %d %s %s %s %s %s %s %s %d %d %d %s", v, hxs(title), hxs(tags[0]), hxs(tags[1]), hxs(tags[2]), hxs(tags[3]), hxs(tags[4]), hxs(tags[5]), clr, bg, treat, b01(toErr)), obs)
			wantRefuse := usedVals[v] || usedTitles[title]
			vclass := "fresh"
			if usedVals[v] {
				vclass = "used-value"
			}
			tclass := "fresh"
			if usedTitles[title] {
				tclass = "used-title"
			}
			r.seen(fmt.Sprintf("%s|%s|%s|%s", vclass, tclass, optKey, obs))
			r.count("registration=" + obs)
			input := map[string]any{"history_index": h, "step": i, "value": v, "title": title, "options": optKey, "treat_as": treat, "to_error_device": toErr}
			if (err != nil) != wantRefuse {
				r.violate(violation{What: "RegisterLevel accept/refuse differs from 'value or title already in use'", Input: input, Expected: wantRefuse, Actual: err != nil})
			}
			if err == nil {
				usedVals[v], usedTitles[title] = true, true
				wantErrDev[v] = toErr
				known = append(known, v)
				titled[v] = title
			}
			after := queries(true)
			if err != nil {
				// a refusal must leave every table unchanged
				for k := range before {
					if k < len(after) && before[k] != after[k] {
						r.violate(violation{What: "a refused registration changed the registry", Input: input, Expected: before[k], Actual: after[k]})
						break
					}
				}
			} else {
				L := slog.Level(v)
				if L.String() != title {
					r.violate(violation{What: "registered level does not answer to its title", Input: input, Actual: L.String()})
				}
				if t, ok := slog.VerifTreatedAs(L); treat < 12 && (!ok || int(t) != treat) {
					r.violate(violation{What: "registered level is not gated as the level it is treated as", Input: input, Actual: fmt.Sprint(int(t), ok)})
				}
				// the gate itself, not only the table: the level is admitted exactly like the level it is treated as
				if !is.DebugMode() {
					for _, lg := range []int{0, 1, 2, 3, 4, 6, 7, 8} {
						got := slog.Level(lg).Enabled(context.Background(), L)
						r.emit(fmt.Sprintf("C17 gate %d %d", lg, v), b01(got))
						if treat >= 0 && treat <= 6 && lg <= 6 && got != (treat <= lg) {
							r.violate(violation{What: "a registered level is not admitted exactly like the built-in level it is treated as",
								Input: map[string]any{"registration": input, "logger_level": lg}, Expected: fmt.Sprint(treat <= lg), Actual: fmt.Sprint(got)})
						}
					}
				}
				if toErr != slog.VerifUsesErrorDevice(L) {
					r.violate(violation{What: "error-device request not honoured", Input: input, Actual: slog.VerifUsesErrorDevice(L)})
				}
				for n := 1; n <= 5; n++ {
					if tags[n] != "" && L.ShortTag(n) != tags[n] {
						r.violate(violation{What: "given short tag not used", Input: input, Actual: L.ShortTag(n)})
					}
				}
			}
			// round trips for every titled level
			for l, t := range titled {
				L := slog.Level(l)
				if pl, e := slog.ParseLevel(L.String()); e != nil || pl != L {
					r.violate(violation{What: "printed name does not parse back", Input: map[string]any{"level": l, "title": t, "after": input}, Actual: fmt.Sprint(int(pl), e)})
				}
				var b1, b2 slog.Level
				mt, e1 := L.MarshalText()
				if e1 != nil || b1.UnmarshalText(mt) != nil || b1 != L {
					r.violate(violation{What: "text round trip fails", Input: map[string]any{"level": l, "title": t}, Actual: fmt.Sprint(string(mt), e1, int(b1))})
				}
				mj, e2 := L.MarshalJSON()
				if e2 != nil || b2.UnmarshalJSON(mj) != nil || b2 != L {
					r.violate(violation{What: "JSON round trip fails", Input: map[string]any{"level": l, "title": t}, Actual: fmt.Sprint(string(mj), e2, int(b2))})
				}
				for n := 1; n <= 5; n++ {
					custom := false
					if l > 11 || l < 0 {
						// registered by this history: custom iff a tag was given — recomputed from the library's own answer length instead
						custom = true
					}
					if !custom && len(L.ShortTag(n)) != n {
						r.violate(violation{What: "ShortTag(n) is not n characters", Input: map[string]any{"level": l, "n": n}, Actual: L.ShortTag(n)})
					}
				}
			}
			if h < 3 && i == 0 {
				r.sample(input)
			}
		}
	}
	// routing of severities registered for the error device: several of them, and loggers that exist already
	customErrorDevices(r.violate)
	lateErrorDeviceLevels(r.violate)
	levelOffsetTitles(r.violate)
	slog.VerifResetGlobals()
}
