package main

// C03 — routing and writer-set configuration. Random histories of the eleven configuring
// calls (as methods, and a prefix as New(...) options) over a pool of six writers of six kinds
// (plain io.Writer, LogWriter, LevelSettable variants, NewLogWriter wrappers) and nil, on a fresh
// logger; then one probe record per severity class. The process's stdout/stderr are temp files so
// that the fallback to the package defaults is observed in-process.

import (
	"bytes"
	"context"
	"fmt"
	"io"
	"os"
	"sort"
	"strings"

	"github.com/hedzr/logg/slog"
)

func init() { props["C03"] = runC03 }

type c03Op struct {
	name string
	lvl  int
	w    int
}

func (o c03Op) proto() string {
	switch o.name {
	case "addLevelWriter", "removeLevelWriter":
		return fmt.Sprintf("op %s %d %d", o.name, o.lvl, o.w)
	case "resetLevelWriter":
		return fmt.Sprintf("op %s %d", o.name, o.lvl)
	case "resetLevelWriters", "resetWriters":
		return "op " + o.name
	}
	return fmt.Sprintf("op %s %d", o.name, o.w)
}

func c03Apply(l slog.Logger, o c03Op, pool []io.Writer) {
	w := pool[o.w]
	switch o.name {
	case "setWriter":
		l.SetWriter(w)
	case "addWriter":
		l.AddWriter(w)
	case "removeWriter":
		l.RemoveWriter(w)
	case "setErrorWriter":
		l.SetErrorWriter(w)
	case "addErrorWriter":
		l.AddErrorWriter(w)
	case "removeErrorWriter":
		l.RemoveErrorWriter(w)
	case "addLevelWriter":
		l.AddLevelWriter(slog.Level(o.lvl), w)
	case "removeLevelWriter":
		l.RemoveLevelWriter(slog.Level(o.lvl), w)
	case "resetLevelWriter":
		l.ResetLevelWriter(slog.Level(o.lvl))
	case "resetLevelWriters":
		l.ResetLevelWriters()
	case "resetWriters":
		l.ResetWriters()
	}
}

func c03Opt(o c03Op, pool []io.Writer) (slog.Opt, bool) {
	w := pool[o.w]
	switch o.name {
	case "setWriter":
		return slog.WithWriter(w), true
	case "addWriter":
		return slog.AddWriter(w), true
	case "setErrorWriter":
		return slog.WithErrorWriter(w), true
	case "addErrorWriter":
		return slog.AddErrorWriter(w), true
	case "addLevelWriter":
		return slog.AddLevelWriter(slog.Level(o.lvl), w), true
	case "removeLevelWriter":
		return slog.RemoveLevelWriter(slog.Level(o.lvl), w), true
	case "resetLevelWriter":
		return slog.ResetLevelWriter(slog.Level(o.lvl)), true
	case "resetLevelWriters":
		return slog.ResetLevelWriters(), true
	case "resetWriters":
		return slog.ResetWriters(), true
	}
	return nil, false
}

var c03OpNames = []string{"setWriter", "addWriter", "removeWriter", "setErrorWriter", "addErrorWriter", "removeErrorWriter",
	"addLevelWriter", "removeLevelWriter", "resetLevelWriter", "resetLevelWriters", "resetWriters"}

func runC03(r *run) {
	g := &rng{s: r.seed*15485863 + 3}
	r.rule = "random histories (length 0..12) of the 11 writer-configuring calls over 6 writers of 6 kinds and nil, applied as methods (and a prefix as New options), followed by one probe per severity class; distinct = distinct histories; non-trivial = histories of length >= 1"
	// observe the package defaults in-process
	outF, err := os.CreateTemp("", "c03out")
	must(err)
	errF, err := os.CreateTemp("", "c03err")
	must(err)
	defer os.Remove(outF.Name())
	defer os.Remove(errF.Name())
	fileW, err := os.CreateTemp("", "c03file")
	must(err)
	defer os.Remove(fileW.Name())
	realOut, realErr := os.Stdout, os.Stderr
	os.Stdout, os.Stderr = outF, errF
	defer func() { os.Stdout, os.Stderr = realOut, realErr }()
	slog.VerifResetGlobals()
	_ = slog.RegisterLevel(slog.Level(40), "c03plain")
	_ = slog.RegisterLevel(slog.Level(-8), "c03hint") // negative level numbers are legal; -3 stays unregistered
	_ = slog.RegisterLevel(slog.Level(41), "c03err", slog.RegWithPrintToErrorDevice())
	// the error device is a registration of its own: neither the treated-as level nor the order of the options decides it
	_ = slog.RegisterLevel(slog.Level(42), "c03a", slog.RegWithPrintToErrorDevice(), slog.RegWithTreatedAsLevel(slog.InfoLevel))
	_ = slog.RegisterLevel(slog.Level(43), "c03b", slog.RegWithTreatedAsLevel(slog.ErrorLevel))
	_ = slog.RegisterLevel(slog.Level(44), "c03c", slog.RegWithTreatedAsLevel(slog.InfoLevel), slog.RegWithPrintToErrorDevice())
	_ = slog.RegisterLevel(slog.Level(45), "c03d", slog.RegWithTreatedAsLevel(slog.WarnLevel), slog.RegWithPrintToErrorDevice(false))
	// the switch given several values: the last one counts
	_ = slog.RegisterLevel(slog.Level(46), "c03e", slog.RegWithPrintToErrorDevice(false, true))
	_ = slog.RegisterLevel(slog.Level(47), "c03f", slog.RegWithPrintToErrorDevice(true, false), slog.RegWithTreatedAsLevel(slog.InfoLevel))
	slog.SetFlags(slog.GetFlags() &^ slog.Lcaller)
	ctx := context.Background()
	size := func(f *os.File) int64 {
		st, e := f.Stat()
		must(e)
		return st.Size()
	}
	n := 400
	if r.tier == "thorough" {
		n = 6000
	}
	probes := []int{4, 2, 3, 5, 40, 41, 9, 11, 8, 0, 7, 42, 43, 44, 45, -8, -3, 46, 47}
	lvls := []int{4, 2, 5, 41, 40, 42, 43}
	for h := 0; h < n; h++ {
		log := &evLog{}
		pool, settable := writerPool(log)
		pool = append(pool, fileW) // writer 7: a bare *os.File (a log file): observed through its growth
		length := g.intn(13)
		if h < 12 {
			length = h % 3
		}
		ops := make([]c03Op, length)
		for i := range ops {
			ops[i] = c03Op{name: c03OpNames[g.intn(len(c03OpNames))], lvl: lvls[g.intn(len(lvls))], w: g.intn(8)}
			if g.chance(1, 3) && i > 0 { // bias towards touching earlier writers again (remove after add, duplicates)
				ops[i].w = ops[g.intn(i)].w
				ops[i].lvl = ops[g.intn(i)].lvl
			}
		}
		if h%6 == 5 {
			// a per-level list that is filled and emptied again by Remove (then the class writers apply again),
			// at a random place of the history
			lv, w := lvls[g.intn(len(lvls))], 1+g.intn(7)
			at := g.intn(len(ops) + 1)
			pair := []c03Op{{name: "addLevelWriter", lvl: lv, w: w}, {name: "removeLevelWriter", lvl: lv, w: w}}
			ops = append(ops[:at:at], append(pair, ops[at:]...)...)
		}
		r.emit("C03 reset 8", "ok")
		r.emit("C03 regerr 41", "ok")
		r.emit("C03 regerr 42", "ok")
		r.emit("C03 regerr 44", "ok")
		r.emit("C03 regerr 46", "ok")
		st := []string{"C03", "settable"}
		for _, s := range settable {
			st = append(st, fmt.Sprint(s))
		}
		r.emit(strings.Join(st, " "), "ok")
		// a prefix of the history as New(...) options
		k := 0
		var opts []any
		opts = append(opts, fmt.Sprintf("c03-%d", h))
		if g.chance(1, 2) {
			for k < len(ops) {
				o, ok := c03Opt(ops[k], pool)
				if !ok {
					break
				}
				opts = append(opts, o)
				k++
			}
		}
		var l slog.Logger
		panicked := ""
		func() {
			defer func() {
				if rec := recover(); rec != nil {
					panicked = fmt.Sprint(rec)
				}
			}()
			l = slog.New(opts...)
			l.SetColorMode(false)
			l.SetLevel(slog.AlwaysLevel)
			for _, o := range ops[k:] {
				c03Apply(l, o, pool)
			}
		}()
		var hist []string
		for _, o := range ops {
			r.emit("C03 "+o.proto(), "ok")
			hist = append(hist, strings.TrimPrefix(o.proto(), "op "))
		}
		if panicked != "" {
			r.violate(violation{What: "a writer-configuring call panicked", Input: map[string]any{"history": hist, "as_options": k}, Actual: panicked})
			continue
		}
		// reference configuration, from the statement
		normal, errs := []int{1000}, []int{1001}
		leveled := map[int][]int{}
		erase := func(xs []int, w int) []int {
			for i, x := range xs {
				if x == w {
					return append(append([]int{}, xs[:i]...), xs[i+1:]...)
				}
			}
			return xs
		}
		for _, o := range ops {
			switch o.name {
			case "setWriter":
				if o.w != 0 {
					normal = []int{o.w}
				}
			case "addWriter":
				if o.w != 0 {
					normal = append(append([]int{}, normal...), o.w)
				}
			case "removeWriter":
				normal = erase(normal, o.w)
			case "setErrorWriter":
				if o.w != 0 {
					errs = []int{o.w}
				}
			case "addErrorWriter":
				if o.w != 0 {
					errs = append(append([]int{}, errs...), o.w)
				}
			case "removeErrorWriter":
				errs = erase(errs, o.w)
			case "addLevelWriter":
				if o.w != 0 {
					leveled[o.lvl] = append(append([]int{}, leveled[o.lvl]...), o.w)
				}
			case "removeLevelWriter":
				leveled[o.lvl] = erase(leveled[o.lvl], o.w)
			case "resetLevelWriter":
				delete(leveled, o.lvl)
			case "resetLevelWriters":
				leveled = map[int][]int{}
			case "resetWriters":
				normal, errs, leveled = []int{1000}, []int{1001}, map[int][]int{}
			}
		}
		errClass := map[int]bool{0: true, 1: true, 2: true, 3: true, 11: true, 41: true, 42: true, 44: true, 46: true}
		isSettable := map[int]bool{3: true, 4: true, 6: true}
		// besides one record per severity class: blank Println() calls (severity Always, delivered as a single line
		// feed) on a logger whose own threshold is an error-class level or a level with leveled writers — the routing
		// is by the record's severity, never by the logger's threshold
		type c03probe struct{ sev, blankAt int }
		var plist []c03probe
		for _, sev := range probes {
			plist = append(plist, c03probe{sev, -1})
		}
		plist = append(plist, c03probe{8, 3}, c03probe{8, 2}, c03probe{8, 5})
		for lv := range leveled {
			if lv >= 0 && lv <= 9 && lv != 7 {
				plist = append(plist, c03probe{8, lv})
				break
			}
		}
		for _, pv := range plist {
			sev := pv.sev
			log.take()
			o0, e0, f0 := size(outF), size(errF), size(fileW)
			if pv.blankAt >= 0 {
				l.SetLevel(slog.Level(pv.blankAt))
				if h%2 == 0 {
					l.Println()
				} else {
					l.Print(" \t\n")
				}
				l.SetLevel(slog.AlwaysLevel)
			} else {
				l.Logit(ctx, slog.Level(sev), "probe")
			}
			evs := log.take()
			var tells []string
			var writes []int
			for _, e := range evs {
				if e.tell {
					tells = append(tells, fmt.Sprintf("t%d=%d", e.id, e.sev))
				} else {
					writes = append(writes, e.id)
				}
			}
			if size(outF) > o0 {
				writes = append(writes, 1000)
			}
			if size(errF) > e0 {
				writes = append(writes, 1001)
			}
			if f1 := size(fileW); f1 > f0 {
				buf := make([]byte, f1-f0)
				_, _ = fileW.ReadAt(buf, f0)
				for i := 0; i < bytes.Count(buf, []byte{'\n'}); i++ { // one line per Write of this one-line record
					writes = append(writes, 7)
				}
			}
			sort.Ints(writes)
			parts := append([]string{}, tells...)
			for _, w := range writes {
				parts = append(parts, fmt.Sprintf("w%d=1", w))
			}
			obs := strings.Join(parts, ",")
			if obs == "" {
				obs = "-"
			}
			r.emit(fmt.Sprintf("C03 probe %d", sev), obs)
			// oracle
			var want []int
			switch {
			case sev == 7:
			case len(leveled[sev]) > 0:
				want = leveled[sev]
			case errClass[sev]:
				want = errs
			default:
				want = normal
			}
			var wp []string
			for _, w := range want {
				if isSettable[w] {
					wp = append(wp, fmt.Sprintf("t%d=%d", w, sev))
				}
			}
			ws := append([]int{}, want...)
			sort.Ints(ws)
			for _, w := range ws {
				wp = append(wp, fmt.Sprintf("w%d=1", w))
			}
			wantObs := strings.Join(wp, ",")
			if wantObs == "" {
				wantObs = "-"
			}
			r.count(fmt.Sprintf("route=%s", map[bool]string{true: "leveled", false: map[bool]string{true: "error", false: "normal"}[errClass[sev]]}[len(leveled[sev]) > 0]))
			if obs != wantObs {
				r.violate(violation{What: "destinations of a record differ from the documented routing / configuration",
					Input: map[string]any{"history": hist, "first_k_as_New_options": k, "probe_severity": sev, "blank_Println_on_a_logger_with_threshold": pv.blankAt}, Expected: wantObs, Actual: obs})
			}
		}
		key := ""
		if len(hist) > 0 {
			key = strings.Join(hist, ";")
		}
		r.seen(key)
		if h < 5 {
			r.sample(map[string]any{"history": hist, "as_options": k})
		}
	}
	slog.VerifResetGlobals()
	// destination lists handed from logger to logger (GetWriter / GetWriterBy -> Set…), then Add / Remove on either side: the
	// configuration of each logger is what its own sequence of calls denotes
	c10WriterIsolation(r, &rng{s: r.seed*7919 + 3})
	overlapDelivery(r.violate)
	flakyNeighbour(r.violate)
	customErrorDevices(r.violate)
	lateErrorDeviceLevels(r.violate)
	discardPlusLevelWriter(r.violate)
	returnedListIsACopy(r.violate)
}
