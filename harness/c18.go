package main

// C18 — path hardening. Histories of Add/Remove/Reset of prefix and regexp mappings (Go picks
// the iteration order of the table; every table is queried repeatedly), both privacy flags on and
// off, absolute / relative / boundary paths; plus the caller field of real records around
// SaveFlagsAndMod scopes.

import (
	"bytes"
	"context"
	"fmt"
	"os"
	"path/filepath"
	"regexp"
	"runtime"
	"sort"
	"strings"

	"github.com/hedzr/logg/slog"
)

func init() { props["C18"] = runC18 }

type c18Rule struct {
	lit  bool
	pat  string // literal pattern (registered through regexp.QuoteMeta) or the builtin expression
	repl string
}

const c18VolExpr = `/Volumes/[^/]+/`

func runC18(r *run) {
	g := &rng{s: r.seed*122949829 + 18}
	r.rule = "histories of mapping-table operations, each followed by queries (each asked 8 times so that several map iteration orders are seen) over absolute/relative/boundary paths with the two privacy flags on and off; distinct = distinct (table shape, flags, path class); non-trivial = queries whose path lies under some mapping or matches a regexp rule"
	nh := 60
	if r.tier == "thorough" {
		nh = 800
	}
	home, cwd0 := slog.VerifHomeCwd()
	wd, _ := os.Getwd()
	// (the last two are not absolute: the directory of a build made with -trimpath, a root-relative tree)
	keysGood := []string{"/opt/secret-corp", "/root/proj", "/srv/x y", "/data", "/data/deep/er", home + "/work", "/srv/build/acme/", "/mnt/vol/", "github.com/acme/secret-customer", "build/out"}
	replGood := []string{"~", ".", "$REPO", "S", "~w"}
	base := slog.LstdFlags &^ (slog.Lprivacypath | slog.Lprivacypathregexp | slog.Lcaller)
	ctx := context.Background()
	rec := &recorder{}
	wd0 := wd
	altDir, err := os.MkdirTemp("", "c18alt")
	must(err)
	defer os.RemoveAll(altDir)
	defer os.Chdir(wd0)
	for h := 0; h < nh; h++ {
		// the working directory is read when a path is looked at, not remembered from the start of the process
		wd = wd0
		must(os.Chdir(wd0))
		if h%5 == 4 {
			must(os.Chdir(altDir))
			wd, _ = os.Getwd()
		}
		if h%5 == 2 {
			// a working directory that is an ancestor of the protected directories (a daemon started in /, or in the
			// parent of the home directory): the relative name of a protected file still spells the protected directory out
			dir := "/"
			if h%10 == 7 && home != "" {
				dir = filepath.Dir(home)
			}
			must(os.Chdir(dir))
			wd, _ = os.Getwd()
		}
		slog.VerifResetGlobals()
		rules := []c18Rule{{false, c18VolExpr, "~"}}
		homeRemoved := false
		goodTable := true
		mine := map[string]string{} // the mappings registered by this history, as the harness knows them (not read back from the library)
		nOps := g.intn(8)
		var hist []string
		if h == 0 { // the witness of the known finding C18-home-mapping-removed
			slog.RemoveKnownPathMapping(home)
			homeRemoved = true
			hist = append(hist, "RemoveKnownPathMapping(home)")
			nOps = 0
		}
		if h%4 == 1 {
			// nested prefixes, and the outer one removed again: the inner mapping stays in force
			inner, outer := "/data/deep/er", "/data"
			if g.chance(1, 2) {
				slog.AddKnownPathMapping(outer, "~o")
				slog.AddKnownPathMapping(inner, "~i")
				mine[outer], mine[inner] = "~o", "~i"
				hist = append(hist, `Add("/data","~o")`, `Add("/data/deep/er","~i")`)
			} else {
				slog.AddKnownPathMapping(inner, "~i")
				slog.AddKnownPathMapping(outer, "~o")
				mine[outer], mine[inner] = "~o", "~i"
				hist = append(hist, `Add("/data/deep/er","~i")`, `Add("/data","~o")`)
			}
			if g.chance(2, 3) {
				slog.RemoveKnownPathMapping(outer)
				delete(mine, outer)
				hist = append(hist, `Remove("/data")`)
			}
		}
		for i := 0; i < nOps; i++ {
			switch g.intn(9) {
			case 0, 1, 2:
				k, v := keysGood[g.intn(len(keysGood))], replGood[g.intn(len(replGood))]
				slog.AddKnownPathMapping(k, v)
				mine[k] = v
				hist = append(hist, fmt.Sprintf("Add(%q,%q)", k, v))
			case 3:
				k := keysGood[g.intn(len(keysGood))]
				slog.RemoveKnownPathMapping(k)
				delete(mine, k)
				hist = append(hist, fmt.Sprintf("Remove(%q)", k))
			case 4:
				slog.ResetKnownPathMapping()
				mine = map[string]string{}
				homeRemoved = false
				hist = append(hist, "Reset()")
			case 5:
				if g.chance(1, 3) {
					// a table outside the hypotheses: absolute replacements that chain
					slog.AddKnownPathMapping("/a", "/t")
					slog.AddKnownPathMapping("/t", "/a")
					goodTable = false
					hist = append(hist, `Add("/a","/t");Add("/t","/a")`)
				} else if g.chance(1, 4) {
					slog.RemoveKnownPathMapping(home)
					homeRemoved = true
					hist = append(hist, "RemoveKnownPathMapping(home)")
				}
			case 6:
				p, rp := []string{"/vendor/", "/node_modules/", "/internal"}[g.intn(3)], []string{"/v/", "/n/", "/i"}[g.intn(3)]
				slog.AddKnownPathRegexpMapping(regexp.QuoteMeta(p), rp)
				rules = append(rules, c18Rule{true, p, rp})
				hist = append(hist, fmt.Sprintf("AddRegexp(%q,%q)", p, rp))
			case 7:
				if len(rules) > 0 && g.chance(1, 2) {
					j := g.intn(len(rules))
					expr := rules[j].pat
					if rules[j].lit {
						expr = regexp.QuoteMeta(expr)
					}
					slog.RemoveKnownPathRegexpMapping(expr)
					// removes the first rule with that expression
					for x := range rules {
						e2 := rules[x].pat
						if rules[x].lit {
							e2 = regexp.QuoteMeta(e2)
						}
						if e2 == expr {
							rules = append(rules[:x], rules[x+1:]...)
							break
						}
					}
					hist = append(hist, fmt.Sprintf("RemoveRegexp(%q)", expr))
				}
			default:
				if g.chance(1, 4) {
					slog.ResetKnownPathRegexpMapping()
					rules = nil
					hist = append(hist, "ResetRegexp()")
				}
			}
		}
		tbl := slog.VerifKnownPathMap()
		var tkeys []string
		for k := range tbl {
			tkeys = append(tkeys, k)
		}
		sort.Strings(tkeys)
		var tparts []string
		for _, k := range tkeys {
			tparts = append(tparts, hxs(k)+":"+hxs(tbl[k]))
		}
		var rparts []string
		for _, ru := range rules {
			if ru.lit {
				rparts = append(rparts, "lit:"+hxs(ru.pat)+":"+hxs(ru.repl))
			} else {
				rparts = append(rparts, "vol:"+hxs(ru.repl))
			}
		}
		paths := []string{home + "/proj/a.go", home, cwd0 + "/x/y.go", wd + "/harness/c18.go", "/opt/secret-corp/monorepo/svc/vendor/lib/y.go",
			"/root/proj/vendor/x.go", "/data/deep/er/f.go", "/data/f.go", "/srv/x y/z.go", "/Volumes/ext/src/a.go", "/Volumes", "/Volumes/",
			"/Volumes/x", "/VolumesBackup/2024/src/a.go", "/usr/lib/go/src/runtime/proc.go", "relative/path.go", "", "/a/x", "/t/x", "/", "github.com/acme/secret-customer/svc/main.go", "github.com/acme/other/x.go", "build/out/gen/a.go",
			home + "/work/internal/a.go", "/tmp/node_modules/z.js", "/srv/build/acme/svc/main.go", "/mnt/vol/a.go", "/mnt/volume/a.go",
			filepath.Dir(wd0) + "/c18-sibling/gen/a.go", wd0 + "/harness/c18.go", altDir + "/sub/b.go"}
		for _, fl := range []slog.Flags{slog.Lprivacypath | slog.Lprivacypathregexp, slog.Lprivacypath, 0, slog.Lprivacypathregexp} {
			slog.SetFlags(base | fl)
			if g.chance(1, 2) {
				// a scope with the privacy flags inverted, entered and left again; every path is looked at
				// inside it: what was seen there must not stick
				priv := slog.Lprivacypath | slog.Lprivacypathregexp
				restore := slog.SaveFlagsAndMod(^fl&priv, fl&priv)
				for _, p := range paths {
					func() {
						defer func() { _ = recover() }()
						_ = slog.Safety(p)
					}()
				}
				restore()
			}
			for _, p := range paths {
				if r.tier == "quick" && g.chance(1, 2) {
					continue
				}
				got := map[string]bool{}
				panicked := ""
				for rep := 0; rep < 8; rep++ {
					func() {
						defer func() {
							if rec := recover(); rec != nil {
								panicked = fmt.Sprint(rec)
							}
						}()
						got[slog.Safety(p)] = true
					}()
				}
				var gl []string
				for s := range got {
					gl = append(gl, hxs(s))
				}
				sort.Strings(gl)
				rel := "-"
				if rp, err := filepath.Rel(wd, p); err == nil {
					rel = hxs(rp)
				}
				input := map[string]any{"history": hist, "table": fmt.Sprint(tbl), "regexp_rules": fmt.Sprint(rules), "privacy_flags": int64(fl), "path": p}
				if panicked != "" {
					r.violate(violation{What: "Safety() panicked", Input: input, Actual: panicked})
					r.emit(fmt.Sprintf("C18 q %d t=%s r=%s rel=%s f=%s got=%s", int64(base|fl), strings.Join(tparts, ","), strings.Join(rparts, ";"), rel, hxs(p), "x70616e6963"), "ok")
					continue
				}
				r.emit(fmt.Sprintf("C18 q %d t=%s r=%s rel=%s f=%s got=%s", int64(base|fl), strings.Join(tparts, ","), strings.Join(rparts, ";"), rel, hxs(p), strings.Join(gl, ",")), "ok")
				// oracle from the statement
				under := ""
				for k := range tbl {
					if k != "" && strings.HasPrefix(p, k) && len(k) > len(under) {
						under = k
					}
				}
				underHome := home != "" && strings.HasPrefix(p, home)
				matchesRule := false
				for _, ru := range rules {
					if ru.lit && strings.Contains(p, ru.pat) || !ru.lit && regexp.MustCompile(c18VolExpr).MatchString(p) {
						matchesRule = true
					}
				}
				class := "outside"
				if under != "" || underHome {
					class = "under-mapping"
				} else if matchesRule {
					class = "regexp-only"
				}
				key := ""
				if class != "outside" {
					key = fmt.Sprintf("%d|%d|%d|%s", len(tbl), len(rules), fl, p)
				}
				r.seen(key)
				r.count("path=" + class)
				if fl&slog.Lprivacypath != 0 && goodTable {
					for s := range got {
						for k := range mine {
							if k != "" && strings.HasPrefix(p, k) && strings.HasPrefix(s, k) {
								r.violate(violation{What: "a path under a registered mapping is reported with that directory prefix", Input: input, Actual: s})
							}
						}
						// the same prefixes spelled relative to the working directory of the moment
						for k := range mine {
							if rk, err := filepath.Rel(wd, k); err == nil && filepath.IsAbs(k) && rk != "." && !strings.HasPrefix(rk, "..") && strings.HasPrefix(p, k+"/") && strings.HasPrefix(s, rk+"/") {
								r.violate(violation{What: "a path under a registered mapping is reported with that directory prefix (spelled relative to the working directory)", Input: input, Actual: s})
							}
						}
						if rh, err := filepath.Rel(wd, home); err == nil && underHome && !homeRemoved && rh != "." && !strings.HasPrefix(rh, "..") && strings.HasPrefix(p, home+"/") && strings.HasPrefix(s, rh+"/") {
							r.violate(violation{What: "a path under the home directory is reported with the home prefix (spelled relative to the working directory) although the privacy flag is on", Input: input, Actual: s})
						}
						if underHome && strings.HasPrefix(s, home) {
							v := violation{What: "a path under the home directory is reported with the home prefix although the privacy flag is on", Input: input, Actual: s}
							if homeRemoved {
								v.Finding = "C18-home-mapping-removed"
							}
							r.violate(v)
						}
					}
				}
				if class == "outside" || fl&slog.Lprivacypath == 0 {
					relS := ""
					if rel != "-" {
						relS, _ = filepath.Rel(wd, p)
					}
					for s := range got {
						volShort := fl&slog.Lprivacypath != 0 && fl&slog.Lprivacypathregexp == 0 && strings.HasPrefix(p, "/Volumes/")
						if s != p && !(s == relS && len(relS) < len(p)) && !volShort {
							r.violate(violation{What: "a path outside all mappings is neither unchanged nor its shorter relative form", Input: input, Actual: s})
						}
					}
				}
				if h < 2 && p == paths[0] {
					r.sample(map[string]any{"query": input, "answers": fmt.Sprint(got)})
				}
			}
		}
		// the caller field of real records follows the flags of the moment, also around SaveFlagsAndMod scopes
		l := slog.New(fmt.Sprintf("c18-%d", h)).SetWriter(rec).SetErrorWriter(rec).SetColorMode(false).SetLevel(slog.InfoLevel)
		emit := func() string { // one stable call site
			rec.take()
			l.InfoContext(ctx, "caller-probe")
			w := rec.take()
			if len(w) != 1 {
				return "<no record>"
			}
			i := bytes.Index(w[0], []byte(`caller.file="`))
			if i < 0 {
				return "<no caller>"
			}
			rest := w[0][i+13:]
			return string(rest[:bytes.IndexByte(rest, '"')])
		}
		_, thisFile, _, _ := runtime.Caller(0)
		check := func(stage string) {
			got := emit()
			want := slog.Safety(thisFile)
			if got != want {
				r.violate(violation{What: "the caller field is not hardened like Safety() under the current flags", Input: map[string]any{"history": hist, "stage": stage, "flags": int64(slog.GetFlags())}, Expected: want, Actual: got})
			}
		}
		// flags the property does not mention must not matter for the hardening of the caller field
		other := []slog.Flags{0, slog.Llineno, slog.Lcallerpackagename, slog.Lattrs, slog.Ldate, slog.LattrsR}[g.intn(6)]
		base2 := (base &^ (slog.Llineno | slog.Lattrs)) | other
		slog.SetFlags(base2 | slog.Lcaller | slog.Lprivacypath)
		check("privacy on")
		restore := slog.SaveFlagsAndMod(0, slog.Lprivacypath)
		check("inside a scope with privacy off")
		restore()
		check("after the scope restored the flags")
		slog.RemoveFlags(slog.Lprivacypath)
		check("privacy off")
		slog.AddFlags(slog.Lprivacypath)
		// a record whose caller cannot be resolved (skip count beyond the stack), right after a record that showed the raw
		// path: whatever its caller field says, it is not a path that the flag, now on, would have hardened
		deep := l.WithSkip(1000).SetWriter(rec).SetErrorWriter(rec).SetColorMode(false).SetLevel(slog.InfoLevel)
		rec.take()
		deep.InfoContext(ctx, "caller-probe without a resolvable caller")
		if w := rec.take(); len(w) == 1 {
			got := "<no caller>"
			if i := bytes.Index(w[0], []byte(`caller.file="`)); i >= 0 {
				rest := w[0][i+13:]
				got = string(rest[:bytes.IndexByte(rest, '"')])
			}
			r.seen("unresolvable-caller|" + fmt.Sprint(got == ""))
			if got != "<no caller>" && got != slog.Safety(got) {
				r.violate(violation{What: "the caller field of a record without a resolvable caller shows a path the privacy flag should have hardened (left over from an earlier record)",
					Input: map[string]any{"history": hist, "stage": "privacy on again, skip count beyond the stack", "flags": int64(slog.GetFlags())}, Expected: slog.Safety(got), Actual: got})
			}
		}
		check("privacy on again")
	}
	slog.VerifResetGlobals()
	// a process whose first calls register its mappings, before any path was looked at (production and go-test flavour)
	envProbe(r, false, "paths")
	envProbe(r, true, "paths")
}
