// Command harness drives the real hedzr/logg code (built from /repo's working tree with
// -tags verif) for the correspondence checks of /verif. For one property it generates a
// seeded stream of operations, executes them in-process, and writes
//
//	ops.txt     one operation per line (the same lines are fed to the Lean driver)
//	impl.txt    one canonical observation per line, produced by the implementation
//	oracle.jsonl  property violations found by the independent Go oracle (concrete inputs)
//	stats.json  what was covered (counts, histogram, samples)
package main

import (
	"bufio"
	"encoding/hex"
	"encoding/json"
	"fmt"
	"os"
	"os/exec"
	"path/filepath"
	"sort"
	"strings"
	"sync"
)

// rng is the single PRNG every random choice derives from (splitmix64).
type rng struct{ s uint64 }

func (r *rng) next() uint64 {
	r.s += 0x9e3779b97f4a7c15
	z := r.s
	z = (z ^ (z >> 30)) * 0xbf58476d1ce4e5b9
	z = (z ^ (z >> 27)) * 0x94d049bb133111eb
	return z ^ (z >> 31)
}
func (r *rng) intn(n int) int {
	if n <= 0 {
		return 0
	}
	return int(r.next() % uint64(n))
}
func (r *rng) chance(num, den int) bool { return r.intn(den) < num }
func (r *rng) pick(xs []string) string  { return xs[r.intn(len(xs))] }

type violation struct {
	Property string `json:"property"`
	What     string `json:"what"`
	Input    any    `json:"input"`
	Expected any    `json:"expected,omitempty"`
	Actual   any    `json:"actual,omitempty"`
	Finding  string `json:"known_finding,omitempty"` // id of the known finding this witness belongs to
}

type run struct {
	prop       string
	seed       uint64
	tier       string
	dir        string
	ops        *bufio.Writer
	impl       *bufio.Writer
	opsF       *os.File
	implF      *os.File
	nOps       int
	lastOp     string
	violations []violation
	hist       map[string]int
	distinct   map[string]struct{}
	samples    []any
	evals      int
	rule       string
	extra      map[string]any
	mu         sync.Mutex
}

func newRun(prop string, seed uint64, tier, dir string) *run {
	must(os.MkdirAll(dir, 0o755))
	of, err := os.Create(filepath.Join(dir, "ops.txt"))
	must(err)
	inf, err := os.Create(filepath.Join(dir, "impl.txt"))
	must(err)
	return &run{prop: prop, seed: seed, tier: tier, dir: dir, opsF: of, implF: inf,
		ops: bufio.NewWriterSize(of, 1<<20), impl: bufio.NewWriterSize(inf, 1<<20),
		hist: map[string]int{}, distinct: map[string]struct{}{}, extra: map[string]any{}}
}

func must(err error) {
	if err != nil {
		fmt.Fprintln(os.Stderr, "harness:", err)
		os.Exit(3)
	}
}

// emit records one protocol line and the implementation's observation for it.
func (r *run) emit(op, obs string) {
	if strings.ContainsAny(op, "\n\r") || strings.ContainsAny(obs, "\n\r") {
		panic("protocol line contains a line break: " + op + " / " + obs)
	}
	r.ops.WriteString(op)
	r.ops.WriteByte('\n')
	r.impl.WriteString(obs)
	r.impl.WriteByte('\n')
	r.nOps++
	r.lastOp = op
}

func (r *run) count(kind string) { r.hist[kind]++ }

// seen registers a case; key identifies distinct non-trivial cases (empty = trivial).
func (r *run) seen(key string) {
	r.evals++
	if key != "" {
		r.distinct[key] = struct{}{}
	}
}

func (r *run) sample(x any) {
	if len(r.samples) < 8 {
		r.samples = append(r.samples, x)
	}
}

func (r *run) violate(v violation) {
	v.Property = r.prop
	if len(r.violations) < 50 {
		r.violations = append(r.violations, v)
	}
}

func (r *run) finish() {
	must(r.ops.Flush())
	must(r.impl.Flush())
	r.opsF.Close()
	r.implF.Close()
	f, err := os.Create(filepath.Join(r.dir, "oracle.jsonl"))
	must(err)
	enc := json.NewEncoder(f)
	for _, v := range r.violations {
		must(enc.Encode(v))
	}
	f.Close()
	keys := make([]string, 0, len(r.hist))
	for k := range r.hist {
		keys = append(keys, k)
	}
	sort.Strings(keys)
	stats := map[string]any{
		"property": r.prop, "seed": r.seed, "tier": r.tier, "protocol_lines": r.nOps,
		"evaluations": r.evals, "distinct_nontrivial": len(r.distinct), "rule": r.rule,
		"histogram": r.hist, "samples": r.samples, "oracle_violations": len(r.violations),
	}
	for k, v := range r.extra {
		stats[k] = v
	}
	data, _ := json.MarshalIndent(stats, "", " ")
	must(os.WriteFile(filepath.Join(r.dir, "stats.json"), data, 0o644))
}

func hx(b []byte) string  { return "x" + hex.EncodeToString(b) }
func hxs(s string) string { return "x" + hex.EncodeToString([]byte(s)) }
func b01(b bool) string {
	if b {
		return "1"
	}
	return "0"
}

// recorder is a mutex-protected recording writer that counts Write calls.
type recorder struct {
	mu     sync.Mutex
	writes [][]byte
	name   string
}

func (r *recorder) Write(p []byte) (int, error) {
	r.mu.Lock()
	r.writes = append(r.writes, append([]byte(nil), p...))
	r.mu.Unlock()
	return len(p), nil
}
func (r *recorder) take() [][]byte {
	r.mu.Lock()
	w := r.writes
	r.writes = nil
	r.mu.Unlock()
	return w
}

// mergeChild runs another build / mode of this harness and merges what it reports on stdout
// (OP / SEEN / VIOL / COUNT lines) into the run.
func (r *run) mergeChild(cmd *exec.Cmd) error {
	cmd.Stderr = os.Stderr
	out, err := cmd.StdoutPipe()
	if err != nil {
		return err
	}
	if err := cmd.Start(); err != nil {
		return err
	}
	sc := bufio.NewScanner(out)
	sc.Buffer(make([]byte, 1<<20), 1<<26)
	for sc.Scan() {
		line := sc.Text()
		switch {
		case strings.HasPrefix(line, "OP\t"):
			p := strings.SplitN(line, "\t", 3)
			if len(p) == 3 {
				r.emit(p[1], p[2])
			}
		case strings.HasPrefix(line, "SEEN\t"):
			r.seen(line[5:])
		case strings.HasPrefix(line, "COUNT\t"):
			r.count(line[6:])
		case strings.HasPrefix(line, "VIOL\t"):
			var v violation
			if json.Unmarshal([]byte(line[5:]), &v) == nil {
				r.violate(v)
			}
		}
	}
	return cmd.Wait()
}

// reportAsChild prints what an oracle-only child run collected, in the format mergeChild reads.
func (r *run) reportAsChild() {
	w := bufio.NewWriter(os.Stdout)
	defer w.Flush()
	for _, v := range r.violations {
		b, _ := json.Marshal(v)
		fmt.Fprintf(w, "VIOL\t%s\n", b)
	}
	for k := range r.distinct {
		fmt.Fprintf(w, "SEEN\t%s\n", k)
	}
	for k, n := range r.hist {
		for i := 0; i < n && i < 3; i++ {
			fmt.Fprintf(w, "COUNT\t%s\n", k)
		}
	}
}
