package main

// C13 — failing destinations. Enumerated failure schedules: for configurations with 1..3
// normal, error and per-level writers, every severity class and several logger levels, all
// 2^k assignments of fail/succeed to the k write attempts of a call (k <= 6, the attempts of the
// record and of its possible diagnostic), followed by a fault-free call (recovery).

import (
	"bytes"
	"context"
	"errors"
	"fmt"
	"sort"
	"strings"
	"time"

	"github.com/hedzr/logg/slog"
)

func init() { props["C13"] = runC13 }

func c13Obs(evs []wev, userMsg string) (string, []string) {
	var recs [][]string
	var cur []string
	sawWrite := false
	var problems []string
	var firstPayload []byte
	for _, e := range evs {
		if e.tell {
			if sawWrite {
				recs = append(recs, cur)
				cur, sawWrite = nil, false
			}
			cur = append(cur, fmt.Sprintf("t%d=%d", e.id, e.sev))
			continue
		}
		// a write belonging to the diagnostic starts a new record too (no tell needed)
		isDiag := bytes.Contains(e.payload, []byte("slog print log failed"))
		if sawWrite && isDiag && firstPayload != nil && !bytes.Contains(firstPayload, []byte("slog print log failed")) && len(recs) == 0 {
			recs = append(recs, cur)
			cur = nil
		}
		if len(recs) == 0 {
			if firstPayload == nil {
				firstPayload = e.payload
			} else if !bytes.Equal(firstPayload, e.payload) {
				problems = append(problems, fmt.Sprintf("destination %d received a different payload than its sibling", e.id))
			}
			if !bytes.Contains(e.payload, []byte(userMsg)) || !bytes.HasSuffix(e.payload, []byte("\n")) {
				problems = append(problems, fmt.Sprintf("destination %d did not receive the complete record: %q", e.id, e.payload))
			}
		}
		sawWrite = true
		cur = append(cur, fmt.Sprintf("w%d=%s", e.id, b01(e.ok)))
	}
	if cur != nil {
		recs = append(recs, cur)
	}
	if len(recs) == 0 {
		return "-", problems
	}
	var parts []string
	for _, r := range recs {
		parts = append(parts, strings.Join(r, ","))
	}
	return strings.Join(parts, "|"), problems
}

// c13Chunky takes only a part of what it is given on its first call of a record and reports no error (a chunked or
// buffering device); it records what it was handed.
type c13Chunky struct {
	got   [][]byte
	short bool
}

func (c *c13Chunky) Write(p []byte) (int, error) {
	c.got = append(c.got, append([]byte(nil), p...))
	if c.short && len(p) > 4 {
		return len(p) / 2, nil
	}
	return len(p), nil
}

// c13ShortCounts: whatever count a destination reports, every other destination of the list is handed the whole record.
func c13ShortCounts(r *run) {
	for round := 0; round < 6; round++ {
		first, mid, last := &c13Chunky{short: round%3 == 0}, &c13Chunky{short: round%3 == 1}, &c13Chunky{short: round%3 == 2}
		l := slog.New(fmt.Sprintf("c13chunky-%d", round)).SetLevel(slog.InfoLevel)
		if round < 3 {
			l.SetColorMode(false)
		} else {
			l.SetJSONMode(true)
		}
		l.SetWriter(first)
		l.AddWriter(mid)
		l.AddWriter(last)
		l.SetErrorWriter(&c13Chunky{})
		msg := fmt.Sprintf("a record for three destinations, round %d", round)
		l.Info(msg, "k", round)
		r.seen(fmt.Sprintf("short-count|%d", round))
		for name, d := range map[string]*c13Chunky{"first": first, "second": mid, "third": last} {
			if d.short {
				continue // what a destination that reports a short count is handed next is its own business
			}
			if len(d.got) != 1 || !bytes.Contains(d.got[0], []byte(msg)) || !bytes.HasSuffix(d.got[0], []byte("\n")) || bytes.IndexByte(d.got[0], 't') < 0 || !(d.got[0][0] == '{' || bytes.HasPrefix(d.got[0], []byte("time="))) {
				r.violate(violation{What: "a destination did not receive the complete record in one Write while a sibling reported a short count without an error",
					Input:  map[string]any{"destination": name, "short_counting_destination": []string{"first", "second", "third"}[round%3], "format": map[bool]string{true: "logfmt", false: "json"}[round < 3]},
					Actual: fmt.Sprintf("%q", d.got)})
			}
		}
	}
}

// c13FailOnce fails its n-th Write (1-based) and works otherwise.
type c13FailOnce struct {
	n, calls int
	got      [][]byte
}

func (c *c13FailOnce) Write(p []byte) (int, error) {
	c.calls++
	if c.calls == c.n {
		return 0, errors.New("device is down")
	}
	c.got = append(c.got, append([]byte(nil), p...))
	return len(p), nil
}

// c13KeptList: an adapter of the application's own forwards records through WriteThru with an attribute list it keeps and
// passes again. A destination that fails for one record leaves nothing behind: the list is still the caller's, and the
// records after the failure carry exactly its attributes.
func c13KeptList(r *run) {
	for round := 0; round < 6; round++ {
		flaky, healthy, errDev := &c13FailOnce{n: 2}, &c13FailOnce{}, &c13FailOnce{}
		l := slog.New(fmt.Sprintf("c13kept-%d", round)).SetLevel(slog.InfoLevel).SetColorMode(false)
		if round%2 == 1 {
			l.SetJSONMode(true)
		}
		l.SetWriter(flaky)
		l.AddWriter(healthy)
		l.SetErrorWriter(errDev)
		kept := make(slog.Attrs, 0, 8)
		kept = append(kept, slog.NewAttr("shard", 7), slog.NewAttr("zone", "eu"))
		var thru slog.LogSlogAware = l
		for k := 1; k <= 3; k++ {
			thru.WriteThru(context.Background(), slog.InfoLevel, time.Unix(int64(1700000000+k), 0), 0, fmt.Sprintf("forwarded-%d", k), kept)
		}
		r.seen(fmt.Sprintf("kept-list|%d", round))
		ok := len(kept) == 2 && kept[0] != nil && kept[1] != nil && kept[0].Key() == "shard" && kept[1].Key() == "zone"
		third := ""
		if len(healthy.got) == 3 {
			third = string(healthy.got[2])
		}
		if !ok || !strings.Contains(third, "shard") || !strings.Contains(third, "zone") || strings.Contains(third, "device is down") {
			r.violate(violation{What: "a failing destination left something behind: the attribute list the caller of WriteThru keeps was rewritten, or the record after the failure does not carry exactly its attributes",
				Input:  map[string]any{"call": "WriteThru(ctx, Info, t, 0, msg, kept) three times; the first normal destination fails for the second record", "json": round%2 == 1},
				Actual: map[string]any{"kept_list_afterwards": fmt.Sprint(kept), "third_record_at_the_healthy_destination": third}})
		}
	}
}

func runC13(r *run) {
	g := &rng{s: r.seed*32452843 + 13}
	r.rule = "configurations (1..3 normal / error / per-level writers, some LevelSettable) × severity classes × logger levels × ALL fail/succeed assignments to the write attempts of a call (attempts of the record plus attempts of its diagnostic, up to 6), each followed by a fault-free call; distinct = distinct (configuration shape, severity, logger level, schedule); non-trivial = schedules with at least one failure"
	slog.VerifResetGlobals()
	slog.SetFlags(slog.GetFlags() &^ slog.Lcaller)
	ctx := context.Background()
	nCfg := 14
	if r.tier == "thorough" {
		nCfg = 120
	}
	sevs := []int{4, 2, 3, 5, 9, 11, 8}
	for cidx := 0; cidx < nCfg; cidx++ {
		log := &evLog{}
		pool, settable := writerPool(log)
		// configuration: distinct writers in each list
		perm := []int{1, 2, 3, 4, 5, 6}
		for i := len(perm) - 1; i > 0; i-- {
			j := g.intn(i + 1)
			perm[i], perm[j] = perm[j], perm[i]
		}
		nN, nE := 1+g.intn(3), 1+g.intn(3)
		if cidx == 0 {
			nN, nE = 1, 1
		}
		wide := cidx == 1
		if wide {
			nN, nE = 6, 1 // a long list: many destinations can fail for one record, the ones after them are served all the same
		}
		normal := perm[:nN]
		errs := perm[3 : 3+nE]
		if g.chance(1, 4) { // share a writer between the two lists
			errs = append([]int{normal[0]}, errs[1:]...)
		}
		var lvw []int
		lvSev := 5
		if g.chance(1, 2) {
			lvw = []int{perm[g.intn(6)]}
			if g.chance(1, 2) {
				lvw = append(lvw, perm[g.intn(6)])
			}
			lvSev = []int{5, 3, 4}[g.intn(3)]
		}
		partial := g.chance(1, 2)
		for _, L := range []int{8, 4, 2, 0} {
			l := slog.New(fmt.Sprintf("c13-%d-%d", cidx, L))
			l.SetColorMode(false)
			l.SetLevel(slog.Level(L))
			r.emit(fmt.Sprintf("C13 reset %d", L), "ok")
			st := []string{"C13", "settable"}
			for _, s := range settable {
				st = append(st, fmt.Sprint(s))
			}
			r.emit(strings.Join(st, " "), "ok")
			for i, w := range normal {
				if i == 0 {
					l.SetWriter(pool[w])
					r.emit(fmt.Sprintf("C13 op setWriter %d", w), "ok")
				} else {
					l.AddWriter(pool[w])
					r.emit(fmt.Sprintf("C13 op addWriter %d", w), "ok")
				}
			}
			for i, w := range errs {
				if i == 0 {
					l.SetErrorWriter(pool[w])
					r.emit(fmt.Sprintf("C13 op setErrorWriter %d", w), "ok")
				} else {
					l.AddErrorWriter(pool[w])
					r.emit(fmt.Sprintf("C13 op addErrorWriter %d", w), "ok")
				}
			}
			for _, w := range lvw {
				l.AddLevelWriter(slog.Level(lvSev), pool[w])
				r.emit(fmt.Sprintf("C13 op addLevelWriter %d %d", lvSev, w), "ok")
			}
			for _, sev := range sevs {
				// what a fault-free call delivers on this logger, measured before any failure
				log.fails, log.n = nil, 0
				log.take()
				l.Logit(ctx, slog.Level(sev), "baseline")
				baseline, _ := c13Obs(log.take(), "baseline")
				// number of attempts a call can make: destinations of the record + of the diagnostic
				k := 6
				if wide {
					k = 9
				}
				for sched := 0; sched < 1<<k; sched++ {
					if r.tier == "quick" && sched > 12 && sched%5 != cidx%5 {
						continue
					}
					bits := ""
					for i := 0; i < k; i++ {
						bits += b01(sched&(1<<i) != 0)
					}
					log.take()
					log.n = 0
					log.fails = func(n int) bool { return n < k && sched&(1<<n) != 0 }
					log.partial = partial
					log.short = partial && sched%2 == 1
					log.slicey = !partial && sched%3 == 0
					msg := fmt.Sprintf("user-record-%d", sched)
					panicked := ""
					func() {
						defer func() {
							if rec := recover(); rec != nil {
								panicked = fmt.Sprint(rec)
							}
						}()
						l.Logit(ctx, slog.Level(sev), msg)
					}()
					obs, problems := c13Obs(log.take(), msg)
					r.emit(fmt.Sprintf("C13 call %d %s", sev, bits), obs)
					key := ""
					if sched != 0 {
						key = fmt.Sprintf("%d/%d/%d|%d|%d|%s", nN, nE, len(lvw), sev, L, bits)
					}
					r.seen(key)
					input := map[string]any{"normal": normal, "error": errs, "level_writers": lvw, "level_writer_severity": lvSev, "logger_level": L, "severity": sev, "fail_schedule": bits}
					nrec := strings.Count(obs, "|") + 1
					if obs == "-" {
						nrec = 0
					}
					r.count(fmt.Sprintf("records=%d", nrec))
					if panicked != "" {
						r.violate(violation{What: "the logging call did not return normally", Input: input, Actual: panicked})
					}
					if nrec > 2 {
						r.violate(violation{What: "more than one diagnostic for one failing record (cascade)", Input: input, Actual: obs})
					}
					if nrec == 2 && sev == 3 {
						r.violate(violation{What: "a failing warning produced a diagnostic", Input: input, Actual: obs})
					}
					for _, p := range problems {
						r.violate(violation{What: p, Input: input, Actual: obs})
					}
					// from the statement: siblings of a failing destination are still served once each; the
					// diagnostic goes, once, to the logger's warning destinations
					sel := func(sv int) []int {
						if sv == lvSev && len(lvw) > 0 {
							return lvw
						}
						if sv == 0 || sv == 1 || sv == 2 || sv == 3 || sv == 11 {
							return errs
						}
						return normal
					}
					writesOf := func(rec string) (ids []int, failed bool) {
						for _, ev := range strings.Split(rec, ",") {
							if strings.HasPrefix(ev, "w") {
								var id, ok int
								fmt.Sscanf(ev, "w%d=%d", &id, &ok)
								ids = append(ids, id)
								failed = failed || ok == 0
							}
						}
						sort.Ints(ids)
						return
					}
					sorted := func(xs []int) []int { ys := append([]int{}, xs...); sort.Ints(ys); return ys }
					if baseline != "-" && obs != "-" && panicked == "" {
						recs := strings.Split(obs, "|")
						ids, failed := writesOf(recs[0])
						if fmt.Sprint(ids) != fmt.Sprint(sorted(sel(sev))) {
							r.violate(violation{What: "a destination selected for the record did not get exactly one attempt with it while another destination was failing", Input: input,
								Expected: fmt.Sprint(sorted(sel(sev))), Actual: obs})
						}
						admitsWarn := L == 8 || L >= 3
						if !admitsWarn && len(recs) > 1 {
							r.violate(violation{What: "a diagnostic warning was written although the logger's level does not admit warnings", Input: input,
								Expected: "only the record itself", Actual: obs})
						}
						if failed && sev != 3 && admitsWarn {
							if len(recs) != 2 {
								r.violate(violation{What: "a failing record that is not a warning did not produce exactly one diagnostic on the logger's own destinations", Input: input,
									Expected: "one diagnostic to the warning destinations " + fmt.Sprint(sorted(sel(3))), Actual: obs})
							} else if dids, _ := writesOf(recs[1]); fmt.Sprint(dids) != fmt.Sprint(sorted(sel(3))) {
								r.violate(violation{What: "the diagnostic did not go to the logger's warning destinations, once each", Input: input,
									Expected: fmt.Sprint(sorted(sel(3))), Actual: obs})
							}
						}
					}
					// recovery: the same call without faults
					log.fails = nil
					log.n = 0
					log.take()
					l.Logit(ctx, slog.Level(sev), msg)
					obs2, problems2 := c13Obs(log.take(), msg)
					r.emit(fmt.Sprintf("C13 call %d %s", sev, "000000"), obs2)
					if obs2 != baseline || len(problems2) > 0 {
						r.violate(violation{What: "after the destinations recovered the record was not delivered normally", Input: input, Expected: baseline, Actual: obs2})
					}
					// a history of three calls under one schedule that runs across all of them (the attempt counter is
					// not reset between the calls): the model's runCalls, to which the history theorems refer
					if !wide && (sched%7 == 3 || sched == 1<<k-1) {
						hs := []int{sev, sevs[(sched/7)%len(sevs)], sev}
						hbits := bits + bits[:3]
						log.take()
						log.n = 0
						log.fails = func(n int) bool { return n < len(hbits) && hbits[n] == '1' }
						line := fmt.Sprintf("C13 calls %s", hbits)
						var outs []string
						for hi, hsev := range hs {
							hmsg := fmt.Sprintf("history-%d-%d", sched, hi)
							l.Logit(ctx, slog.Level(hsev), hmsg)
							o, probs := c13Obs(log.take(), hmsg)
							outs = append(outs, o)
							line += fmt.Sprintf(" %d", hsev)
							if n := strings.Count(o, "|") + 1; o != "-" && n > 2 {
								r.violate(violation{What: "more than one diagnostic for one failing record within a history of calls", Input: map[string]any{"case": input, "history": hs, "fail_schedule": hbits}, Actual: o})
							}
							for _, p := range probs {
								r.violate(violation{What: p + " (within a history of calls)", Input: map[string]any{"case": input, "history": hs, "fail_schedule": hbits}, Actual: o})
							}
						}
						r.emit(line, strings.Join(outs, ";"))
						r.count("histories")
						log.fails = nil
						log.n = 0
						log.take()
					}
					if sched == 5 && cidx < 3 && sev == 4 {
						r.sample(map[string]any{"case": input, "observed": obs, "after_recovery": obs2})
					}
				}
			}
		}
	}
	c13ShortCounts(r)
	c13KeptList(r)
	failingDestinationLeaves(r.violate)
	subloggerDiagnostics(r.violate)
	envProbe(r, false, "fullstdout")
	slog.VerifResetGlobals()
}
