package main

// Record generator shared by the encoder properties (C02, C04, C05, C06, C09): attribute trees over
// every value kind the encoder distinguishes, byte alphabets weighted towards quotes, backslashes,
// controls, DEL, U+2028, astral runes and invalid UTF-8; each generated value carries (a) the Go
// value handed to the library, (b) its token for the Lean driver, (c) a plain description for the
// oracles.

import (
	"errors"
	"fmt"
	"math"
	"strconv"
	"strings"
	"time"

	"github.com/hedzr/logg/slog"
)

type gval struct {
	kind  string // for histograms and oracles
	goVal any    // what is passed to the library
	tok   string // protocol token (scalar), or "" for groups
	items []gattr
	text  string   // for string-like kinds: the exact text that must come back
	jtext string   // where JSON mode prints another text than the other modes (TextMarshaler values): that text
	list  []string // for slices of string-like / numeric texts
}

type gattr struct {
	key     string
	nilAttr bool
	isGroup bool
	val     gval
}

type c04Stringer struct{ s string }

// c04TextM implements encoding.TextMarshaler only (no Stringer, no json.Marshaler)
type c04TextM struct{ s string }

func (c c04TextM) MarshalText() ([]byte, error) { return []byte(c.s), nil }

func (c c04Stringer) String() string { return c.s }

type c04Struct struct {
	A string
	B int
}

var awkward = []string{"\"", "\\", "\n", "\r", "\t", "\x00", "\x01", "\x07", "\x0b", "\x1b", "\x1f", "\x7f", "\u0080", "\u009b", " ", " ",
	"\U0001f600", "\U000e0001", "\U000f0000", "\U0010ffff", "\U0001d173", "\ufffd", "\u2028", "\u00a0", "\u3000", "\x0c", "\xff", "\xc3", "\xed\xa0\x80", "\x80", "é", "日本", " ", "=", "{", "}", "[", "]", ",", ":", "'", "`", "<", ">", "&", "%", "$", "~"}

func (g *rng) text(maxLen int, plainOnly bool) string {
	n := g.intn(maxLen + 1)
	var sb strings.Builder
	for i := 0; i < n; i++ {
		switch {
		case !plainOnly && g.chance(1, 4):
			sb.WriteString(awkward[g.intn(len(awkward))])
		case !plainOnly && g.chance(1, 30):
			sb.WriteByte(byte(g.intn(256)))
		default:
			sb.WriteByte("abcdefghijklmnopqrstuvwxyzABCXYZ0123456789 _-./"[g.intn(47)])
		}
	}
	return sb.String()
}

func hexJoin(xs []string) string {
	p := make([]string, len(xs))
	for i, x := range xs {
		p[i] = hxs(x)
	}
	return strings.Join(p, ",")
}

func fmtF(v float64) string { return strconv.FormatFloat(v, 'f', -1, 64) }

var floatPool = []float64{0, 1, -1, 1.5, 0.1, 1e21, 1e-7, 123456789.125, math.MaxFloat64, math.SmallestNonzeroFloat64, math.Inf(1), math.Inf(-1), math.NaN(), math.Copysign(0, -1), 3.14159}

// genScalar produces one non-group value. legalOnly restricts strings to text without awkward bytes.
func (g *rng) genScalar(legalOnly bool) gval {
	switch g.intn(30) {
	case 0:
		return gval{kind: "nil", goVal: nil, tok: "N"}
	case 1, 2, 3, 4:
		s := g.text(12, legalOnly)
		return gval{kind: "string", goVal: s, tok: "S:" + hxs(s), text: s}
	case 5:
		s := g.text(8, legalOnly)
		return gval{kind: "stringer", goVal: c04Stringer{s}, tok: "S:" + hxs(s), text: s}
	case 6:
		b := g.chance(1, 2)
		return gval{kind: "bool", goVal: b, tok: "B:" + b01(b)}
	case 7, 8:
		v := int64(g.next())
		if g.chance(1, 2) {
			v = int64(g.intn(2000)) - 1000
		}
		switch g.intn(5) {
		case 0:
			return gval{kind: "int", goVal: int(v), tok: fmt.Sprintf("I:%d", int(v))}
		case 1:
			return gval{kind: "int", goVal: int8(v), tok: fmt.Sprintf("I:%d", int8(v))}
		case 2:
			return gval{kind: "int", goVal: int16(v), tok: fmt.Sprintf("I:%d", int16(v))}
		case 3:
			return gval{kind: "int", goVal: int32(v), tok: fmt.Sprintf("I:%d", int32(v))}
		}
		return gval{kind: "int", goVal: v, tok: fmt.Sprintf("I:%d", v)}
	case 9:
		v := g.next()
		if g.chance(1, 2) {
			v = uint64(g.intn(3000))
		}
		switch g.intn(5) {
		case 0:
			return gval{kind: "uint", goVal: uint(v), tok: fmt.Sprintf("U:%d", uint(v))}
		case 1:
			return gval{kind: "uint", goVal: uint8(v), tok: fmt.Sprintf("U:%d", uint8(v))}
		case 2:
			return gval{kind: "uint", goVal: uint16(v), tok: fmt.Sprintf("U:%d", uint16(v))}
		case 3:
			return gval{kind: "uint", goVal: uint32(v), tok: fmt.Sprintf("U:%d", uint32(v))}
		}
		return gval{kind: "uint", goVal: v, tok: fmt.Sprintf("U:%d", v)}
	case 10:
		f := floatPool[g.intn(len(floatPool))]
		if g.chance(1, 2) {
			f32 := float32(f)
			return gval{kind: "float", goVal: f32, tok: "F:" + hxs(fmtF(float64(f32))), text: fmtF(float64(f32))}
		}
		return gval{kind: "float", goVal: f, tok: "F:" + hxs(fmtF(f)), text: fmtF(f)}
	case 11:
		re, im := floatPool[g.intn(len(floatPool))], floatPool[g.intn(len(floatPool))]
		if g.chance(1, 2) {
			c := complex64(complex(re, im))
			return gval{kind: "complex", goVal: c, tok: "C:" + hxs(fmtF(float64(real(c)))) + ":" + hxs(fmtF(float64(imag(c))))}
		}
		return gval{kind: "complex", goVal: complex(re, im), tok: "C:" + hxs(fmtF(re)) + ":" + hxs(fmtF(im))}
	case 12:
		d := time.Duration(int64(g.next()) >> uint(g.intn(60)))
		return gval{kind: "duration", goVal: d, tok: "D:" + hxs(d.String()), text: d.String()}
	case 13:
		t := time.Unix(int64(g.intn(2000000000)), int64(g.intn(1000000000))).In(time.FixedZone("", (g.intn(27)-12)*3600))
		if g.chance(1, 8) {
			// instants a strict RFC 3339 writer refuses (years outside 0..9999, an offset of a whole day), the zero instant
			t = []time.Time{time.Date(10000, 1, 2, 3, 4, 5, 6, time.UTC), time.Date(-1, 12, 31, 23, 59, 59, 0, time.UTC),
				time.Date(2024, 5, 6, 7, 8, 9, 0, time.FixedZone("", 24*3600)), {}, time.Date(9999, 12, 31, 23, 59, 59, 999999999, time.UTC)}[g.intn(5)]
		}
		return gval{kind: "time", goVal: t, tok: "T:" + hxs(t.Format(time.RFC3339Nano)), text: t.Format(time.RFC3339Nano)}
	case 14:
		m := g.text(10, legalOnly)
		return gval{kind: "error", goVal: errors.New(m), tok: "E:" + hxs(m), text: m}
	case 15:
		b := []byte(g.text(10, legalOnly))
		return gval{kind: "bytes", goVal: b, tok: "Y:" + hx(b), text: string(b)}
	case 16:
		lv := []int{0, 2, 4, 7, 11, 33, -1}[g.intn(7)]
		name := slog.Level(lv).String()
		return gval{kind: "level", goVal: slog.Level(lv), tok: "S:" + hxs(name), text: name}
	case 17:
		var xs []string
		for i := g.intn(4); i > 0; i-- {
			xs = append(xs, g.text(6, legalOnly))
		}
		return gval{kind: "[]string", goVal: xs, tok: "SS:" + hexJoin(xs), list: xs}
	case 18:
		var xs []bool
		var t []string
		for i := g.intn(4); i > 0; i-- {
			b := g.chance(1, 2)
			xs = append(xs, b)
			t = append(t, b01(b))
		}
		return gval{kind: "[]bool", goVal: xs, tok: "BS:" + strings.Join(t, ",")}
	case 19:
		var t []string
		n := g.intn(4)
		switch g.intn(3) {
		case 0:
			xs := make([]int, n)
			for i := range xs {
				xs[i] = g.intn(2000) - 1000
				t = append(t, strconv.Itoa(xs[i]))
			}
			return gval{kind: "[]int", goVal: xs, tok: "IS:" + strings.Join(t, ","), list: t}
		case 1:
			xs := make([]int64, n)
			for i := range xs {
				xs[i] = int64(g.next())
				t = append(t, strconv.FormatInt(xs[i], 10))
			}
			return gval{kind: "[]int", goVal: xs, tok: "IS:" + strings.Join(t, ","), list: t}
		}
		xs := make([]int8, n)
		for i := range xs {
			xs[i] = int8(g.next())
			t = append(t, strconv.Itoa(int(xs[i])))
		}
		return gval{kind: "[]int", goVal: xs, tok: "IS:" + strings.Join(t, ","), list: t}
	case 20:
		var t []string
		n := g.intn(4)
		if g.chance(1, 2) {
			xs := make([]uint64, n)
			for i := range xs {
				xs[i] = g.next()
				t = append(t, strconv.FormatUint(xs[i], 10))
			}
			return gval{kind: "[]uint", goVal: xs, tok: "US:" + strings.Join(t, ","), list: t}
		}
		xs := make([]uint16, n)
		for i := range xs {
			xs[i] = uint16(g.next())
			t = append(t, strconv.Itoa(int(xs[i])))
		}
		return gval{kind: "[]uint", goVal: xs, tok: "US:" + strings.Join(t, ","), list: t}
	case 21:
		var t []string
		n := g.intn(4)
		xs := make([]float64, n)
		for i := range xs {
			xs[i] = floatPool[g.intn(len(floatPool))]
			t = append(t, fmtF(xs[i]))
		}
		return gval{kind: "[]float", goVal: xs, tok: "FS:" + hexJoin(t), list: t}
	case 22:
		var t []string
		n := g.intn(3)
		xs := make([]complex128, n)
		for i := range xs {
			xs[i] = complex(floatPool[g.intn(len(floatPool))], floatPool[g.intn(len(floatPool))])
			t = append(t, hxs(fmtF(real(xs[i])))+"/"+hxs(fmtF(imag(xs[i]))))
		}
		return gval{kind: "[]complex", goVal: xs, tok: "CS:" + strings.Join(t, ",")}
	case 23:
		var t []string
		n := g.intn(3)
		xs := make([]time.Duration, n)
		for i := range xs {
			xs[i] = time.Duration(int64(g.next()) >> uint(g.intn(60)))
			t = append(t, xs[i].String())
		}
		return gval{kind: "[]duration", goVal: xs, tok: "DS:" + hexJoin(t), list: t}
	case 24:
		var t []string
		n := g.intn(3)
		xs := make([]time.Time, n)
		for i := range xs {
			xs[i] = time.Unix(int64(g.intn(2000000000)), int64(g.intn(1000000000))).UTC()
			t = append(t, xs[i].Format(time.RFC3339Nano))
		}
		return gval{kind: "[]time", goVal: xs, tok: "TL:" + hexJoin(t), list: t}
	case 27:
		// an encoding.TextMarshaler: its text (quoted like a string) outside JSON, the %v rendering in JSON
		v := c04TextM{g.text(10, legalOnly)}
		fb := fmt.Sprintf("{{%v}}", v)
		return gval{kind: "textm", goVal: v, tok: "M:" + hxs(v.s) + ":" + hxs(fb), text: v.s, jtext: fb}
	case 25, 26:
		var v any
		switch g.intn(5) {
		case 0:
			v = c04Struct{g.text(6, legalOnly), g.intn(100)}
		case 1:
			v = map[string]int{g.text(3, true): 1, "z": 2}
		case 2:
			v = []any{g.text(4, legalOnly), 7, nil}
		case 3:
			v = [2]int{g.intn(9), g.intn(9)}
		default:
			v = uintptr(g.intn(1000))
		}
		t := fmt.Sprintf("{{%v}}", v)
		return gval{kind: "fallback", goVal: v, tok: "X:" + hxs(t), text: t}
	}
	s := g.text(6, legalOnly)
	return gval{kind: "string", goVal: s, tok: "S:" + hxs(s), text: s}
}

var keyPoolLegal = []string{"a", "b", "c", "k1", "k2", "id", "user", "req", "x_y", "Z", "zz", "m", "n.o", "dur", "err", "g", "h"}

// genAttrs: a list of attributes; depth limits group nesting; legalKeys restricts keys to logfmt-legal ones
func (g *rng) genAttrs(n int, depth int, legalKeys bool, legalVals bool) []gattr {
	var out []gattr
	for i := 0; i < n; i++ {
		if g.chance(1, 25) {
			out = append(out, gattr{nilAttr: true})
			continue
		}
		key := keyPoolLegal[g.intn(len(keyPoolLegal))]
		if !legalKeys && g.chance(1, 4) {
			key = g.text(5, false)
		}
		if depth > 0 && g.chance(1, 6) {
			items := g.genAttrs(g.intn(4), depth-1, legalKeys, legalVals)
			out = append(out, gattr{key: key, isGroup: true, val: gval{kind: "group", items: items}})
			continue
		}
		out = append(out, gattr{key: key, val: g.genScalar(legalVals)})
	}
	return out
}

// genWideAttrs: a long list (13..44 members: beyond the length up to which an unstable sort happens to be stable) with
// distinct integer values, some keys given two or three times far apart, now and then a nil slot or an empty key in
// between; a third of the time wrapped into one group.
func (g *rng) genWideAttrs(emptyKeys bool) []gattr {
	n := 13 + g.intn(32)
	var out []gattr
	perm := make([]int, n)
	for j := range perm {
		perm[j] = j
	}
	for j := n - 1; j > 0; j-- {
		k := g.intn(j + 1)
		perm[j], perm[k] = perm[k], perm[j]
	}
	val := 1000
	mk := func(key string) gattr {
		val++
		return gattr{key: key, val: gval{kind: "int", goVal: val, tok: fmt.Sprintf("I:%d", val)}}
	}
	for _, j := range perm {
		out = append(out, mk(fmt.Sprintf("w%02d", j)))
	}
	for d := 2 + g.intn(3); d > 0; d-- {
		src := out[g.intn(len(out)/2)].key
		at := len(out)/2 + g.intn(len(out)-len(out)/2+1)
		out = append(out[:at], append([]gattr{mk(src)}, out[at:]...)...)
	}
	if g.chance(1, 2) {
		// two keys given four times each, in turns (a retry loop that appends try=i wait=j to the list it keeps)
		for i := 1; i <= 4; i++ {
			out = append(out, mk("try"), mk("wait"))
		}
	}
	if g.chance(1, 3) {
		at := 1 + g.intn(len(out)-1)
		out = append(out[:at], append([]gattr{{nilAttr: true}}, out[at:]...)...)
	}
	if emptyKeys && g.chance(1, 3) {
		// an attribute with the empty key, and a nil slot somewhere after it
		at := g.intn(len(out))
		out = append(out[:at], append([]gattr{mk("")}, out[at:]...)...)
		out = append(out, gattr{nilAttr: true})
	}
	if g.chance(1, 3) {
		return []gattr{{key: "wide", isGroup: true, val: gval{kind: "group", items: out}}}
	}
	return out
}

func attrsTokens(as []gattr) []string {
	var t []string
	for _, a := range as {
		if a.nilAttr {
			t = append(t, "_")
			continue
		}
		t = append(t, "K:"+hxs(a.key)+":"+b01(a.isGroup))
		if a.val.kind == "group" {
			t = append(t, "(")
			t = append(t, attrsTokens(a.val.items)...)
			t = append(t, ")")
		} else {
			t = append(t, a.val.tok)
		}
	}
	return t
}

// toAttrs builds the library's attribute values.
func toAttrs(as []gattr) slog.Attrs {
	var out slog.Attrs
	for _, a := range as {
		if a.nilAttr {
			out = append(out, nil)
			continue
		}
		if a.isGroup {
			out = append(out, slog.NewGroupedAttr(a.key, toAttrs(a.val.items)...))
			continue
		}
		out = append(out, slog.NewAttr(a.key, a.val.goVal))
	}
	return out
}

// toArgs builds a free-form argument list (key, value pairs / Attr values) for the verbs.
func (g *rng) toArgs(as []gattr) []any {
	var out []any
	for _, a := range as {
		switch {
		case a.nilAttr:
			out = append(out, []slog.Attr{nil})
		case a.isGroup:
			out = append(out, slog.NewGroupedAttr(a.key, toAttrs(a.val.items)...))
		case a.key != "" && g.chance(1, 2):
			out = append(out, a.key, a.val.goVal)
		default:
			out = append(out, slog.NewAttr(a.key, a.val.goVal))
		}
	}
	return out
}

// effective: the attributes as they should come out: nil attributes dropped, the last occurrence of a
// key wins, ascending byte-wise key order — recursively.
func effective(as []gattr) []gattr {
	last := map[string]gattr{}
	var keys []string
	for _, a := range as {
		if a.nilAttr {
			continue
		}
		if _, ok := last[a.key]; !ok {
			keys = append(keys, a.key)
		}
		last[a.key] = a
	}
	sortStrings(keys)
	var out []gattr
	for _, k := range keys {
		a := last[k]
		if a.val.kind == "group" {
			a.val.items = effective(a.val.items)
		}
		out = append(out, a)
	}
	return out
}

func sortStrings(xs []string) {
	for i := 1; i < len(xs); i++ {
		for j := i; j > 0 && xs[j] < xs[j-1]; j-- {
			xs[j], xs[j-1] = xs[j-1], xs[j]
		}
	}
}
