package main

// Deterministic delivery scenarios shared by the C02 / C03 / C08 runs. Each one takes the callback that
// reports a failing input, so it can run in the main process and in the race-built stress child alike.
// The oracles are the property texts only: an admitted call reaches each destination selected for its
// severity exactly once, whole, whatever other calls are in flight on the same logger, whatever the
// neighbouring destinations do, and whatever other levels were registered before.

import (
	"context"
	"errors"
	"fmt"
	"io"
	"strings"
	"sync"
	"sync/atomic"
	"time"

	"github.com/hedzr/logg/slog"
)

// gateW takes its copy of the payload and then, for the first Write only, tells that it was entered and
// waits until it is released.
type gateW struct {
	recorder
	first   atomic.Bool
	entered chan struct{}
	release chan struct{}
}

func newGateW() *gateW { return &gateW{entered: make(chan struct{}), release: make(chan struct{})} }

func (w *gateW) Write(p []byte) (int, error) {
	n, err := w.recorder.Write(p)
	if w.first.CompareAndSwap(false, true) {
		close(w.entered)
		<-w.release
	}
	return n, err
}

// notifyW reports once, through the logger it is attached to, while it is being written to.
type notifyW struct {
	recorder
	l    slog.Logger
	lvl  slog.Level
	told bool
}

func (w *notifyW) Write(p []byte) (int, error) {
	if !w.told {
		w.told = true
		w.l.Logit(context.Background(), w.lvl, "destination reports: rotated", "nested", true)
	}
	return w.recorder.Write(p)
}

func wholeOnce(ws [][]byte, marker string) string {
	n := 0
	for _, p := range ws {
		if strings.Contains(string(p), marker) {
			n++
			if len(p) == 0 || p[len(p)-1] != '\n' {
				return fmt.Sprintf("payload %q does not end with a newline", p)
			}
		}
	}
	if n != 1 {
		return fmt.Sprintf("%d Write calls carrying %q, want exactly 1 (all payloads: %q)", n, marker, ws)
	}
	return ""
}

func setFormat(l slog.Logger, format string) {
	switch format {
	case "j":
		l.SetJSONMode(true)
	case "c":
		l.SetColorMode(true)
	default:
		l.SetColorMode(false)
	}
}

// overlapDelivery: a record is still inside the Write of a slow destination when the same logger is asked
// for another record (by another goroutine, or by the destination itself). Both are admitted calls.
func overlapDelivery(viol func(violation)) {
	type pair struct {
		first, second slog.Level
		name          string
	}
	pairs := []pair{
		{slog.InfoLevel, slog.WarnLevel, "Info (slow normal destination) / Warn (error destination)"},
		{slog.ErrorLevel, slog.InfoLevel, "Error (slow error destination) / Info (normal destination)"},
		{slog.InfoLevel, slog.ErrorLevel, "Info (slow normal destination) / Error (error destination)"},
		{slog.InfoLevel, slog.InfoLevel, "Info / Info (both to the slow normal destination)"},
	}
	for pi, p := range pairs {
		for _, format := range []string{"l", "j", "c"} {
			slog.VerifResetGlobals()
			slow, other := newGateW(), &recorder{}
			l := slog.New(fmt.Sprintf("ov%d", pi)).SetLevel(slog.InfoLevel)
			setFormat(l, format)
			firstErr := p.first == slog.ErrorLevel
			if firstErr {
				l.SetWriter(other).SetErrorWriter(slow)
			} else {
				l.SetWriter(slow).SetErrorWriter(other)
			}
			in := map[string]any{"scenario": "two goroutines, one logger: the second call is made while the first record is inside Write of a slow destination", "severities": p.name, "format": format}
			done1 := make(chan struct{})
			go func() {
				defer close(done1)
				l.Logit(context.Background(), p.first, "first-record", "n", 1)
			}()
			select {
			case <-slow.entered:
			case <-time.After(20 * time.Second):
				viol(violation{What: "the first record never reached its destination", Input: in})
				close(slow.release)
				continue
			}
			done2 := make(chan struct{})
			go func() {
				defer close(done2)
				l.Logit(context.Background(), p.second, "second-record", "n", 2)
			}()
			select {
			case <-done2:
			case <-time.After(20 * time.Second):
				viol(violation{What: "a log call does not return while another record of the same logger is being written", Input: in})
			}
			close(slow.release)
			<-done1
			<-done2
			sameDest := (p.second == slog.ErrorLevel || p.second == slog.WarnLevel) == firstErr
			ws1 := slow.take()
			ws2 := other.take()
			if sameDest {
				ws2 = ws1
			}
			if msg := wholeOnce(ws2, "second-record"); msg != "" {
				viol(violation{What: "an admitted record issued while another record of the same logger was being written was not delivered exactly once: " + msg, Input: in})
			}
			if msg := wholeOnce(ws1, "first-record"); msg != "" {
				viol(violation{What: "the record that was being written when another call was made was not delivered exactly once: " + msg, Input: in})
			}
		}
	}
	// the destination itself reports through the logger it is attached to, at a severity routed elsewhere
	for _, format := range []string{"l", "j", "c"} {
		for _, dir := range []int{0, 1} {
			slog.VerifResetGlobals()
			l := slog.New("nested").SetLevel(slog.InfoLevel)
			setFormat(l, format)
			other := &recorder{}
			nw := &notifyW{l: l}
			outer := slog.InfoLevel
			if dir == 0 {
				nw.lvl = slog.WarnLevel
				l.SetWriter(nw).SetErrorWriter(other)
			} else {
				nw.lvl, outer = slog.InfoLevel, slog.ErrorLevel
				l.SetWriter(other).SetErrorWriter(nw)
			}
			in := map[string]any{"scenario": "a destination logs once through the logger it is attached to while it is written to, at a severity routed to the other destination", "format": format, "outer": outer.String(), "nested": nw.lvl.String()}
			func() {
				defer func() {
					if e := recover(); e != nil {
						viol(violation{What: fmt.Sprintf("a log call panicked: %v", e), Input: in})
					}
				}()
				l.Logit(context.Background(), outer, "outer-record", "n", 1)
			}()
			if msg := wholeOnce(nw.take(), "outer-record"); msg != "" {
				viol(violation{What: "the outer record was not delivered exactly once: " + msg, Input: in})
			}
			if msg := wholeOnce(other.take(), "destination reports: rotated"); msg != "" {
				viol(violation{What: "an admitted record issued from inside a destination's Write was not delivered exactly once to the destination of its severity: " + msg, Input: in})
			}
		}
	}
	slog.VerifResetGlobals()
}

// flakyW fails every third Write; pickyW takes only what it is interested in and reports (0, nil) for the rest.
type flakyW struct {
	mu sync.Mutex
	n  int
}

func (f *flakyW) Write(p []byte) (int, error) {
	f.mu.Lock()
	f.n++
	n := f.n
	f.mu.Unlock()
	if n%3 == 0 {
		return 0, errors.New("connection reset by peer")
	}
	return len(p), nil
}

type pickyW struct{ recorder }

func (f *pickyW) Write(p []byte) (int, error) {
	if !strings.Contains(string(p), "audit") {
		return 0, nil
	}
	return f.recorder.Write(p)
}

type shortW struct{ recorder }

func (f *shortW) Write(p []byte) (int, error) {
	f.recorder.Write(p)
	return len(p) / 2, nil
}

// flakyNeighbour: a destination list whose first member fails, filters or reports a short count; the
// healthy members of the list still receive every admitted record exactly once.
func flakyNeighbour(viol func(violation)) {
	const G, N = 4, 24
	for _, kind := range []string{"failing every third Write", "reporting (0, nil) for what it filters out", "reporting half the length"} {
		for _, where := range []string{"SetWriter(bad).AddWriter(healthy)", "AddLevelWriter(Info, bad); AddLevelWriter(Info, healthy)", "SetErrorWriter(bad).AddErrorWriter(healthy)"} {
			slog.VerifResetGlobals()
			var bad io.Writer
			switch kind[0] {
			case 'f':
				bad = &flakyW{}
			case 'r':
				if strings.Contains(kind, "half") {
					bad = &shortW{}
				} else {
					bad = &pickyW{}
				}
			}
			healthy, rest := &recorder{}, &recorder{}
			l := slog.New("fn").SetLevel(slog.InfoLevel).SetColorMode(false)
			lvl := slog.InfoLevel
			switch where[0] {
			case 'S':
				if strings.HasPrefix(where, "SetWriter") {
					l.SetWriter(bad).AddWriter(healthy).SetErrorWriter(rest)
				} else {
					lvl = slog.ErrorLevel
					l.SetErrorWriter(bad).AddErrorWriter(healthy).SetWriter(rest)
				}
			case 'A':
				l.SetWriter(rest).SetErrorWriter(rest)
				l.AddLevelWriter(slog.InfoLevel, bad)
				l.AddLevelWriter(slog.InfoLevel, healthy)
			}
			var wg sync.WaitGroup
			for g := 0; g < G; g++ {
				wg.Add(1)
				go func(g int) {
					defer wg.Done()
					for i := 0; i < N; i++ {
						l.Logit(context.Background(), lvl, "rec", "id", fmt.Sprintf("g%d-i%d.", g, i))
					}
				}(g)
			}
			wg.Wait()
			got := healthy.take()
			seen := map[string]int{}
			for _, p := range got {
				s := string(p)
				if !strings.HasSuffix(s, "\n") {
					viol(violation{What: "a destination observed a payload that does not end with a newline", Input: map[string]any{"first destination": kind, "configuration": where}, Actual: s})
				}
				if i := strings.Index(s, "id=\""); i >= 0 {
					if j := strings.Index(s[i+4:], ".\""); j >= 0 {
						seen[s[i+4:i+4+j]]++
					}
				}
			}
			missing := []string{}
			for g := 0; g < G; g++ {
				for i := 0; i < N; i++ {
					id := fmt.Sprintf("g%d-i%d", g, i)
					if seen[id] != 1 {
						missing = append(missing, fmt.Sprintf("%s x%d", id, seen[id]))
					}
				}
			}
			if len(missing) > 0 {
				if len(missing) > 8 {
					missing = append(missing[:8], "…")
				}
				viol(violation{What: "a healthy destination that shares a list with a misbehaving one did not receive every admitted record exactly once",
					Input:    map[string]any{"first destination": kind, "configuration": where, "goroutines": G, "calls each": N, "severity": lvl.String()},
					Expected: fmt.Sprintf("%d records, each once", G*N), Actual: fmt.Sprintf("%d payloads; not exactly once: %v", len(got), missing)})
			}
		}
	}
	slog.VerifResetGlobals()
}

// customErrorDevices: several custom severities registered for the error device, one after the other;
// each of them - not only the one registered last - is routed to the error writers.
func customErrorDevices(viol func(violation)) {
	slog.VerifResetGlobals()
	lv := []int{81, 82, 83, 84}
	for i, v := range lv {
		var err error
		if i == 2 {
			err = slog.RegisterLevel(slog.Level(v), fmt.Sprintf("ced%d", v)) // a plain one in between
		} else {
			err = slog.RegisterLevel(slog.Level(v), fmt.Sprintf("ced%d", v), slog.RegWithPrintToErrorDevice())
		}
		if err != nil {
			viol(violation{What: "RegisterLevel refused a fresh level: " + err.Error(), Input: v})
		}
	}
	for _, format := range []string{"l", "j", "c"} {
		n, e := &recorder{}, &recorder{}
		l := slog.New("ced").SetLevel(slog.AlwaysLevel).SetWriter(n).SetErrorWriter(e)
		setFormat(l, format)
		for i, v := range lv {
			marker := fmt.Sprintf("custom-%d.", v)
			l.Logit(context.Background(), slog.Level(v), marker)
			gn, ge := n.take(), e.take()
			wantErr := i != 2
			okN, okE := wholeOnce(gn, marker) == "", wholeOnce(ge, marker) == ""
			if (wantErr && (!okE || len(gn) != 0)) || (!wantErr && (!okN || len(ge) != 0)) {
				viol(violation{What: "a custom severity is not routed as it was registered once further severities have been registered",
					Input:    map[string]any{"registered in this order": "81 error device, 82 error device, 83 plain, 84 error device", "logged severity": v, "format": format},
					Expected: map[string]any{"error writer": wantErr, "normal writer": !wantErr},
					Actual:   map[string]any{"error writer payloads": len(ge), "normal writer payloads": len(gn)}})
			}
		}
	}
	slog.VerifResetGlobals()
}

func keysOf(as slog.Attrs) string {
	var ks []string
	for _, a := range as {
		if a == nil {
			ks = append(ks, "<nil>")
		} else {
			ks = append(ks, a.Key())
		}
	}
	return strings.Join(ks, ",")
}

// sharedValuesLeftAlone: an attribute list or a group that the caller keeps and passes as the value of a
// key is only read by the logger.
func sharedValuesLeftAlone(viol func(violation)) {
	for _, format := range []string{"l", "j", "c"} {
		slog.VerifResetGlobals()
		sink := &recorder{}
		l := slog.New("sv").SetLevel(slog.InfoLevel).SetWriter(sink)
		setFormat(l, format)
		shared := slog.Attrs{slog.Int("zeta", 1), slog.Int("alpha", 2), slog.Int("mid", 3), slog.Int("alpha", 4)}
		grp := slog.NewGroupedAttr("grp", slog.Int("yy", 1), slog.Int("bb", 2), slog.Int("mm", 3))
		before, beforeG := keysOf(shared), keysOf(grp.Value().(slog.Attrs))
		l.Info("one", "payload", shared, "wrapped", grp)
		l.Info("two", "payload", shared, "wrapped", grp)
		if after := keysOf(shared); after != before {
			viol(violation{What: "an attribute list kept by the caller and passed as the value of a key was written to by the logger",
				Input: map[string]any{"format": format, "call": `Info("one", "payload", shared, "wrapped", grp)`}, Expected: before, Actual: after})
		}
		if after := keysOf(grp.Value().(slog.Attrs)); after != beforeG {
			viol(violation{What: "a group kept by the caller and passed as the value of a key was written to by the logger",
				Input: map[string]any{"format": format, "call": `Info("one", "payload", shared, "wrapped", grp)`}, Expected: beforeG, Actual: after})
		}
		if got := sink.take(); len(got) != 2 {
			viol(violation{What: "two admitted calls, other than two payloads", Input: map[string]any{"format": format}, Actual: len(got)})
		}
	}
	slog.VerifResetGlobals()
}
