package main

// C02 — exactly-once delivery for any arguments. Sequences of verb calls on three loggers (JSON,
// logfmt, colored; one of them may be the default logger reached through the package functions)
// with free-form argument lists of every shape; every Write of every destination is recorded.
// Modelled stream: the Lean call model predicts the destinations written to and the payload,
// byte for byte (fixed time layout). Open stream: all flag combinations (caller info on),
// attributes in value position — decided by the delivery oracles only.

import (
	"bytes"
	"context"
	"fmt"
	"io"
	"os"
	"os/exec"
	"strings"

	"github.com/hedzr/is"
	"github.com/hedzr/is/term/color"
	"github.com/hedzr/logg/slog"
)

func init() {
	props["C02"] = runC02
	childModes["c02test"] = c02Test
}

type garg struct {
	kind  string // str, val, attr, attrs, group, attrval
	s     string
	v     gval
	a     gattr
	as    []gattr
	inner []garg
	slice bool // attrs: []Attr instead of Attrs
}

func goArgs(args []garg) []any {
	var out []any
	for _, a := range args {
		switch a.kind {
		case "str":
			out = append(out, a.s)
		case "val":
			out = append(out, a.v.goVal)
		case "attr", "attrval":
			out = append(out, toAttrs([]gattr{a.a})[0])
		case "attrs":
			if a.slice {
				out = append(out, []slog.Attr(toAttrs(a.as)))
			} else {
				out = append(out, toAttrs(a.as))
			}
		case "group":
			out = append(out, slog.Group(a.s, goArgs(a.inner)...))
		}
	}
	return out
}

func argTokens(args []garg) []string {
	var t []string
	for _, a := range args {
		switch a.kind {
		case "str":
			t = append(t, "s:"+hxs(a.s))
		case "val":
			t = append(t, "v", a.v.tok)
		case "attr", "attrval":
			t = append(t, "a", "(")
			t = append(t, attrsTokens([]gattr{a.a})...)
			t = append(t, ")")
		case "attrs":
			t = append(t, "l", "(")
			t = append(t, attrsTokens(a.as)...)
			t = append(t, ")")
		case "group":
			t = append(t, "g:"+hxs(a.s), "{")
			t = append(t, argTokens(a.inner)...)
			t = append(t, "}")
		}
	}
	return t
}

// genValueArg: something for value position — a Go string or any other value.
func (g *rng) genValueArg() garg {
	if g.chance(1, 4) {
		return garg{kind: "str", s: g.text(8, false)}
	}
	if g.chance(1, 40) {
		// a few KiB of binary data (every byte needs a four-byte escape): longer than any buffer estimate of twice its size
		return garg{kind: "str", s: strings.Repeat(string([]byte{0, 0x7f, 0xff, 0x1b}), 600+g.intn(1500))}
	}
	for {
		v := g.genScalar(false)
		if v.kind == "string" {
			return garg{kind: "str", s: v.goVal.(string)}
		}
		return garg{kind: "val", v: v}
	}
}

func (g *rng) genKey() string {
	if g.chance(1, 6) {
		k := g.text(5, false)
		if k != "" {
			return k
		}
	}
	return keyPoolLegal[g.intn(len(keyPoolLegal))]
}

// genArgs: a free-form argument list; open = also shapes outside the modelled domain.
func (g *rng) genArgs(n, depth int, open bool) []garg {
	var out []garg
	for i := 0; i < n; i++ {
		switch k := g.intn(20); {
		case k < 10:
			out = append(out, garg{kind: "str", s: g.genKey()}, g.genValueArg())
		case k < 13:
			out = append(out, garg{kind: "attr", a: g.genAttrs(1, depth, false, false)[0]})
		case k < 14:
			out = append(out, garg{kind: "attrs", as: g.genAttrs(g.intn(4), depth, false, false), slice: g.chance(1, 2)})
		case k < 15 && depth > 0:
			out = append(out, garg{kind: "group", s: g.genKey(), inner: g.genArgs(g.intn(4), depth-1, false)})
		case k < 16:
			out = append(out, garg{kind: "str", s: ""}) // an empty string in key position
		case k < 17:
			v := g.genValueArg() // a non-string in key position
			if v.kind == "val" {
				out = append(out, v)
			}
		case k < 18 && i == n-1:
			out = append(out, garg{kind: "str", s: g.genKey()}) // a dangling key
		case k < 19 && open:
			out = append(out, garg{kind: "str", s: g.genKey()}, garg{kind: "attrval", a: g.genAttrs(1, 0, true, true)[0]})
		default:
			out = append(out, garg{kind: "str", s: g.genKey()}, garg{kind: "val", v: gval{kind: "nil", goVal: nil, tok: "N"}})
		}
	}
	return out
}

var c02Blank = []string{"", " ", "\n", "\r", "\r\r\r", "\t \n", "\r\n", "\n\r", "  \t"}

type c02Verb struct {
	name string
	sev  int // -100: takes the level argument
}

var c02Verbs = []c02Verb{{"Error", 2}, {"Warn", 3}, {"Info", 4}, {"Debug", 5}, {"Trace", 6}, {"Print", 8}, {"OK", 9}, {"Success", 10}, {"Fail", 11},
	{"Println", 8}, {"ErrorContext", 2}, {"WarnContext", 3}, {"InfoContext", 4}, {"DebugContext", 5}, {"TraceContext", 6}, {"PrintContext", 8},
	{"PrintlnContext", 8}, {"OKContext", 9}, {"SuccessContext", 10}, {"FailContext", 11}, {"LogAttrs", -100}, {"Logit", -100}}

var c02ArgLevels = []int{2, 3, 4, 5, 6, 7, 8, 9, 10, 11, 12, 33, 57, -2, 33, 57, 33, 57, 33, 57}
var c02LoggerLevels = []int{7, 8, 2, 3, 4, 5, 6, 9, 10, 11, 12, 0, 1, 4, 6}

type c02Logger struct {
	l        slog.Logger
	format   string
	level    int
	name     string
	pkg      bool // the default logger, called through the package functions
	log      *evLog
	normal   []int
	errorW   []int
	leveled  map[int][]int
	attrs    []gattr
	wspec    string
	writerOf map[int]io.Writer
}

func idsText(ids []int) string {
	if len(ids) == 0 {
		return "-"
	}
	var t []string
	for _, i := range ids {
		t = append(t, fmt.Sprint(i))
	}
	return strings.Join(t, ",")
}

func idsTextS(ids []string) string {
	if len(ids) == 0 {
		return "-"
	}
	return strings.Join(ids, ",")
}

// reentW is a destination that itself logs (through an unrelated logger) while it is being written
// to, and only then takes its copy of the payload: a record must not change under the feet of the
// destinations that are still to be served.
type reentW struct {
	plainW
	side slog.Logger
}

func (w *reentW) Write(p []byte) (int, error) {
	w.side.Info("logged from inside a destination", "nested", true, "len", len(p))
	return w.plainW.Write(p)
}

var c02Side = func() slog.Logger {
	return slog.New("c02-side").SetWriter(io.Discard).SetErrorWriter(io.Discard).SetLevel(slog.InfoLevel).SetJSONMode(true)
}

func (g *rng) c02NewLogger(format string, idx int, pkg bool) *c02Logger {
	c := &c02Logger{format: format, log: &evLog{}, leveled: map[int][]int{}, pkg: pkg, writerOf: map[int]io.Writer{}}
	if pkg {
		c.l = slog.Default()
		c.name = ""
	} else {
		c.name = fmt.Sprintf("c02-%s", format)
		c.l = slog.New(c.name)
	}
	next := idx * 10
	mk := func() int {
		next++
		if g.chance(1, 5) {
			c.writerOf[next] = &reentW{plainW{next, c.log}, c02Side()}
		} else if g.chance(1, 2) {
			c.writerOf[next] = &plainW{next, c.log}
		} else {
			c.writerOf[next] = slog.NewLogWriter(&closeW{plainW{next, c.log}})
		}
		return next
	}
	w := mk()
	c.l.SetWriter(c.writerOf[w])
	c.normal = []int{w}
	if g.chance(1, 3) {
		w = mk()
		c.l.AddWriter(c.writerOf[w])
		c.normal = append(c.normal, w)
	}
	w = mk()
	c.l.SetErrorWriter(c.writerOf[w])
	c.errorW = []int{w}
	if g.chance(1, 3) {
		w = mk()
		c.l.AddErrorWriter(c.writerOf[w])
		c.errorW = append(c.errorW, w)
	}
	var lv []string
	if g.chance(1, 3) {
		sev := []int{4, 2, 8, 33}[g.intn(4)]
		w = mk()
		c.l.AddLevelWriter(slog.Level(sev), c.writerOf[w])
		c.leveled[sev] = []int{w}
		lv = append(lv, fmt.Sprintf("%d=%d", sev, w))
	}
	if g.chance(1, 4) {
		// a per-level writer that is added and removed again: the (now empty) per-level list falls back to the class writers
		sev := []int{3, 5, 9}[g.intn(3)]
		w = mk()
		c.l.AddLevelWriter(slog.Level(sev), c.writerOf[w])
		c.l.RemoveLevelWriter(slog.Level(sev), c.writerOf[w])
		c.leveled[sev] = nil
		lv = append(lv, fmt.Sprintf("%d=-", sev))
	}
	leveled := "-"
	if len(lv) > 0 {
		leveled = strings.Join(lv, ";")
	}
	c.wspec = idsText(c.normal) + "/" + idsText(c.errorW) + "/" + leveled
	switch format {
	case "j":
		c.l.SetJSONMode(true)
	case "l":
		c.l.SetColorMode(false)
	default:
		c.l.SetColorMode(true)
	}
	c.l.SetUTCMode(true).SetTimeFormat("@")
	c.level = c02LoggerLevels[g.intn(len(c02LoggerLevels))]
	if pkg && g.chance(1, 2) {
		slog.SetLevel(slog.Level(c.level))
	} else {
		c.l.SetLevel(slog.Level(c.level))
	}
	if g.chance(1, 3) {
		keys := []string{"la", "lb", "zz"}
		for i := g.intn(3); i > 0; i-- {
			c.attrs = append(c.attrs, gattr{key: keys[i-1], val: g.genScalar(true)})
		}
		c.l.SetAttrs(toAttrs(c.attrs)...)
	}
	return c
}

// c02WriterOrder: the destinations of the three classes (normal, error device, per-severity) are configured in every
// order, as options of New and by the setters: a record still reaches each destination selected for its severity in
// exactly one Write, and no other one.
func c02WriterOrder(r *run) {
	type dest struct {
		name string
		rec  *recorder
	}
	for round := 0; round < 12; round++ {
		slog.VerifResetGlobals()
		n, e, lw, n2 := &dest{"normal", &recorder{}}, &dest{"error", &recorder{}}, &dest{"level(Debug)", &recorder{}}, &dest{"normal-2", &recorder{}}
		var l slog.Logger
		var how string
		wantNormal := n
		switch round % 6 {
		case 0:
			l, how = slog.New("wo", slog.WithErrorWriter(e.rec), slog.WithWriter(n.rec)), "New(WithErrorWriter(e), WithWriter(n))"
			l.AddLevelWriter(slog.DebugLevel, lw.rec)
		case 1:
			l, how = slog.New("wo", slog.WithWriter(n.rec), slog.WithErrorWriter(e.rec)), "New(WithWriter(n), WithErrorWriter(e))"
			l.AddLevelWriter(slog.DebugLevel, lw.rec)
		case 2:
			l, how = slog.New("wo"), "SetErrorWriter(e); AddLevelWriter(Debug, lw); SetWriter(n)"
			l.SetErrorWriter(e.rec)
			l.AddLevelWriter(slog.DebugLevel, lw.rec)
			l.SetWriter(n.rec)
		case 3:
			l, how = slog.New("wo"), "SetWriter(n); SetErrorWriter(e); AddLevelWriter(Debug, lw); SetWriter(n2)"
			l.SetWriter(n.rec).SetErrorWriter(e.rec)
			l.AddLevelWriter(slog.DebugLevel, lw.rec)
			l.SetWriter(n2.rec)
			wantNormal = n2
		case 4:
			l, how = slog.New("wo", slog.WithErrorWriter(e.rec)), "New(WithErrorWriter(e)); AddLevelWriter(Debug, lw); SetWriter(n2); SetWriter(n)"
			l.AddLevelWriter(slog.DebugLevel, lw.rec)
			l.SetWriter(n2.rec)
			l.SetWriter(n.rec)
		default:
			l, how = slog.New("wo", slog.WithErrorWriter(e.rec)), "New(WithErrorWriter(e)); AddLevelWriter(Debug, lw); AddWriter(n) after SetWriter(n2)"
			l.AddLevelWriter(slog.DebugLevel, lw.rec)
			l.SetWriter(n2.rec)
			l.AddWriter(n.rec)
		}
		l.SetLevel(slog.TraceLevel)
		if round >= 6 {
			l.SetColorMode(false)
		}
		if round%3 == 1 {
			// a setter given nil refuses: the configured destinations stay as they are
			var none io.Writer
			l.SetErrorWriter(none)
			l.SetWriter(none)
			l.AddWriter(none)
			l.AddErrorWriter(none)
			how += "; SetErrorWriter(nil); SetWriter(nil); AddWriter(nil); AddErrorWriter(nil)"
		}
		if round%4 == 2 {
			// a destination that fails sits in front of the healthy ones in both class lists: they are served all the same
			// (the warning the library writes about the failure goes to the error writers as a record of its own)
			cur, curE := l.GetWriterBy(slog.InfoLevel), l.GetWriterBy(slog.ErrorLevel)
			l.SetWriter(c01Broken{})
			l.AddWriter(cur)
			l.SetErrorWriter(c01Broken{})
			l.AddErrorWriter(curE)
			how += "; a failing destination put in front of each class list"
		}
		if round%6 != 5 {
			// the normal destination registered a second time and taken away once: it is still registered once
			l.AddWriter(wantNormal.rec)
			l.RemoveWriter(wantNormal.rec)
			l.AddErrorWriter(e.rec)
			l.RemoveErrorWriter(e.rec)
			how += "; AddWriter(the normal one again); RemoveWriter(it); AddErrorWriter(e again); RemoveErrorWriter(e)"
		}
		if round%2 == 0 {
			// a writer of its own for one severity, dropped again by the reset for that severity alone: the class writers apply
			gone := &recorder{}
			l.AddLevelWriter(slog.InfoLevel, gone)
			l.AddLevelWriter(slog.WarnLevel, gone)
			l.ResetLevelWriter(slog.InfoLevel)
			l.ResetLevelWriter(slog.WarnLevel)
			how += "; AddLevelWriter(Info, x); AddLevelWriter(Warn, x); ResetLevelWriter(Info); ResetLevelWriter(Warn)"
		}
		for _, sev := range []slog.Level{slog.InfoLevel, slog.ErrorLevel, slog.WarnLevel, slog.DebugLevel, slog.TraceLevel} {
			for _, d := range []*dest{n, e, lw, n2} {
				d.rec.take()
			}
			l.Logit(context.Background(), sev, "one record", "round", round)
			want := map[*dest]bool{}
			switch {
			case sev == slog.DebugLevel:
				want[lw] = true
			case sev == slog.ErrorLevel || sev == slog.WarnLevel:
				want[e] = true
			default:
				want[wantNormal] = true
				if round%6 == 5 {
					want[n], want[n2] = true, true
				}
			}
			r.seen(fmt.Sprintf("writer-order|%d|%d", round%6, int(sev)))
			for _, d := range []*dest{n, e, lw, n2} {
				var w [][]byte
				for _, p := range d.rec.take() {
					if !bytes.Contains(p, []byte("slog print log failed")) { // the library's own warning about a failing destination
						w = append(w, p)
					}
				}
				exp := 0
				if want[d] {
					exp = 1
				}
				if len(w) != exp || (exp == 1 && !bytes.HasSuffix(w[0], []byte("\n"))) {
					r.violate(violation{What: "a destination selected for the severity did not get the record in exactly one Write (or another one got it)",
						Input:    map[string]any{"configured_by": how, "severity": int(sev), "destination": d.name},
						Expected: fmt.Sprintf("%d write(s)", exp), Actual: fmt.Sprintf("%d write(s) %q", len(w), w)})
				}
			}
		}
	}
	slog.VerifResetGlobals()
	// the process-wide debug mode is read when a call is judged, not when the logger was given its level
	for round := 0; round < 4; round++ {
		slog.VerifResetGlobals()
		slog.VerifSetDebugMode(round%2 == 0)
		rec := &recorder{}
		l := slog.New("debug-flip").SetWriter(rec).SetErrorWriter(rec).SetLevel(slog.WarnLevel).SetColorMode(round < 2)
		slog.VerifSetDebugMode(round%2 != 0)
		rec.take()
		l.Debug("a debug call after the debug mode changed", "round", round)
		w := rec.take()
		want := 0
		if round%2 != 0 {
			want = 1
		}
		r.seen(fmt.Sprintf("debug-flip|%d", round))
		if len(w) != want {
			r.violate(violation{What: "a Debug call on a Warn-level logger is not judged by the debug mode in force at the call",
				Input:    map[string]any{"debug_mode_when_the_level_was_set": round%2 == 0, "debug_mode_at_the_call": round%2 != 0, "logger_level": "warning"},
				Expected: fmt.Sprintf("%d Write(s)", want), Actual: fmt.Sprintf("%d Write(s)", len(w))})
		}
	}
	slog.VerifSetDebugMode(false)
	slog.VerifResetGlobals()
}

func runC02(r *run) {
	r.rule = "sequences of 10 verb calls (22 entry points of 3 loggers / the package functions, all logger levels incl. Off and Always, custom severities) with free-form argument lists (pairs with values of every kind, Attr, []Attr, Attrs, Group(...) with free-form members, nil, dangling keys, non-strings and empty strings in key position, Println with a non-string first argument), any message bytes incl. white-space-only; distinct = distinct (format, verb, admitted, argument shapes, message class); non-trivial = calls with at least one argument or a blank message"
	rounds := 300
	if r.tier == "thorough" {
		rounds = 6000
	}
	c02Body(r, rounds, false)
	// destinations handed from logger to logger as lists (GetWriter / GetWriterBy → SetWriter …), then Add / Remove on
	// either side: every logger still delivers each record exactly once to each of its own destinations
	c10WriterIsolation(r, &rng{s: r.seed*7907 + 2})
	c02WriterOrder(r)
	// calls that overlap on one logger, destinations that misbehave next to healthy ones, several custom severities
	// registered for the error device
	overlapDelivery(r.violate)
	flakyNeighbour(r.violate)
	customErrorDevices(r.violate)
	nilContextWithKeys(r.violate)
	discardPlusLevelWriter(r.violate)
	returnedListIsACopy(r.violate)
	// processes started without HOME, with DEBUG=1, in another locale: calls return and deliver once
	envProbe(r, false, "oneline", "-HOME")
	envProbe(r, true, "oneline", "-HOME", "DEBUG=1")
	// the same delivery oracles in go-test mode (the error dump after a record is active only there):
	// the twin binary harness.test, oracle-only
	if exe := os.Getenv("VERIF_HARNESS"); exe != "" {
		if err := r.mergeChild(exec.Command(exe+".test", "-test.v", "c02test", fmt.Sprint(r.seed), r.tier)); err != nil {
			r.violate(violation{What: "the go-test-mode twin of the harness failed: " + err.Error()})
		}
	} else {
		r.violate(violation{What: "VERIF_HARNESS is not set: the go-test-mode sweep cannot be run"})
	}
	slog.VerifResetGlobals()
}

// c02test <seed> <tier>: the open stream only, in go-test mode
func c02Test(a []string) {
	seed, tier := uint64(1), "quick"
	if len(a) >= 2 {
		fmt.Sscan(a[0], &seed)
		tier = a[1]
	}
	dir, err := os.MkdirTemp("", "c02test")
	must(err)
	defer os.RemoveAll(dir)
	r := newRun("C02", seed+7919, tier, dir)
	if !slog.VerifInTesting() {
		r.violate(violation{What: "harness: the twin is not in go-test mode"})
	}
	rounds := 150
	if tier == "thorough" {
		rounds = 2000
	}
	c02Body(r, rounds, true)
	r.reportAsChild()
}

// c02Body: openOnly = every round is an open-stream round (oracles only, no protocol lines)
func c02Body(r *run, rounds int, openOnly bool) {
	g := &rng{s: r.seed*1000003 + 2}
	for round := 0; round < rounds; round++ {
		open := openOnly || round%4 == 3 // the open stream: oracles only
		slog.VerifResetGlobals()
		r.emit("C17 reset", "ok")
		for _, v := range []int{33, 57} {
			// the custom severities of the round: unregistered, or registered with no / one / two colors
			how := g.intn(4)
			if how == 0 {
				continue
			}
			title := fmt.Sprintf("C2L%d", v)
			clr, bg := -1, -1
			var opts []slog.RegOpt
			switch how {
			case 2:
				clr = 31 + g.intn(6)
				opts = append(opts, slog.RegWithColor(color.Color(clr)))
			case 3:
				clr, bg = 31+g.intn(6), 1+g.intn(5)
				opts = append(opts, slog.RegWithColor(color.Color(clr), color.Color(bg)))
			}
			if err := slog.RegisterLevel(slog.Level(v), title, opts...); err != nil {
				r.violate(violation{What: "harness: registration refused", Actual: err.Error()})
			}
			r.emit(fmt.Sprintf("C17 reg %d %s x x x x x x %d %d 12 0", v, hxs(title), clr, bg), "ok")
		}
		flags := slog.LstdFlags &^ slog.Lcaller
		if open {
			flags = slog.Flags(g.next()) & (slog.Ldate | slog.Ltime | slog.Lmicroseconds | slog.LlocalTime | slog.Lattrs | slog.LattrsR | slog.Llineno |
				slog.Lcaller | slog.Lcallerpackagename | slog.Lprivacypath | slog.Lprivacypathregexp | slog.LsmartJSONMode | slog.LnoInterrupt)
		}
		slog.SetFlags(flags)
		tagW, minW := 1+g.intn(5), 16+g.intn(40)
		slog.SetLevelOutputWidth(tagW)
		slog.SetMessageMinimalWidth(minW)
		if g.chance(1, 3) {
			// values outside the documented ranges are refused and leave the configured widths in place
			slog.SetLevelOutputWidth([]int{0, -1, 6, 100}[g.intn(4)])
			slog.SetMessageMinimalWidth([]int{15, 0, -3}[g.intn(3)])
		}
		pkgIdx := g.intn(5) // 3, 4: no default logger in this round
		var loggers []*c02Logger
		for i, f := range []string{"j", "l", "c"} {
			loggers = append(loggers, g.c02NewLogger(f, i+1, i == pkgIdx))
		}
		for call := 0; call < 10; call++ {
			lg := loggers[g.intn(3)]
			verb := c02Verbs[g.intn(len(c02Verbs))]
			sev, arg := verb.sev, 0
			if sev == -100 {
				arg = c02ArgLevels[g.intn(len(c02ArgLevels))]
				sev = arg
			}
			msg := strings.NewReplacer("<", "(", "&", "+").Replace(g.encMessage(true, false))
			msgClass := "text"
			if g.chance(1, 5) {
				msg = c02Blank[g.intn(len(c02Blank))]
				msgClass = "blank"
			} else if strings.Contains(msg, "\n") {
				msgClass = "multiline"
			}
			args := g.genArgs(g.intn(6), 2, open)
			println, sprint := "0", ""
			var first garg
			if strings.HasPrefix(verb.name, "Println") && !strings.HasSuffix(verb.name, "Context") {
				println = "1"
				// Println(args...): the first argument is the message
				switch g.intn(4) {
				case 0:
					args, msg = nil, "" // Println()
				case 1:
					first = g.genValueArg()
					if first.kind == "val" {
						sprint = fmt.Sprint(first.v.goVal)
						sprint = strings.NewReplacer("<", "(", "&", "+").Replace(sprint)
						if sprint != fmt.Sprint(first.v.goVal) {
							first = garg{kind: "str", s: sprint}
						}
					}
					if first.kind == "str" {
						first.s = strings.NewReplacer("<", "(", "&", "+").Replace(first.s)
					}
					args = append([]garg{first}, args...)
				default:
					args = append([]garg{{kind: "str", s: msg}}, args...)
				}
			}
			shapes := map[string]bool{}
			for _, a := range args {
				shapes[a.kind] = true
			}
			var sh []string
			for _, k := range []string{"str", "val", "attr", "attrs", "group", "attrval"} {
				if shapes[k] {
					sh = append(sh, k)
				}
			}
			// the call
			goA := goArgs(args)
			var eps map[string]epCall = loggerEPs
			if lg.pkg {
				eps = pkgEPs
			}
			panicked := ""
			func() {
				defer func() {
					if p := recover(); p != nil {
						panicked = fmt.Sprint(p)
					}
				}()
				if println == "1" {
					if lg.pkg {
						slog.Println(goA...)
					} else {
						lg.l.Println(goA...)
					}
				} else {
					ep, ok := eps[verb.name]
					if !ok {
						ep = loggerEPs[verb.name] // no package function of that name: the method of the default logger
					}
					ep(lg.l, context.Background(), arg, 1, msg, goA)
				}
			}()
			evs := lg.log.take()
			var stray []string
			for _, o := range loggers {
				if o != lg {
					for _, e := range o.log.take() {
						stray = append(stray, fmt.Sprint(e.id))
					}
				}
			}
			desc := map[string]any{"format": lg.format, "logger_level": lg.level, "verb": verb.name, "level_argument": arg, "severity": sev,
				"message": fmt.Sprintf("%q", msg), "args": strings.Join(argTokens(args), " "), "writers": lg.wspec, "package_function": lg.pkg,
				"flags": int64(flags), "call_index": call, "debug_mode": is.DebugMode()}
			var ids []string
			same := true
			for _, e := range evs {
				ids = append(ids, fmt.Sprint(e.id))
				if string(e.payload) != string(evs[0].payload) {
					same = false
				}
			}
			obs := "-"
			if len(evs) > 0 {
				obs = strings.Join(ids, ",") + " " + hx(evs[0].payload)
				if !same {
					obs = "payloads-differ"
				}
			}
			// oracles
			switch {
			case panicked != "":
				r.violate(violation{What: "a log call of non-terminating severity panicked", Input: desc, Actual: panicked, Expected: "the call returns normally"})
				obs = "panic"
			case len(stray) > 0:
				r.violate(violation{What: "a call wrote to a destination of another logger", Input: desc, Actual: strings.Join(stray, ",")})
			case !same:
				r.violate(violation{What: "the destinations of one call received different payloads", Input: desc})
			}
			for _, e := range evs {
				if len(e.payload) == 0 || e.payload[len(e.payload)-1] != '\n' {
					r.violate(violation{What: "a Write payload does not end with a newline", Input: desc, Actual: fmt.Sprintf("%q", e.payload)})
					break
				}
			}
			if lg.level == 7 && len(evs) > 0 {
				r.violate(violation{What: "a logger at Off wrote a record", Input: desc, Actual: obs, Expected: "no Write at all"})
			}
			// the destinations selected (statement of C03) when the call is admitted by the plain order of the built-in severities
			if sev >= 2 && sev <= 6 && lg.level >= 0 && lg.level <= 6 && panicked == "" && !is.DebugMode() {
				want := []int{}
				if sev <= lg.level {
					want = lg.normal
					if sev <= 3 {
						want = lg.errorW
					}
					if lw, ok := lg.leveled[sev]; ok && len(lw) > 0 {
						want = lw
					}
				}
				if idsText(want) != idsTextS(ids) {
					what := "the selected destinations did not each receive exactly one Write"
					if len(want) == 0 {
						what = "a call that is not admitted wrote to a destination"
					}
					r.violate(violation{What: what, Input: desc, Expected: "Writes to " + idsText(want), Actual: "Writes to " + idsTextS(ids)})
				}
			}
			if sev == 8 && strings.Trim(msg, "\n\r \t") == "" && println == "0" || (println == "1" && len(args) == 0) {
				for _, e := range evs {
					if string(e.payload) != "\n" {
						r.violate(violation{What: "a blank Print/Println was not delivered as exactly one newline byte", Input: desc, Actual: fmt.Sprintf("%q", e.payload)})
						break
					}
				}
			}
			admitted := len(evs) > 0
			r.seen(fmt.Sprintf("%s|%s|%v|%s|%s", lg.format, verb.name, admitted, strings.Join(sh, "+"), msgClass))
			r.count("verb=" + verb.name)
			r.count(fmt.Sprintf("admitted=%v", admitted))
			if open {
				r.count("stream=open")
				continue
			}
			r.count("stream=modelled")
			line := fmt.Sprintf("C02 %s %d %d %s %s %s %s %d %d %s %s %s LA %s AR %s", lg.format, lg.level, sev, b01(is.DebugMode()), hxs("@"), hxs(lg.name), hxs(msg), tagW, minW,
				lg.wspec, println, hxs(sprint), strings.Join(attrsTokens(lg.attrs), " "), strings.Join(argTokens(args), " "))
			r.emit(strings.Join(strings.Fields(line), " "), obs)
			if round < 2 && call < 2 {
				r.sample(desc)
			}
		}
	}
	slog.VerifResetGlobals()
}
