/-
  Logg.Model.Duration — C20: the short duration formatter (compact and fractional style) and
  the duration parser of slog/internal/times, over natural numbers.

  The formatter writes right to left into a fixed array of `cap` bytes; running out of room
  is an index panic. All its arithmetic is on `uint64` values below 2^64 without wrap-around
  (|d| ≤ 2^63), so `Nat` is exact. The parser guards every multiplication with an overflow test
  before it can wrap; the one addition that can reach 2^64 (`d += v` with both 2^63) is modelled
  modulo 2^64 (found by the thorough tier: "9223372036854775808ns9223372036854775808ns" parses to 0
  in this package and in time.ParseDuration alike). Its one float64 expression is the parameter `fmul`.
-/
import Logg.Model.Basic

namespace Logg

def nsPerUs : Nat := 1000
def nsPerMs : Nat := 1000000
def nsPerS : Nat := 1000000000
def nsPerMin : Nat := 60 * nsPerS
def nsPerHour : Nat := 60 * nsPerMin
def nsPerDay : Nat := 24 * nsPerHour

def fmtInt (v : Nat) : Bytes := decDigits (v + 1) v

/-- `fmtFrac`: the `prec` low decimal digits of v without trailing zeros, preceded by '.' if any. -/
def fracDigits : (prec : Nat) → Nat → Bool → Bytes
  | 0, _, _ => []
  | p + 1, v, printed =>
    let digit := v % 10
    let printed' := printed || digit != 0
    fracDigits p (v / 10) printed' ++ (if printed' then [(48 + digit).toUInt8] else [])

def fmtFrac (v prec : Nat) : Bytes × Nat :=
  let ds := fracDigits prec v false
  (if ds.isEmpty then [] else 46 :: ds, v / 10 ^ prec)

def microSign : Bytes := [0xC2, 0xB5]

/-- durations below one second: "0s", "12ns", "1.5µs", "1.2ms" -/
def fmtSubSecond (u : Nat) : Bytes :=
  if u = 0 then ([48, 115] : Bytes)
  else if u < nsPerUs then fmtInt u ++ ([110, 115] : Bytes)
  else if u < nsPerMs then let (f, i) := fmtFrac u 3; fmtInt i ++ f ++ microSign ++ ([115] : Bytes)
  else let (f, i) := fmtFrac u 6; fmtInt i ++ f ++ ([109, 115] : Bytes)

def field (v : Nat) (suffix : Bytes) : Bytes := if v > 0 then fmtInt v ++ suffix else []

/-- compact style for u ≥ 1s: 3d1h4m5s6ms7µs8ns, zero fields omitted -/
def fmtCompact (u : Nat) : Bytes :=
  let days := u / nsPerDay
  let u := u % nsPerDay
  let hours := u / nsPerHour
  let u := u % nsPerHour
  let minutes := u / nsPerMin
  let u := u % nsPerMin
  let seconds := u / nsPerS
  let u := u % nsPerS
  let ms := u / nsPerMs
  let u := u % nsPerMs
  let us := u / nsPerUs
  let ns := u % nsPerUs
  field days ([100] : Bytes) ++ field hours ([104] : Bytes) ++ field minutes ([109] : Bytes) ++ field seconds ([115] : Bytes) ++
    field ms ([109, 115] : Bytes) ++ field us (microSign ++ ([115] : Bytes)) ++ field ns ([110, 115] : Bytes)

/-- fractional style for u ≥ 1s: 2540400h10m10.000000001s -/
def fmtFractional (u : Nat) : Bytes :=
  let (f, secs) := fmtFrac u 9
  let s := fmtInt (secs % 60) ++ f ++ ([115] : Bytes)
  let mins := secs / 60
  if mins > 0 then
    let m := fmtInt (mins % 60) ++ ([109] : Bytes)
    let hours := mins / 60
    if hours > 0 then fmtInt hours ++ ([104] : Bytes) ++ m ++ s else m ++ s
  else s

/-- the text `shortDur` would produce given unlimited room -/
def durText (d : Int) (frac : Bool) : Bytes :=
  let u := d.natAbs
  let body := if u < nsPerS then fmtSubSecond u else if frac then fmtFractional u else fmtCompact u
  if d < 0 then 45 :: body else body

/-- `shortDur` with its fixed array of `cap` bytes: `none` = index out of range panic. -/
def shortDur (cap : Nat) (d : Int) (frac : Bool) : Option Bytes :=
  let t := durText d frac
  if t.length ≤ cap then some t else none

/-! ### the parser -/

def two63 : Nat := 2 ^ 63

/-- `leadingInt`: (value, rest) or overflow -/
def leadingInt : Bytes → Nat → Option (Nat × Bytes)
  | [], x => some (x, [])
  | c :: rest, x =>
    if c < 48 || c > 57 then some (x, c :: rest)
    else if x > two63 / 10 then none
    else
      let x' := x * 10 + (c.toNat - 48)
      if x' > two63 then none else leadingInt rest x'

/-- `leadingFraction`: (value, number of digits kept in scale, rest) -/
def leadingFraction : Bytes → Nat → Nat → Bool → Nat × Nat × Bytes
  | [], x, k, _ => (x, k, [])
  | c :: rest, x, k, overflow =>
    if c < 48 || c > 57 then (x, k, c :: rest)
    else if overflow then leadingFraction rest x k true
    else if x > (two63 - 1) / 10 then leadingFraction rest x k true
    else
      let y := x * 10 + (c.toNat - 48)
      if y > two63 then leadingFraction rest x k true else leadingFraction rest y (k + 1) false

inductive DurErr where
  | invalid | missingUnit | unknownUnit (u : Bytes)
  deriving Repr, DecidableEq

def unitSpan : Bytes → Bytes × Bytes
  | [] => ([], [])
  | c :: rest => if c == 46 || (48 ≤ c && c ≤ 57) then ([], c :: rest) else let (u, r) := unitSpan rest; (c :: u, r)

/-- the optional fraction after the whole number: (value, digits kept, rest, "a digit was consumed") -/
def fracPart (s1 : Bytes) : Nat × Nat × Bytes × Bool :=
  match s1 with
  | 46 :: s1' => let (f, k, s2) := leadingFraction s1' 0 0 false; (f, k, s2, s2.length != s1'.length)
  | _ => (0, 0, s1, false)

/-- the lexical half of one round: whole number, fraction value and digit count, unit text, rest -/
def roundScan (s : Bytes) : Except DurErr (Nat × Nat × Nat × Bytes × Bytes) :=
  match s with
  | [] => .error .invalid
  | c :: _ =>
    if !(c == 46 || (48 ≤ c && c ≤ 57)) then .error .invalid
    else
      match leadingInt s 0 with
      | none => .error .invalid
      | some (v, s1) =>
        let pre := s1.length != s.length
        let (f, k, s2, post) := fracPart s1
        if !pre && !post then .error .invalid
        else
          let (u, s3) := unitSpan s2
          if u.isEmpty then .error .missingUnit else .ok (v, f, k, u, s3)

/-- the arithmetic half, once the unit is known -/
def unitApply (fmul : Nat → Nat → Nat → Nat) (unit v f k d : Nat) : Except DurErr Nat :=
  if v > two63 / unit then .error .invalid
  else
    let v := v * unit
    let v := if f > 0 then v + fmul f unit k else v
    if f > 0 && v > two63 then .error .invalid
    else
      -- uint64 addition: d ≤ 2^63 and v ≤ 2^63, so the sum wraps exactly when both are 2^63
      -- (then it is 0 and passes the test below; time.ParseDuration does the same)
      let d := (d + v) % 2 ^ 64
      if d > two63 then .error .invalid else .ok d

/-- one round of the loop of `ParseDuration`: a number, an optional fraction, a unit; the rest of
    the input and the new sum, or the error -/
def parseRound (units : List (Bytes × Nat)) (fmul : Nat → Nat → Nat → Nat) (s : Bytes) (d : Nat) :
    Except DurErr (Bytes × Nat) :=
  match roundScan s with
  | .error e => .error e
  | .ok (v, f, k, u, s3) =>
    match units.lookup u with
    | none => .error (.unknownUnit u)
    | some unit =>
      match unitApply fmul unit v f k d with
      | .error e => .error e
      | .ok d' => .ok (s3, d')

/-- the loop of `ParseDuration` (fuel = input length: each round consumes at least one byte) -/
def parseLoop (units : List (Bytes × Nat)) (fmul : Nat → Nat → Nat → Nat) :
    (fuel : Nat) → Bytes → Nat → Except DurErr Nat
  | 0, s, d => if s.isEmpty then .ok d else .error .invalid
  | fuel + 1, s, d =>
    if s.isEmpty then .ok d
    else
      match parseRound units fmul s d with
      | .error e => .error e
      | .ok (s3, d') => parseLoop units fmul fuel s3 d'

/-- the optional sign -/
def signSplit (s : Bytes) : Bool × Bytes :=
  match s with
  | 45 :: r => (true, r)
  | 43 :: r => (false, r)
  | _ => (false, s)

/-- `ParseDuration` -/
def parseDuration (units : List (Bytes × Nat)) (fmul : Nat → Nat → Nat → Nat) (s : Bytes) : Except DurErr Int :=
  let (neg, s1) := signSplit s
  if s1 == [48] then .ok 0
  else if s1.isEmpty then .error .invalid
  else
    match parseLoop units fmul s1.length s1 0 with
    | .error e => .error e
    | .ok d =>
      if neg then .ok (-(d : Int))
      else if d > two63 - 1 then .error .invalid else .ok d

/-- time.ParseDuration's table: the same without the day -/
def stdUnitsOf (units : List (Bytes × Nat)) : List (Bytes × Nat) := units.filter fun p => p.1 != [100]

/-- exact value of `float64(f) * (float64(unit) / 10^k)` when it is exact (10^k divides unit) -/
def fmulExact (f unit k : Nat) : Nat := f * (unit / 10 ^ k)

end Logg
