/-
  Logg.Model.Basic — shared vocabulary of the executable model (core Lean only).

  Text is bytes: Go strings may hold invalid UTF-8, Lean `String` cannot, so every
  text of the model is a `List UInt8`.  Go maps are association lists.
-/
namespace Logg

abbrev Bytes := List UInt8

/-- ASCII bytes of a Lean string literal (used for the fixed field names and tables). -/
def b (s : String) : Bytes := s.toUTF8.toList

/-! ### hex transport used by the line protocol (`x` ++ lower-case hex; `x` alone = empty) -/

def hexNibble (n : UInt8) : Char :=
  if n < 10 then Char.ofNat (48 + n.toNat) else Char.ofNat (87 + n.toNat)

def toHex (bs : Bytes) : String :=
  String.ofList ('x' :: bs.flatMap fun c => [hexNibble (c >>> (4 : UInt8)), hexNibble (c &&& (15 : UInt8))])

def nibbleOf (c : Char) : Option UInt8 :=
  if '0' ≤ c ∧ c ≤ '9' then some (c.toNat - 48).toUInt8
  else if 'a' ≤ c ∧ c ≤ 'f' then some (c.toNat - 87).toUInt8
  else none

def ofHexChars : List Char → Option Bytes
  | [] => some []
  | [_] => none
  | h :: l :: rest => do
      let hi ← nibbleOf h
      let lo ← nibbleOf l
      let tl ← ofHexChars rest
      pure (((hi <<< (4 : UInt8)) ||| lo) :: tl)

def ofHex (s : String) : Option Bytes :=
  match s.toList with
  | 'x' :: rest => ofHexChars rest
  | _ => none

/-- decimal digits, most significant first (0 is "0"); structural on the fuel so that the kernel
    can compute and reason about it -/
def decDigits : (fuel : Nat) → Nat → Bytes
  | 0, _ => []
  | f + 1, v => if v < 10 then [(48 + v).toUInt8] else decDigits f (v / 10) ++ [(48 + v % 10).toUInt8]

/-- decimal rendering of an integer as bytes (Go `strconv.AppendInt(_, v, 10)`). -/
def natDigits (n : Nat) : Bytes := decDigits (n + 1) n

def intDigits (i : Int) : Bytes :=
  if i < 0 then 45 :: natDigits i.natAbs else natDigits i.toNat

/-! ### association lists standing for Go maps -/

/-- `m[k] = v` on a Go map: replace the binding if present, else add it. -/
def assocSet {α β} [BEq α] (m : List (α × β)) (k : α) (v : β) : List (α × β) :=
  match m with
  | [] => [(k, v)]
  | (k', v') :: t => if k' == k then (k, v) :: t else (k', v') :: assocSet t k v

def assocDel {α β} [BEq α] (m : List (α × β)) (k : α) : List (α × β) :=
  m.filter (fun p => !(p.1 == k))

def boolStr (b : Bool) : String := if b then "1" else "0"

def parseBool (s : String) : Option Bool :=
  if s == "1" then some true else if s == "0" then some false else none

end Logg
