/-
  Logg.Model.JsonRead — a reader for one JSON object line (the consumer's side of C04), at the level
  the property speaks about: the members of an object, as (key literal, value text).
  Strings are scanned with their escapes; brackets and braces nest.
-/
import Logg.Model.Logfmt

namespace Logg

/-- scanner state: string state and nesting depth of `[` / `{` -/
abbrev JSt := QSt × Nat

/-- one byte; `none` = a closing bracket without an opening one -/
def jStep (s : JSt) (c : UInt8) : Option JSt :=
  match s.1 with
  | .out =>
    if c == 34 then some (.inq, s.2)
    else if c == 123 || c == 91 then some (.out, s.2 + 1)
    else if c == 125 || c == 93 then (if s.2 = 0 then none else some (.out, s.2 - 1))
    else some s
  | .inq => if c == 92 then some (.esc, s.2) else if c == 34 then some (.out, s.2) else some s
  | .esc => some (.inq, s.2)

/-- split at the byte `sep` wherever it occurs outside strings at depth 0; `none` on unbalanced input -/
def splitTopFrom (sep : UInt8) : JSt → Bytes → Bytes → Option (List Bytes)
  | s, cur, [] => if s = (.out, 0) then some [cur] else none
  | s, cur, c :: rest =>
    if s = (.out, 0) ∧ c = sep then (splitTopFrom sep (.out, 0) [] rest).map (cur :: ·)
    else match jStep s c with
      | none => none
      | some s' => splitTopFrom sep s' (cur ++ [c]) rest

/-- split at the first `sep` outside strings at depth 0 -/
def splitFirstFrom (sep : UInt8) : JSt → Bytes → Bytes → Option (Bytes × Bytes)
  | _, _, [] => none
  | s, cur, c :: rest =>
    if s = (.out, 0) ∧ c = sep then some (cur, rest)
    else match jStep s c with
      | none => none
      | some s' => splitFirstFrom sep s' (cur ++ [c]) rest

/-- a member: key literal and value text -/
def splitMember (m : Bytes) : Option (Bytes × Bytes) := splitFirstFrom 58 (.out, 0) [] m

/-- the members of an object text `{…}` -/
def jsonMembers (obj : Bytes) : Option (List (Bytes × Bytes)) :=
  match obj with
  | 123 :: rest =>
    match rest.reverse with
    | 125 :: innerRev =>
      let inner := innerRev.reverse
      if inner.isEmpty then some []
      else (splitTopFrom 44 (.out, 0) [] inner).bind fun ms => ms.mapM splitMember
    | _ => none
  | _ => none

end Logg
