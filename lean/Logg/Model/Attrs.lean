/-
  Logg.Model.Attrs — C07 / C02: how the attributes of a record are assembled (context keys,
  ancestors, the logger's own, the call's arguments), de-duplicated and ordered.
-/
import Logg.Model.Level
import Logg.Gen.Decisions

namespace Logg

/-- byte-wise lexicographic `≤` on keys (Go's string comparison) -/
def bytesLe : Bytes → Bytes → Bool
  | [], _ => true
  | _ :: _, [] => false
  | a :: as, c :: cs => if a < c then true else if a == c then bytesLe as cs else false

/-- A top-level attribute as C07 sees it: a key and an opaque value identity. -/
structure KV where
  key : Bytes
  vid : Nat
  deriving Repr, DecidableEq, BEq

def kvLe (a c : KV) : Bool := bytesLe a.key c.key

/-- `dedupeSlice` on a slice sorted by key: of each run of equal keys the last element stays. -/
def dedupeLast : List KV → List KV
  | [] => []
  | [a] => [a]
  | a :: c :: rest => if a.key == c.key then dedupeLast (c :: rest) else a :: dedupeLast (c :: rest)

/-- `serializeAttrs`' preparation: stable sort by key, then collapse runs of equal keys. -/
def emitAttrs (xs : List KV) : List KV := dedupeLast (xs.mergeSort kvLe)

/-- The logger chain, innermost first: own attributes of the logger, of its parent, … -/
abbrev Chain := List (List KV)

/-- `walkParentAttrs` with the regenerated guards. -/
def walkParents (g : Globals) : Chain → List KV
  | [] => []
  | own :: ancestors =>
    if Gen.walkSkips g own.length then []
    else (if Gen.walkRecurses g then walkParents g ancestors else []) ++ own

/-- `collectArgs` with the regenerated guards. -/
def collect (g : Globals) (nCtxKeys : Nat) (fromCtx : List KV) (chain : Chain) (args : List KV) : List KV :=
  (if Gen.collectFromCtx nCtxKeys then fromCtx else []) ++
  (if Gen.collectWalks g (chain.headD []).length then walkParents g chain else []) ++
  (if Gen.collectArgsGuard args.length then args else [])

namespace Fl
def attrsR : Nat := 32
end Fl

/-- The statement: context values, then ancestors outermost first iff the inherit flag is on,
    then the logger's own, then the call's arguments. -/
def assembleSpec (inherit : Bool) (fromCtx : List KV) (chain : Chain) (args : List KV) : List KV :=
  fromCtx ++ (if inherit then chain.reverse.flatten else chain.headD []) ++ args

end Logg
