/-
  Logg.Model.Registry — C17: the global level registry (seven tables) and the name / tag /
  marshalling functions over it.
-/
import Logg.Model.Level

namespace Logg

structure Registry where
  allLevels : List Int
  levelToString : List (Int × Bytes)
  stringToLevel : List (Bytes × Int)
  shortTags : List (Nat × List (Int × Bytes))
  treatAs : List (Int × Int)
  errorDevice : List (Int × Bool)
  colors : List (Int × List Int)
  deriving Repr

/-- The options of RegisterLevel (`regPack`). -/
structure RegPack where
  shortTags : List Bytes := []      -- index 0 … 5, "" = not given
  clr : Int := -1
  bg : Int := -1
  treatAs : Int := Lv.max
  toErr : Bool := false
  deriving Repr

def maxLengthShortTag : Nat := 6

def setShortTags (tags : List (Nat × List (Int × Bytes))) (v : Int) (given : List Bytes) :
    List (Nat × List (Int × Bytes)) :=
  tags.map fun (n, row) =>
    match given[n]? with
    | some t => if n < maxLengthShortTag && !t.isEmpty then (n, assocSet row v t) else (n, row)
    | none => (n, row)

/-- `RegisterLevel`: `none` = refused (nothing is touched). -/
def Registry.register (r : Registry) (v : Int) (title : Bytes) (p : RegPack) : Option Registry :=
  if r.allLevels.contains v then none
  else if (r.stringToLevel.lookup title).isSome then none
  else some {
    allLevels := r.allLevels ++ [v]
    levelToString := assocSet r.levelToString v title
    stringToLevel := assocSet r.stringToLevel title v
    shortTags := setShortTags r.shortTags v p.shortTags
    colors := if p.clr != -1 then assocSet r.colors v (if p.bg != -1 then [p.clr, p.bg] else [p.clr]) else r.colors
    treatAs := if p.treatAs < Lv.max then assocSet r.treatAs v p.treatAs else r.treatAs
    errorDevice := if p.toErr then assocSet r.errorDevice v true else r.errorDevice }

/-- `SetLevelColors(lvl, fg, bg)`: the pair is stored as given (-1 = no color), for any level -/
def Registry.setColors (r : Registry) (l fg bg : Int) : Registry :=
  { r with colors := assocSet r.colors l [fg, bg] }

/-- `Level.String()` -/
def Registry.name (r : Registry) (l : Int) : Bytes :=
  match r.levelToString.lookup l with
  | some s => s
  | none => b "L#" ++ intDigits l

def asciiLower (s : Bytes) : Bytes := s.map fun c => if 65 ≤ c && c ≤ 90 then c + 32 else c

/-- `ParseLevel`: the title verbatim, else lower-cased. -/
def Registry.parse (r : Registry) (s : Bytes) : Option Int :=
  match r.stringToLevel.lookup s with
  | some l => some l
  | none => r.stringToLevel.lookup (asciiLower s)

/-- `MarshalText` -/
def Registry.marshalText (r : Registry) (l : Int) : Option Bytes := r.levelToString.lookup l

/-- `UnmarshalText` -/
def Registry.unmarshalText (r : Registry) (s : Bytes) : Option Int := r.parse s

/-- `MarshalJSON` = `%q` of the text; `UnmarshalJSON` unquotes if it can, else takes the text as is.
    `q` / `uq` are the quoting function and its partial inverse. -/
def Registry.marshalJSON (r : Registry) (q : Bytes → Bytes) (l : Int) : Option Bytes := (r.marshalText l).map q

def Registry.unmarshalJSON (r : Registry) (uq : Bytes → Option Bytes) (s : Bytes) : Option Int :=
  match uq s with
  | some t => r.unmarshalText t
  | none => r.unmarshalText s

/-- `Level.ShortTag(n)`: `none` = the documented panic (n outside 1 … 5). -/
def Registry.shortTag (r : Registry) (l : Int) (n : Int) : Option Bytes :=
  if n ≤ 0 ∨ n ≥ maxLengthShortTag then none
  else
    let n := n.toNat
    match (r.shortTags.lookup n).bind (fun row => row.lookup l) with
    | some t => some t
    | none =>
      let t := r.name l
      if t.length > 0 then
        if t.length = n then some t
        else if t.length < n then some ((t ++ List.replicate n 32).take n)
        else some (t.take n)
      else some (List.replicate n 63)

def Registry.hasCustomTag (r : Registry) (l : Int) (n : Nat) : Bool :=
  ((r.shortTags.lookup n).bind (fun row => row.lookup l)).isSome

end Logg
