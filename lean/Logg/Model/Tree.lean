/-
  Logg.Model.Tree — C10: the logger hierarchy as a growing array of nodes.
-/
import Logg.Model.Writers
import Logg.Model.Format
import Logg.Gen.Decisions

namespace Logg

structure Node where
  name : Bytes
  parent : Option Nat
  children : List (Bytes × Nat)     -- the per-parent name index (`items`): key ↦ node id
  level : Int
  bits : ModeBits                   -- (useJSON, useColor)
  modeUTC : Int := 0
  layout : String := ""
  attrs : List Nat := []            -- identities of the logger's own attributes
  skip : Int := 0
  ctxKeys : List Nat := []
  cfg : WriterCfg := none
  deriving Repr, DecidableEq

abbrev Tree := List Node

/-- What a Set… call changes on the receiver (and what an option of New / a With… applies to a
    fresh child). -/
inductive Setting where
  | level (l : Int)
  | json (bs : List Bool)
  | color (bs : List Bool)
  | utc (bs : List Bool)
  | timeFormat (ls : List String)
  | attrs (ids : List Nat)
  | skip (n : Int)
  | ctxKeys (ks : List Nat)
  | resetCtxKeys
  | writer (op : WriterOp)
  deriving Repr

def applySetting (n : Node) : Setting → Node
  | .level l => { n with level := l }
  | .json bs => { n with bits := Gen.setJSONMode n.bits.1 n.bits.2 bs }
  | .color bs => { n with bits := Gen.setColorMode n.bits.1 n.bits.2 bs }
  | .utc bs => { n with modeUTC := Gen.setUTCMode n.modeUTC bs }
  | .timeFormat ls => { n with layout := Gen.setTimeFormat n.layout ls }
  | .attrs ids => { n with attrs := n.attrs ++ ids }
  | .skip k => { n with skip := k }
  | .ctxKeys ks => { n with ctxKeys := n.ctxKeys ++ ks }
  | .resetCtxKeys => { n with ctxKeys := [] }
  | .writer op => { n with cfg := cfgStep n.cfg op }

/-- `newentry(parent, …)`: parent link, level and format copied, everything else fresh. -/
def freshChild (p : Node) (pid : Nat) (name : Bytes) : Node :=
  { name := name, parent := some pid, children := [], level := p.level, bits := p.bits }

/-- `newentry(nil, …)`: a detached logger: no parent, colored, the package's current level. -/
def freshRoot (name : Bytes) (lvlCurrent : Int) : Node :=
  { name := name, parent := none, children := [], level := lvlCurrent, bits := (false, true) }

inductive TreeOp where
  | set (i : Nat) (s : Setting)                                    -- Set… on logger i
  | newChild (p : Nat) (key name : Bytes) (opts : List Setting)     -- New(name, opts…) / With…: key in the parent's index
  | withSkip (p : Nat) (key : Bytes) (n : Int)                      -- WithSkip(n): child keyed c/<name>[n]
  | newRoot (name : Bytes) (lvlCurrent : Int) (opts : List Setting) -- package-level New
  deriving Repr

/-- One operation: the new tree and the logger the call returns. -/
def treeStep (t : Tree) : TreeOp → Tree × Option Nat
  | .set i s =>
    match t[i]? with
    | some n => (t.set i (applySetting n s), some i)
    | none => (t, none)
  | .newChild p key name opts =>
    match t[p]? with
    | none => (t, none)
    | some pn =>
      match pn.children.lookup key with
      | some c => (t, some c)                        -- the existing child, untouched
      | none =>
        let c := opts.foldl applySetting (freshChild pn p name)
        ((t.set p { pn with children := pn.children ++ [(key, t.length)] }) ++ [c], some t.length)
  | .withSkip p key n =>
    match t[p]? with
    | none => (t, none)
    | some pn =>
      match pn.children.lookup key with
      | some c =>
        match t[c]? with
        | some cn => (t.set c { cn with skip := n }, some c)
        | none => (t, some c)
      | none =>
        let c := { freshChild pn p key with skip := n }
        ((t.set p { pn with children := pn.children ++ [(key, t.length)] }) ++ [c], some t.length)
  | .newRoot name lvl opts => (t ++ [opts.foldl applySetting (freshRoot name lvl)], some t.length)

def treeRun (t : Tree) (ops : List TreeOp) : Tree := ops.foldl (fun t op => (treeStep t op).1) t

/-- `Root()`: follow parent links (fuel = number of nodes suffices in a well-formed tree). -/
def rootOf (t : Tree) : (fuel : Nat) → Nat → Nat
  | 0, i => i
  | fuel + 1, i =>
    match t[i]? with
    | some n => match n.parent with
      | some p => rootOf t fuel p
      | none => i
    | none => i

/-- `Each`: every logger of the subtree with its depth (children in index order). -/
def eachOf (t : Tree) : (fuel : Nat) → Nat → Nat → List (Nat × Nat)
  | 0, i, d => [(i, d)]
  | fuel + 1, i, d =>
    match t[i]? with
    | some n => (i, d) :: n.children.flatMap fun kc => eachOf t fuel kc.2 (d + 1)
    | none => [(i, d)]

/-- `Sublogger(name)`: depth-first, the receiver first (children in index order). -/
def subloggerOf (t : Tree) : (fuel : Nat) → Nat → Bytes → Option Nat
  | 0, i, nm => match t[i]? with
    | some n => if n.name == nm then some i else none
    | none => none
  | fuel + 1, i, nm =>
    match t[i]? with
    | some n => if n.name == nm then some i else n.children.findSome? fun kc => subloggerOf t fuel kc.2 nm
    | none => none

end Logg
