/-
  Logg.Model.Writers — C03 / C13: the per-logger writer configuration, severity routing and
  delivery (with failing destinations).
-/
import Logg.Model.Level

namespace Logg

/-- Writers are identified by number; 0 stands for a nil writer, `stdoutId` / `stderrId` for the
    package defaults. -/
abbrev Wid := Nat
def stdoutId : Wid := 1000
def stderrId : Wid := 1001

structure DualWriter where
  normal : List Wid
  error : List Wid
  leveled : List (Int × List Wid)
  deriving Repr, DecidableEq

/-- `newDualWriter()` / `Reset()`: the factory destinations. -/
def DualWriter.factory : DualWriter := { normal := [stdoutId], error := [stderrId], leveled := [] }

/-- remove the first occurrence -/
def eraseFirst (xs : List Wid) (w : Wid) : List Wid := xs.erase w

inductive WriterOp where
  | setWriter (w : Wid) | addWriter (w : Wid) | removeWriter (w : Wid)
  | setErrorWriter (w : Wid) | addErrorWriter (w : Wid) | removeErrorWriter (w : Wid)
  | addLevelWriter (lvl : Int) (w : Wid) | removeLevelWriter (lvl : Int) (w : Wid)
  | resetLevelWriter (lvl : Int) | resetLevelWriters | resetWriters
  deriving Repr

/-- The logger's writer field: `none` until the first configuring call. -/
abbrev WriterCfg := Option DualWriter

def ensure (c : WriterCfg) : DualWriter := c.getD DualWriter.factory

/-- One configuring call, as slog/entry.go and slog/writers.go perform it (nil writers are
    no-ops; most calls first create the writer set lazily). -/
def cfgStep (c : WriterCfg) : WriterOp → WriterCfg
  | .setWriter w => let d := ensure c; some (if w = 0 then d else { d with normal := [w] })
  | .addWriter w => let d := ensure c; some (if w = 0 then d else { d with normal := d.normal ++ [w] })
  | .removeWriter w => c.map fun d => if w = 0 then d else { d with normal := eraseFirst d.normal w }
  | .setErrorWriter w => let d := ensure c; some (if w = 0 then d else { d with error := [w] })
  | .addErrorWriter w => let d := ensure c; some (if w = 0 then d else { d with error := d.error ++ [w] })
  | .removeErrorWriter w => c.map fun d => if w = 0 then d else { d with error := eraseFirst d.error w }
  | .addLevelWriter lvl w =>
      let d := ensure c
      some (if w = 0 then d else { d with leveled := assocSet d.leveled lvl ((d.leveled.lookup lvl).getD [] ++ [w]) })
  | .removeLevelWriter lvl w =>
      let d := ensure c
      some (if w = 0 then d else
        match d.leveled.lookup lvl with
        | some ws => { d with leveled := assocSet d.leveled lvl (eraseFirst ws w) }
        | none => d)
  | .resetLevelWriter lvl => let d := ensure c; some { d with leveled := assocDel d.leveled lvl }
  | .resetLevelWriters => let d := ensure c; some { d with leveled := [] }
  | .resetWriters => some DualWriter.factory

def cfgRun (c : WriterCfg) (ops : List WriterOp) : WriterCfg := ops.foldl cfgStep c

/-- The routing of the statement: writers registered for exactly that severity take precedence,
    otherwise error-class severities go to the error writers and all others to the normal
    writers; Off goes nowhere; a logger never given writers uses the package defaults. -/
def routeSpec (g : Globals) (c : WriterCfg) (sev : Int) : List Wid :=
  let d := ensure c
  if sev = Lv.off then []
  else
    match d.leveled.lookup sev with
    | some (w :: ws) => w :: ws
    | _ => if (g.errorDevice.lookup sev).isSome then d.error else d.normal

/-- Events a destination sees. -/
inductive WEvent where
  | tell (w : Wid) (sev : Int)
  | write (w : Wid) (ok : Bool)
  deriving Repr, DecidableEq

/-- One `printOut`: every settable destination of the routed list is told the severity, then
    every destination gets one write attempt (LWs.Write visits all members whatever fails).
    `fails n` says whether the n-th write attempt (counted from `start`) fails. -/
def deliver (settable : Wid → Bool) (fails : Nat → Bool) (start : Nat) (dests : List Wid) (sev : Int) :
    List WEvent × Bool × Nat :=
  let tells := (dests.filter settable).map fun w => WEvent.tell w sev
  let attempts := dests.zipIdx.map fun (w, i) => WEvent.write w (!fails (start + i))
  let failed := (List.range dests.length).any fun i => fails (start + i)
  (tells ++ attempts, failed, start + dests.length)

end Logg
