/-
  Logg.Model.Path — C18: `checkpath` (slog/stack.go). The prefix table is a Go map: the model
  takes it as a list in the order the iteration happens to visit it; theorems quantify over all
  orders. Regexp rules are of two shapes the harness registers: a literal pattern (QuoteMeta) and
  the built-in `/Volumes/[^/]+/`. `filepath.Rel(cwd, file)` is an input (atom).
-/
import Logg.Model.Terminate

namespace Logg

namespace Fl
def privacyPath : Nat := 2 ^ 13
def privacyPathRegexp : Nat := 2 ^ 14
end Fl

def isPrefix : Bytes → Bytes → Bool
  | [], _ => true
  | _ :: _, [] => false
  | a :: as, c :: cs => a == c && isPrefix as cs

/-- `strings.ReplaceAll(s, old, new)` for non-empty `old`: leftmost, non-overlapping. -/
def replaceAll : (fuel : Nat) → Bytes → Bytes → Bytes → Bytes
  | 0, s, _, _ => s
  | _ + 1, [], _, _ => []
  | fuel + 1, c :: t, old, new =>
    if old.isEmpty then c :: t
    else if isPrefix old (c :: t) then new ++ replaceAll fuel ((c :: t).drop old.length) old new
    else c :: replaceAll fuel t old new

def replaceAllB (s old new : Bytes) : Bytes := replaceAll (s.length + 1) s old new

def containsSub : (fuel : Nat) → Bytes → Bytes → Bool
  | 0, _, p => p.isEmpty
  | fuel + 1, s, p => isPrefix p s || (match s with | [] => false | _ :: t => containsSub fuel t p)

inductive RxRule where
  | lit (pat repl : Bytes)      -- regexp.MustCompile(regexp.QuoteMeta(pat))
  | volumes (repl : Bytes)      -- `/Volumes/[^/]+/`
  deriving Repr

def volumesPrefix : Bytes := [47, 86, 111, 108, 117, 109, 101, 115, 47]   -- "/Volumes/"

/-- leftmost-longest match of `/Volumes/[^/]+/` at the head of s: length of the match -/
def volumesMatchAt (s : Bytes) : Option Nat :=
  if isPrefix volumesPrefix s then
    let rest := s.drop 9
    let seg := rest.takeWhile (· != 47)
    if seg.length > 0 && (rest.drop seg.length).head? == some 47 then some (9 + seg.length + 1) else none
  else none

def volumesReplace : (fuel : Nat) → Bytes → Bytes → Bytes
  | 0, s, _ => s
  | _ + 1, [], _ => []
  | fuel + 1, c :: t, repl =>
    match volumesMatchAt (c :: t) with
    | some n => repl ++ volumesReplace fuel ((c :: t).drop n) repl
    | none => c :: volumesReplace fuel t repl

def volumesMatches : (fuel : Nat) → Bytes → Bool
  | 0, _ => false
  | fuel + 1, s => (volumesMatchAt s).isSome || (match s with | [] => false | _ :: t => volumesMatches fuel t)

def RxRule.matches (r : RxRule) (s : Bytes) : Bool :=
  match r with
  | .lit pat _ => containsSub (s.length + 1) s pat
  | .volumes _ => volumesMatches (s.length + 1) s

def RxRule.apply (r : RxRule) (s : Bytes) : Bytes :=
  match r with
  | .lit pat repl => if pat.isEmpty then s else replaceAllB s pat repl
  | .volumes repl => volumesReplace (s.length + 1) s repl

/-- the loop over the prefix table, in visiting order -/
def applyTable (tbl : List (Bytes × Bytes)) (priv : Bytes) : Bytes :=
  tbl.foldl (fun p kv => if isPrefix kv.1 p then replaceAllB p kv.1 kv.2 else p) priv

def indexOf (s : Bytes) (c : UInt8) : Option Nat := s.findIdx? (· == c)

/-- the hardened path before the final relativisation -/
def privOf (flags : Nat) (tbl : List (Bytes × Bytes)) (rx : List RxRule) (file : Bytes) : Bytes :=
  if flagSet flags Fl.privacyPath then
    let p := applyTable tbl file
    if flagSet flags Fl.privacyPathRegexp then
      rx.foldl (fun p r => if r.matches file then r.apply p else p) p
    else if isPrefix volumesPrefix p then
      match indexOf (p.drop 9) 47 with
      | some pos => 126 :: p.drop (9 + pos)
      | none => p
    else p
  else file

/-- `checkpath(file)` -/
def checkpath (flags : Nat) (tbl : List (Bytes × Bytes)) (rx : List RxRule) (rel : Bytes) (file : Bytes) : Bytes :=
  if (privOf flags tbl rx file).head? == some 47 then
    if rel.length > 0 && rel.length < (privOf flags tbl rx file).length then rel else privOf flags tbl rx file
  else privOf flags tbl rx file

end Logg
