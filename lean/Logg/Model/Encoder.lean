/-
  Logg.Model.Encoder — the three text encoders (JSON, logfmt, colored) of Entry.printImpl,
  serializeAttrs and PrintCtx.appendValue, byte for byte (slog/entry.go, slog/attr.go, slog/pc.go).

  Texts rendered by the Go standard library (floats, times, durations, %v) are atoms supplied with
  the value. `isPrint` is strconv.IsPrint. Levels' names / tags / colors come from the registry.
-/
import Logg.Model.Quote
import Logg.Model.Registry
import Logg.Model.Format

namespace Logg

/-- attribute values, by the case of `appendValue` they take -/
inductive Val where
  | nil
  | str (s : Bytes)                 -- string, Stringer, ToString, Level name: quoted
  | bool (b : Bool)
  | int (i : Int)
  | uint (n : Nat)
  | float (t : Bytes)               -- strconv.AppendFloat(v, 'f', -1, 64)
  | complex (re im : Bytes)
  | dur (t : Bytes)                 -- Duration.String()
  | time (t : Bytes)                -- RFC3339Nano text
  | tstamp (t : Bytes)              -- a time.Time under the key "time": rendered like the record's timestamp
  | err (msg : Bytes)               -- a plain error (no stack trace)
  | bytes (b : Bytes)
  | strs (xs : List Bytes)
  | bools (xs : List Bool)
  | ints (xs : List Int)
  | uints (xs : List Nat)
  | floats (xs : List Bytes)
  | complexes (xs : List (Bytes × Bytes))
  | durs (xs : List Bytes)
  | times (xs : List Bytes)
  | fallback (t : Bytes)            -- fmt.Sprintf("{{%v}}", v)
  | textm (t fb : Bytes)            -- an encoding.TextMarshaler (not a json.Marshaler): its text outside JSON, the %v fallback in JSON
  | group (items : List (Option (Bytes × Bool × Val)))  -- Attrs: members (nil members allowed): key, isGroup, value
  deriving Repr

/-- an attribute: `none` is a nil Attr; `isGroup` marks a gkvp (Group(...)) as opposed to a kvp -/
abbrev Attr := Option (Bytes × Bool × Val)

structure EncCfg where
  fmt : Fmt
  isPrint : Nat → Bool
  clr : Int := 95
  bg : Int := -1

def EncCfg.json (c : EncCfg) : Bool := c.fmt == .json
def EncCfg.noColor (c : EncCfg) : Bool := c.fmt != .color

def esc (n : Int) : Bytes := [27, 91] ++ intDigits n ++ [109]          -- ESC [ n m
def escReset : Bytes := [27, 91, 48, 109]                               -- ESC [ 0 m
def echoColor (n : Int) : Bytes := if n != -1 then esc n else []
def echoColorAndBg (clr bg : Int) : Bytes := echoColor clr ++ echoColor bg

/-- `appendQuotedString` -/
def EncCfg.quote (c : EncCfg) (s : Bytes) : Bytes := quoteValue c.isPrint c.json s

def EncCfg.comma (c : EncCfg) : Bytes := if c.json then [44] else [32]
def EncCfg.colon (c : EncCfg) : Bytes := if c.json then [58] else [61]
/-- `pcAppendStringKey` -/
def EncCfg.key (c : EncCfg) (k : Bytes) : Bytes := if c.json then jsonQuote k else k

def dotPrefix (leaf pfx : Bytes) : Bytes := if pfx.isEmpty then leaf else pfx ++ [46] ++ leaf

def joinWith (sep : Bytes) : List Bytes → Bytes
  | [] => []
  | [x] => x
  | x :: xs => x ++ sep ++ joinWith sep xs

def bracket (items : List Bytes) : Bytes := [91] ++ joinWith [44] items ++ [93]

def boolText (b : Bool) : Bytes := if b then [116, 114, 117, 101] else [102, 97, 108, 115, 101]

def complexText (re im : Bytes) : Bytes :=
  match im.head? with
  | some 43 | some 45 => [40] ++ re ++ im ++ [105, 41]
  | _ => [40] ++ re ++ [43] ++ im ++ [105, 41]

def jsonQuoted (c : EncCfg) (t : Bytes) : Bytes := if c.json then [34] ++ t ++ [34] else t

def timeText (c : EncCfg) (t : Bytes) : Bytes := if c.noColor then [34] ++ t ++ [34] else t
def tstampText (c : EncCfg) (t : Bytes) : Bytes := if c.noColor then [34] ++ t ++ [34] else t ++ [124]

/-- byte-wise key order with nil attributes first (the comparator of serializeAttrs) -/
def attrLe (a c : Attr) : Bool :=
  match a, c with
  | none, _ => true
  | some _, none => false
  | some x, some y => bytesLeB x.1 y.1
where bytesLeB : Bytes → Bytes → Bool
  | [], _ => true
  | _ :: _, [] => false
  | a :: as, c :: cs => if a < c then true else if a == c then bytesLeB as cs else false

def attrKeyEq (a c : Attr) : Bool :=
  match a, c with
  | none, none => true
  | some x, some y => x.1 == y.1
  | _, _ => false

def dedupeAttrs : List Attr → List Attr
  | [] => []
  | [a] => [a]
  | a :: c :: rest => if attrKeyEq a c then dedupeAttrs (c :: rest) else a :: dedupeAttrs (c :: rest)

def prepAttrs (xs : List Attr) : List Attr := dedupeAttrs (xs.mergeSort attrLe)

mutual
/-- `appendValue` -/
def encVal (c : EncCfg) : (fuel : Nat) → (pfx : Bytes) → Val → Bytes
  | _, _, .nil => if c.json then [110, 117, 108, 108] else [60, 110, 105, 108, 62]
  | _, _, .str s => c.quote s
  | _, _, .bool b => boolText b
  | _, _, .int i => intDigits i
  | _, _, .uint n => jsonQuoted c (natDigits n)
  | _, _, .float t => jsonQuoted c t
  | _, _, .complex re im => jsonQuoted c (complexText re im)
  | _, _, .dur t => c.quote t
  | _, _, .time t => timeText c t
  | _, _, .tstamp t => tstampText c t
  | _, _, .err m =>
    match c.fmt with
    | .json => [123] ++ jsonQuote [109, 101, 115, 115, 97, 103, 101] ++ [58] ++ c.quote m ++ [125]
    | .logfmt => c.quote m
    | .color => esc 31 ++ c.quote m ++ escReset
  | _, _, .bytes bs => c.quote bs
  | _, _, .strs xs => bracket (xs.map c.quote)
  | _, _, .bools xs => bracket (xs.map boolText)
  | _, _, .ints xs => bracket (xs.map intDigits)
  | _, _, .uints xs => bracket (xs.map natDigits)
  | _, _, .floats xs => bracket (xs.map (jsonQuoted c))
  | _, _, .complexes xs => bracket (xs.map fun p => jsonQuoted c (complexText p.1 p.2))
  | _, _, .durs xs => bracket (xs.map c.quote)
  | _, _, .times xs => bracket (xs.map (timeText c))
  | _, _, .fallback t => c.quote t
  | _, _, .textm t fb => if c.json then c.quote fb else c.quote t
  | 0, _, .group _ => []
  | fuel + 1, pfx, .group items =>
    if c.json then [123] ++ encAttrs c fuel pfx true (prepAttrs items) ++ [125]
    else encAttrs c fuel pfx false (prepAttrs items) ++ (if c.noColor then [] else escReset)

/-- the loop of `serializeAttrs` over the prepared (sorted, de-duplicated) attributes;
    `skipComma` = the next printed attribute is the first member of a nested JSON object -/
def encAttrs (c : EncCfg) : (fuel : Nat) → (pfx : Bytes) → (skipComma : Bool) → List Attr → Bytes
  | _, _, _, [] => []
  | fuel, pfx, skip, none :: rest => encAttrs c fuel pfx skip rest
  | fuel, pfx, skip, some (k, isGroup, v) :: rest =>
    let sep := if skip then [] else if c.noColor then c.comma else [32] ++ echoColorAndBg c.clr c.bg
    let dotted := if c.json then k else dotPrefix k pfx
    let keyPart :=
      if isGroup && !c.json then []
      else if c.noColor then c.key dotted ++ c.colon
      else echoColorAndBg 90 (-1) ++ dotted ++ echoColorAndBg c.clr c.bg ++ c.colon
    sep ++ keyPart ++ encVal c fuel dotted v ++ encAttrs c fuel pfx false rest
end

/-- `serializeAttrs` at top level (followed by the final reset in colored mode) -/
def encTopAttrs (c : EncCfg) (depth : Nat) (attrs : List Attr) : Bytes :=
  encAttrs c depth [] false (prepAttrs attrs) ++ (if c.noColor then [] else escReset)

/-- `splitFirstAndRestLines` -/
def trimRightNL (s : Bytes) : Bytes := (s.reverse.dropWhile (fun c => c == 10 || c == 13)).reverse

def splitFirstRest (msg : Bytes) : Bytes × Bytes × Bool :=
  if msg.isEmpty then ([], [], false)
  else
    let eol := msg.getLast? == some 10
    let s := if eol then trimRightNL msg else msg
    match s.findIdx? (· == 10) with
    | some ix => (s.take ix, s.drop (ix + 1), eol)
    | none => (s, [], eol)

def splitStep (c : UInt8) (acc : List Bytes) : List Bytes :=
  if c == 10 then [] :: acc else match acc with | l :: ls => (c :: l) :: ls | [] => [[c]]

def splitLines (s : Bytes) : List Bytes := s.foldr splitStep [[]]

def rightPad (s : Bytes) (w : Nat) : Bytes := s ++ List.replicate (w - s.length) 32

/-- `ct.wrapColorAndBg(text, clr, bg)` -/
def wrapColorAndBg (text : Bytes) (clr bg : Int) : Bytes :=
  echoColor bg ++ echoColor clr ++ text ++ escReset

/-- what `ct.translate` does to a text: the identity unless it contains markup characters -/
def needsTranslate (s : Bytes) : Bool := s.any fun c => c == 60 || c == 38

structure Record where
  lvl : Int
  ts : Bytes               -- the record's timestamp text in the selected zone and layout
  name : Bytes             -- logger name ("" = none)
  msg : Bytes
  attrs : List Attr
  caller : Option (Bytes × Int × Bytes × Bytes) := none    -- file, line, function, function as shown in colored mode
  deriving Repr

structure Presentation where
  reg : Registry
  tagWidth : Int := 3
  minWidth : Nat := 36
  colors : List (Int × List Int)

def levelColors (p : Presentation) (lvl : Int) : Int × Int :=
  match p.colors.lookup lvl with
  | some (c :: b :: _) => (c, b)
  | some [c] => (c, -1)
  | _ => (95, -1)

def isBlank (msg : Bytes) : Bool := msg.all fun c => c == 10 || c == 13 || c == 32 || c == 9

/-- JSON / logfmt: everything before the attributes (opening brace, time, logger, level, msg) -/
def plainHead (c : EncCfg) (levelName : Bytes) (r : Record) : Bytes :=
  (if c.json then [123] else []) ++
  (c.key [116, 105, 109, 101] ++ c.colon ++ [34] ++ r.ts ++ [34] ++ c.comma) ++
  (if r.name.isEmpty then []
   else (if c.json then jsonQuote [108, 111, 103, 103, 101, 114] ++ [58] ++ jsonQuote r.name
         else [108, 111, 103, 103, 101, 114, 61] ++ c.quote r.name) ++ c.comma) ++
  (c.key [108, 101, 118, 101, 108] ++ c.colon ++ c.quote levelName ++ c.comma) ++
  (c.key [109, 115, 103] ++ c.colon ++ c.quote r.msg)

/-- JSON / logfmt: the caller field -/
def plainCaller (c : EncCfg) (r : Record) : Bytes :=
  match r.caller with
  | none => []
  | some (file, line, fn, _) =>
    c.comma ++
    (if c.json then
      jsonQuote [99, 97, 108, 108, 101, 114] ++ [58, 123] ++ jsonQuote [102, 105, 108, 101] ++ [58] ++ c.quote file ++ [44] ++
      jsonQuote [108, 105, 110, 101] ++ [58] ++ intDigits line ++ [44] ++
      jsonQuote [102, 117, 110, 99, 116, 105, 111, 110] ++ [58] ++ c.quote fn ++ [125]
     else
      [99, 97, 108, 108, 101, 114, 46, 102, 105, 108, 101, 61] ++ c.quote file ++ [32] ++
      [99, 97, 108, 108, 101, 114, 46, 108, 105, 110, 101, 61] ++ intDigits line ++ [32] ++
      [99, 97, 108, 108, 101, 114, 46, 102, 117, 110, 99, 116, 105, 111, 110, 61] ++ c.quote fn)

/-- JSON / logfmt: the record without its final line feed -/
def plainBody (c : EncCfg) (levelName : Bytes) (depth : Nat) (r : Record) : Bytes :=
  plainHead c levelName r ++ encTopAttrs c depth r.attrs ++ plainCaller c r ++ (if c.json then [125] else [])

/-- `Entry.printImpl`: the payload handed to the writers. `none` = outside the modelled domain
    (markup in a colored message, or a tag width that makes ShortTag panic). -/
def encodeRecord (f : Fmt) (isPrint : Nat → Bool) (p : Presentation) (depth : Nat) (r : Record) : Option Bytes :=
  if r.lvl == Lv.always && isBlank r.msg then some [10]
  else
    let name := p.reg.name r.lvl
    match f with
    | .json | .logfmt => some (plainBody { fmt := f, isPrint := isPrint } name depth r ++ [10])
    | .color =>
      let (clr, bg) := levelColors p r.lvl
      let c : EncCfg := { fmt := .color, isPrint := isPrint, clr := clr, bg := bg }
      match p.reg.shortTag r.lvl p.tagWidth with
      | none => none
      | some tag =>
        let (first, rest, eol) := splitFirstRest r.msg
        let padded := rightPad first p.minWidth
        if needsTranslate padded then none
        else
          let time := esc 32 ++ r.ts ++ [124, 32]
          let logger := if r.name.isEmpty then [] else echoColorAndBg 37 (-1) ++ r.name ++ escReset ++ [32]
          let sev := echoColorAndBg clr bg ++ [91] ++ tag ++ [93] ++ escReset ++ [32]
          let firstLine := wrapColorAndBg padded clr bg
          let caller := match r.caller with
            | none => []
            | some (file, line, _, fnShown) => [32] ++ file ++ [58] ++ intDigits line ++ [32] ++ esc 90 ++ fnShown ++ escReset ++ escReset
          let restPart :=
            if rest.isEmpty then []
            else
              let lines := splitLines rest
              let body := match lines with
                | [l] => List.replicate 4 32 ++ l
                | ls => joinWith [10] (ls.map fun l => wrapColorAndBg (List.replicate 4 32 ++ l) clr bg)
              [10] ++ body ++ (if eol then [10] else [])
          some (time ++ logger ++ sev ++ firstLine ++ encTopAttrs c depth r.attrs ++ caller ++ restPart ++ [10])

end Logg
