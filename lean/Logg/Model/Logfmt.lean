/-
  Logg.Model.Logfmt — a reader for logfmt lines (the consumer's side of C05): split the line at
  the spaces that are outside double quotes, then each token at its first '='.
  Inside quotes a backslash protects the next byte (Go / JSON string syntax).
-/
import Logg.Model.Basic

namespace Logg

/-- where the scanner is: outside quotes, inside quotes, after a backslash inside quotes -/
inductive QSt where
  | out | inq | esc
  deriving DecidableEq, Repr

def qStep (s : QSt) (c : UInt8) : QSt :=
  match s with
  | .out => if c == 34 then .inq else .out
  | .inq => if c == 92 then .esc else if c == 34 then .out else .inq
  | .esc => .inq

def emitTok (cur : Bytes) : List Bytes := if cur.isEmpty then [] else [cur]

/-- the tokens of a line: maximal runs without a space outside quotes (empty runs dropped);
    `cur` is the token being read -/
def tokensFrom : QSt → Bytes → Bytes → List Bytes
  | _, cur, [] => emitTok cur
  | s, cur, c :: rest =>
    if s = .out ∧ c = 32 then emitTok cur ++ tokensFrom .out [] rest
    else tokensFrom (qStep s c) (cur ++ [c]) rest

def logfmtTokens (line : Bytes) : List Bytes := tokensFrom .out [] line

/-- key and value text of a token: split at the first '=' -/
def splitPair (tok : Bytes) : Option (Bytes × Bytes) :=
  match tok.findIdx? (· == 61) with
  | some i => some (tok.take i, tok.drop (i + 1))
  | none => none

end Logg
