/-
  Logg.Model.Utf8 — Go's unicode/utf8 DecodeRune / AppendRune / ValidRune over byte lists.
-/
import Logg.Model.Basic

namespace Logg

def runeError : Nat := 0xFFFD
def maxRune : Nat := 0x10FFFF

def isCont (b : UInt8) : Bool := 0x80 ≤ b && b ≤ 0xBF

/-- `utf8.DecodeRune`: (rune, width). Empty input gives (RuneError, 0); any malformed or
    truncated sequence gives (RuneError, 1). -/
def decodeRune : Bytes → Nat × Nat
  | [] => (runeError, 0)
  | b0 :: rest =>
    if b0 < 0x80 then (b0.toNat, 1)
    else if b0 < 0xC2 then (runeError, 1)
    else if b0 < 0xE0 then
      match rest with
      | b1 :: _ => if isCont b1 then ((b0.toNat &&& 0x1F) <<< 6 ||| (b1.toNat &&& 0x3F), 2) else (runeError, 1)
      | _ => (runeError, 1)
    else if b0 < 0xF0 then
      match rest with
      | b1 :: b2 :: _ =>
        let lo : UInt8 := if b0 == 0xE0 then 0xA0 else 0x80
        let hi : UInt8 := if b0 == 0xED then 0x9F else 0xBF
        if lo ≤ b1 && b1 ≤ hi && isCont b2 then
          ((b0.toNat &&& 0x0F) <<< 12 ||| (b1.toNat &&& 0x3F) <<< 6 ||| (b2.toNat &&& 0x3F), 3)
        else (runeError, 1)
      | _ => (runeError, 1)
    else if b0 < 0xF5 then
      match rest with
      | b1 :: b2 :: b3 :: _ =>
        let lo : UInt8 := if b0 == 0xF0 then 0x90 else 0x80
        let hi : UInt8 := if b0 == 0xF4 then 0x8F else 0xBF
        if lo ≤ b1 && b1 ≤ hi && isCont b2 && isCont b3 then
          ((b0.toNat &&& 0x07) <<< 18 ||| (b1.toNat &&& 0x3F) <<< 12 ||| (b2.toNat &&& 0x3F) <<< 6 ||| (b3.toNat &&& 0x3F), 4)
        else (runeError, 1)
      | _ => (runeError, 1)
    else (runeError, 1)

def validRune (r : Nat) : Bool := r < 0xD800 || (0xDFFF < r && r ≤ maxRune)

/-- `utf8.AppendRune` (invalid runes are written as U+FFFD). -/
def encodeRune (r : Nat) : Bytes :=
  let r := if validRune r then r else runeError
  if r < 0x80 then [r.toUInt8]
  else if r < 0x800 then [(0xC0 ||| (r >>> 6)).toUInt8, (0x80 ||| (r &&& 0x3F)).toUInt8]
  else if r < 0x10000 then
    [(0xE0 ||| (r >>> 12)).toUInt8, (0x80 ||| ((r >>> 6) &&& 0x3F)).toUInt8, (0x80 ||| (r &&& 0x3F)).toUInt8]
  else
    [(0xF0 ||| (r >>> 18)).toUInt8, (0x80 ||| ((r >>> 12) &&& 0x3F)).toUInt8,
     (0x80 ||| ((r >>> 6) &&& 0x3F)).toUInt8, (0x80 ||| (r &&& 0x3F)).toUInt8]

/-- `utf8.Valid` -/
def validUtf8 : (fuel : Nat) → Bytes → Bool
  | 0, s => s.isEmpty
  | fuel + 1, s =>
    match s with
    | [] => true
    | _ =>
      let (r, w) := decodeRune s
      if r == runeError && w == 1 then false else validUtf8 fuel (s.drop w)

def isValidUtf8 (s : Bytes) : Bool := validUtf8 s.length s

end Logg
