/-
  Logg.Model.Concurrent — C08: goroutines logging at the same time, as an interleaving of atomic
  steps over the shared pool of print contexts.

  One call = Get a context from the pool (or make a fresh one) → format the record into that
  context's buffer → hand the buffer to the destination in one Write → Put the context back.
  A schedule is any list of goroutine numbers; `run` executes it. Everything a call reads besides
  its own context is immutable while it runs (the facts regenerated in Gen.Facts: group members are
  cloned before the sort, logger attributes are copied into the per-call slice, the size hint is
  only touched atomically), so the formatted bytes are a function `payload` of the call (C09).
-/
import Logg.Model.Basic

namespace Logg

abbrev CallId := Nat

inductive Stage where
  | idle
  | got (ctx : Nat)          -- holds a context, nothing formatted yet
  | formatted (ctx : Nat)    -- the record is in the context's buffer
  | wrote (ctx : Nat)        -- the buffer was handed to the destination
  deriving DecidableEq, Repr

structure GState where
  todo : List CallId
  stage : Stage := .idle
  deriving DecidableEq, Repr

structure World where
  pool : List Nat            -- contexts resting in the pool
  fresh : Nat                -- the next context number `New` would hand out
  bufs : Nat → Bytes         -- buffer contents of every context
  gs : List GState           -- the goroutines
  out : List Bytes           -- the Write payloads observed by the destination, in order

def setBuf (bufs : Nat → Bytes) (x : Nat) (b : Bytes) : Nat → Bytes := fun y => if y = x then b else bufs y

/-- one atomic step of goroutine `g`; `puts` = how many times a call returns its context to the pool
    (1 in the code: the single Put after printImpl in Entry.print) -/
def stepWith (puts : Nat) (payload : CallId → Bytes) (w : World) (g : Nat) : World :=
  match w.gs[g]? with
  | none => w
  | some s =>
    match s.todo, s.stage with
    | [], _ => w
    | _ :: _, .idle =>
      match w.pool with
      | p :: ps => { w with pool := ps, gs := w.gs.set g { s with stage := .got p } }
      | [] => { w with fresh := w.fresh + 1, gs := w.gs.set g { s with stage := .got w.fresh } }
    | c :: _, .got x => { w with bufs := setBuf w.bufs x (payload c), gs := w.gs.set g { s with stage := .formatted x } }
    | _ :: _, .formatted x => { w with out := w.out ++ [w.bufs x], gs := w.gs.set g { s with stage := .wrote x } }
    | _ :: rest, .wrote x => { w with pool := List.replicate puts x ++ w.pool, gs := w.gs.set g { todo := rest, stage := .idle } }

def step (payload : CallId → Bytes) : World → Nat → World := stepWith 1 payload

def run (payload : CallId → Bytes) (w : World) (sched : List Nat) : World := sched.foldl (step payload) w

/-- every goroutine with its program of calls, an empty pool -/
def World.init (progs : List (List CallId)) : World :=
  { pool := [], fresh := 0, bufs := fun _ => [], gs := progs.map fun p => { todo := p }, out := [] }

def heldOf (s : GState) : List Nat :=
  match s.stage with
  | .idle => []
  | .got x => [x]
  | .formatted x => [x]
  | .wrote x => [x]

def held (gs : List GState) : List Nat := gs.flatMap heldOf

/-- calls of a goroutine whose Write has not happened yet -/
def pend (s : GState) : List CallId :=
  match s.stage with
  | .wrote _ => s.todo.tail
  | _ => s.todo

def pending (gs : List GState) : List CallId := gs.flatMap pend

def quiescent (w : World) : Prop := ∀ s ∈ w.gs, s.todo = []

end Logg
