/-
  Logg.Model.Unquote — strconv.Unquote for double-quoted Go string literals (the partial
  inverse of `goQuote`), transcribed from strconv/quote.go.
-/
import Logg.Model.Quote

namespace Logg

def unhex (c : UInt8) : Option Nat :=
  if 48 ≤ c && c ≤ 57 then some (c.toNat - 48)
  else if 97 ≤ c && c ≤ 102 then some (c.toNat - 97 + 10)
  else if 65 ≤ c && c ≤ 70 then some (c.toNat - 65 + 10)
  else none

def hexValue : Bytes → Option Nat
  | [] => some 0
  | c :: rest => do
      let rest' ← hexValueAcc 0 (c :: rest)
      pure rest'
where hexValueAcc (acc : Nat) : Bytes → Option Nat
  | [] => some acc
  | c :: rest => do
      let x ← unhex c
      hexValueAcc (acc * 16 + x) rest

/-- `UnquoteChar` for quote = '"': decoded output bytes and the rest, or `none` (syntax error). -/
def unquoteChar (s : Bytes) : Option (Bytes × Bytes) :=
  match s with
  | [] => none
  | c :: rest =>
    if c == 34 then none
    else if c ≥ 0x80 then
      let (r, w) := decodeRune s
      some (encodeRune r, s.drop w)
    else if c != 92 then some ([c], rest)
    else
      match rest with
      | [] => none
      | e :: rest2 =>
        if e == 97 then some ([7], rest2)
        else if e == 98 then some ([8], rest2)
        else if e == 102 then some ([12], rest2)
        else if e == 110 then some ([10], rest2)
        else if e == 114 then some ([13], rest2)
        else if e == 116 then some ([9], rest2)
        else if e == 118 then some ([11], rest2)
        else if e == 120 || e == 117 || e == 85 then
          let n := if e == 120 then 2 else if e == 117 then 4 else 8
          if rest2.length < n then none
          else
            match hexValue (rest2.take n) with
            | none => none
            | some v =>
              if e == 120 then some ([v.toUInt8], rest2.drop n)
              else if !validRune v then none
              else some (if v < 0x80 then [v.toUInt8] else encodeRune v, rest2.drop n)
        else if 48 ≤ e && e ≤ 55 then
          match rest2 with
          | d1 :: d2 :: rest3 =>
            if 48 ≤ d1 && d1 ≤ 55 && 48 ≤ d2 && d2 ≤ 55 then
              let v := (e.toNat - 48) * 64 + (d1.toNat - 48) * 8 + (d2.toNat - 48)
              if v > 255 then none else some ([v.toUInt8], rest3)
            else none
          | _ => none
        else if e == 92 then some ([92], rest2)
        else if e == 34 then some ([34], rest2)
        else none

def unquoteBody : (fuel : Nat) → Bytes → Option Bytes
  | 0, s => if s.isEmpty then some [] else none
  | _ + 1, [] => some []
  | fuel + 1, s =>
    match unquoteChar s with
    | none => none
    | some (out, rest) => (unquoteBody fuel rest).map (out ++ ·)

/-- `strconv.Unquote` for `"…"` and back-quoted literals. Single-quoted rune literals are not
    modelled (`none`); the correspondence never feeds them. -/
def goUnquote (s : Bytes) : Option Bytes :=
  if s.length < 2 then none
  else if s.head? == some 96 then
    let body := (s.drop 1).dropLast
    if s.getLast? != some 96 || body.contains 96 then none else some (body.filter (· != 13))
  else if s.head? != some 34 || s.getLast? != some 34 then none
  else
    let body := (s.drop 1).dropLast
    if body.contains 10 then none
    else unquoteBody body.length body

/-! ### encoding/json: reading a JSON string literal (`unquoteBytes`) -/

def isHighSurrogate (r : Nat) : Bool := 0xD800 ≤ r && r < 0xDC00
def isLowSurrogate (r : Nat) : Bool := 0xDC00 ≤ r && r < 0xE000

/-- one character of a JSON string body: decoded bytes and the rest; `none` = syntax error -/
def jsonUnquoteChar (s : Bytes) : Option (Bytes × Bytes) :=
  match s with
  | [] => none
  | c :: rest =>
    if c == 34 || c < 0x20 then none
    else if c == 92 then
      match rest with
      | [] => none
      | e :: rest2 =>
        if e == 34 || e == 92 || e == 47 then some ([e], rest2)
        else if e == 98 then some ([8], rest2)
        else if e == 102 then some ([12], rest2)
        else if e == 110 then some ([10], rest2)
        else if e == 114 then some ([13], rest2)
        else if e == 116 then some ([9], rest2)
        else if e == 117 then
          if rest2.length < 4 then none
          else
            match hexValue (rest2.take 4) with
            | none => none
            | some v =>
              let rest3 := rest2.drop 4
              if isHighSurrogate v then
                -- a following \uDC00..\uDFFF completes the pair; otherwise the replacement character
                match rest3 with
                | 92 :: 117 :: rest4 =>
                  if rest4.length < 4 then some (encodeRune runeError, rest3)
                  else match hexValue (rest4.take 4) with
                    | some v2 =>
                      if isLowSurrogate v2 then some (encodeRune ((v - 0xD800) * 0x400 + (v2 - 0xDC00) + 0x10000), rest4.drop 4)
                      else some (encodeRune runeError, rest3)
                    | none => some (encodeRune runeError, rest3)
                | _ => some (encodeRune runeError, rest3)
              else if isLowSurrogate v then some (encodeRune runeError, rest3)
              else some (encodeRune v, rest3)
        else none
    else if c < 0x80 then some ([c], rest)
    else
      let (r, w) := decodeRune s
      if r == runeError && w == 1 then some (encodeRune runeError, rest)
      else some (s.take w, s.drop w)

def jsonUnquoteBody : (fuel : Nat) → Bytes → Option Bytes
  | 0, s => if s.isEmpty then some [] else none
  | _ + 1, [] => some []
  | fuel + 1, s =>
    match jsonUnquoteChar s with
    | none => none
    | some (out, rest) => (jsonUnquoteBody fuel rest).map (out ++ ·)

/-- `json.Unmarshal` of a string literal into a Go string -/
def jsonUnquote (s : Bytes) : Option Bytes :=
  if s.length < 2 || s.head? != some 34 || s.getLast? != some 34 then none
  else
    let body := (s.drop 1).dropLast
    jsonUnquoteBody body.length body

end Logg
