/-
  Logg.Model.Strip — what a reader sees "once ANSI escape sequences are removed" (C06): the SGR
  sequences `ESC [ digits/; m` are dropped, everything else is kept (a broken sequence is kept as it is).
-/
import Logg.Model.Basic

namespace Logg

def isSgrParam (c : UInt8) : Bool := (48 ≤ c && c ≤ 57) || c == 59

/-- `pending` = the bytes of a sequence that has begun (`ESC`, `ESC [`, `ESC [ 3 1` …), not yet decided -/
def stripFrom : Bytes → Bytes → Bytes
  | pending, [] => pending
  | [], c :: rest => if c == 27 then stripFrom [27] rest else c :: stripFrom [] rest
  | [e], c :: rest =>
    if c == 91 then stripFrom [e, 91] rest
    else if c == 27 then e :: stripFrom [27] rest      -- the first ESC was not a sequence; this one may be
    else e :: c :: stripFrom [] rest
  | pending, c :: rest =>                                -- pending = ESC [ params…
    if c == 109 then stripFrom [] rest                    -- 'm': the sequence is complete and dropped
    else if isSgrParam c then stripFrom (pending ++ [c]) rest
    else if c == 27 then pending ++ stripFrom [27] rest
    else pending ++ c :: stripFrom [] rest

/-- the text with its SGR sequences removed -/
def stripSgr (bs : Bytes) : Bytes := stripFrom [] bs

end Logg
