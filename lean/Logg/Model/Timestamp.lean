/-
  Logg.Model.Timestamp — C16: which zone and which layout a record's timestamp is printed with,
  from the statement.
-/
import Logg.Model.Terminate

namespace Logg

namespace Fl
def date : Nat := 1
def time : Nat := 2
def microseconds : Nat := 4
def localTime : Nat := 8
end Fl

/-- UTC when the logger is in UTC mode (2), or when no mode was chosen (0) and the local-time
    flag is not set; the instant's own zone otherwise. -/
def zoneSpec (g : Globals) (modeUTC : Int) : Bool :=
  modeUTC == 2 || (modeUTC == 0 && !flagSet g.flags Fl.localTime)

/-- The documented flag → layout table (slog/cvt.go `defaultLayouts`), by the three bits. -/
def flagLayout (date time micro : Bool) : String :=
  match date, time, micro with
  | true, false, false => "2006-01-02"
  | false, true, false => "15:04:05Z07:00"
  | false, true, true => "15:04:05.000000Z07:00"
  | true, true, false => "2006-01-0215:04:05Z07:00"
  | true, false, true => "2006-01-02T15:04:05.000000Z07:00"
  | true, true, true => "2006-01-02T15:04:05.000000Z07:00"
  | false, false, _ => "15:04:05.000000Z07:00"

/-- The logger's own layout if one was set, else the layout selected by the flags. -/
def layoutSpec (g : Globals) (layout : String) : String :=
  if layout ≠ "" then layout
  else flagLayout (flagSet g.flags Fl.date) (flagSet g.flags Fl.time) (flagSet g.flags Fl.microseconds)

end Logg
