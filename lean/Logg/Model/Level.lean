/-
  Logg.Model.Level — the admission rule of C01, written from the property statement, and
  the small state machine (logger levels, sticky debug mode, treated-as registrations)
  over which it is quantified.
-/
import Logg.Model.Globals

namespace Logg

/-! The built-in severities (slog/level.go, the `Level` iota block). The bridge file proves
    these equal the regenerated constants. -/
namespace Lv
def panic : Int := 0
def fatal : Int := 1
def error : Int := 2
def warn : Int := 3
def info : Int := 4
def debug : Int := 5
def trace : Int := 6
def off : Int := 7
def always : Int := 8
def ok : Int := 9
def success : Int := 10
def fail : Int := 11
def max : Int := 12
end Lv

/-- The severity used for the comparison: a registered level counts as the level it is
    treated as. -/
def effective (g : Globals) (r : Int) : Int := (g.treatAs.lookup r).getD r

/-- C01, the admission rule as the statement gives it. Levels are ordinal with Panic = 0 the
    most severe, so "not less severe than the logger's level" is `effective r ≤ L`. -/
def admits (g : Globals) (L r : Int) : Bool :=
  if L = Lv.off ∨ r = Lv.off then false
  else if L = Lv.always ∨ r = Lv.always then true
  else if g.debugMode = true ∧ r = Lv.debug then true
  else decide (effective g r ≤ L)

/-! ### histories: logger levels, the sticky debug switch, treated-as registrations -/

structure GateState where
  g : Globals
  levels : List Int          -- level of logger k (k = 0 is the default logger)
  deriving Repr

inductive GateOp where
  | setLevel (k : Nat) (lvl : Int)                 -- Entry.SetLevel on logger k
  | register (v : Int) (treatAs : Option Int)      -- successful RegisterLevel(v, …, RegWithTreatedAsLevel t)
  | setDebug (on : Bool)                           -- is.SetDebugMode from outside
  deriving Repr

/-- `RegisterLevel` records the treated-as level iff one below `MaxLevel` was given. -/
def regTreat (m : List (Int × Int)) (v : Int) (t : Option Int) : List (Int × Int) :=
  match t with
  | some t => if t < Lv.max then assocSet m v t else m
  | none => m

def gateStep (s : GateState) : GateOp → GateState
  | .setLevel k lvl =>
      { g := { s.g with debugMode := s.g.debugMode || lvl == Lv.debug },
        levels := s.levels.set k lvl }
  | .register v t => { s with g := { s.g with treatAs := regTreat s.g.treatAs v t } }
  | .setDebug on => { s with g := { s.g with debugMode := on } }

def gateRun (s : GateState) (ops : List GateOp) : GateState := ops.foldl gateStep s

/-- Value of a severity expression of the entry-point table for a call whose level
    argument is `arg` (a `Level`, or a `log/slog` level for `Sev.slogParam`). -/
def sevValue (conv : Int → Int) (arg : Int) : Sev → Int
  | .const n => n
  | .param => arg
  | .slogParam => conv arg
  | .unknown => arg

end Logg
