/-
  Logg.Model.Adapter — C15: the log/slog handler (slog/adapters.go) and the std log bridge
  (NewLogLogger / handlerWriter.Write / Entry.writeInternal).
-/
import Logg.Model.Args
import Logg.Model.Format

namespace Logg

mutual
/-- a `log/slog.Value`, by kind -/
inductive SVal where
  | bool (b : Bool)
  | time (t : Bytes)            -- RFC3339Nano text of the value
  | dur (t : Bytes)
  | float (t : Bytes)
  | int (i : Int)
  | str (s : Bytes)
  | uint (n : Nat)
  | group (items : SAttrs)
  | valuer (v : SVal)           -- a LogValuer and what its LogValue() returns
  | any (v : Val)               -- KindAny: the dynamic value, as the encoder classifies it
/-- `[]log/slog.Attr` -/
inductive SAttrs where
  | nil
  | cons (key : Bytes) (v : SVal) (rest : SAttrs)
end

mutual
/-- `convertAttrToField`, value part; returns whether the result is a group attribute -/
def convertVal : SVal → Bool × Val
  | .bool b => (false, .bool b)
  | .time t => (false, .time t)
  | .dur t => (false, .dur t)
  | .float t => (false, .float t)
  | .int i => (false, .int i)
  | .str s => (false, .str s)
  | .uint n => (false, .uint n)
  | .group items => (true, .group (none :: convertAttrs items))   -- Group(key, Attrs): make(Attrs, 1) then append
  | .valuer v => convertVal v
  | .any v => (false, v)
/-- `convertGroupToFields` / `convertLogSlogRecordAttrs` -/
def convertAttrs : SAttrs → List Attr
  | .nil => []
  | .cons k v rest => (let c := convertVal v; some (k, c.1, c.2)) :: convertAttrs rest
end

/-- the handler's logger, as NewSlogHandler leaves it -/
structure HandlerOpts where
  noColor : Bool
  json : Bool
  level : Int                -- 0 (the zero value, PanicLevel) = leave the logger's level alone

def handlerLevel (o : HandlerOpts) (loggerLevel : Int) : Int := if o.level != 0 then o.level else loggerLevel

/-- `logger.SetColorMode(!NoColor).SetJSONMode(JSON)` through the regenerated mode setters -/
def handlerFmt (o : HandlerOpts) (useJSON useColor : Bool) : Fmt :=
  let m1 := Gen.setColorMode useJSON useColor [!o.noColor]
  let m2 := Gen.setJSONMode m1.1 m1.2 [o.json]
  fmtOf m2      -- C11 proves this is what setentry derives per record

/-- `Handle`: no gate of its own (log/slog asks Enabled first); the record goes through
    WriteThru → print with the record's time, message and converted attributes only. -/
def handleWrites (c : CallCtx) (k : CallShape) (slogLevel : Int) (msg : Bytes) (attrs : SAttrs) : Option (List (Wid × Bytes)) :=
  let sev := Gen.convertLogSlogLevel slogLevel
  (encodeRecord k.fmt isPrintTable k.present k.depth
      { lvl := sev, ts := k.ts, name := k.name, msg := msg, attrs := convertAttrs attrs, caller := k.caller }).map
    fun p => (routeGen c.g c.cfg sev).map fun w => (w, p)

/-- what a `log/slog.Logger` does with the handler: Enabled, then Handle -/
def slogLoggerCall (c : CallCtx) (k : CallShape) (slogLevel : Int) (msg : Bytes) (attrs : SAttrs) : Option (List (Wid × Bytes)) :=
  if Gen.handlerEnabled c.g c.level slogLevel then handleWrites c k slogLevel msg attrs else some []

/-- `writeInternal`: one final line feed is removed -/
def stripOneLF (buf : Bytes) : Bytes := if buf.getLast? == some 10 then buf.dropLast else buf

/-- `handlerWriter.Write(buf)`: the count reported and the Writes performed -/
def bridgeWrite (c : CallCtx) (k : CallShape) (bridgeLevel : Int) (buf : Bytes) : Nat × Option (List (Wid × Bytes)) :=
  if Gen.bridgeAdmits c.g c.level bridgeLevel then
    (buf.length,
     (encodeRecord k.fmt isPrintTable k.present k.depth
        { lvl := bridgeLevel, ts := k.ts, name := k.name, msg := stripOneLF buf, attrs := [], caller := k.caller }).map
       fun p => (routeGen c.g c.cfg bridgeLevel).map fun w => (w, p))
  else (0, some [])

end Logg
