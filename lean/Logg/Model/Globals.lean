/-
  Logg.Model.Globals — the process-wide state the decision functions read, and the small
  enumerations the regenerated fragments (Logg/Gen) are expressed in.
-/
import Logg.Model.Basic

namespace Logg

/-- Process-wide state read by gating, routing, termination and timestamp selection.
    `treatAs` is `mLevelIsEnabledAs`, `errorDevice` is `mLevelUseErrorDevice` (a Go map:
    only the presence of a key matters to the reader), `flags` the `Flags` bit set. -/
structure Globals where
  debugMode : Bool := false
  treatAs : List (Int × Int) := []
  errorDevice : List (Int × Bool) := []
  flags : Nat := 0
  inTesting : Bool := false
  deriving Repr

/-- Which list of a writer set a record is routed to. -/
inductive Route where
  | discard | leveled | error | normal
  deriving Repr, DecidableEq, BEq

/-- Which writer set is consulted: the logger's own or the package default. -/
inductive WriterSrc where
  | own | dflt
  deriving Repr, DecidableEq, BEq

/-- What happens after a record has been printed. -/
inductive Outcome where
  | continue | panic | exit (code : Int)
  deriving Repr, DecidableEq, BEq

/-- Severity expression of an entry point: a constant, the caller-supplied `Level`
    parameter, or a `log/slog` level parameter converted by `logsloglevel2Level`. -/
inductive Sev where
  | const (n : Int) | param | slogParam | unknown
  deriving Repr, DecidableEq, BEq

inductive EpRecv where
  | logger | pkg
  deriving Repr, DecidableEq, BEq

/-- One `logContext` call reachable from an entry point. -/
structure EmitSite where
  gated : Bool
  gateSev : Sev
  emitSev : Sev
  skip : Nat
  chain : Nat
  usesExtra : Bool
  sameLogger : Bool
  deriving Repr, DecidableEq, BEq

structure EntryPoint where
  name : String
  recv : EpRecv
  sites : List EmitSite
  deriving Repr, DecidableEq, BEq

end Logg
