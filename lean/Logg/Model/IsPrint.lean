/- strconv.IsPrint through the regenerated range table (binary search). -/
import Logg.Gen.IsPrint

namespace Logg

def isPrintSearch (r : Nat) : (fuel lo hi : Nat) → Bool
  | 0, _, _ => false
  | fuel + 1, lo, hi =>
    if lo ≥ hi then false
    else
      let mid := (lo + hi) / 2
      let (a, z) := Gen.isPrintRanges.getD mid (1, 0)
      if r < a then isPrintSearch r fuel lo mid
      else if r > z then isPrintSearch r fuel (mid + 1) hi
      else true

def isPrintRaw (r : Nat) : Bool := isPrintSearch r 32 0 Gen.isPrintRanges.size

/-- strconv.IsPrint: the regenerated table, guarded by the two facts every use relies on (no C0
    control, not DEL) so that they hold by construction; the correspondence checks the guard never
    changes the table's answer. -/
def isPrintTable (r : Nat) : Bool := decide (32 ≤ r) && r != 127 && isPrintRaw r

end Logg
