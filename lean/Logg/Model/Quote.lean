/-
  Logg.Model.Quote — the two string escapers of the encoder, byte for byte:
  `appendQuotedWith(buf, s, '"', false, false)` (Go syntax, used by logfmt and colored mode)
  and `appendEscapedJSONString` (JSON syntax, used in JSON mode).
  `isPrint` (strconv.IsPrint) is a parameter; the driver instantiates it with the table
  regenerated from the Go toolchain.
-/
import Logg.Model.Utf8

namespace Logg

/-- `"0123456789abcdef"[n % 16]` -/
def hexChar (n : Nat) : UInt8 := if n % 16 < 10 then (48 + n % 16).toUInt8 else (87 + n % 16).toUInt8

def hex2 (n : Nat) : Bytes := [hexChar (n / 16), hexChar n]
def hex4 (n : Nat) : Bytes := [hexChar (n / 4096), hexChar (n / 256), hexChar (n / 16), hexChar n]
def hex8 (n : Nat) : Bytes := hex4 (n / 65536) ++ hex4 n

/-- `appendEscapedRune(buf, r, '"', false, false)` -/
def escapeRune (isPrint : Nat → Bool) (r : Nat) : Bytes :=
  if r == 34 || r == 92 then [92, r.toUInt8]
  else if isPrint r then encodeRune r
  else if r == 7 then ([92, 97] : Bytes)
  else if r == 8 then ([92, 98] : Bytes)
  else if r == 12 then ([92, 102] : Bytes)
  else if r == 10 then ([92, 110] : Bytes)
  else if r == 13 then ([92, 114] : Bytes)
  else if r == 9 then ([92, 116] : Bytes)
  else if r == 11 then ([92, 118] : Bytes)
  else if r < 32 || r == 127 then ([92, 120] : Bytes) ++ hex2 r
  else if !validRune r then ([92, 117] : Bytes) ++ hex4 runeError
  else if r < 0x10000 then ([92, 117] : Bytes) ++ hex4 r
  else ([92, 85] : Bytes) ++ hex8 r

def quoteBody (isPrint : Nat → Bool) : (fuel : Nat) → Bytes → Bytes
  | 0, _ => []
  | _ + 1, [] => []
  | fuel + 1, s@(b0 :: _) =>
    if b0 < 0x80 then escapeRune isPrint b0.toNat ++ quoteBody isPrint fuel (s.drop 1)
    else
      let (r, w) := decodeRune s
      if w == 1 && r == runeError then ([92, 120] : Bytes) ++ hex2 b0.toNat ++ quoteBody isPrint fuel (s.drop 1)
      else escapeRune isPrint r ++ quoteBody isPrint fuel (s.drop w)

/-- Go-syntax quoting of a string value: `"` … `"`. -/
def goQuote (isPrint : Nat → Bool) (s : Bytes) : Bytes := 34 :: quoteBody isPrint s.length s ++ [34]

/-- `safeSet[b]` of encoding/json: every ASCII byte except controls, `"` and `\`. -/
def jsonSafe (b0 : UInt8) : Bool := 0x20 ≤ b0 && b0 != 34 && b0 != 92

def jsonEscapeByte (b0 : UInt8) : Bytes :=
  if b0 == 34 || b0 == 92 then [92, b0]
  else if b0 == 10 then ([92, 110] : Bytes)
  else if b0 == 13 then ([92, 114] : Bytes)
  else if b0 == 9 then ([92, 116] : Bytes)
  else ([92, 117, 48, 48] : Bytes) ++ hex2 b0.toNat

/-- `appendEscapedJSONString` (without the surrounding quotes). -/
def jsonEscape : (fuel : Nat) → Bytes → Bytes
  | 0, _ => []
  | _ + 1, [] => []
  | fuel + 1, s@(b0 :: _) =>
    if b0 < 0x80 then
      (if jsonSafe b0 then [b0] else jsonEscapeByte b0) ++ jsonEscape fuel (s.drop 1)
    else
      let (r, w) := decodeRune s
      if r == runeError && w == 1 then ([92, 117, 102, 102, 102, 100] : Bytes) ++ jsonEscape fuel (s.drop 1)
      else if r == 0x2028 || r == 0x2029 then ([92, 117, 50, 48, 50] : Bytes) ++ [hexChar r] ++ jsonEscape fuel (s.drop w)
      else s.take w ++ jsonEscape fuel (s.drop w)

def jsonQuote (s : Bytes) : Bytes := 34 :: jsonEscape s.length s ++ [34]

/-- How string-like values are rendered: JSON syntax in JSON mode, Go syntax otherwise. -/
def quoteValue (isPrint : Nat → Bool) (jsonMode : Bool) (s : Bytes) : Bytes :=
  if jsonMode then jsonQuote s else goQuote isPrint s

end Logg
