/-
  Logg.Model.Format — C11: the output format of a logger as a three-state machine.
-/
import Logg.Model.Globals

namespace Logg

inductive Fmt where
  | json | color | logfmt
  deriving Repr, DecidableEq, BEq

/-- The two mode bits of a logger: (useJSON, useColor). -/
abbrev ModeBits := Bool × Bool

/-- The format a pair of mode bits denotes (JSON wins, as `setentry` resolves it). -/
def fmtOf (s : ModeBits) : Fmt := if s.1 then .json else if s.2 then .color else .logfmt

/-- "the last argument wins, none means true" -/
def lastArg (bs : List Bool) : Bool := bs.foldl (fun _ b => b) true

inductive ModeCall where
  | setJSON (bs : List Bool)
  | setColor (bs : List Bool)
  deriving Repr

/-- The specification: what a mode call does to the *format* (statement of C11). -/
def specCall (f : Fmt) : ModeCall → Fmt
  | .setJSON bs => if lastArg bs then .json else (if f = .json then .logfmt else f)
  | .setColor bs => if lastArg bs then .color else .logfmt

end Logg
