/-
  Logg.Model.Format — C11: the output format of a logger as a three-state machine.
-/
import Logg.Model.Globals

namespace Logg

inductive Fmt where
  | json | color | logfmt
  deriving Repr, DecidableEq, BEq

@[simp] theorem Fmt.beq_json_json : (Fmt.json == Fmt.json) = true := by decide
@[simp] theorem Fmt.beq_logfmt_json : (Fmt.logfmt == Fmt.json) = false := by decide
@[simp] theorem Fmt.beq_color_json : (Fmt.color == Fmt.json) = false := by decide
@[simp] theorem Fmt.bne_json_color : (Fmt.json != Fmt.color) = true := by decide
@[simp] theorem Fmt.bne_logfmt_color : (Fmt.logfmt != Fmt.color) = true := by decide
@[simp] theorem Fmt.bne_color_color : (Fmt.color != Fmt.color) = false := by decide

/-- The two mode bits of a logger: (useJSON, useColor). -/
abbrev ModeBits := Bool × Bool

/-- The format a pair of mode bits denotes (JSON wins, as `setentry` resolves it). -/
def fmtOf (s : ModeBits) : Fmt := if s.1 then .json else if s.2 then .color else .logfmt

/-- "the last argument wins, none means true" -/
def lastArg (bs : List Bool) : Bool := bs.foldl (fun _ b => b) true

inductive ModeCall where
  | setJSON (bs : List Bool)
  | setColor (bs : List Bool)
  deriving Repr

/-- The specification: what a mode call does to the *format* (statement of C11). -/
def specCall (f : Fmt) : ModeCall → Fmt
  | .setJSON bs => if lastArg bs then .json else (if f = .json then .logfmt else f)
  | .setColor bs => if lastArg bs then .color else .logfmt

end Logg
