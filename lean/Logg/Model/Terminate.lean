/-
  Logg.Model.Terminate — C12: what a Panic / Fatal severity does after the record is written,
  from the statement.
-/
import Logg.Model.Level

namespace Logg

namespace Fl
def noInterrupt : Nat := 2 ^ 20
def interruptAlways : Nat := 2 ^ 21
end Fl

def flagSet (flags bit : Nat) : Bool := Nat.land flags bit != 0

/-- The termination of the statement: only Panic and Fatal, only if not suppressed by the
    no-interrupt flag, and under `go test` only if interrupt-always is set. -/
def terminateSpec (g : Globals) (lvl : Int) : Outcome :=
  if (!g.inTesting || flagSet g.flags Fl.interruptAlways) && !flagSet g.flags Fl.noInterrupt then
    if lvl = Lv.panic then .panic else if lvl = Lv.fatal then .exit (-3) else .continue
  else .continue

/-- What the parent process observes as exit status for `os.Exit(code)`. -/
def exitStatus (code : Int) : Int := code % 256

end Logg
