/-
  Logg.Model.Caller — C14: which stack frame a record is attributed to.
  The call stack is a list of frames, innermost first; `runtime.Callers(n, pcs)` stores the frame
  at index n (0 = runtime.Callers itself) — logical frames, inlined ones included.
-/
import Logg.Model.Globals
import Logg.Gen.EntryPoints

namespace Logg

inductive Frame where
  | callers                 -- runtime.Callers
  | getpc                   -- slog.getpc
  | lib (n : Nat)           -- a library frame (n-th below the function that captures the pc)
  | foreign (n : Nat)       -- a frame of log/slog or log between the user and the adapter
  | user (n : Nat)          -- user code: 0 = the function holding the logging statement, n = its n-th caller
  deriving Repr, DecidableEq

def libFrames (n : Nat) : List Frame := (List.range n).map Frame.lib
def userFrames (n : Nat) : List Frame := (List.range n).map Frame.user

/-- the stack when a verb reaches `getpc`: `chain` library frames between getpc and the user -/
def verbStack (chain userDepth : Nat) : List Frame :=
  [Frame.callers, Frame.getpc] ++ libFrames chain ++ userFrames userDepth

/-- `getpc(skip, extra)` -/
def getpcFrame (stack : List Frame) (skip extra : Nat) : Option Frame := stack[skip + extra + Gen.getpcPlus]?

/-- a site of an entry point: the frame its record is attributed to -/
def siteFrame (s : EmitSite) (extra userDepth : Nat) : Option Frame :=
  getpcFrame (verbStack s.chain userDepth) s.skip (if s.usesExtra then extra else 0)

/-- `handler4LogSlog.Handle`: runtime.Callers is called by Handle itself; between Handle and the
    user lie the two frames of log/slog (Logger.log / Logger.logAttrs and the public method) -/
def handlerStack (userDepth : Nat) : List Frame :=
  [Frame.callers, Frame.lib 0, Frame.foreign 0, Frame.foreign 1] ++ userFrames userDepth

def handlerFrame (extra userDepth : Nat) : Option Frame := (handlerStack userDepth)[Gen.handleCallersSkip + extra]?

/-- `handlerWriter.Write`: getpc is called by Write; between Write and the user lie the two
    frames of package log (Logger.output and the public method) -/
def bridgeStack (userDepth : Nat) : List Frame :=
  [Frame.callers, Frame.getpc, Frame.lib 0, Frame.foreign 0, Frame.foreign 1] ++ userFrames userDepth

def bridgeFrame (extra userDepth : Nat) : Option Frame := getpcFrame (bridgeStack userDepth) Gen.bridgeGetpcSkip extra

end Logg
