/-
  Logg.Model.Args — C02: the free-form argument list of the verbs (`argsToAttrs`, slog/funcs.go)
  and the whole call: gate → arguments → encoder → one Write per selected destination.
-/
import Logg.Model.Encoder
import Logg.Model.Pipeline
import Logg.Model.IsPrint

namespace Logg

/-- One element of `args ...any`, by the case of the type switch it takes. -/
inductive Arg where
  | str (s : Bytes)            -- a Go string
  | val (v : Val)              -- anything that is neither a string nor an attribute (nil included)
  | attr (a : Attr)            -- an Attr (a kvp or a group)
  | attrs (xs : List Attr)     -- []Attr or Attrs (members may be nil)
  deriving Repr

/-- the value an argument stands for when it follows a key; attributes in value position are
    outside the modelled domain (they are printed through reflection) -/
def Arg.asValue : Arg → Option Val
  | .str s => some (.str s)
  | .val v => some v
  | .attr _ => none
  | .attrs _ => none

/-- the loop state of `argsToAttrs`: attributes so far and the pending key ("" = none pending) -/
structure ArgSt where
  acc : List Attr
  key : Bytes
  ok : Bool := true           -- false once an attribute was met in value position

def argStep (st : ArgSt) (a : Arg) : ArgSt :=
  if st.key.isEmpty then
    match a with
    | .str k => { st with key := k }
    | .attr x => { st with acc := st.acc ++ [x] }
    | .attrs xs => { st with acc := st.acc ++ xs }
    | .val _ => st                                   -- not a key: skipped (hintInternal only)
  else
    match a.asValue with
    | some v => { st with acc := st.acc ++ [some (st.key, false, v)], key := [] }
    | none => { st with key := [], ok := false }

def argsRun (st : ArgSt) (args : List Arg) : ArgSt := args.foldl argStep st

/-- `argsToAttrs(&kvps, args...)` appending to `init`; a key left pending at the end is dropped -/
def argsToAttrs (init : List Attr) (args : List Arg) : Option (List Attr) :=
  let st := argsRun { acc := init, key := [] } args
  if st.ok then some st.acc else none

/-- `Group(key, args...)` / `NewGroupedAttrEasy`: the members start with `len(args)` nil
    attributes (`make(Attrs, l)`), which the printer skips -/
def groupEasy (key : Bytes) (args : List Arg) : Option Attr :=
  (argsToAttrs (List.replicate args.length none) args).map fun items => some (key, true, .group items)

/-- What the logger contributes to a call. -/
structure CallShape where
  fmt : Fmt
  present : Presentation
  name : Bytes
  loggerAttrs : List Attr          -- already collected (C07 decides how)
  ts : Bytes
  caller : Option (Bytes × Int × Bytes × Bytes) := none
  depth : Nat := 64

/-- the payload of the record of one call; `none` = outside the modelled domain -/
def callPayload (k : CallShape) (sev : Int) (msg : Bytes) (args : List Arg) : Option Bytes :=
  match argsToAttrs k.loggerAttrs args with
  | none => none
  | some attrs =>
    encodeRecord k.fmt isPrintTable k.present k.depth
      { lvl := sev, ts := k.ts, name := k.name, msg := msg, attrs := attrs, caller := k.caller }

/-- A verb call: the Write events (destination, payload) in order. -/
def callWrites (c : CallCtx) (k : CallShape) (sev : Int) (msg : Bytes) (args : List Arg) : Option (List (Wid × Bytes)) :=
  if Gen.enabled c.g c.level sev then
    (callPayload k sev msg args).map fun p => (routeGen c.g c.cfg sev).map fun w => (w, p)
  else some []

/-- `Println(args...)`: the first argument is the message (`fmt.Sprint` of it when it is not a
    string — `sprint` is that text), the others are the attributes. -/
def printlnSplit (args : List Arg) (sprint : Bytes) : Bytes × List Arg :=
  match args with
  | [] => ([], [])
  | .str s :: rest => (s, rest)
  | _ :: rest => (sprint, rest)

end Logg
