/-
  Logg.Model.Buffer — C19: the read/write interface of PrintCtx, method by method as written in
  slog/pc.go (a copy of bytes.Buffer). The buffer is `buf[0:len]` with a read offset; bytes past
  `len` are never observable through the listed API, so only the capacity is tracked for them.
  Capacities granted by the Go runtime on reallocation are an oracle (`caps`), supplied per
  operation by the harness from what the implementation actually got.
-/
import Logg.Model.Utf8

namespace Logg

structure Buf where
  data : Bytes          -- buf[0:len(buf)]
  cap : Nat
  off : Nat := 0
  lastRead : Int := 0   -- readOp: -1 opRead, 0 opInvalid, 1..4 rune sizes
  isNil : Bool := false -- buf == nil
  deriving Repr, DecidableEq

inductive BufPanic where
  | truncate | growNegative | tooLarge | negativeRead | invalidWriteCount | runtime
  deriving Repr, DecidableEq

def smallBufferSize : Nat := 64
def minRead : Nat := 512
def maxIntNat : Nat := 2 ^ 63 - 1

namespace Buf

def len (s : Buf) : Nat := s.data.length - s.off
def unread (s : Buf) : Bytes := s.data.drop s.off
def empty (s : Buf) : Bool := s.data.length ≤ s.off

def reset (s : Buf) : Buf := { s with data := [], off := 0, lastRead := 0 }

/-- the first thing `grow` does: an empty buffer with a read offset is reset -/
def normalize (s : Buf) : Buf := if s.len == 0 && s.off != 0 then s.reset else s

/-- `grow(n)` after the normalisation: reslice / small first allocation / slide / reallocate. -/
def growCore (s : Buf) (n : Nat) (caps : List Nat) : Except BufPanic (Buf × List Nat) :=
  if n ≤ s.cap - s.data.length then .ok (s, caps)                       -- tryGrowByReslice
  else if s.isNil && n ≤ smallBufferSize then .ok ({ s with cap := smallBufferSize, isNil := false }, caps)
  else
    let c := s.cap
    if n + s.len ≤ c / 2 then .ok ({ s with data := s.unread, off := 0 }, caps)            -- slide down
    else if c > maxIntNat - c - n then .error .tooLarge
    else
      match caps with
      | newCap :: rest =>
        -- growSlice(buf[off:], off+n): the runtime grants `newCap`
        .ok ({ s with data := s.unread, off := 0, cap := newCap, isNil := false }, rest)
      | [] => .ok ({ s with data := s.unread, off := 0, cap := max (s.len + s.off + n) (2 * (c - s.off)), isNil := false }, [])

/-- `grow(n)`: make room for n more bytes; returns the state in which `data` still holds exactly
    the old contents (the caller appends) together with the capacities not yet consumed. -/
def growRoom (s : Buf) (n : Nat) (caps : List Nat) : Except BufPanic (Buf × List Nat) :=
  s.normalize.growCore n caps

def append (s : Buf) (p : Bytes) (caps : List Nat) : Except BufPanic (Buf × List Nat) := do
  let (s, caps) ← (if p.length ≤ s.cap - s.data.length then pure (s, caps) else s.growRoom p.length caps)
  pure ({ s with data := s.data ++ p }, caps)

end Buf

inductive ReadErr where
  | none | eof | other | negative
  deriving Repr, DecidableEq

inductive BufOp where
  | write (p : Bytes) | writeString (p : Bytes) | writeByte (c : UInt8) | writeRune (r : Int)
  | read (n : Nat) | readByte | readRune | unreadByte | unreadRune | next (n : Int)
  | readBytes (d : UInt8) | readString (d : UInt8)
  | readFrom (steps : List (Bytes × ReadErr))
  | writeTo (accept : Int) (fail : Bool)
  | truncate (n : Int) | grow (n : Int) | reset | len | bytes | string
  deriving Repr

/-- Result of an operation, rendered canonically by the driver. -/
inductive BufRes where
  | unit
  | n (k : Int)
  | nErr (k : Int) (err : String)
  | bytes (p : Bytes)
  | bytesErr (p : Bytes) (err : String)
  | byteErr (c : UInt8) (err : String)
  | rune (r : Nat) (size : Nat) (err : String)
  | err (e : String)
  | panic (p : BufPanic)
  deriving Repr, DecidableEq

def indexByte (p : Bytes) (d : UInt8) : Option Nat := p.findIdx? (· == d)

/-- the steps of ReadFrom; a panic leaves what earlier steps appended -/
def readFromLoop : List (Bytes × ReadErr) → Buf → List Nat → Int → Buf × BufRes
  | [], s, _, n => (s, .nErr n "exhausted")   -- the scripted reader always ends with an error step
  | (chunk, e) :: rest, s, caps, n =>
    match s.growRoom minRead caps with
    | .error p => (s, .panic p)
    | .ok (s, caps) =>
      if e == .negative then (s, .panic .negativeRead)
      else
        let s := { s with data := s.data ++ chunk }
        let n := n + chunk.length
        match e with
        | .eof => (s, .nErr n "")
        | .other => (s, .nErr n "reader-error")
        | _ => readFromLoop rest s caps n

def bufStep (s : Buf) (op : BufOp) (caps : List Nat) : Buf × BufRes :=
  match op with
  | .write p | .writeString p =>
    match ({ s with lastRead := 0 } : Buf).append p caps with
    | .ok (s', _) => (s', .nErr p.length "")
    | .error e => ({ s with lastRead := 0 }, .panic e)
  | .writeByte c =>
    match ({ s with lastRead := 0 } : Buf).append [c] caps with
    | .ok (s', _) => (s', .err "")
    | .error e => ({ s with lastRead := 0 }, .panic e)
  | .writeRune r =>
    if 0 ≤ r ∧ r < 0x80 then
      match ({ s with lastRead := 0 } : Buf).append [r.toNat.toUInt8] caps with
      | .ok (s', _) => (s', .nErr 1 "")
      | .error e => ({ s with lastRead := 0 }, .panic e)
    else
      let s0 : Buf := { s with lastRead := 0 }
      -- room for utf8.UTFMax bytes is made first, then the rune is appended
      match (if 4 ≤ s0.cap - s0.data.length then Except.ok (s0, caps) else s0.growRoom 4 caps) with
      | .ok (s1, _) =>
        let enc := encodeRune (if r < 0 then 0x110000 else r.toNat)
        ({ s1 with data := s1.data ++ enc }, .nErr enc.length "")
      | .error e => (s0, .panic e)
  | .read n =>
    let s0 : Buf := { s with lastRead := 0 }
    if s0.empty then (s0.reset, if n == 0 then .bytesErr [] "" else .bytesErr [] "EOF")
    else
      let k := min n s0.len
      ({ s0 with off := s0.off + k, lastRead := if k > 0 then -1 else 0 }, .bytesErr (s0.unread.take k) "")
  | .next n =>
    let s0 : Buf := { s with lastRead := 0 }
    let m : Int := s0.len
    let n := if n > m then m else n
    if n < 0 then (s0, .panic .runtime)
    else
      let k := n.toNat
      ({ s0 with off := s0.off + k, lastRead := if k > 0 then -1 else 0 }, .bytes (s0.unread.take k))
  | .readByte =>
    if s.empty then (s.reset, .byteErr 0 "EOF")
    else ({ s with off := s.off + 1, lastRead := -1 }, .byteErr (s.unread.headD 0) "")
  | .readRune =>
    if s.empty then (s.reset, .rune 0 0 "EOF")
    else
      let c := s.unread.headD 0
      if c < 0x80 then ({ s with off := s.off + 1, lastRead := 1 }, .rune c.toNat 1 "")
      else
        let (r, w) := decodeRune s.unread
        ({ s with off := s.off + w, lastRead := w }, .rune r w "")
  | .unreadRune =>
    if s.lastRead ≤ 0 then (s, .err "unread-rune")
    else
      let k := s.lastRead.toNat
      ({ s with off := if s.off ≥ k then s.off - k else s.off, lastRead := 0 }, .err "")
  | .unreadByte =>
    if s.lastRead == 0 then (s, .err "unread-byte")
    else ({ s with lastRead := 0, off := if s.off > 0 then s.off - 1 else s.off }, .err "")
  | .readBytes d | .readString d =>
    match indexByte s.unread d with
    | some i => ({ s with off := s.off + i + 1, lastRead := -1 }, .bytesErr (s.unread.take (i + 1)) "")
    | none => ({ s with off := s.data.length, lastRead := -1 }, .bytesErr s.unread "EOF")
  | .readFrom steps =>
    readFromLoop steps { s with lastRead := 0 } caps 0
  | .writeTo accept fail =>
    let s0 : Buf := { s with lastRead := 0 }
    let nBytes := s0.len
    if nBytes > 0 then
      if accept > nBytes then (s0, .panic .invalidWriteCount)
      else if accept < 0 then (s0, .panic .runtime)   -- s.off += m with negative m then slicing: never produced by the harness
      else
        let m := accept.toNat
        let s1 : Buf := { s0 with off := s0.off + m }
        if fail then (s1, .nErr m "writer-error")
        else if m != nBytes then (s1, .nErr m "short-write")
        else (s1.reset, .nErr m "")
    else (s0.reset, .nErr 0 "")
  | .truncate n =>
    if n == 0 then (s.reset, .unit)
    else
      let s0 : Buf := { s with lastRead := 0 }
      if n < 0 ∨ n > (s0.len : Int) then (s0, .panic .truncate)
      else ({ s0 with data := s0.data.take (s0.off + n.toNat) }, .unit)
  | .grow n =>
    if n < 0 then (s, .panic .growNegative)
    else
      match s.growRoom n.toNat caps with
      | .ok (s', _) => (s', .unit)
      | .error e => (s, .panic e)
  | .reset => (s.reset, .unit)
  | .len => (s, .n s.len)
  | .bytes | .string => (s, .bytes s.unread)

end Logg
