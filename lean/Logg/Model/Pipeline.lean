/-
  Logg.Model.Pipeline — from an admitted call to the events destinations see: gate, routing,
  delivery, and the bounded reaction to a failing destination (C02 / C03 / C13).
-/
import Logg.Model.Writers
import Logg.Gen.Decisions

namespace Logg

/-- Routing as the code does it: `Entry.findWriter` then `dualWriter.Get` (both regenerated). -/
def routeGen (g : Globals) (c : WriterCfg) (sev : Int) : List Wid :=
  let d : DualWriter := match Gen.findWriterSrc c.isSome none with
    | some .own => ensure c
    | _ => DualWriter.factory
  match Gen.dualGet g d.leveled sev with
  | .discard => []
  | .leveled => (d.leveled.lookup sev).getD []
  | .error => d.error
  | .normal => d.normal

structure CallCtx where
  g : Globals
  level : Int                 -- the logger's level
  cfg : WriterCfg
  settable : Wid → Bool
  fails : Nat → Bool          -- failure schedule over write attempts

/-- One record of severity `sev` through `printOut`, without the reaction. -/
def emitRecord (c : CallCtx) (start : Nat) (sev : Int) : List WEvent × Bool × Nat :=
  deliver c.settable c.fails start (routeGen c.g c.cfg sev) sev

/-- The nested diagnostic `s.Warn(...)`: gated like any call; a failing warning is not reported. -/
def warnRecord (c : CallCtx) (start : Nat) : List (List WEvent) × Nat :=
  if Gen.enabled c.g c.level Lv.warn then
    let (ev, _, next) := emitRecord c start Lv.warn
    ([ev], next)
  else ([], start)

/-- A user call: the list of records produced (each a list of events), and the next attempt index. -/
def logCall (c : CallCtx) (start : Nat) (sev : Int) : List (List WEvent) × Nat :=
  if Gen.enabled c.g c.level sev then
    let (ev, failed, next) := emitRecord c start sev
    if Gen.warnOnFailure failed sev then
      let (evs, next') := warnRecord c next
      (ev :: evs, next')
    else ([ev], next)
  else ([], start)

/-- A sequence of user calls on one logger: the attempt counter (the position in the failure
    schedule) is threaded from call to call; nothing else is carried over. One entry per call. -/
def runCalls (c : CallCtx) : Nat → List Int → List (List (List WEvent)) × Nat
  | start, [] => ([], start)
  | start, sev :: rest =>
    let r := logCall c start sev
    let m := runCalls c r.2 rest
    (r.1 :: m.1, m.2)

end Logg
