/-
  Logg.Model.Layout — the colored record as a reader sees it once the escape sequences are removed
  (C06, first sentence): timestamp, optional logger name, bracketed tag, padded first line,
  attributes as key=value in prepared (ascending key) order with groups flattened into dotted keys,
  the caller, the remaining message lines indented by four spaces. Written without any reference to
  colours; Lemmas/Layout.lean proves it equal to `stripSgr` of what `encodeRecord .color` writes.
-/
import Logg.Model.Encoder
import Logg.Model.Strip

namespace Logg

mutual
/-- a value as it reads in colored mode without its colours -/
def plainVal (c : EncCfg) : (fuel : Nat) → (pfx : Bytes) → Val → Bytes
  | _, _, .err m => c.quote m
  | 0, _, .group _ => []
  | fuel + 1, pfx, .group items => plainAttrs c fuel pfx (prepAttrs items)
  | _, _, .nil => encVal c 0 [] .nil
  | _, _, .str s => encVal c 0 [] (.str s)
  | _, _, .bool b => encVal c 0 [] (.bool b)
  | _, _, .int i => encVal c 0 [] (.int i)
  | _, _, .uint n => encVal c 0 [] (.uint n)
  | _, _, .float t => encVal c 0 [] (.float t)
  | _, _, .complex re im => encVal c 0 [] (.complex re im)
  | _, _, .dur t => encVal c 0 [] (.dur t)
  | _, _, .time t => encVal c 0 [] (.time t)
  | _, _, .tstamp t => encVal c 0 [] (.tstamp t)
  | _, _, .bytes b => encVal c 0 [] (.bytes b)
  | _, _, .strs xs => encVal c 0 [] (.strs xs)
  | _, _, .bools xs => encVal c 0 [] (.bools xs)
  | _, _, .ints xs => encVal c 0 [] (.ints xs)
  | _, _, .uints xs => encVal c 0 [] (.uints xs)
  | _, _, .floats xs => encVal c 0 [] (.floats xs)
  | _, _, .complexes xs => encVal c 0 [] (.complexes xs)
  | _, _, .durs xs => encVal c 0 [] (.durs xs)
  | _, _, .times xs => encVal c 0 [] (.times xs)
  | _, _, .fallback t => encVal c 0 [] (.fallback t)
  | _, _, .textm t fb => encVal c 0 [] (.textm t fb)

/-- the attributes, each preceded by one space: ` key=value`; a group contributes (after its own
    space) its members under `group.member` keys and no key of its own -/
def plainAttrs (c : EncCfg) : (fuel : Nat) → (pfx : Bytes) → List Attr → Bytes
  | _, _, [] => []
  | fuel, pfx, none :: rest => plainAttrs c fuel pfx rest
  | fuel, pfx, some (k, isGroup, v) :: rest =>
    [32] ++ (if isGroup then [] else dotPrefix k pfx ++ [61]) ++ plainVal c fuel (dotPrefix k pfx) v ++
    plainAttrs c fuel pfx rest
end

def indent4 (l : Bytes) : Bytes := List.replicate 4 32 ++ l

/-- the whole colored record without colours -/
def colorLayout (isPrint : Nat → Bool) (minWidth : Nat) (depth : Nat) (tag : Bytes) (r : Record) : Bytes :=
  let c : EncCfg := { fmt := .color, isPrint := isPrint }
  let (first, rest, eol) := splitFirstRest r.msg
  r.ts ++ [124, 32] ++
  (if r.name.isEmpty then [] else r.name ++ [32]) ++
  [91] ++ tag ++ [93, 32] ++
  rightPad first minWidth ++
  plainAttrs c depth [] (prepAttrs r.attrs) ++
  (match r.caller with
   | none => []
   | some (file, line, _, fnShown) => [32] ++ file ++ [58] ++ intDigits line ++ [32] ++ fnShown) ++
  (if rest.isEmpty then []
   else [10] ++ joinWith [10] ((splitLines rest).map indent4) ++ (if eol then [10] else [])) ++
  [10]

end Logg
