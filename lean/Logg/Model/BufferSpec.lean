/-
  Logg.Model.BufferSpec — C19: what the read/write interface does, said without slices, offsets and
  capacities: a queue of unread bytes, the bytes already consumed that are still physically in front of
  the read point (what an Unread can go back to), and the kind of the last read. Every operation is a
  function of this triple; the only freedom the implementation has is that making room (a write that has
  to grow, ReadFrom, Grow) may forget the consumed bytes (`forget`). Lemmas/BufferSpec proves that
  the method-by-method model of slog/pc.go (Model/Buffer, tied to the code and to bytes.Buffer by the
  three-way lock-step) refines this specification for every operation in every reachable state.
-/
import Logg.Model.Buffer

namespace Logg

structure Zip where
  done : Bytes          -- consumed, still in front of the read point
  unread : Bytes
  lastRead : Int := 0
  deriving Repr, DecidableEq

def Zip.empty : Zip := { done := [], unread := [], lastRead := 0 }

/-- the abstraction: forget capacity, nil-ness and the slice arithmetic -/
def Buf.abs (s : Buf) : Zip := { done := s.data.take s.off, unread := s.data.drop s.off, lastRead := s.lastRead }

/-- what making room may do to the consumed bytes -/
def Zip.fg (q : Zip) (forget : Bool) : Zip := if forget then { q with done := [] } else q

/-- the public Grow: an exhausted buffer with consumed bytes is reset first -/
def Zip.room (q : Zip) (forget : Bool) : Zip :=
  if q.unread.isEmpty && !q.done.isEmpty then Zip.empty else q.fg forget

/-- move the read point forward by k bytes -/
def Zip.advance (q : Zip) (k : Nat) (lr : Int) : Zip :=
  { done := q.done ++ q.unread.take k, unread := q.unread.drop k, lastRead := lr }

/-- move the read point back by k bytes (k ≤ done.length) -/
def Zip.back (q : Zip) (k : Nat) : Zip :=
  { done := q.done.take (q.done.length - k), unread := q.done.drop (q.done.length - k) ++ q.unread, lastRead := 0 }

/-- the bytes ReadFrom appends and what it reports, for a scripted reader -/
def specReadFrom : List (Bytes × ReadErr) → Bytes → Int → Bytes × BufRes
  | [], acc, n => (acc, .nErr n "exhausted")
  | (chunk, e) :: rest, acc, n =>
    if e == .negative then (acc, .panic .negativeRead)
    else
      let acc := acc ++ chunk
      let n := n + chunk.length
      match e with
      | .eof => (acc, .nErr n "")
      | .other => (acc, .nErr n "reader-error")
      | _ => specReadFrom rest acc n

def specStep (q : Zip) (op : BufOp) (forget : Bool) : Zip × BufRes :=
  let q0 : Zip := { q with lastRead := 0 }
  match op with
  | .write p | .writeString p => ({ (q0.fg forget) with unread := q.unread ++ p }, .nErr p.length "")
  | .writeByte c => ({ (q0.fg forget) with unread := q.unread ++ [c] }, .err "")
  | .writeRune r =>
    let enc := if 0 ≤ r ∧ r < 0x80 then [r.toNat.toUInt8] else encodeRune (if r < 0 then 0x110000 else r.toNat)
    ({ (q0.fg forget) with unread := q.unread ++ enc }, .nErr enc.length "")
  | .read n =>
    if q.unread.isEmpty then (Zip.empty, if n == 0 then .bytesErr [] "" else .bytesErr [] "EOF")
    else
      let k := min n q.unread.length
      (q.advance k (if k > 0 then -1 else 0), .bytesErr (q.unread.take k) "")
  | .next n =>
    let m : Int := q.unread.length
    let n := if n > m then m else n
    if n < 0 then (q0, .panic .runtime)
    else
      let k := n.toNat
      (q.advance k (if k > 0 then -1 else 0), .bytes (q.unread.take k))
  | .readByte =>
    if q.unread.isEmpty then (Zip.empty, .byteErr 0 "EOF")
    else (q.advance 1 (-1), .byteErr (q.unread.headD 0) "")
  | .readRune =>
    if q.unread.isEmpty then (Zip.empty, .rune 0 0 "EOF")
    else
      let c := q.unread.headD 0
      if c < 0x80 then (q.advance 1 1, .rune c.toNat 1 "")
      else
        let (r, w) := decodeRune q.unread
        (q.advance w w, .rune r w "")
  | .unreadRune =>
    if q.lastRead ≤ 0 then (q, .err "unread-rune")
    else if q.done.length ≥ q.lastRead.toNat then (q.back q.lastRead.toNat, .err "")
    else (q0, .err "")
  | .unreadByte =>
    if q.lastRead == 0 then (q, .err "unread-byte")
    else if q.done.length > 0 then (q.back 1, .err "")
    else (q0, .err "")
  | .readBytes d | .readString d =>
    match indexByte q.unread d with
    | some i => (q.advance (i + 1) (-1), .bytesErr (q.unread.take (i + 1)) "")
    | none => ({ done := q.done ++ q.unread, unread := [], lastRead := -1 }, .bytesErr q.unread "EOF")
  | .readFrom steps =>
    let (added, res) := specReadFrom steps [] 0
    ({ (q0.fg forget) with unread := q.unread ++ added }, res)
  | .writeTo accept fail =>
    let nBytes := q.unread.length
    if nBytes > 0 then
      if accept > nBytes then (q0, .panic .invalidWriteCount)
      else if accept < 0 then (q0, .panic .runtime)
      else
        let m := accept.toNat
        let q1 := q.advance m 0
        if fail then (q1, .nErr m "writer-error")
        else if m != nBytes then (q1, .nErr m "short-write")
        else (Zip.empty, .nErr m "")
    else (Zip.empty, .nErr 0 "")
  | .truncate n =>
    if n == 0 then (Zip.empty, .unit)
    else if n < 0 ∨ n > (q.unread.length : Int) then (q0, .panic .truncate)
    else ({ q0 with unread := q.unread.take n.toNat }, .unit)
  | .grow n => if n < 0 then (q, .panic .growNegative) else (q.room forget, .unit)
  | .reset => (Zip.empty, .unit)
  | .len => (q, .n q.unread.length)
  | .bytes | .string => (q, .bytes q.unread)

end Logg
