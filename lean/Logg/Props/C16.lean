/-
  C16 — Timestamps show the record's instant in the configured zone and layout.
  `Gen.zoneIsUTC` and `Gen.layoutSel` are regenerated from PrintCtx.appendTimestamp,
  `Gen.defaultLayouts` from slog/cvt.go, the setters from Entry.SetUTCMode / SetTimeFormat.
  The rendering and parsing of an instant with a layout (time.AppendFormat / time.Parse) is the
  Go standard library's and is exercised by the correspondence only.
-/
import Logg.Model.Timestamp
import Logg.Lemmas.Bits
import Logg.Gen.Decisions

namespace Logg.Props.C16
open Logg

theorem flag_constants :
    Gen.Ldate = Fl.date ∧ Gen.Ltime = Fl.time ∧ Gen.Lmicroseconds = Fl.microseconds ∧
    Gen.LlocalTime = Fl.localTime ∧ Gen.Ldatetimeflags = Fl.date + Fl.time + Fl.microseconds := by decide

/-- (1) Zone: UTC iff mode = UTC, or no mode chosen and the local-time flag is off — for every
    mode value and every flag word. -/
theorem zone_is_spec (g : Globals) (mode : Int) : Gen.zoneIsUTC g mode = zoneSpec g mode := by
  unfold Gen.zoneIsUTC zoneSpec flagSet Fl.localTime
  cases h : ((mode == 2) || ((mode == 0) && (Nat.land g.flags 8 == 0))) <;>
    cases h2 : (Nat.land g.flags 8 == 0) <;> cases h3 : (Nat.land g.flags 8 != 0) <;> simp_all

theorem land7 (f : Nat) : Nat.land f 7 = f % 8 := by
  show f &&& 7 = f % 8
  have := Nat.and_two_pow_sub_one_eq_mod f 3
  simpa using this

theorem bit_of_mod8 (f : Nat) :
    flagSet f Fl.date = (f % 8 == 1 || f % 8 == 3 || f % 8 == 5 || f % 8 == 7) ∧
    flagSet f Fl.time = (f % 8 == 2 || f % 8 == 3 || f % 8 == 6 || f % 8 == 7) ∧
    flagSet f Fl.microseconds = (f % 8 == 4 || f % 8 == 5 || f % 8 == 6 || f % 8 == 7) := by
  have key : ∀ k : Nat, k < 3 → (flagSet f (2 ^ k)) = (f % 8).testBit k := by
    intro k hk
    unfold flagSet
    show ((f &&& 2 ^ k) != 0) = (f % 8).testBit k
    have h8 : (2:Nat) ^ 3 = 8 := by decide
    rw [← h8, Nat.testBit_mod_two_pow]
    simp only [hk, decide_true, Bool.true_and]
    rcases Lemmas.and_two_pow_cases f k with h | h
    · rw [h]
      have : f.testBit k = false := by
        have := congrArg (fun x => x.testBit k) h
        simpa [Nat.testBit_and, Nat.testBit_two_pow_self] using this
      simp [this]
    · rw [h]
      have : f.testBit k = true := by
        have := congrArg (fun x => x.testBit k) h
        simpa [Nat.testBit_and, Nat.testBit_two_pow_self] using this
      have hp : 2 ^ k ≠ 0 := Nat.pos_iff_ne_zero.mp (Nat.two_pow_pos k)
      simp [this, hp]
  have hm : f % 8 < 8 := Nat.mod_lt _ (by decide)
  have h0 := key 0 (by decide)
  have h1 := key 1 (by decide)
  have h2 := key 2 (by decide)
  simp only [Nat.pow_zero, Nat.pow_one] at h0 h1
  have h2' : (2:Nat) ^ 2 = 4 := by decide
  rw [h2'] at h2
  unfold Fl.date Fl.time Fl.microseconds
  rw [h0, h1, h2]
  generalize f % 8 = m at hm
  have : m = 0 ∨ m = 1 ∨ m = 2 ∨ m = 3 ∨ m = 4 ∨ m = 5 ∨ m = 6 ∨ m = 7 := by omega
  rcases this with h | h | h | h | h | h | h | h <;> subst h <;> decide

/-- (2) Layout: the logger's own layout if set, else the entry of the flag table for the three
    date/time/microseconds bits (all 8 combinations), else the time-only default — for every
    flag word. -/
theorem layout_is_spec (g : Globals) (layout : String) : Gen.layoutSel g layout = layoutSpec g layout := by
  unfold Gen.layoutSel layoutSpec
  by_cases hl : layout = ""
  · subst hl
    obtain ⟨hd, ht, hm⟩ := bit_of_mod8 g.flags
    simp only [bne_self_eq_false, Bool.false_eq_true, ↓reduceIte, ne_eq, not_true_eq_false, hd, ht, hm, land7]
    have hlt : g.flags % 8 < 8 := Nat.mod_lt _ (by decide)
    generalize g.flags % 8 = m at hlt
    have : m = 0 ∨ m = 1 ∨ m = 2 ∨ m = 3 ∨ m = 4 ∨ m = 5 ∨ m = 6 ∨ m = 7 := by omega
    rcases this with h | h | h | h | h | h | h | h <;> subst h <;> decide
  · have : (layout != "") = true := by simpa using hl
    simp [this, hl]

/-- (3) The setters: SetUTCMode() / (true) selects UTC (2), (false) local (1), last argument wins;
    SetTimeFormat keeps the last non-empty layout, RFC3339Nano if none. -/
theorem foldl_last_indep (bs : List Bool) (x y : Bool) (h : bs ≠ []) :
    bs.foldl (fun _ b => b) x = bs.foldl (fun _ b => b) y := by
  cases bs with
  | nil => exact absurd rfl h
  | cons b bs => simp [List.foldl_cons]

theorem setUTCMode_fold (bs : List Bool) (m : Int) :
    List.foldl (fun (_ : Int) (bb : Bool) => if bb = true then (2 : Int) else 1) m bs
      = if bs = [] then m else (if bs.foldl (fun _ b => b) true = true then 2 else 1) := by
  induction bs generalizing m with
  | nil => simp
  | cons b bs ih =>
    rw [List.foldl_cons, ih]
    by_cases hbs : bs = []
    · subst hbs; cases b <;> simp
    · have hi := foldl_last_indep bs b true hbs
      simp only [hbs, ↓reduceIte, List.cons_ne_nil, List.foldl_cons, hi]

theorem setUTCMode_spec (old : Int) (bs : List Bool) :
    Gen.setUTCMode old bs = if bs.foldl (fun _ b => b) true = true then 2 else 1 := by
  unfold Gen.setUTCMode
  have h := setUTCMode_fold bs 2
  by_cases hbs : bs = []
  · subst hbs; simp
  · simp only [hbs, ↓reduceIte] at h
    simpa using h

-- non-vacuity
example : Gen.zoneIsUTC { flags := 8 } 0 = false ∧ Gen.zoneIsUTC { flags := 0 } 0 = true ∧
          Gen.zoneIsUTC { flags := 8 } 2 = true ∧ Gen.zoneIsUTC { flags := 0 } 1 = false := by decide
example : Gen.layoutSel { flags := Gen.LstdFlags } "" = "15:04:05.000000Z07:00" ∧
          Gen.layoutSel { flags := 1 } "" = "2006-01-02" ∧ Gen.layoutSel { flags := 1 } "Jan _2" = "Jan _2" := by decide

end Logg.Props.C16
