/-
  C10 — Logger hierarchy: lookup by name, inheritance at creation, isolation afterwards.
  The Set… bodies used by the model are the regenerated setters (C11 / C16); writer operations
  are C03's `cfgStep`.
-/
import Logg.Model.Tree
import Logg.Lemmas.TreeLinks
import Logg.Gen.Facts

namespace Logg.Props.C10
open Logg

theorem lt_of_getElem?_some {α} {t : List α} {i : Nat} {n : α} (h : t[i]? = some n) : i < t.length := by
  by_cases hlt : i < t.length
  · exact hlt
  · rw [List.getElem?_eq_none (Nat.le_of_not_lt hlt)] at h; cases h

/-- (1) Every Set… call changes the receiver only and returns it: no other logger's level,
    format, attributes, skip count or writers move, and no logger appears or disappears. -/
theorem set_changes_receiver_only (t : Tree) (i : Nat) (s : Setting) (hi : i < t.length) :
    (treeStep t (.set i s)).2 = some i ∧ (treeStep t (.set i s)).1.length = t.length ∧
    ∀ j, j ≠ i → (treeStep t (.set i s)).1[j]? = t[j]? := by
  have h : t[i]? = some t[i] := List.getElem?_eq_getElem hi
  simp only [treeStep, h]
  refine ⟨by simp, by simp, ?_⟩
  intro j hj
  simp [Ne.symm hj]

/-- A Set… call does not touch the tree links of its receiver either. -/
theorem set_keeps_links (n : Node) (s : Setting) :
    (applySetting n s).parent = n.parent ∧ (applySetting n s).children = n.children ∧ (applySetting n s).name = n.name := by
  cases s <;> simp [applySetting]

/-- (2) New(name) returns the existing direct child of that name and changes nothing — options
    included. -/
theorem new_returns_existing (t : Tree) (p c : Nat) (key name : Bytes) (opts : List Setting) (pn : Node)
    (hp : t[p]? = some pn) (hc : pn.children.lookup key = some c) :
    treeStep t (.newChild p key name opts) = (t, some c) := by
  simp [treeStep, hp, hc]

/-- (3) Otherwise it creates a child whose parent is the receiver and which starts with the
    receiver's level and format (then the given options are applied to the child only); the receiver
    is untouched apart from its name index, every other logger is untouched altogether. -/
theorem new_creates_child (t : Tree) (p : Nat) (key name : Bytes) (opts : List Setting) (pn : Node)
    (hp : t[p]? = some pn) (hc : pn.children.lookup key = none) :
    let r := treeStep t (.newChild p key name opts)
    r.2 = some t.length ∧ r.1.length = t.length + 1 ∧
    r.1[t.length]? = some (opts.foldl applySetting (freshChild pn p name)) ∧
    (freshChild pn p name).parent = some p ∧ (freshChild pn p name).level = pn.level ∧
    (freshChild pn p name).bits = pn.bits ∧
    r.1[p]? = some { pn with children := pn.children ++ [(key, t.length)] } ∧
    ∀ j, j ≠ p → j < t.length → r.1[j]? = t[j]? := by
  have hpl : p < t.length := lt_of_getElem?_some hp
  simp only [treeStep, hp, hc]
  refine ⟨by simp, by simp, ?_, rfl, rfl, rfl, ?_, ?_⟩
  · rw [List.getElem?_append_right (by simp)]
    simp
  · rw [List.getElem?_append_left (by simpa using hpl)]
    simp [List.getElem?_set, hpl]
  · intro j hj hjl
    rw [List.getElem?_append_left (by simpa using hjl)]
    simp [List.getElem?_set, Ne.symm hj]

/-- (4) New is idempotent: asking again for the same name gives the same logger and changes nothing. -/
theorem new_idempotent (t : Tree) (p : Nat) (key name name' : Bytes) (opts opts' : List Setting) (pn : Node)
    (hp : t[p]? = some pn) (hc : pn.children.lookup key = none) :
    let t1 := (treeStep t (.newChild p key name opts)).1
    treeStep t1 (.newChild p key name' opts') = (t1, some t.length) := by
  obtain ⟨_, _, _, _, _, _, hpn, _⟩ := new_creates_child t p key name opts pn hp hc
  have hlk : List.lookup key (pn.children ++ [(key, t.length)]) = some t.length := by
    have : ∀ (l : List (Bytes × Nat)), List.lookup key l = none → List.lookup key (l ++ [(key, t.length)]) = some t.length := by
      intro l hl
      induction l with
      | nil => simp [List.lookup]
      | cons x xs ih =>
        obtain ⟨a, c⟩ := x
        by_cases hka : key = a
        · subst hka; simp [List.lookup] at hl
        · have : (key == a) = false := by simpa using hka
          simp only [List.cons_append, List.lookup, this] at hl ⊢
          exact ih hl
    exact this _ hc
  exact new_returns_existing _ p t.length key name' opts' _ hpn hlk

/-- (5) WithSkip(n) keeps one child per n: the second call with the same n returns the same logger. -/
theorem withSkip_one_child_per_n (t : Tree) (p c : Nat) (key : Bytes) (n : Int) (pn : Node)
    (hp : t[p]? = some pn) (hc : pn.children.lookup key = some c) :
    (treeStep t (.withSkip p key n)).2 = some c ∧ (treeStep t (.withSkip p key n)).1.length = t.length := by
  simp only [treeStep, hp, hc]
  cases t[c]? <;> simp

/-- (6) A logger created with the package-level New has no parent and starts in colored format at
    the package's current default level; nothing else changes. -/
theorem detached_defaults (t : Tree) (name : Bytes) (lvl : Int) :
    let r := treeStep t (.newRoot name lvl [])
    r.1[t.length]? = some (freshRoot name lvl) ∧ (freshRoot name lvl).parent = none ∧
    fmtOf (freshRoot name lvl).bits = .color ∧ (freshRoot name lvl).level = lvl ∧
    ∀ j, j < t.length → r.1[j]? = t[j]? := by
  simp only [treeStep, List.foldl_nil]
  refine ⟨by simp, rfl, by simp [fmtOf, freshRoot], rfl, ?_⟩
  intro j hj
  rw [List.getElem?_append_left hj]

/-! ### the links agree with the creation history -/

/-- Parent links point to earlier loggers. -/
def ParentsEarlier (t : Tree) : Prop := ∀ (i : Nat) (n : Node), t[i]? = some n → ∀ p, n.parent = some p → p < i

theorem foldl_keeps_parent (n : Node) (opts : List Setting) : (opts.foldl applySetting n).parent = n.parent := by
  induction opts generalizing n with
  | nil => rfl
  | cons s ss ih => simp [List.foldl_cons, ih, (set_keeps_links n s).1]

theorem step_preserves_parentsEarlier (t : Tree) (op : TreeOp) (h : ParentsEarlier t) :
    ParentsEarlier (treeStep t op).1 := by
  intro i n hn p hp
  cases op with
  | set k s =>
    simp only [treeStep] at hn
    cases hk : t[k]? with
    | none => simp only [hk] at hn; exact h i n hn p hp
    | some kn =>
      simp only [hk] at hn
      by_cases hik : i = k
      · subst hik
        have hlt : i < t.length := lt_of_getElem?_some hk
        simp [List.getElem?_set, hlt] at hn
        subst hn
        rw [(set_keeps_links kn s).1] at hp
        exact h i kn hk p hp
      · simp [List.getElem?_set, Ne.symm hik] at hn
        exact h i n hn p hp
  | newRoot name lvl opts =>
    simp only [treeStep] at hn
    by_cases hil : i < t.length
    · rw [List.getElem?_append_left hil] at hn; exact h i n hn p hp
    · have : i = t.length := by
        have := List.getElem?_eq_some_iff.mp hn
        obtain ⟨hlt, _⟩ := this
        simp at hlt; omega
      subst this
      simp at hn; subst hn
      rw [foldl_keeps_parent] at hp
      simp [freshRoot] at hp
  | newChild q key name opts =>
    simp only [treeStep] at hn
    cases hq : t[q]? with
    | none => simp only [hq] at hn; exact h i n hn p hp
    | some qn =>
      simp only [hq] at hn
      have hql : q < t.length := lt_of_getElem?_some hq
      cases hlk : qn.children.lookup key with
      | some c => simp only [hlk] at hn; exact h i n hn p hp
      | none =>
        simp only [hlk] at hn
        by_cases hil : i < t.length
        · rw [List.getElem?_append_left (by simpa using hil)] at hn
          by_cases hiq : i = q
          · subst hiq
            simp [List.getElem?_set, hil] at hn
            subst hn
            exact h i qn hq p hp
          · simp [List.getElem?_set, Ne.symm hiq] at hn
            exact h i n hn p hp
        · have : i = t.length := by
            have := List.getElem?_eq_some_iff.mp hn
            obtain ⟨hlt, _⟩ := this
            simp at hlt; omega
          subst this
          rw [List.getElem?_append_right (by simp)] at hn
          simp at hn; subst hn
          rw [foldl_keeps_parent] at hp
          simp [freshChild] at hp
          omega
  | withSkip q key k =>
    simp only [treeStep] at hn
    cases hq : t[q]? with
    | none => simp only [hq] at hn; exact h i n hn p hp
    | some qn =>
      simp only [hq] at hn
      have hql : q < t.length := lt_of_getElem?_some hq
      cases hlk : qn.children.lookup key with
      | some c =>
        simp only [hlk] at hn
        cases hc : t[c]? with
        | none => simp only [hc] at hn; exact h i n hn p hp
        | some cn =>
          simp only [hc] at hn
          by_cases hic : i = c
          · subst hic
            have hlt : i < t.length := lt_of_getElem?_some hc
            simp [List.getElem?_set, hlt] at hn
            subst hn
            exact h i cn hc p hp
          · simp [List.getElem?_set, Ne.symm hic] at hn
            exact h i n hn p hp
      | none =>
        simp only [hlk] at hn
        by_cases hil : i < t.length
        · rw [List.getElem?_append_left (by simpa using hil)] at hn
          by_cases hiq : i = q
          · subst hiq
            simp [List.getElem?_set, hil] at hn
            subst hn
            exact h i qn hq p hp
          · simp [List.getElem?_set, Ne.symm hiq] at hn
            exact h i n hn p hp
        · have : i = t.length := by
            have := List.getElem?_eq_some_iff.mp hn
            obtain ⟨hlt, _⟩ := this
            simp at hlt; omega
          subst this
          rw [List.getElem?_append_right (by simp)] at hn
          simp at hn; subst hn
          simp [freshChild] at hp
          omega

/-- (7) After any history the parent links form a forest (they point to strictly earlier loggers). -/
theorem parentsEarlier_after_history (ops : List TreeOp) : ParentsEarlier (treeRun [] ops) := by
  suffices ∀ t, ParentsEarlier t → ParentsEarlier (treeRun t ops) from
    this [] (by intro i n hn; simp at hn)
  induction ops with
  | nil => intro t h; simpa [treeRun] using h
  | cons op ops ih =>
    intro t h
    simpa [treeRun] using ih _ (step_preserves_parentsEarlier t op h)

/-- (8) Hence Root() reaches a parentless logger: following parent links from any logger ends, within
    as many steps as there are loggers, at one that has no parent. -/
theorem root_is_parentless (t : Tree) (h : ParentsEarlier t) (fuel i : Nat) (hf : i ≤ fuel) (hi : i < t.length) :
    ∃ n, t[rootOf t fuel i]? = some n ∧ n.parent = none := by
  induction fuel generalizing i with
  | zero =>
    have : i = 0 := by omega
    subst this
    have hn : t[0]? = some t[0] := List.getElem?_eq_getElem hi
    refine ⟨t[0], by simpa [rootOf] using hn, ?_⟩
    cases hp : t[0].parent with
    | none => rfl
    | some p => exact absurd (h 0 _ hn p hp) (by omega)
  | succ fuel ih =>
    have hn : t[i]? = some t[i] := List.getElem?_eq_getElem hi
    simp only [rootOf, hn]
    cases hp : t[i].parent with
    | none => exact ⟨t[i], hn, hp⟩
    | some p =>
      have hlt := h i _ hn p hp
      exact ih p (by omega) (by omega)

/-- (9) After any history the link structure is well formed: parents are earlier, a child listed under a
    logger has that logger as its parent, a logger with a parent is listed there, and exactly once. -/
theorem links_wellformed_after_history (ops : List TreeOp) : WF (linkTab (treeRun [] ops)) :=
  wf_run ops [] wf_nil

/-- (10) **`Each` agrees with the creation history.** After any history, `Each` on logger i (with as much
    fuel as there are loggers) reports a logger j at depth d if and only if following j's parent link d
    times leads to i — the receiver itself at depth 0, its children at depth 1, … — and reports no
    logger twice. -/
theorem each_agrees_with_history (ops : List TreeOp) (i : Nat) :
    let t := treeRun [] ops
    (∀ j d, (j, d) ∈ eachOf t t.length i 0 ↔ climb (linkTab t) d j = some i) ∧
      ((eachOf t t.length i 0).map (·.1)).Nodup := by
  intro t
  have h := links_wellformed_after_history ops
  have hl : (linkTab t).length = t.length := by simp [linkTab]
  have := eachL_spec (linkTab t) h i
  rw [hl] at this
  simpa only [eachOf_eq] using this

/-- (11) **`Sublogger(name)` agrees with the creation history.** After any history, what it returns
    carries that name and is the receiver or a logger below it; and if it returns nothing, no logger
    that `Each` reports below the receiver carries the name. -/
theorem sublogger_agrees_with_history (ops : List TreeOp) (i : Nat) (nm : Bytes) :
    let t := treeRun [] ops
    (∀ j, subloggerOf t t.length i nm = some j → hasName t j nm ∧ ∃ k, climb (linkTab t) k j = some i) ∧
    (subloggerOf t t.length i nm = none → ∀ j d, (j, d) ∈ eachOf t t.length i 0 → ¬ hasName t j nm) := by
  intro t
  exact ⟨fun j hs => sublogger_sound t (links_wellformed_after_history ops) nm _ i j hs,
         fun hs => sublogger_none t nm _ i 0 hs⟩

/-- one parent link is one climbing step -/
theorem climb_one_is_parent (t : Tree) (j : Nat) (n : Node) (h : t[j]? = some n) : climb (linkTab t) 1 j = n.parent := by
  simp only [climb, linkTab_get t j n h, linksOf]
  cases n.parent <;> rfl

-- non-vacuity: Each on a root with a child and a grandchild
example :
    let t := treeRun [] [.newRoot [114] 3 [], .newChild 0 [97] [97] [], .newChild 1 [98] [98] [], .newChild 0 [99] [99] []]
    eachOf t t.length 0 0 = [(0, 0), (1, 1), (2, 2), (3, 1)] ∧ climb (linkTab t) 2 2 = some 0 := by decide

-- non-vacuity: a root, a named child (created once, found the second time), a With-child
example :
    let t := treeRun [] [.newRoot [114] 3 [], .newChild 0 [97] [97] [], .newChild 0 [97] [97] [.level 0],
                         .newChild 0 [35, 49] [120] [.json [true]], .set 1 (.level 5)]
    t.length = 3 ∧ (t[1]?.map (·.level)) = some 5 ∧ (t[0]?.map (·.level)) = some 3 ∧
    (t[2]?.map (fun n => fmtOf n.bits)) = some .json ∧ (t[0]?.map (fun n => fmtOf n.bits)) = some .color ∧
    rootOf t 3 2 = 0 := by decide

/-- The model changes one node per Set… operation and none per With… operation; that this is how the code
    works rests on a fact regenerated from the source: every assignment to a per-logger setting (level,
    format bits, attributes, skip count, writers, time layout and zone mode, context keys, value stringer,
    owner) goes through the receiver `s` of the method or option it stands in - no statement of the
    package writes a setting of a logger it merely looked up, created earlier or was handed. -/
theorem settings_written_through_the_receiver_only : Gen.foreignSettingWrites = [] := by decide

end Logg.Props.C10
