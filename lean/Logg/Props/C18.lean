/-
  C18 — Path hardening never lets a protected directory prefix through.
  The prefix table is a Go map; every theorem holds for every order in which the map may be visited
  (any permutation σ of the table).
-/
import Logg.Model.Path
import Logg.Gen.Tables

namespace Logg.Props.C18
open Logg

theorem flag_constants : Gen.Lprivacypath = Fl.privacyPath ∧ Gen.Lprivacypathregexp = Fl.privacyPathRegexp := by decide

/-- "does not start with a slash" — what a hardened path looks like -/
def Rel (p : Bytes) : Prop := p.head? ≠ some 47

theorem isPrefix_head (k p : Bytes) (h : isPrefix k p = true) (hk : k.head? = some 47) : p.head? = some 47 := by
  cases k with
  | nil => simp at hk
  | cons a as =>
    cases p with
    | nil => simp [isPrefix] at h
    | cons c cs =>
      simp only [isPrefix, Bool.and_eq_true, beq_iff_eq] at h
      simp only [List.head?_cons, Option.some.injEq] at hk ⊢
      rw [← h.1]; exact hk

theorem not_prefix_of_rel (k p : Bytes) (hk : k.head? = some 47) (hp : Rel p) : isPrefix k p = false := by
  cases h : isPrefix k p
  · rfl
  · exact absurd (isPrefix_head k p h hk) hp

theorem replaceAll_of_prefix (s k v : Bytes) (hne : k ≠ []) (h : isPrefix k s = true) :
    ∃ rest, replaceAllB s k v = v ++ rest := by
  cases s with
  | nil =>
    cases k with
    | nil => exact absurd rfl hne
    | cons a as => simp [isPrefix] at h
  | cons c t =>
    have hk : k.isEmpty = false := by cases k <;> simp_all
    exact ⟨_, by simp only [replaceAllB, replaceAll, hk, h]; rfl⟩

/-- hypotheses on the mapping table -/
structure GoodTable (tbl : List (Bytes × Bytes)) : Prop where
  keysAbsolute : ∀ kv ∈ tbl, kv.1.head? = some 47                     -- H1
  replRelative : ∀ kv ∈ tbl, kv.2 ≠ [] ∧ kv.2.head? ≠ some 47          -- H2

theorem applyTable_rel_fixed (tbl : List (Bytes × Bytes)) (p : Bytes)
    (h1 : ∀ kv ∈ tbl, kv.1.head? = some 47) (hp : Rel p) : applyTable tbl p = p := by
  induction tbl with
  | nil => rfl
  | cons kv rest ih =>
    have hnp := not_prefix_of_rel kv.1 p (h1 kv (by simp)) hp
    simp only [applyTable, List.foldl_cons, hnp]
    exact ih (fun x hx => h1 x (by simp [hx]))

theorem applyTable_hides (tbl : List (Bytes × Bytes)) (file k v : Bytes) (hg : GoodTable tbl)
    (hk : (k, v) ∈ tbl) (hpre : isPrefix k file = true) : Rel (applyTable tbl file) := by
  induction tbl with
  | nil => simp at hk
  | cons kv rest ih =>
    have hgrest : GoodTable rest :=
      ⟨fun x hx => hg.keysAbsolute x (by simp [hx]), fun x hx => hg.replRelative x (by simp [hx])⟩
    simp only [applyTable, List.foldl_cons]
    by_cases hfire : isPrefix kv.1 file = true
    · simp only [hfire, ↓reduceIte]
      have hkne : kv.1 ≠ [] := by
        intro e; have := hg.keysAbsolute kv (by simp); rw [e] at this; simp at this
      obtain ⟨r, hr⟩ := replaceAll_of_prefix file kv.1 kv.2 hkne hfire
      have h2 := hg.replRelative kv (by simp)
      have hrel : Rel (replaceAllB file kv.1 kv.2) := by
        rw [hr]; unfold Rel
        cases hv : kv.2 with
        | nil => exact absurd hv h2.1
        | cons a as => rw [hv] at h2; simpa using h2.2
      have := applyTable_rel_fixed rest _ hgrest.keysAbsolute hrel
      unfold applyTable at this
      rw [this]; exact hrel
    · have hfalse : isPrefix kv.1 file = false := by simpa using hfire
      simp only [hfalse, Bool.false_eq_true, ↓reduceIte]
      have hin : (k, v) ∈ rest := by
        rcases List.mem_cons.mp hk with h | h
        · rw [← h] at hfire; exact absurd hpre hfire
        · exact h
      exact ih hgrest hin

/-- H3: a regexp rule never turns a path that does not start with a slash into one that does. -/
def RuleKeepsRel (r : RxRule) : Prop := ∀ s, Rel s → Rel (r.apply s)

theorem rx_fold_rel (rx : List RxRule) (file p : Bytes) (h3 : ∀ r ∈ rx, RuleKeepsRel r) (hp : Rel p) :
    Rel (rx.foldl (fun p r => if r.matches file then r.apply p else p) p) := by
  induction rx generalizing p with
  | nil => exact hp
  | cons r rest ih =>
    simp only [List.foldl_cons]
    apply ih _ (fun x hx => h3 x (by simp [hx]))
    split
    · exact h3 r (by simp) p hp
    · exact hp

/-- The built-in `/Volumes/[^/]+/` rule and every literal rule whose pattern is absolute satisfy H3:
    their pattern starts with a slash, so it cannot match at the head of a path that does not. -/
theorem volumes_keeps_rel (repl : Bytes) : RuleKeepsRel (.volumes repl) := by
  intro s hs
  cases s with
  | nil => simp [RxRule.apply, volumesReplace, Rel]
  | cons c t =>
    have hc : (47 == c) = false := by
      have : c ≠ 47 := by simpa [Rel] using hs
      simpa using fun e => this e.symm
    have hm : volumesMatchAt (c :: t) = none := by
      simp [volumesMatchAt, volumesPrefix, isPrefix, hc]
    simp only [RxRule.apply, List.length_cons, volumesReplace, hm]
    simpa [Rel] using hs

theorem lit_abs_keeps_rel (pat repl : Bytes) (hp : pat.head? = some 47) : RuleKeepsRel (.lit pat repl) := by
  intro s hs
  cases s with
  | nil => simp [RxRule.apply, replaceAllB, replaceAll, Rel]
  | cons c t =>
    have hne : pat.isEmpty = false := by cases pat <;> simp_all
    have hnp := not_prefix_of_rel pat (c :: t) hp hs
    simp only [RxRule.apply, hne, Bool.false_eq_true, ↓reduceIte, replaceAllB, List.length_cons, replaceAll, hnp]
    simpa [Rel] using hs

/-- (1) While the privacy flag is on, a path under any registered mapping is never reported with that
    directory prefix — whatever the iteration order of the mapping table (σ ranges over all its
    permutations), whatever else is registered, with the regexp stage on or off, and whatever
    `filepath.Rel` answers. -/
theorem protected_prefix_hidden (flags : Nat) (tbl σ : List (Bytes × Bytes)) (rx : List RxRule) (rel file k v : Bytes)
    (hσ : σ.Perm tbl) (hpriv : flagSet flags Fl.privacyPath = true) (hg : GoodTable tbl)
    (h3 : ∀ r ∈ rx, RuleKeepsRel r) (hk : (k, v) ∈ tbl) (hpre : isPrefix k file = true) :
    isPrefix k (checkpath flags σ rx rel file) = false := by
  have hgσ : GoodTable σ :=
    ⟨fun x hx => hg.keysAbsolute x (hσ.mem_iff.mp hx), fun x hx => hg.replRelative x (hσ.mem_iff.mp hx)⟩
  have hkσ : (k, v) ∈ σ := hσ.mem_iff.mpr hk
  have hkabs : k.head? = some 47 := hg.keysAbsolute (k, v) hk
  have hrel := applyTable_hides σ file k v hgσ hkσ hpre
  have hpriv' : Rel (privOf flags σ rx file) := by
    unfold privOf
    rw [if_pos hpriv]
    simp only []
    split
    · exact rx_fold_rel rx file _ h3 hrel
    · have : isPrefix volumesPrefix (applyTable σ file) = false :=
        not_prefix_of_rel _ _ (by decide) hrel
      simp only [this, Bool.false_eq_true, ↓reduceIte]
      exact hrel
  have hne : ((privOf flags σ rx file).head? == some 47) = false := by simpa [Rel] using hpriv'
  unfold checkpath
  simp only [hne, Bool.false_eq_true, ↓reduceIte]
  exact not_prefix_of_rel k _ hkabs hpriv'

/-- The hypotheses are not decoration: with replacements that are themselves absolute the answer
    depends on the iteration order and a protected prefix can survive (H2 violated). -/
theorem fails_without_H2 :
    checkpath Fl.privacyPath [([47, 97], [47, 116]), ([47, 116], [47, 97])] [] [] [47, 97, 47, 120] = [47, 97, 47, 120] ∧
    checkpath Fl.privacyPath [([47, 116], [47, 97]), ([47, 97], [47, 116])] [] [] [47, 97, 47, 120] = [47, 116, 47, 120] := by
  decide

/-- (2) With the privacy flag off the path is returned unchanged or as the shorter relative path. -/
theorem privacy_off (flags : Nat) (tbl : List (Bytes × Bytes)) (rx : List RxRule) (rel file : Bytes)
    (h : flagSet flags Fl.privacyPath = false) :
    checkpath flags tbl rx rel file = file ∨ (checkpath flags tbl rx rel file = rel ∧ rel.length < file.length) := by
  have hp : privOf flags tbl rx file = file := by simp [privOf, h]
  unfold checkpath
  rw [hp]
  split
  · split
    · rename_i hr; right; simp at hr; exact ⟨rfl, hr.2⟩
    · left; rfl
  · left; rfl

-- non-vacuity: home is hidden in both visiting orders of a table that also maps a directory below it
example : checkpath (Fl.privacyPath) [([47, 114], [126]), ([47, 114, 47, 112], [46])] [] [] [47, 114, 47, 112, 47, 97] = [126, 47, 112, 47, 97] ∧
          checkpath (Fl.privacyPath) [([47, 114, 47, 112], [46]), ([47, 114], [126])] [] [] [47, 114, 47, 112, 47, 97] = [46, 47, 97] := by decide

end Logg.Props.C18
