/-
  C12 — Panic and Fatal: the record is written first, then the documented termination.
  `Gen.terminate` is regenerated from the tail of Entry.logContext, `Gen.logContextSeq` from
  the order of its calls, `Gen.exitCode` / `Gen.panicValue` from its literals.
-/
import Logg.Model.Terminate
import Logg.Lemmas.Bits
import Logg.Props.C01

namespace Logg.Props.C12
open Logg

theorem flag_constants : Gen.LnoInterrupt = Fl.noInterrupt ∧ Gen.Linterruptalways = Fl.interruptAlways := by
  decide

/-- (1) The tail of `logContext`, as the code says it now, is the termination rule of the
    statement — for every severity (any integer), every flag word, both process modes. -/
theorem terminate_is_spec (g : Globals) (lvl : Int) : Gen.terminate g lvl = terminateSpec g lvl := by
  unfold Gen.terminate terminateSpec flagSet Fl.interruptAlways Fl.noInterrupt Lv.panic Lv.fatal
  have h20 := Lemmas.land_single_bit g.flags 20
  have h21 : (2:Nat) ^ 21 = 2097152 := by decide
  have h20' : (2:Nat) ^ 20 = 1048576 := by decide
  rw [h20'] at h20
  simp only [h21, h20', h20]
  cases g.inTesting <;> cases (Nat.land g.flags 2097152 != 0) <;> cases (Nat.land g.flags 1048576 != 0) <;>
    by_cases h0 : lvl = 0 <;> by_cases h1 : lvl = 1 <;> simp_all

/-- (2) No other severity ever panics or exits — including custom levels treated as Panic. -/
theorem others_never_terminate (g : Globals) (lvl : Int) (h0 : lvl ≠ Lv.panic) (h1 : lvl ≠ Lv.fatal) :
    Gen.terminate g lvl = .continue := by
  rw [terminate_is_spec]; unfold terminateSpec; split <;> simp [h0, h1]

/-- (3) No termination with the no-interrupt flag; none under go test without interrupt-always. -/
theorem noInterrupt_suppresses (g : Globals) (lvl : Int) (h : flagSet g.flags Fl.noInterrupt = true) :
    Gen.terminate g lvl = .continue := by
  rw [terminate_is_spec]; simp [terminateSpec, h]

theorem testing_suppresses (g : Globals) (lvl : Int) (ht : g.inTesting = true)
    (h : flagSet g.flags Fl.interruptAlways = false) : Gen.terminate g lvl = .continue := by
  rw [terminate_is_spec]; simp [terminateSpec, ht, h]

/-- (4) Otherwise Panic panics and Fatal exits with status 253 (= -3 mod 256). -/
theorem panic_and_fatal_terminate (g : Globals)
    (h : (!g.inTesting || flagSet g.flags Fl.interruptAlways) = true) (hn : flagSet g.flags Fl.noInterrupt = false) :
    Gen.terminate g Lv.panic = .panic ∧ Gen.terminate g Lv.fatal = .exit (-3) ∧
    Gen.exitCode = -3 ∧ exitStatus Gen.exitCode = 253 := by
  refine ⟨?_, ?_, by decide, by decide⟩ <;> rw [terminate_is_spec] <;> simp [terminateSpec, h, hn] <;> decide

/-- (5) The record is written first: in `logContext` the `print` call precedes both `panic`
    and `os.Exit`, and the panic value is the message. -/
theorem record_first :
    Gen.logContextSeq.idxOf "print" < Gen.logContextSeq.idxOf "panic" ∧
    Gen.logContextSeq.idxOf "print" < Gen.logContextSeq.idxOf "exit" ∧
    "print" ∈ Gen.logContextSeq ∧ Gen.panicValue = "msg" := by decide

/-- The outcome of a call through a site of a public entry point: the termination tail is
    only reached if the gate let the call into `logContext`. -/
def callOutcome (g : Globals) (L arg : Int) (s : EmitSite) : Outcome :=
  if C01.siteEmits g L arg s then Gen.terminate g (C01.siteSeverity arg s) else .continue

/-- (6) A call that is not admitted never terminates, at any entry point. -/
theorem not_admitted_never_terminates (g : Globals) (L arg : Int) :
    ∀ ep ∈ Gen.entryPoints, ∀ s ∈ ep.sites,
      admits g L (C01.siteSeverity arg s) = false → callOutcome g L arg s = .continue := by
  intro ep hep s hs hna
  simp [callOutcome, C01.emits_iff_admitted g L arg ep hep s hs, hna]

/-- (7) Wherever a log/slog level is accepted, only the explicit Panic / Fatal constants reach a
    terminating severity — for all integer level values. -/
theorem slog_levels_terminate_only_explicitly (l : Int) :
    (Gen.logsloglevel2Level l = Lv.panic → l = Gen.LevelPanic) ∧
    (Gen.logsloglevel2Level l = Lv.fatal → l = Gen.LevelFatal) := by
  by_cases h0 : l = -4
  · subst h0; decide
  by_cases h1 : l = 0
  · subst h1; decide
  by_cases h2 : l = 4
  · subst h2; decide
  by_cases h3 : l = 8
  · subst h3; decide
  by_cases h4 : l = -16
  · subst h4; decide
  by_cases h5 : l = -8
  · subst h5; decide
  by_cases h6 : l = 2
  · subst h6; decide
  by_cases h7 : l = 3
  · subst h7; decide
  by_cases h8 : l = 16
  · subst h8; decide
  by_cases h9 : l = 17
  · subst h9; decide
  have hv : Gen.logsloglevel2Level l = 5 ∨ Gen.logsloglevel2Level l = 4 ∨ Gen.logsloglevel2Level l = 3 ∨
      Gen.logsloglevel2Level l = 2 := by
    simp only [Gen.logsloglevel2Level, beq_iff_eq, h0, h1, h2, h3, h4, h5, h6, h7, h8, h9, if_false]
    split
    · simp
    · split
      · simp
      · split <;> simp
  simp only [Lv.panic, Lv.fatal]
  omega

theorem slog_handler_levels_never_terminate (l : Int) :
    Gen.convertLogSlogLevel l ≠ Lv.panic ∧ Gen.convertLogSlogLevel l ≠ Lv.fatal := by
  unfold Gen.convertLogSlogLevel Gen.mLogSlogLevelToLevel Lv.panic Lv.fatal
  simp only [List.lookup]
  constructor <;> grind

-- non-vacuity: production Panic terminates; with no-interrupt it does not; under test only with interrupt-always
example : Gen.terminate { inTesting := false, flags := 0 } 0 = .panic ∧
          Gen.terminate { inTesting := false, flags := 2 ^ 20 } 0 = .continue ∧
          Gen.terminate { inTesting := true, flags := 0 } 1 = .continue ∧
          Gen.terminate { inTesting := true, flags := 2 ^ 21 } 1 = .exit (-3) ∧
          Gen.terminate { inTesting := true, flags := 2 ^ 21 + 2 ^ 20 } 1 = .continue := by decide

/-! ### programs: a sequence of calls on one logger -/

/-- A program of calls (severities) on a logger of level `L`: the records emitted, in order, and
    how the program ends. A terminating call ends it after its own record. -/
def runProgram (g : Globals) (L : Int) : List Int → List Int × Outcome
  | [] => ([], .continue)
  | s :: rest =>
    if Gen.enabled g L s then
      if Gen.terminate g s = .continue then ((s :: (runProgram g L rest).1), (runProgram g L rest).2)
      else ([s], Gen.terminate g s)
    else runProgram g L rest

/-- (10) A program without Panic / Fatal calls runs to its end, whatever the flags, and emits
    exactly its admitted calls, in order. -/
theorem program_runs_through (g : Globals) (L : Int) (sevs : List Int)
    (h : ∀ s ∈ sevs, s ≠ Lv.panic ∧ s ≠ Lv.fatal) :
    runProgram g L sevs = (sevs.filter (fun s => Gen.enabled g L s), .continue) := by
  induction sevs with
  | nil => rfl
  | cons s rest ih =>
    have hs := h s (by simp)
    have ih' := ih (fun x hx => h x (by simp [hx]))
    have ht : Gen.terminate g s = .continue := others_never_terminate g s hs.1 hs.2
    by_cases ha : Gen.enabled g L s = true
    · simp [runProgram, ha, ht, ih']
    · have ha' : Gen.enabled g L s = false := by simpa using ha
      simp [runProgram, ha', ih']

/-- (11) Record first, for whole programs: when a program is ended by a call, that call's record
    is the last one emitted — it was written before the process panicked or exited — and nothing
    after it is emitted. -/
theorem terminating_record_is_last (g : Globals) (L : Int) (sevs : List Int)
    (h : (runProgram g L sevs).2 ≠ .continue) :
    ∃ s, (runProgram g L sevs).1.getLast? = some s ∧ Gen.enabled g L s = true ∧
      Gen.terminate g s = (runProgram g L sevs).2 := by
  induction sevs with
  | nil => simp [runProgram] at h
  | cons s rest ih =>
    by_cases ha : Gen.enabled g L s = true
    · by_cases ht : Gen.terminate g s = .continue
      · simp only [runProgram, ha, ht, if_true] at h ⊢
        obtain ⟨s', hl, he, hx⟩ := ih h
        refine ⟨s', ?_, he, hx⟩
        cases hr : (runProgram g L rest).1 with
        | nil => simp [hr] at hl
        | cons a as => simpa [hr, List.getLast?_cons_cons] using hl
      · exact ⟨s, by simp [runProgram, ha, ht], ha, by simp [runProgram, ha, ht]⟩
    · have ha' : Gen.enabled g L s = false := by simpa using ha
      simp only [runProgram, ha'] at h ⊢
      simpa using ih h

-- non-vacuity: a production Info logger; Info, Debug (not admitted), Fatal, Info: the Fatal record is
-- written, then the process exits with 253 (-3), the last call is never reached
example : runProgram { inTesting := false, flags := 0 } 4 [4, 5, 1, 4] = ([4, 1], .exit (-3)) := by decide

end Logg.Props.C12
