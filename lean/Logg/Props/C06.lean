/-
  C06 — Colored console mode: faithful layout and no colour bleeding out of a record.
  (model tied byte for byte to the code on the fidelity domain; see DESIGN.md §7 C06 for what is
  proved and what the SGR-tracker oracle decides per generated record)
-/
import Logg.Lemmas.EncoderClean
import Logg.Lemmas.Sgr

namespace Logg.Props.C06
open Logg Logg.Lemmas

/-- (1) Every coloured piece the encoder emits for message text switches its colour off again:
    `wrapColorAndBg` always ends with the reset sequence. -/
theorem wrapped_text_ends_with_reset (text : Bytes) (clr bg : Int) :
    ∃ pre, wrapColorAndBg text clr bg = pre ++ escReset := ⟨_, rfl⟩

/-- (2) The attribute part of a colored record always ends with the reset sequence, whatever the
    attributes are (also when there are none). -/
theorem attrs_end_with_reset (c : EncCfg) (hc : c.fmt = .color) (depth : Nat) (attrs : List Attr) :
    ∃ pre, encTopAttrs c depth attrs = pre ++ escReset := by
  refine ⟨encAttrs c depth [] false (prepAttrs attrs), ?_⟩
  simp [encTopAttrs, EncCfg.noColor, hc]

/-- (3) Attribute values never contribute raw escape or control bytes: every string-like value
    (strings, errors, Stringers, durations, []byte, the %v fallback) goes through Go-syntax quoting in
    colored mode as well, whose output is free of control bytes (ESC included) and DEL for all inputs. -/
theorem values_are_quoted_clean (s : Bytes) :
    ({ fmt := .color, isPrint := isPrintTable } : EncCfg).quote s = goQuote isPrintTable s ∧
    Clean (goQuote isPrintTable s) := by
  refine ⟨by simp [EncCfg.quote, quoteValue, EncCfg.json], goQuote_clean _ isPrintTable_safe s⟩

/-- (4) The first message line is padded with spaces to the minimal width (never truncated). -/
theorem first_line_padded (s : Bytes) (w : Nat) :
    (rightPad s w).length = max s.length w ∧ (rightPad s w).take s.length = s := by
  unfold rightPad
  constructor
  · simp; omega
  · simp

/-- (5) The level tag has the configured width (1 … 5) for every level without custom tags. -/
theorem tag_has_configured_width (reg : Registry) (l : Int) (n : Nat) (hn : 1 ≤ n ∧ n ≤ 5)
    (hno : reg.hasCustomTag l n = false) : ∃ t, reg.shortTag l n = some t ∧ t.length = n := by
  have h1 : ¬ ((n : Int) ≤ 0 ∨ (n : Int) ≥ maxLengthShortTag) := by simp [maxLengthShortTag]; omega
  unfold Registry.hasCustomTag at hno
  have hnone : (List.lookup n reg.shortTags).bind (fun row => List.lookup l row) = none := by
    cases hx : (List.lookup n reg.shortTags).bind (fun row => List.lookup l row) <;> simp_all
  simp only [Registry.shortTag, h1, ↓reduceIte, Int.toNat_natCast, hnone]
  by_cases hl : (reg.name l).length > 0
  · simp only [hl, ↓reduceIte]
    by_cases he : (reg.name l).length = n
    · exact ⟨reg.name l, by simp [he], he⟩
    · by_cases hlt : (reg.name l).length < n
      · exact ⟨(reg.name l ++ List.replicate n 32).take n, by simp [he, hlt], by simp⟩
      · exact ⟨(reg.name l).take n, by simp [he, hlt], by simp; omega⟩
  · exact ⟨List.replicate n 63, by simp [hl], by simp⟩

/-- (6) **No colour bleeds out of a record or across a line break.** Read by a terminal that starts
    with all attributes off (the scanner `sgrScan`: "ESC [ n m" switches on for n ≠ 0 and off for
    n = 0), the payload of every colored record never has a colour or attribute on at a line feed,
    contains no sequence other than well-formed SGR sequences, and ends with everything off — for
    every record of the fidelity domain: message without control bytes other than LF, any severity,
    tag width and minimal width, any attributes (all kinds, errors in red, groups at any depth),
    caller on or off. Assumed of the inputs the layout copies verbatim (timestamp text, logger
    name, tag, keys, texts rendered by the standard library, caller file and function): no control
    byte; of the registered colors: a number ≥ 0 or -1 for "none". -/
theorem no_color_bleeds (p : Presentation) (depth : Nat) (r : Record) (out : Bytes)
    (h : encodeRecord .color isPrintTable p depth r = some out)
    (hin : ∀ tag, p.reg.shortTag r.lvl p.tagWidth = some tag → ColorInputs p r depth tag) :
    let s := sgrScan Sgr.init out
    s.bad = false ∧ s.colored = false ∧ s.mode = 0 := by
  have := colored_record_hygiene isPrintTable isPrintTable_safe p depth r out h hin
  exact ⟨this.1.2.2, this.2, this.1.1⟩

/-- the scanner does discriminate: a colour left on before a line break is flagged -/
example : (sgrScan Sgr.init [27, 91, 51, 49, 109, 120, 10]).bad = true ∧
          (sgrScan Sgr.init [27, 91, 51, 49, 109, 120, 27, 91, 48, 109, 10]).bad = false := by decide

-- non-vacuity: the pieces of a two-line Info message: the first line is wrapped and reset before the line feed,
-- a single remaining line is indented by four spaces and carries no colour
example : wrapColorAndBg [97, 32] 36 (-1) = [27, 91, 51, 54, 109, 97, 32, 27, 91, 48, 109] ∧
          splitFirstRest [97, 10, 98] = ([97], [98], false) ∧ splitFirstRest [97, 10, 98, 10] = ([97], [98], true) ∧
          rightPad [97] 2 = [97, 32] := by decide

end Logg.Props.C06
