import Logg.Model.Encoder
namespace Logg.Props.C06
open Logg
example : jsonQuote [97] = [34, 97, 34] := by decide
end Logg.Props.C06
