/-
  C06 — Colored console mode: faithful layout and no colour bleeding out of a record.
  (model tied byte for byte to the code on the fidelity domain; see DESIGN.md §7 C06 for what is
  proved and what the SGR-tracker oracle decides per generated record)
-/
import Logg.Lemmas.EncoderClean
import Logg.Lemmas.Sgr
import Logg.Lemmas.Layout

namespace Logg.Props.C06
open Logg Logg.Lemmas

/-- (1) Every coloured piece the encoder emits for message text switches its colour off again:
    `wrapColorAndBg` always ends with the reset sequence. -/
theorem wrapped_text_ends_with_reset (text : Bytes) (clr bg : Int) :
    ∃ pre, wrapColorAndBg text clr bg = pre ++ escReset := ⟨_, rfl⟩

/-- (2) The attribute part of a colored record always ends with the reset sequence, whatever the
    attributes are (also when there are none). -/
theorem attrs_end_with_reset (c : EncCfg) (hc : c.fmt = .color) (depth : Nat) (attrs : List Attr) :
    ∃ pre, encTopAttrs c depth attrs = pre ++ escReset := by
  refine ⟨encAttrs c depth [] false (prepAttrs attrs), ?_⟩
  simp [encTopAttrs, EncCfg.noColor, hc]

/-- (3) Attribute values never contribute raw escape or control bytes: every string-like value
    (strings, errors, Stringers, durations, []byte, the %v fallback) goes through Go-syntax quoting in
    colored mode as well, whose output is free of control bytes (ESC included) and DEL for all inputs. -/
theorem values_are_quoted_clean (s : Bytes) :
    ({ fmt := .color, isPrint := isPrintTable } : EncCfg).quote s = goQuote isPrintTable s ∧
    Clean (goQuote isPrintTable s) := by
  refine ⟨by simp [EncCfg.quote, quoteValue, EncCfg.json], goQuote_clean _ isPrintTable_safe s⟩

/-- (4) The first message line is padded with spaces to the minimal width (never truncated). -/
theorem first_line_padded (s : Bytes) (w : Nat) :
    (rightPad s w).length = max s.length w ∧ (rightPad s w).take s.length = s := by
  unfold rightPad
  constructor
  · simp; omega
  · simp

/-- (5) The level tag has the configured width (1 … 5) for every level without custom tags. -/
theorem tag_has_configured_width (reg : Registry) (l : Int) (n : Nat) (hn : 1 ≤ n ∧ n ≤ 5)
    (hno : reg.hasCustomTag l n = false) : ∃ t, reg.shortTag l n = some t ∧ t.length = n := by
  have h1 : ¬ ((n : Int) ≤ 0 ∨ (n : Int) ≥ maxLengthShortTag) := by simp [maxLengthShortTag]; omega
  unfold Registry.hasCustomTag at hno
  have hnone : (List.lookup n reg.shortTags).bind (fun row => List.lookup l row) = none := by
    cases hx : (List.lookup n reg.shortTags).bind (fun row => List.lookup l row) <;> simp_all
  simp only [Registry.shortTag, h1, ↓reduceIte, Int.toNat_natCast, hnone]
  by_cases hl : (reg.name l).length > 0
  · simp only [hl, ↓reduceIte]
    by_cases he : (reg.name l).length = n
    · exact ⟨reg.name l, by simp [he], he⟩
    · by_cases hlt : (reg.name l).length < n
      · exact ⟨(reg.name l ++ List.replicate n 32).take n, by simp [he, hlt], by simp⟩
      · exact ⟨(reg.name l).take n, by simp [he, hlt], by simp; omega⟩
  · exact ⟨List.replicate n 63, by simp [hl], by simp⟩

/-- (6) **No colour bleeds out of a record or across a line break.** Read by a terminal that starts
    with all attributes off (the scanner `sgrScan`: "ESC [ n m" switches on for n ≠ 0 and off for
    n = 0), the payload of every colored record never has a colour or attribute on at a line feed,
    contains no sequence other than well-formed SGR sequences, and ends with everything off — for
    every record of the fidelity domain: message without control bytes other than LF, any severity,
    tag width and minimal width, any attributes (all kinds, errors in red, groups at any depth),
    caller on or off. Assumed of the inputs the layout copies verbatim (timestamp text, logger
    name, tag, keys, texts rendered by the standard library, caller file and function): no control
    byte; of the registered colors: a number ≥ 0 or -1 for "none". -/
theorem no_color_bleeds (p : Presentation) (depth : Nat) (r : Record) (out : Bytes)
    (h : encodeRecord .color isPrintTable p depth r = some out)
    (hin : ∀ tag, p.reg.shortTag r.lvl p.tagWidth = some tag → ColorInputs p r depth tag) :
    let s := sgrScan Sgr.init out
    s.bad = false ∧ s.colored = false ∧ s.mode = 0 := by
  have := colored_record_hygiene isPrintTable isPrintTable_safe p depth r out h hin
  exact ⟨this.1.2.2, this.2, this.1.1⟩

/-- colored mode produces a payload whenever ShortTag accepts the tag width and the padded first line has no markup -/
theorem colored_payload_exists (p : Presentation) (depth : Nat) (r : Record) (tag : Bytes)
    (hnb : (r.lvl == Lv.always && isBlank r.msg) = false)
    (htag : p.reg.shortTag r.lvl p.tagWidth = some tag)
    (hm : needsTranslate (rightPad (splitFirstRest r.msg).1 p.minWidth) = false) :
    ∃ out, encodeRecord .color isPrintTable p depth r = some out := by
  unfold encodeRecord
  rw [if_neg (by simp [hnb])]
  simp only [htag, hm]
  exact ⟨_, rfl⟩

/-- (7) **Faithful layout.** Once the escape sequences are removed (`stripSgr`: every `ESC [ … m`
    is dropped, everything else kept), the payload of every colored record of the fidelity domain
    is exactly `colorLayout`: the timestamp and `| `, the logger name and a space if there is one,
    the tag of the configured width in brackets and a space, the first message line padded to the
    minimal width, the attributes as ` key=value` in prepared order (ascending keys, one per key:
    `prepAttrs`, see C07) with the members of a group under `group.member` keys, the caller
    ` file:line function`, the remaining message lines each indented by four spaces, and the final
    line feed. The layout is defined in Model/Layout.lean without any mention of colours. Same
    assumptions about the inputs as in (6). -/
theorem layout_without_escapes (p : Presentation) (depth : Nat) (r : Record) (out tag : Bytes)
    (h : encodeRecord .color isPrintTable p depth r = some out)
    (hnb : (r.lvl == Lv.always && isBlank r.msg) = false)
    (htag : p.reg.shortTag r.lvl p.tagWidth = some tag)
    (hin : ColorInputs p r depth tag) :
    stripSgr out = colorLayout isPrintTable p.minWidth depth tag r :=
  colored_record_layout isPrintTable isPrintTable_safe p depth r out tag h hnb htag hin

/-- (7′) existence form: such a record has a payload and, without its sequences, it is the layout -/
theorem colored_record_reads_as_layout (p : Presentation) (depth : Nat) (r : Record) (tag : Bytes)
    (hnb : (r.lvl == Lv.always && isBlank r.msg) = false)
    (htag : p.reg.shortTag r.lvl p.tagWidth = some tag)
    (hm : needsTranslate (rightPad (splitFirstRest r.msg).1 p.minWidth) = false)
    (hin : ColorInputs p r depth tag) :
    ∃ out, encodeRecord .color isPrintTable p depth r = some out ∧
      stripSgr out = colorLayout isPrintTable p.minWidth depth tag r := by
  obtain ⟨out, h⟩ := colored_payload_exists p depth r tag hnb htag hm
  exact ⟨out, h, layout_without_escapes p depth r out tag h hnb htag hin⟩

/-- (8) The layout does not depend on the colours in force: two presentations that differ only in the
    level colours give the same text once the sequences are removed. -/
theorem layout_independent_of_colors (p q : Presentation) (depth : Nat) (r : Record) (o₁ o₂ tag : Bytes)
    (hreg : p.reg = q.reg) (hw : p.tagWidth = q.tagWidth) (hm : p.minWidth = q.minWidth)
    (h₁ : encodeRecord .color isPrintTable p depth r = some o₁)
    (h₂ : encodeRecord .color isPrintTable q depth r = some o₂)
    (hnb : (r.lvl == Lv.always && isBlank r.msg) = false)
    (htag : p.reg.shortTag r.lvl p.tagWidth = some tag)
    (hp : ColorInputs p r depth tag) (hq : ColorInputs q r depth tag) :
    stripSgr o₁ = stripSgr o₂ := by
  rw [layout_without_escapes p depth r o₁ tag h₁ hnb htag hp,
      layout_without_escapes q depth r o₂ tag h₂ hnb (by rw [← hreg, ← hw]; exact htag) hq, hm]

/-- the remover drops exactly the sequences: "ESC[32mab ESC[0m| ESC[1;31mx" reads "ab | x"; a lone ESC stays -/
example : stripSgr [27, 91, 51, 50, 109, 97, 98, 32, 27, 91, 48, 109, 124, 32, 27, 91, 49, 59, 51, 49, 109, 120] = [97, 98, 32, 124, 32, 120] ∧
          stripSgr [97, 27, 98] = [97, 27, 98] := by decide

/-- the scanner does discriminate: a colour left on before a line break is flagged -/
example : (sgrScan Sgr.init [27, 91, 51, 49, 109, 120, 10]).bad = true ∧
          (sgrScan Sgr.init [27, 91, 51, 49, 109, 120, 27, 91, 48, 109, 10]).bad = false := by decide

-- non-vacuity: the pieces of a two-line Info message: the first line is wrapped and reset before the line feed,
-- a single remaining line is indented by four spaces and carries no colour
example : wrapColorAndBg [97, 32] 36 (-1) = [27, 91, 51, 54, 109, 97, 32, 27, 91, 48, 109] ∧
          splitFirstRest [97, 10, 98] = ([97], [98], false) ∧ splitFirstRest [97, 10, 98, 10] = ([97], [98], true) ∧
          rightPad [97] 2 = [97, 32] := by decide

-- non-vacuity of (7): an Info record "hi\nyo" with two attributes and a caller meets every hypothesis,
-- and its layout is  T| [inf] hi   e=true k=1 f:7 g ⏎     yo ⏎
def exReg : Registry where
  allLevels := [6]
  levelToString := [(6, [105, 110, 102, 111])]
  stringToLevel := []
  shortTags := []
  treatAs := []
  errorDevice := []
  colors := []
def exP : Presentation := { reg := exReg, tagWidth := 3, minWidth := 4, colors := [(6, [36, -1])] }
def exR : Record where
  lvl := 6
  ts := [84]
  name := []
  msg := [104, 105, 10, 121, 111]
  attrs := [some ([107], false, .int 1), some ([101], false, .bool true)]
  caller := some ([102], 7, [103], [103])

theorem ex_tag : exP.reg.shortTag exR.lvl exP.tagWidth = some [105, 110, 102] := by decide
theorem ex_notBlank : (exR.lvl == Lv.always && isBlank exR.msg) = false := by decide
theorem ex_inputs : ColorInputs exP exR 3 [105, 110, 102] where
  ts := noC0_of_B (by decide)
  name := noC0_of_B (by decide)
  tag := noC0_of_B (by decide)
  msg := by unfold MsgOK; decide
  attrs := by simp [exR, attrOK, atomsOK, noC0B]
  caller := by
    intro file line fn shown h
    simp [exR] at h
    obtain ⟨rfl, _, _, rfl⟩ := h
    exact ⟨noC0_of_B (by decide), noC0_of_B (by decide)⟩
  clr := by decide
  bg := by decide
theorem ex_noMarkup : needsTranslate (rightPad (splitFirstRest exR.msg).1 exP.minWidth) = false := by decide
theorem ex_layout : colorLayout isPrintTable 4 3 [105, 110, 102] exR =
    [84, 124, 32, 91, 105, 110, 102, 93, 32, 104, 105, 32, 32, 32, 101, 61, 116, 114, 117, 101, 32, 107, 61, 49, 32, 102, 58, 55,
     32, 103, 10, 32, 32, 32, 32, 121, 111, 10] := by
  have hs : splitFirstRest exR.msg = ([104, 105], [121, 111], false) := by decide
  have hl : splitLines [121, 111] = [[121, 111]] := by decide
  have hp : prepAttrs exR.attrs = [some ([101], false, .bool true), some ([107], false, .int 1)] := by
    simp [prepAttrs, exR, List.mergeSort, attrLe, attrLe.bytesLeB, dedupeAttrs, attrKeyEq]
  unfold colorLayout
  simp only [hs, hl, hp, plainAttrs, plainVal, encVal]
  decide
example : ∃ out, encodeRecord .color isPrintTable exP 3 exR = some out ∧ stripSgr out =
    [84, 124, 32, 91, 105, 110, 102, 93, 32, 104, 105, 32, 32, 32, 101, 61, 116, 114, 117, 101, 32, 107, 61, 49, 32, 102, 58, 55,
     32, 103, 10, 32, 32, 32, 32, 121, 111, 10] := by
  obtain ⟨out, h, hs⟩ := colored_record_reads_as_layout exP 3 exR _ ex_notBlank ex_tag ex_noMarkup ex_inputs
  exact ⟨out, h, by rw [hs]; exact ex_layout⟩

end Logg.Props.C06
