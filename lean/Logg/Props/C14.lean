/-
  C14 — Caller attribution points at the user's call site for every entry point.
  `Gen.entryPoints` (skip constant and length of the library call chain of every logContext site,
  by a symbolic walk of the source), `Gen.getpcPlus`, `Gen.handleCallersSkip` and
  `Gen.bridgeGetpcSkip` are regenerated from the source on every run.
-/
import Logg.Model.Caller

namespace Logg.Props.C14
open Logg

theorem userFrames_get (d n : Nat) (h : n < d) : (userFrames d)[n]? = some (Frame.user n) := by
  simp [userFrames, h]

theorem libFrames_length (n : Nat) : (libFrames n).length = n := by simp [libFrames]

/-- (0) getpc adds exactly one frame of its own to the count it is given. -/
theorem getpc_plus : Gen.getpcPlus = 1 := by decide

/-- (1) The indexing lemma: with `chain` library frames on the stack, a skip constant of
    `chain + 1` and `extra` extra frames select the user's frame number `extra` — for all chain
    lengths, skip counts and stack depths. -/
theorem getpc_selects_user (chain extra depth : Nat) (h : extra < depth) :
    getpcFrame (verbStack chain depth) (chain + 1) extra = some (Frame.user extra) := by
  unfold getpcFrame verbStack
  rw [getpc_plus]
  have hlen : ([Frame.callers, Frame.getpc] ++ libFrames chain).length = chain + 2 := by simp [libFrames_length]
  rw [List.getElem?_append_right (by rw [hlen]; omega)]
  rw [hlen]
  have : chain + 1 + extra + 1 - (chain + 2) = extra := by omega
  rw [this]
  exact userFrames_get depth extra h

/-- (2) Every logContext site of every public entry point — logger verbs, Context verbs,
    LogAttrs / Logit / Log, the printf-style verbs and the package-level functions — passes
    the skip constant that matches the length of its own call chain, and honours the logger's
    skip count. Decided over the regenerated table. -/
theorem every_site_consistent :
    ∀ ep ∈ Gen.entryPoints, ∀ s ∈ ep.sites, s.skip = s.chain + 1 ∧ s.usesExtra = true := by decide

/-- (3) Hence: for every entry point, every site, every skip count n given by WithSkip / SetSkip
    and every stack deep enough, the record is attributed to the n-th frame above the statement
    that issued it — n = 0: the statement's own function. -/
theorem attribution (ep : EntryPoint) (hep : ep ∈ Gen.entryPoints) (s : EmitSite) (hs : s ∈ ep.sites)
    (n depth : Nat) (h : n < depth) : siteFrame s n depth = some (Frame.user n) := by
  obtain ⟨h1, h2⟩ := every_site_consistent ep hep s hs
  unfold siteFrame
  rw [h1, h2]
  exact getpc_selects_user s.chain n depth h

/-- (4) The log/slog adapter: Handle's own runtime.Callers skips itself, Handle and the two
    log/slog frames, plus the logger's current skip count (read per record). -/
theorem handler_attribution (n depth : Nat) (h : n < depth) : handlerFrame n depth = some (Frame.user n) := by
  unfold handlerFrame handlerStack
  have hc : Gen.handleCallersSkip = 4 := by decide
  rw [hc, List.getElem?_append_right (by simp)]
  simp only [List.length_cons, List.length_nil]
  have : 4 + n - (0 + 1 + 1 + 1 + 1) = n := by omega
  rw [this]
  exact userFrames_get depth n h

/-- (5) The std log bridge: Write → getpc skips getpc, Write and the two frames of package log. -/
theorem bridge_attribution (n depth : Nat) (h : n < depth) : bridgeFrame n depth = some (Frame.user n) := by
  unfold bridgeFrame getpcFrame bridgeStack
  have hc : Gen.bridgeGetpcSkip = 4 := by decide
  rw [hc, getpc_plus, List.getElem?_append_right (by simp)]
  simp only [List.length_cons, List.length_nil]
  have : 4 + n + 1 - (0 + 1 + 1 + 1 + 1 + 1) = n := by omega
  rw [this]
  exact userFrames_get depth n h

/-- (6) A skip count moves the attribution exactly n frames: attributions for n and n + 1 are
    adjacent frames of the user's stack. -/
theorem skip_moves_one_frame (ep : EntryPoint) (hep : ep ∈ Gen.entryPoints) (s : EmitSite) (hs : s ∈ ep.sites)
    (n depth : Nat) (h : n + 1 < depth) :
    siteFrame s n depth = some (Frame.user n) ∧ siteFrame s (n + 1) depth = some (Frame.user (n + 1)) :=
  ⟨attribution ep hep s hs n depth (by omega), attribution ep hep s hs (n + 1) depth h⟩

/-- the table is not empty: 58 entry points, of which the Verbose family has no site in this build -/
theorem table_size : Gen.entryPoints.length = 58 ∧ (Gen.entryPoints.filter fun ep => ep.sites.isEmpty).length = 4 := by decide

-- non-vacuity: `Info` of a logger (chain Info → log1), skip 2, stack of depth 5
example : siteFrame { gated := true, gateSev := .const 4, emitSev := .const 4, skip := 3, chain := 2, usesExtra := true, sameLogger := true } 2 5
    = some (Frame.user 2) := by decide

end Logg.Props.C14
