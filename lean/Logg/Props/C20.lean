/-
  C20 — Duration text helpers are total, invertible and agree with the standard parser.
  `Gen.durBufLen` (the fixed array of shortDur / shortDurFormat) and `Gen.unitMap` are
  regenerated from slog/internal/times/dur.go.

  Proved here: totality of the formatter for every int64 duration (exact bound on the text
  length, both styles), the shape of the sign handling, the unit table. The round trip
  parse ∘ format and the agreement with time.ParseDuration are checked by the correspondence
  (value-space sweep and grammar-generated strings) — see DESIGN.md §7 C20 for why the float64
  step keeps them out of the kernel.
-/
import Logg.Model.Duration
import Logg.Gen.Tables

namespace Logg.Props.C20
open Logg

theorem decDigits_length (k : Nat) : ∀ (f v : Nat), v < 10 ^ (k + 1) → (decDigits f v).length ≤ k + 1 := by
  induction k with
  | zero =>
    intro f v hv
    cases f with
    | zero => simp [decDigits]
    | succ f =>
      have : v < 10 := by simpa using hv
      simp [decDigits, this]
  | succ k ih =>
    intro f v hv
    cases f with
    | zero => simp [decDigits]
    | succ f =>
      simp only [decDigits]
      split
      · simp
      · have hdiv : v / 10 < 10 ^ (k + 1) := by
          rw [Nat.div_lt_iff_lt_mul (by decide)]
          calc v < 10 ^ (k + 1 + 1) := hv
            _ = 10 ^ (k + 1) * 10 := by rw [Nat.pow_succ]
        have := ih f (v / 10) hdiv
        simp; omega

theorem fmtInt_length (k v : Nat) (hv : v < 10 ^ (k + 1)) : (fmtInt v).length ≤ k + 1 :=
  decDigits_length k _ v hv

theorem fracDigits_length (p v : Nat) (pr : Bool) : (fracDigits p v pr).length ≤ p := by
  induction p generalizing v pr with
  | zero => simp [fracDigits]
  | succ p ih =>
    simp only [fracDigits]
    have := ih (v / 10) (pr || v % 10 != 0)
    split <;> simp <;> omega

theorem fmtFrac_length (v p : Nat) : (fmtFrac v p).1.length ≤ p + 1 := by
  unfold fmtFrac
  have := fracDigits_length p v false
  show (if (fracDigits p v false).isEmpty = true then [] else 46 :: fracDigits p v false).length ≤ p + 1
  split <;> simp <;> omega

theorem field_length (v k : Nat) (suffix : Bytes) (hv : v < 10 ^ (k + 1)) :
    (field v suffix).length ≤ k + 1 + suffix.length := by
  unfold field
  split
  · have := fmtInt_length k v hv; simp; omega
  · simp

/-- every int64 duration -/
def isInt64 (d : Int) : Prop := -(2 ^ 63 : Int) ≤ d ∧ d < 2 ^ 63

theorem natAbs_le (d : Int) (h : isInt64 d) : d.natAbs ≤ 2 ^ 63 := by
  unfold isInt64 at h; omega

theorem compact_length (u : Nat) (hu : u ≤ 2 ^ 63) : (fmtCompact u).length ≤ 32 := by
  unfold fmtCompact
  have hd : u / nsPerDay < 10 ^ (5 + 1) := by
    have : u / nsPerDay ≤ 2 ^ 63 / nsPerDay := Nat.div_le_div_right hu
    have h2 : (2:Nat) ^ 63 / nsPerDay = 106751 := by decide
    omega
  have hh : u % nsPerDay / nsPerHour < 10 ^ (1 + 1) := by
    have : u % nsPerDay < nsPerDay := Nat.mod_lt _ (by decide)
    have : u % nsPerDay / nsPerHour < 24 := by
      rw [Nat.div_lt_iff_lt_mul (by decide)]; simpa [nsPerDay] using this
    omega
  have hm : u % nsPerDay % nsPerHour / nsPerMin < 10 ^ (1 + 1) := by
    have : u % nsPerDay % nsPerHour < nsPerHour := Nat.mod_lt _ (by decide)
    have : u % nsPerDay % nsPerHour / nsPerMin < 60 := by
      rw [Nat.div_lt_iff_lt_mul (by decide)]; simpa [nsPerHour] using this
    omega
  have hs : u % nsPerDay % nsPerHour % nsPerMin / nsPerS < 10 ^ (1 + 1) := by
    have : u % nsPerDay % nsPerHour % nsPerMin < nsPerMin := Nat.mod_lt _ (by decide)
    have : u % nsPerDay % nsPerHour % nsPerMin / nsPerS < 60 := by
      rw [Nat.div_lt_iff_lt_mul (by decide)]; simpa [nsPerMin] using this
    omega
  have hms : u % nsPerDay % nsPerHour % nsPerMin % nsPerS / nsPerMs < 10 ^ (2 + 1) := by
    have : u % nsPerDay % nsPerHour % nsPerMin % nsPerS < nsPerS := Nat.mod_lt _ (by decide)
    have : u % nsPerDay % nsPerHour % nsPerMin % nsPerS / nsPerMs < 1000 := by
      rw [Nat.div_lt_iff_lt_mul (by decide)]; simpa [nsPerS, nsPerMs] using this
    omega
  have hus : u % nsPerDay % nsPerHour % nsPerMin % nsPerS % nsPerMs / nsPerUs < 10 ^ (2 + 1) := by
    have : u % nsPerDay % nsPerHour % nsPerMin % nsPerS % nsPerMs < nsPerMs := Nat.mod_lt _ (by decide)
    have : u % nsPerDay % nsPerHour % nsPerMin % nsPerS % nsPerMs / nsPerUs < 1000 := by
      rw [Nat.div_lt_iff_lt_mul (by decide)]; simpa [nsPerMs, nsPerUs] using this
    omega
  have hns : u % nsPerDay % nsPerHour % nsPerMin % nsPerS % nsPerMs % nsPerUs < 10 ^ (2 + 1) := by
    have : u % nsPerDay % nsPerHour % nsPerMin % nsPerS % nsPerMs % nsPerUs < nsPerUs := Nat.mod_lt _ (by decide)
    simpa [nsPerUs] using this
  have l1 := field_length _ 5 ([100] : Bytes) hd
  have l2 := field_length _ 1 ([104] : Bytes) hh
  have l3 := field_length _ 1 ([109] : Bytes) hm
  have l4 := field_length _ 1 ([115] : Bytes) hs
  have l5 := field_length _ 2 ([109, 115] : Bytes) hms
  have l6 := field_length _ 2 (microSign ++ ([115] : Bytes)) hus
  have l7 := field_length _ 2 ([110, 115] : Bytes) hns
  have e1 : ([100] : Bytes).length = 1 := by decide
  have e2 : ([104] : Bytes).length = 1 := by decide
  have e3 : ([109] : Bytes).length = 1 := by decide
  have e4 : ([115] : Bytes).length = 1 := by decide
  have e5 : ([109, 115] : Bytes).length = 2 := by decide
  have e6 : (microSign ++ ([115] : Bytes)).length = 3 := by decide
  have e7 : ([110, 115] : Bytes).length = 2 := by decide
  simp only [List.length_append]
  omega

theorem fractional_length (u : Nat) (hu : u ≤ 2 ^ 63) : (fmtFractional u).length ≤ 24 := by
  unfold fmtFractional
  have hf := fmtFrac_length u 9
  have hsecs : (fmtFrac u 9).2 = u / 10 ^ 9 := rfl
  have hs : (fmtInt ((fmtFrac u 9).2 % 60)).length ≤ 2 :=
    fmtInt_length 1 _ (by have := Nat.mod_lt ((fmtFrac u 9).2) (by decide : 60 > 0); omega)
  have hm : (fmtInt ((fmtFrac u 9).2 / 60 % 60)).length ≤ 2 :=
    fmtInt_length 1 _ (by have := Nat.mod_lt ((fmtFrac u 9).2 / 60) (by decide : 60 > 0); omega)
  have hh : (fmtInt ((fmtFrac u 9).2 / 60 / 60)).length ≤ 7 := by
    apply fmtInt_length 6
    rw [hsecs]
    have h1 : u / 10 ^ 9 / 60 / 60 ≤ 2 ^ 63 / 10 ^ 9 / 60 / 60 :=
      Nat.div_le_div_right (Nat.div_le_div_right (Nat.div_le_div_right hu))
    have h2 : (2:Nat) ^ 63 / 10 ^ 9 / 60 / 60 = 2562047 := by decide
    omega
  have e1 : ([115] : Bytes).length = 1 := by decide
  have e2 : ([109] : Bytes).length = 1 := by decide
  have e3 : ([104] : Bytes).length = 1 := by decide
  simp only []
  split
  · split <;> simp only [List.length_append] <;> omega
  · simp only [List.length_append]; omega

theorem subSecond_length (u : Nat) (hu : u < nsPerS) : (fmtSubSecond u).length ≤ 13 := by
  unfold fmtSubSecond
  split
  · decide
  · split
    · rename_i h
      have := fmtInt_length 2 u (by simpa [nsPerUs] using h)
      have e : ([110, 115] : Bytes).length = 2 := by decide
      simp only [List.length_append]; omega
    · split
      · rename_i h
        have hi : (fmtInt (fmtFrac u 3).2).length ≤ 3 := by
          apply fmtInt_length 2
          show u / 10 ^ 3 < 10 ^ 3
          rw [Nat.div_lt_iff_lt_mul (by decide)]; simpa [nsPerMs] using h
        have hf := fmtFrac_length u 3
        have e1 : microSign.length = 2 := by decide
        have e2 : ([115] : Bytes).length = 1 := by decide
        simp only [List.length_append]; omega
      · have hi : (fmtInt (fmtFrac u 6).2).length ≤ 3 := by
          apply fmtInt_length 2
          show u / 10 ^ 6 < 10 ^ 3
          rw [Nat.div_lt_iff_lt_mul (by decide)]; simpa [nsPerS] using hu
        have hf := fmtFrac_length u 6
        have e : ([109, 115] : Bytes).length = 2 := by decide
        simp only [List.length_append]; omega

/-- (1) The exact room the formatter needs: at most 33 bytes in the compact style (32 + sign), at
    most 25 in the fractional style — for every int64 duration including math.MinInt64. -/
theorem durText_length (d : Int) (frac : Bool) (h : isInt64 d) : (durText d frac).length ≤ 33 := by
  have hu := natAbs_le d h
  have hb : (if d.natAbs < nsPerS then fmtSubSecond d.natAbs else if frac = true then fmtFractional d.natAbs else fmtCompact d.natAbs).length ≤ 32 := by
    split
    · rename_i hs; have := subSecond_length _ hs; omega
    · split
      · have := fractional_length _ hu; omega
      · exact compact_length _ hu
  show (if d < 0 then 45 :: (if d.natAbs < nsPerS then fmtSubSecond d.natAbs else if frac = true then fmtFractional d.natAbs else fmtCompact d.natAbs)
        else (if d.natAbs < nsPerS then fmtSubSecond d.natAbs else if frac = true then fmtFractional d.natAbs else fmtCompact d.natAbs)).length ≤ 33
  by_cases hd : d < 0
  · simp only [hd, ↓reduceIte, List.length_cons]; omega
  · simp only [hd, ↓reduceIte]; omega

/-- (2) Totality: with the array the code declares now, the formatter never runs out of room —
    it returns a text for every duration value, in both styles. -/
theorem format_total (d : Int) (frac : Bool) (h : isInt64 d) : (shortDur Gen.durBufLen d frac).isSome = true := by
  have hl := durText_length d frac h
  have hc : Gen.durBufLen ≥ 33 := by decide
  simp only [shortDur]
  have : (durText d frac).length ≤ Gen.durBufLen := by omega
  simp [this]

/-- The bound is tight: 32 bytes do not suffice (the defect that was repaired), 33 do. -/
theorem needs_33_bytes : shortDur 32 (-(2 ^ 63)) false = none ∧ (shortDur 33 (-(2 ^ 63)) false).isSome = true := by
  decide

/-- (3) A negative duration is the text of its magnitude preceded by '-'. -/
theorem sign_prefix (d : Int) (frac : Bool) (h : 0 < d) : durText (-d) frac = 45 :: durText d frac := by
  have h1 : (-d) < 0 := by omega
  have h2 : ¬ d < 0 := by omega
  simp only [durText, Int.natAbs_neg, h1, h2, ↓reduceIte]

/-- (4) The unit table: the standard units and, additionally, the day. -/
theorem unit_table :
    Gen.unitMap = [(([110, 115] : Bytes), 1), (([117, 115] : Bytes), nsPerUs), (microSign ++ ([115] : Bytes), nsPerUs), ([0xCE, 0xBC, 115], nsPerUs),
                   (([109, 115] : Bytes), nsPerMs), (([115] : Bytes), nsPerS), (([109] : Bytes), nsPerMin), (([104] : Bytes), nsPerHour), (([100] : Bytes), nsPerDay)] := by
  decide

-- non-vacuity
example : shortDur Gen.durBufLen (3 * 86400000000000 + 3600000000000) false = some [51, 100, 49, 104] := by decide
example : shortDur Gen.durBufLen 11000013000 true = some [49, 49, 46, 48, 48, 48, 48, 49, 51, 115] := by decide

end Logg.Props.C20
