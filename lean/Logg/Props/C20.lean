/-
  C20 — Duration text helpers are total, invertible and agree with the standard parser.
  `Gen.durBufLen` (the fixed array of shortDur / shortDurFormat) and `Gen.unitMap` are
  regenerated from slog/internal/times/dur.go.

  Proved here: totality of the formatter for every int64 duration (exact bound on the text
  length, both styles), the shape of the sign handling, the unit table, the round trip
  parse ∘ format = id for every int64 duration in both styles (`round_trip`, with the float64
  product at its exact value — assumption A1, validated on every run), and the agreement with
  time.ParseDuration for every byte string and every behaviour of the float64 step
  (`agrees_with_std`).
-/
import Logg.Model.Duration
import Logg.Lemmas.Duration
import Logg.Gen.Tables

namespace Logg.Props.C20
open Logg

theorem decDigits_length (k : Nat) : ∀ (f v : Nat), v < 10 ^ (k + 1) → (decDigits f v).length ≤ k + 1 := by
  induction k with
  | zero =>
    intro f v hv
    cases f with
    | zero => simp [decDigits]
    | succ f =>
      have : v < 10 := by simpa using hv
      simp [decDigits, this]
  | succ k ih =>
    intro f v hv
    cases f with
    | zero => simp [decDigits]
    | succ f =>
      simp only [decDigits]
      split
      · simp
      · have hdiv : v / 10 < 10 ^ (k + 1) := by
          rw [Nat.div_lt_iff_lt_mul (by decide)]
          calc v < 10 ^ (k + 1 + 1) := hv
            _ = 10 ^ (k + 1) * 10 := by rw [Nat.pow_succ]
        have := ih f (v / 10) hdiv
        simp; omega

theorem fmtInt_length (k v : Nat) (hv : v < 10 ^ (k + 1)) : (fmtInt v).length ≤ k + 1 :=
  decDigits_length k _ v hv

theorem fracDigits_length (p v : Nat) (pr : Bool) : (fracDigits p v pr).length ≤ p := by
  induction p generalizing v pr with
  | zero => simp [fracDigits]
  | succ p ih =>
    simp only [fracDigits]
    have := ih (v / 10) (pr || v % 10 != 0)
    split <;> simp <;> omega

theorem fmtFrac_length (v p : Nat) : (fmtFrac v p).1.length ≤ p + 1 := by
  unfold fmtFrac
  have := fracDigits_length p v false
  show (if (fracDigits p v false).isEmpty = true then [] else 46 :: fracDigits p v false).length ≤ p + 1
  split <;> simp <;> omega

theorem field_length (v k : Nat) (suffix : Bytes) (hv : v < 10 ^ (k + 1)) :
    (field v suffix).length ≤ k + 1 + suffix.length := by
  unfold field
  split
  · have := fmtInt_length k v hv; simp; omega
  · simp

/-- every int64 duration -/
def isInt64 (d : Int) : Prop := -(2 ^ 63 : Int) ≤ d ∧ d < 2 ^ 63

theorem natAbs_le (d : Int) (h : isInt64 d) : d.natAbs ≤ 2 ^ 63 := by
  unfold isInt64 at h; omega

theorem compact_length (u : Nat) (hu : u ≤ 2 ^ 63) : (fmtCompact u).length ≤ 32 := by
  unfold fmtCompact
  have hd : u / nsPerDay < 10 ^ (5 + 1) := by
    have : u / nsPerDay ≤ 2 ^ 63 / nsPerDay := Nat.div_le_div_right hu
    have h2 : (2:Nat) ^ 63 / nsPerDay = 106751 := by decide
    omega
  have hh : u % nsPerDay / nsPerHour < 10 ^ (1 + 1) := by
    have : u % nsPerDay < nsPerDay := Nat.mod_lt _ (by decide)
    have : u % nsPerDay / nsPerHour < 24 := by
      rw [Nat.div_lt_iff_lt_mul (by decide)]; simpa [nsPerDay] using this
    omega
  have hm : u % nsPerDay % nsPerHour / nsPerMin < 10 ^ (1 + 1) := by
    have : u % nsPerDay % nsPerHour < nsPerHour := Nat.mod_lt _ (by decide)
    have : u % nsPerDay % nsPerHour / nsPerMin < 60 := by
      rw [Nat.div_lt_iff_lt_mul (by decide)]; simpa [nsPerHour] using this
    omega
  have hs : u % nsPerDay % nsPerHour % nsPerMin / nsPerS < 10 ^ (1 + 1) := by
    have : u % nsPerDay % nsPerHour % nsPerMin < nsPerMin := Nat.mod_lt _ (by decide)
    have : u % nsPerDay % nsPerHour % nsPerMin / nsPerS < 60 := by
      rw [Nat.div_lt_iff_lt_mul (by decide)]; simpa [nsPerMin] using this
    omega
  have hms : u % nsPerDay % nsPerHour % nsPerMin % nsPerS / nsPerMs < 10 ^ (2 + 1) := by
    have : u % nsPerDay % nsPerHour % nsPerMin % nsPerS < nsPerS := Nat.mod_lt _ (by decide)
    have : u % nsPerDay % nsPerHour % nsPerMin % nsPerS / nsPerMs < 1000 := by
      rw [Nat.div_lt_iff_lt_mul (by decide)]; simpa [nsPerS, nsPerMs] using this
    omega
  have hus : u % nsPerDay % nsPerHour % nsPerMin % nsPerS % nsPerMs / nsPerUs < 10 ^ (2 + 1) := by
    have : u % nsPerDay % nsPerHour % nsPerMin % nsPerS % nsPerMs < nsPerMs := Nat.mod_lt _ (by decide)
    have : u % nsPerDay % nsPerHour % nsPerMin % nsPerS % nsPerMs / nsPerUs < 1000 := by
      rw [Nat.div_lt_iff_lt_mul (by decide)]; simpa [nsPerMs, nsPerUs] using this
    omega
  have hns : u % nsPerDay % nsPerHour % nsPerMin % nsPerS % nsPerMs % nsPerUs < 10 ^ (2 + 1) := by
    have : u % nsPerDay % nsPerHour % nsPerMin % nsPerS % nsPerMs % nsPerUs < nsPerUs := Nat.mod_lt _ (by decide)
    simpa [nsPerUs] using this
  have l1 := field_length _ 5 ([100] : Bytes) hd
  have l2 := field_length _ 1 ([104] : Bytes) hh
  have l3 := field_length _ 1 ([109] : Bytes) hm
  have l4 := field_length _ 1 ([115] : Bytes) hs
  have l5 := field_length _ 2 ([109, 115] : Bytes) hms
  have l6 := field_length _ 2 (microSign ++ ([115] : Bytes)) hus
  have l7 := field_length _ 2 ([110, 115] : Bytes) hns
  have e1 : ([100] : Bytes).length = 1 := by decide
  have e2 : ([104] : Bytes).length = 1 := by decide
  have e3 : ([109] : Bytes).length = 1 := by decide
  have e4 : ([115] : Bytes).length = 1 := by decide
  have e5 : ([109, 115] : Bytes).length = 2 := by decide
  have e6 : (microSign ++ ([115] : Bytes)).length = 3 := by decide
  have e7 : ([110, 115] : Bytes).length = 2 := by decide
  simp only [List.length_append]
  omega

theorem fractional_length (u : Nat) (hu : u ≤ 2 ^ 63) : (fmtFractional u).length ≤ 24 := by
  unfold fmtFractional
  have hf := fmtFrac_length u 9
  have hsecs : (fmtFrac u 9).2 = u / 10 ^ 9 := rfl
  have hs : (fmtInt ((fmtFrac u 9).2 % 60)).length ≤ 2 :=
    fmtInt_length 1 _ (by have := Nat.mod_lt ((fmtFrac u 9).2) (by decide : 60 > 0); omega)
  have hm : (fmtInt ((fmtFrac u 9).2 / 60 % 60)).length ≤ 2 :=
    fmtInt_length 1 _ (by have := Nat.mod_lt ((fmtFrac u 9).2 / 60) (by decide : 60 > 0); omega)
  have hh : (fmtInt ((fmtFrac u 9).2 / 60 / 60)).length ≤ 7 := by
    apply fmtInt_length 6
    rw [hsecs]
    have h1 : u / 10 ^ 9 / 60 / 60 ≤ 2 ^ 63 / 10 ^ 9 / 60 / 60 :=
      Nat.div_le_div_right (Nat.div_le_div_right (Nat.div_le_div_right hu))
    have h2 : (2:Nat) ^ 63 / 10 ^ 9 / 60 / 60 = 2562047 := by decide
    omega
  have e1 : ([115] : Bytes).length = 1 := by decide
  have e2 : ([109] : Bytes).length = 1 := by decide
  have e3 : ([104] : Bytes).length = 1 := by decide
  simp only []
  split
  · split <;> simp only [List.length_append] <;> omega
  · simp only [List.length_append]; omega

theorem subSecond_length (u : Nat) (hu : u < nsPerS) : (fmtSubSecond u).length ≤ 13 := by
  unfold fmtSubSecond
  split
  · decide
  · split
    · rename_i h
      have := fmtInt_length 2 u (by simpa [nsPerUs] using h)
      have e : ([110, 115] : Bytes).length = 2 := by decide
      simp only [List.length_append]; omega
    · split
      · rename_i h
        have hi : (fmtInt (fmtFrac u 3).2).length ≤ 3 := by
          apply fmtInt_length 2
          show u / 10 ^ 3 < 10 ^ 3
          rw [Nat.div_lt_iff_lt_mul (by decide)]; simpa [nsPerMs] using h
        have hf := fmtFrac_length u 3
        have e1 : microSign.length = 2 := by decide
        have e2 : ([115] : Bytes).length = 1 := by decide
        simp only [List.length_append]; omega
      · have hi : (fmtInt (fmtFrac u 6).2).length ≤ 3 := by
          apply fmtInt_length 2
          show u / 10 ^ 6 < 10 ^ 3
          rw [Nat.div_lt_iff_lt_mul (by decide)]; simpa [nsPerS] using hu
        have hf := fmtFrac_length u 6
        have e : ([109, 115] : Bytes).length = 2 := by decide
        simp only [List.length_append]; omega

/-- (1) The exact room the formatter needs: at most 33 bytes in the compact style (32 + sign), at
    most 25 in the fractional style — for every int64 duration including math.MinInt64. -/
theorem durText_length (d : Int) (frac : Bool) (h : isInt64 d) : (durText d frac).length ≤ 33 := by
  have hu := natAbs_le d h
  have hb : (if d.natAbs < nsPerS then fmtSubSecond d.natAbs else if frac = true then fmtFractional d.natAbs else fmtCompact d.natAbs).length ≤ 32 := by
    split
    · rename_i hs; have := subSecond_length _ hs; omega
    · split
      · have := fractional_length _ hu; omega
      · exact compact_length _ hu
  show (if d < 0 then 45 :: (if d.natAbs < nsPerS then fmtSubSecond d.natAbs else if frac = true then fmtFractional d.natAbs else fmtCompact d.natAbs)
        else (if d.natAbs < nsPerS then fmtSubSecond d.natAbs else if frac = true then fmtFractional d.natAbs else fmtCompact d.natAbs)).length ≤ 33
  by_cases hd : d < 0
  · simp only [hd, ↓reduceIte, List.length_cons]; omega
  · simp only [hd, ↓reduceIte]; omega

/-- (2) Totality: with the array the code declares now, the formatter never runs out of room —
    it returns a text for every duration value, in both styles. -/
theorem format_total (d : Int) (frac : Bool) (h : isInt64 d) : (shortDur Gen.durBufLen d frac).isSome = true := by
  have hl := durText_length d frac h
  have hc : Gen.durBufLen ≥ 33 := by decide
  simp only [shortDur]
  have : (durText d frac).length ≤ Gen.durBufLen := by omega
  simp [this]

/-- The bound is tight: 32 bytes do not suffice (the defect that was repaired), 33 do. -/
theorem needs_33_bytes : shortDur 32 (-(2 ^ 63)) false = none ∧ (shortDur 33 (-(2 ^ 63)) false).isSome = true := by
  decide

/-- (3) A negative duration is the text of its magnitude preceded by '-'. -/
theorem sign_prefix (d : Int) (frac : Bool) (h : 0 < d) : durText (-d) frac = 45 :: durText d frac := by
  have h1 : (-d) < 0 := by omega
  have h2 : ¬ d < 0 := by omega
  simp only [durText, Int.natAbs_neg, h1, h2, ↓reduceIte]

/-- (4) The unit table: the standard units and, additionally, the day. -/
theorem unit_table :
    Gen.unitMap = [(([110, 115] : Bytes), 1), (([117, 115] : Bytes), nsPerUs), (microSign ++ ([115] : Bytes), nsPerUs), ([0xCE, 0xBC, 115], nsPerUs),
                   (([109, 115] : Bytes), nsPerMs), (([115] : Bytes), nsPerS), (([109] : Bytes), nsPerMin), (([104] : Bytes), nsPerHour), (([100] : Bytes), nsPerDay)] := by
  decide

/-! ### the round trip: the parser turns the formatter's text back into the duration

  The parser's one float64 expression is the parameter `fmul`; here it is `fmulExact f unit k =
  f * (unit / 10^k)`, its exact value. On the texts the formatter writes, 10^k divides the unit and
  f < 10^k, so the float64 evaluation is exact (every operand and result is an integer below 2^53);
  that the implementation's float64 arithmetic agrees with `fmulExact` there is assumption A1 of
  DESIGN.md, validated on every run by the correspondence (`fm` lines). -/

def compactFields (u : Nat) : List Fld :=
  [(u / nsPerDay, ([100] : Bytes), nsPerDay),
   (u % nsPerDay / nsPerHour, ([104] : Bytes), nsPerHour),
   (u % nsPerDay % nsPerHour / nsPerMin, ([109] : Bytes), nsPerMin),
   (u % nsPerDay % nsPerHour % nsPerMin / nsPerS, ([115] : Bytes), nsPerS),
   (u % nsPerDay % nsPerHour % nsPerMin % nsPerS / nsPerMs, ([109, 115] : Bytes), nsPerMs),
   (u % nsPerDay % nsPerHour % nsPerMin % nsPerS % nsPerMs / nsPerUs, microSign ++ ([115] : Bytes), nsPerUs),
   (u % nsPerDay % nsPerHour % nsPerMin % nsPerS % nsPerMs % nsPerUs, ([110, 115] : Bytes), 1)]

theorem fmtCompact_eq (u : Nat) : fmtCompact u = optText (compactFields u) := by
  simp only [fmtCompact, compactFields, optText, List.append_nil, List.append_assoc]

theorem compactFields_sum (u : Nat) : fieldsSum (compactFields u) = u := by
  simp only [compactFields, fieldsSum, nsPerDay, nsPerHour, nsPerMin, nsPerS, nsPerMs, nsPerUs]
  omega

theorem unitText_of (u : Bytes) (h1 : u ≠ []) (h2 : ∀ c ∈ u, numStart c = false) : UnitText u := ⟨h1, h2⟩

theorem goodFld_mk (v : Nat) (u : Bytes) (U : Nat) (h1 : u ≠ []) (h2 : ∀ c ∈ u, numStart c = false)
    (h3 : Gen.unitMap.lookup u = some U) (h4 : 0 < U) : GoodFld Gen.unitMap (v, u, U) := ⟨⟨h1, h2⟩, h3, h4⟩

theorem compactFields_good (u : Nat) : ∀ f ∈ compactFields u, GoodFld Gen.unitMap f := by
  intro f hf
  simp only [compactFields, List.mem_cons, List.not_mem_nil, or_false] at hf
  rcases hf with rfl | rfl | rfl | rfl | rfl | rfl | rfl <;>
    exact goodFld_mk _ _ _ (by decide) (by decide) (by decide) (by decide)

/-- the loop reads the compact text of any magnitude up to 2^63 back -/
theorem compact_loop (u : Nat) (hu : u ≤ 2 ^ 63) (hpos : 0 < u) :
    let body := fmtCompact u
    parseLoop Gen.unitMap fmulExact body.length body 0 = .ok u ∧
      (∃ c t, body = c :: t ∧ numStart c = true) ∧ body.length ≠ 1 := by
  intro body
  have hbody : body = fieldsText ((compactFields u).filter (fun f => decide (f.1 > 0))) := by
    show fmtCompact u = _; rw [fmtCompact_eq, optText_eq]
  generalize hfs : (compactFields u).filter (fun f => decide (f.1 > 0)) = fs at hbody
  have hg : ∀ f ∈ fs, GoodFld Gen.unitMap f := by
    intro f hf; rw [← hfs] at hf; exact compactFields_good u f (List.mem_filter.mp hf).1
  have hsum : fieldsSum fs = u := by rw [← hfs, fieldsSum_filter, compactFields_sum]
  have hne : fs ≠ [] := fieldsSum_pos_ne_nil fs (by omega)
  have hshape := fieldsText_shape Gen.unitMap fs [] hg hne
  rw [List.append_nil] at hshape
  rw [hbody]
  refine ⟨?_, hshape.1, by omega⟩
  have := parseLoop_row Gen.unitMap fmulExact fs (fieldsText fs).length hg (by rw [hsum]; exact hu) (fieldsText_length fs)
  rw [this, hsum]

/-- the whole-number fields of the fractional style -/
def fracFields (u : Nat) : List Fld :=
  let secs := u / 10 ^ 9
  let mins := secs / 60
  let hours := mins / 60
  if mins > 0 then
    if hours > 0 then [(hours, ([104] : Bytes), nsPerHour), (mins % 60, ([109] : Bytes), nsPerMin)]
    else [(mins % 60, ([109] : Bytes), nsPerMin)]
  else []

theorem fmtFractional_eq (u : Nat) :
    fmtFractional u = fieldsText (fracFields u) ++ (fmtInt (u / 10 ^ 9 % 60) ++ ((fmtFrac u 9).1 ++ ([115] : Bytes))) := by
  have hsecs : (fmtFrac u 9).2 = u / 10 ^ 9 := rfl
  unfold fmtFractional fracFields
  simp only [hsecs]
  by_cases hm : u / 10 ^ 9 / 60 > 0
  · by_cases hh : u / 10 ^ 9 / 60 / 60 > 0
    · simp only [hm, hh, ↓reduceIte, fieldsText, List.append_assoc, List.append_nil]
    · simp only [hm, hh, ↓reduceIte, fieldsText, List.append_assoc, List.append_nil]
  · simp only [hm, ↓reduceIte, fieldsText, List.nil_append, List.append_assoc]

theorem fracFields_good (u : Nat) : ∀ f ∈ fracFields u, GoodFld Gen.unitMap f := by
  intro f hf
  unfold fracFields at hf
  simp only at hf
  split at hf
  · split at hf
    · simp only [List.mem_cons, List.not_mem_nil, or_false] at hf
      rcases hf with rfl | rfl <;> exact goodFld_mk _ _ _ (by decide) (by decide) (by decide) (by decide)
    · simp only [List.mem_cons, List.not_mem_nil, or_false] at hf
      subst hf; exact goodFld_mk _ _ _ (by decide) (by decide) (by decide) (by decide)
  · simp at hf

theorem fracFields_sum (u : Nat) : fieldsSum (fracFields u) + u / 10 ^ 9 % 60 * 10 ^ 9 + u % 10 ^ 9 = u := by
  unfold fracFields
  simp only
  split
  · split
    · simp only [fieldsSum, nsPerHour, nsPerMin, nsPerS]; omega
    · simp only [fieldsSum, nsPerMin, nsPerS]; omega
  · simp only [fieldsSum]; omega

theorem fracFields_length (u : Nat) : (fracFields u).length ≤ 2 := by
  unfold fracFields; simp only; split
  · split <;> simp
  · simp

theorem fractional_loop (u : Nat) (hu : u ≤ 2 ^ 63) :
    let body := fmtFractional u
    parseLoop Gen.unitMap fmulExact body.length body 0 = .ok u ∧
      (∃ c t, body = c :: t ∧ numStart c = true) ∧ body.length ≠ 1 := by
  intro body
  have hbody : body = _ := fmtFractional_eq u
  have hs : UnitText ([115] : Bytes) := unitText_of _ (by decide) (by decide)
  have hg := fracFields_good u
  have hsum := fracFields_sum u
  have hfl := fieldsText_length (fracFields u)
  have hshape : (∃ c t, body = c :: t ∧ numStart c = true) ∧ 2 ≤ body.length := by
    rw [hbody]
    by_cases hne : fracFields u = []
    · rw [hne]; simp only [fieldsText, List.nil_append]; exact fracField_shape _ _ _ _ hs
    · exact fieldsText_shape Gen.unitMap _ _ hg hne
  refine ⟨?_, hshape.1, by omega⟩
  have hff := (fracField_shape (u / 10 ^ 9 % 60) u 9 ([115] : Bytes) hs).2
  have := parseLoop_row_frac Gen.unitMap (fracFields u) (u / 10 ^ 9 % 60) u 9 ([115] : Bytes) body.length hg (by decide) hs (by decide)
    (by rw [hsum]; exact hu) (by rw [hbody, List.length_append]; omega)
  rw [hsum] at this
  rw [← hbody] at this
  exact this

theorem subSecond_loop (u : Nat) (hu : u < nsPerS) :
    let body := fmtSubSecond u
    parseLoop Gen.unitMap fmulExact body.length body 0 = .ok u ∧
      (∃ c t, body = c :: t ∧ numStart c = true) ∧ body.length ≠ 1 := by
  intro body
  have h63 : nsPerS ≤ two63 := by decide
  by_cases h0 : u = 0
  · subst h0; exact ⟨by rfl, ⟨48, [115], rfl, by decide⟩, by decide⟩
  by_cases h1 : u < nsPerUs
  · have hbody : body = fieldsText [(u, ([110, 115] : Bytes), 1)] ++ [] := by
      show fmtSubSecond u = _; simp only [fmtSubSecond, h0, h1, ↓reduceIte, fieldsText, List.append_nil]
    have hg : ∀ f ∈ [((u, ([110, 115] : Bytes), 1) : Fld)], GoodFld Gen.unitMap f := by
      intro f hf; simp only [List.mem_cons, List.not_mem_nil, or_false] at hf; subst hf
      exact goodFld_mk _ _ _ (by decide) (by decide) (by decide) (by decide)
    have hshape := fieldsText_shape Gen.unitMap _ [] hg (by simp)
    rw [← hbody] at hshape
    refine ⟨?_, hshape.1, by omega⟩
    have := parseLoop_row Gen.unitMap fmulExact _ body.length hg (by simp only [fieldsSum]; omega)
      (by rw [hbody, List.append_nil]; exact fieldsText_length _)
    rw [hbody, List.append_nil]; rw [hbody, List.append_nil] at this
    simpa [fieldsSum] using this
  by_cases h2 : u < nsPerMs
  · have hun : UnitText (microSign ++ ([115] : Bytes)) := unitText_of _ (by decide) (by decide)
    have hbody : body = fieldsText [] ++ (fmtInt (u / 10 ^ 3) ++ ((fmtFrac u 3).1 ++ (microSign ++ ([115] : Bytes)))) := by
      show fmtSubSecond u = _
      have hsecs : (fmtFrac u 3).2 = u / 10 ^ 3 := rfl
      simp only [fmtSubSecond, h0, h1, h2, ↓reduceIte, fieldsText, List.nil_append, hsecs, List.append_assoc]
    have hshape := fracField_shape (u / 10 ^ 3) u 3 _ hun
    have hsum : fieldsSum [] + u / 10 ^ 3 * 10 ^ 3 + u % 10 ^ 3 = u := by simp only [fieldsSum]; omega
    have := parseLoop_row_frac Gen.unitMap [] (u / 10 ^ 3) u 3 _ body.length (by simp) (by decide) hun (by decide)
      (by rw [hsum]; omega) (by rw [hbody]; simp only [fieldsText, List.nil_append, List.length_nil]; omega)
    rw [hsum, ← hbody] at this
    rw [hbody]; simp only [fieldsText, List.nil_append]
    rw [hbody] at this; simp only [fieldsText, List.nil_append] at this
    exact ⟨this, hshape.1, by omega⟩
  · have hun : UnitText ([109, 115] : Bytes) := unitText_of _ (by decide) (by decide)
    have hbody : body = fieldsText [] ++ (fmtInt (u / 10 ^ 6) ++ ((fmtFrac u 6).1 ++ ([109, 115] : Bytes))) := by
      show fmtSubSecond u = _
      have hsecs : (fmtFrac u 6).2 = u / 10 ^ 6 := rfl
      simp only [fmtSubSecond, h0, h1, h2, ↓reduceIte, fieldsText, List.nil_append, hsecs, List.append_assoc]
    have hshape := fracField_shape (u / 10 ^ 6) u 6 _ hun
    have hsum : fieldsSum [] + u / 10 ^ 6 * 10 ^ 6 + u % 10 ^ 6 = u := by simp only [fieldsSum]; omega
    have := parseLoop_row_frac Gen.unitMap [] (u / 10 ^ 6) u 6 _ body.length (by simp) (by decide) hun (by decide)
      (by rw [hsum]; omega) (by rw [hbody]; simp only [fieldsText, List.nil_append, List.length_nil]; omega)
    rw [hsum, ← hbody] at this
    rw [hbody]; simp only [fieldsText, List.nil_append]
    rw [hbody] at this; simp only [fieldsText, List.nil_append] at this
    exact ⟨this, hshape.1, by omega⟩

/-- (5) **Invertible.** For every int64 duration, in the compact and in the fractional style, the
    package's parser turns the formatter's text back into exactly that duration. -/
theorem round_trip (d : Int) (frac : Bool) (h : isInt64 d) :
    parseDuration Gen.unitMap fmulExact (durText d frac) = .ok d := by
  have hu := natAbs_le d h
  have hbody : ∀ body : Bytes, body = (if d.natAbs < nsPerS then fmtSubSecond d.natAbs else if frac = true then fmtFractional d.natAbs else fmtCompact d.natAbs) →
      parseLoop Gen.unitMap fmulExact body.length body 0 = .ok d.natAbs ∧ (∃ c t, body = c :: t ∧ numStart c = true) ∧ body.length ≠ 1 := by
    intro body hb
    by_cases h1 : d.natAbs < nsPerS
    · rw [if_pos h1] at hb; subst hb; exact subSecond_loop _ h1
    · rw [if_neg h1] at hb
      cases frac with
      | true => simp only [↓reduceIte] at hb; subst hb; exact fractional_loop _ hu
      | false =>
        simp only [Bool.false_eq_true, ↓reduceIte] at hb; subst hb
        exact compact_loop _ hu (by have : nsPerS = 1000000000 := rfl; omega)
  obtain ⟨hloop, hhead, hlen⟩ := hbody _ rfl
  have hdt : durText d frac = if decide (d < 0) then 45 :: (if d.natAbs < nsPerS then fmtSubSecond d.natAbs else if frac = true then fmtFractional d.natAbs else fmtCompact d.natAbs)
      else (if d.natAbs < nsPerS then fmtSubSecond d.natAbs else if frac = true then fmtFractional d.natAbs else fmtCompact d.natAbs) := by
    unfold durText; by_cases hd : d < 0 <;> simp [hd]
  rw [hdt, parseDuration_body Gen.unitMap fmulExact _ d.natAbs (decide (d < 0)) hhead hlen hloop]
  unfold isInt64 at h
  by_cases hd : d < 0
  · simp only [hd, decide_true, ↓reduceIte]; congr 1; omega
  · have : ¬ d.natAbs > two63 - 1 := by rw [two63_val]; omega
    simp only [hd, decide_false, Bool.false_eq_true, ↓reduceIte, this]; congr 1; omega

/-! ### agreement with time.ParseDuration

  `stdUnitsOf Gen.unitMap` is the table of the standard library (the correspondence runs the model
  over it against `time.ParseDuration` itself); the parser code is the same. `fmul` is arbitrary here:
  no assumption on the float64 step is needed. -/

/-- (6) For every byte string the package's parser returns what the standard parser returns, or the
    standard parser stopped at a day unit. -/
theorem agrees_with_std (fmul : Nat → Nat → Nat → Nat) (s : Bytes) :
    parseDuration (stdUnitsOf Gen.unitMap) fmul s = parseDuration Gen.unitMap fmul s ∨
      parseDuration (stdUnitsOf Gen.unitMap) fmul s = .error (.unknownUnit ([100] : Bytes)) :=
  parseDuration_std Gen.unitMap fmul s

/-- everything the standard parser accepts is accepted with the same result -/
theorem std_accepted_same (fmul : Nat → Nat → Nat → Nat) (s : Bytes) (d : Int)
    (h : parseDuration (stdUnitsOf Gen.unitMap) fmul s = .ok d) : parseDuration Gen.unitMap fmul s = .ok d := by
  rcases agrees_with_std fmul s with e | e
  · rw [← e]; exact h
  · rw [h] at e; cases e

/-- whatever the standard parser rejects is rejected for the same reason, unless the reason is the day unit -/
theorem std_rejected_same_or_day (fmul : Nat → Nat → Nat → Nat) (s : Bytes) (e : DurErr)
    (h : parseDuration (stdUnitsOf Gen.unitMap) fmul s = .error e) :
    parseDuration Gen.unitMap fmul s = .error e ∨ e = .unknownUnit ([100] : Bytes) := by
  rcases agrees_with_std fmul s with e' | e'
  · left; rw [← e']; exact h
  · right; rw [h] at e'; injection e'

/-- the standard table is the package's table without the day -/
theorem std_table :
    stdUnitsOf Gen.unitMap = [(([110, 115] : Bytes), 1), (([117, 115] : Bytes), nsPerUs), (microSign ++ ([115] : Bytes), nsPerUs), ([0xCE, 0xBC, 115], nsPerUs),
                   (([109, 115] : Bytes), nsPerMs), (([115] : Bytes), nsPerS), (([109] : Bytes), nsPerMin), (([104] : Bytes), nsPerHour)] := by
  decide

deriving instance DecidableEq for Except

/-- the one difference is real: "1d" -/
example : parseDuration Gen.unitMap fmulExact ([49, 100] : Bytes) = .ok (nsPerDay : Int) ∧
    parseDuration (stdUnitsOf Gen.unitMap) fmulExact ([49, 100] : Bytes) = .error (.unknownUnit ([100] : Bytes)) := by
  constructor <;> decide +kernel

-- non-vacuity
example : parseDuration Gen.unitMap fmulExact (durText (-(2 ^ 63)) false) = .ok (-(2 ^ 63)) := round_trip _ _ (by unfold isInt64; omega)
example : durText 1500 true = [49, 46, 53, 0xC2, 0xB5, 115] := by decide
example : shortDur Gen.durBufLen (3 * 86400000000000 + 3600000000000) false = some [51, 100, 49, 104] := by decide
example : shortDur Gen.durBufLen 11000013000 true = some [49, 49, 46, 48, 48, 48, 48, 49, 51, 115] := by decide

end Logg.Props.C20
