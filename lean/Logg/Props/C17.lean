/-
  C17 — Level names and the level registry: round trips and safe registration.
-/
import Logg.Bridge.Registry
import Logg.Lemmas.Assoc
import Logg.Lemmas.QuoteRoundTrip

namespace Logg.Props.C17
open Logg Logg.Lemmas

/-- The registry invariant: every level's title maps back to that level, and every titled
    level is a known level. -/
def Consistent (r : Registry) : Prop :=
  (∀ l s, r.levelToString.lookup l = some s → r.stringToLevel.lookup s = some l) ∧
  (∀ l s, r.levelToString.lookup l = some s → l ∈ r.allLevels)

/-- decidable form over the entries of a concrete table -/
def consistentB (r : Registry) : Bool :=
  r.levelToString.all fun (l, s) => r.stringToLevel.lookup s == some l && r.allLevels.contains l

theorem mem_of_lookup {α β} [BEq α] [LawfulBEq α] (m : List (α × β)) (k : α) (v : β)
    (h : List.lookup k m = some v) : (k, v) ∈ m := by
  induction m with
  | nil => simp [List.lookup] at h
  | cons p m ih =>
    obtain ⟨a, c⟩ := p
    by_cases hk : k = a
    · subst hk; simp [List.lookup] at h; simp [h]
    · have : (k == a) = false := by simpa using hk
      simp [List.lookup, this] at h
      exact List.mem_cons_of_mem _ (ih h)

theorem consistent_of_consistentB (r : Registry) (h : consistentB r = true) : Consistent r := by
  unfold consistentB at h
  rw [List.all_eq_true] at h
  constructor
  · intro l s hl
    have := h (l, s) (mem_of_lookup _ _ _ hl)
    simp at this; exact this.1
  · intro l s hl
    have := h (l, s) (mem_of_lookup _ _ _ hl)
    simp at this; exact this.2

/-- (1) The built-in tables, as the source has them now, are consistent. -/
theorem builtin_consistent : Consistent Bridge.genRegistry :=
  consistent_of_consistentB _ (by decide)

/-- (2) RegisterLevel refuses a numeric value or a title that is already in use. In the model a
    refusal returns no new registry at all, i.e. every table is left as it was. -/
theorem refuses_used_value (r : Registry) (v : Int) (t : Bytes) (p : RegPack) (h : v ∈ r.allLevels) :
    r.register v t p = none := by
  simp [Registry.register, h]

theorem refuses_used_title (r : Registry) (v : Int) (t : Bytes) (p : RegPack) (l : Int)
    (h : r.stringToLevel.lookup t = some l) : r.register v t p = none := by
  simp [Registry.register, h]

theorem accepts_fresh (r : Registry) (v : Int) (t : Bytes) (p : RegPack)
    (hv : v ∉ r.allLevels) (ht : r.stringToLevel.lookup t = none) : (r.register v t p).isSome = true := by
  simp [Registry.register, hv, ht]

/-- (3) A successful registration preserves the invariant. -/
theorem register_preserves (r r' : Registry) (v : Int) (t : Bytes) (p : RegPack)
    (hc : Consistent r) (h : r.register v t p = some r') : Consistent r' := by
  unfold Registry.register at h
  split at h
  · simp at h
  · rename_i hv
    split at h
    · simp at h
    · rename_i ht
      simp only [Option.some.injEq] at h
      subst h
      have htn : List.lookup t r.stringToLevel = none := by
        cases hx : List.lookup t r.stringToLevel <;> simp_all
      constructor
      · intro l s hl
        simp only [lookup_assocSet] at hl ⊢
        by_cases hlv : l = v
        · subst hlv; simp at hl; subst hl; simp
        · have : (l == v) = false := by simpa using hlv
          simp only [this, Bool.false_eq_true, ↓reduceIte] at hl
          have hs := hc.1 l s hl
          have hst : s ≠ t := by intro e; subst e; rw [htn] at hs; simp at hs
          have : (s == t) = false := by simpa using hst
          simp [this, hs]
      · intro l s hl
        simp only [lookup_assocSet] at hl
        by_cases hlv : l = v
        · subst hlv; simp
        · have : (l == v) = false := by simpa using hlv
          simp only [this, Bool.false_eq_true, ↓reduceIte] at hl
          exact List.mem_append_left _ (hc.2 l s hl)

/-- Registration histories: a refused registration is a no-op. -/
structure RegOp where
  v : Int
  title : Bytes
  pack : RegPack

def regStep (r : Registry) (op : RegOp) : Registry := (r.register op.v op.title op.pack).getD r

theorem refusal_is_noop (r : Registry) (op : RegOp) (h : r.register op.v op.title op.pack = none) :
    regStep r op = r := by simp [regStep, h]

/-- (4) After any history of registrations (accepted or refused) the registry is consistent. -/
theorem consistent_after_history (ops : List RegOp) :
    Consistent (ops.foldl regStep Bridge.genRegistry) := by
  suffices ∀ r, Consistent r → Consistent (ops.foldl regStep r) from this _ builtin_consistent
  induction ops with
  | nil => intro r h; simpa using h
  | cons op ops ih =>
    intro r h
    apply ih
    unfold regStep
    cases hr : r.register op.v op.title op.pack with
    | none => simpa using h
    | some r' => simpa using register_preserves r r' _ _ _ h hr

/-- One registration step never renames a level that already has a name. -/
theorem step_keeps_names (r : Registry) (hc : Consistent r) (op : RegOp) (l : Int) (s : Bytes)
    (h : r.levelToString.lookup l = some s) : (regStep r op).levelToString.lookup l = some s := by
  unfold regStep
  cases hr : r.register op.v op.title op.pack with
  | none => simpa using h
  | some r' =>
    have hl : l ∈ r.allLevels := hc.2 l s h
    unfold Registry.register at hr
    split at hr
    · simp at hr
    rename_i hv
    split at hr
    · simp at hr
    simp only [Option.some.injEq] at hr; subst hr
    have hne : l ≠ op.v := by
      intro e; subst e; exact hv (by simpa using hl)
    simpa [lookup_assocSet_ne _ _ _ _ hne] using h

/-- (4b) Names persist over every history: a level that has a name — a built-in one or one
    registered earlier — keeps exactly that name whatever is registered (or refused) later; no
    later registration can rename it. -/
theorem names_persist (r : Registry) (hc : Consistent r) (ops : List RegOp) (l : Int) (s : Bytes)
    (h : r.levelToString.lookup l = some s) : (ops.foldl regStep r).levelToString.lookup l = some s := by
  induction ops generalizing r with
  | nil => simpa using h
  | cons op ops ih =>
    have hc' : Consistent (regStep r op) := by
      unfold regStep
      cases hr : r.register op.v op.title op.pack with
      | none => simpa using hc
      | some r' => simpa using register_preserves r r' _ _ _ hc hr
    simpa using ih (regStep r op) hc' (step_keeps_names r hc op l s h)

/-- … in particular the built-in names (the regenerated table) survive every history. -/
theorem builtin_names_persist (ops : List RegOp) (l : Int) (s : Bytes)
    (h : Bridge.genRegistry.levelToString.lookup l = some s) :
    (ops.foldl regStep Bridge.genRegistry).levelToString.lookup l = some s :=
  names_persist _ builtin_consistent ops l s h

-- non-vacuity: the built-in table names the Warn level
example : (Bridge.genRegistry.levelToString.lookup Lv.warn).isSome = true := by decide

/-- (5) Round trips, for every built-in or registered level of a consistent registry: the printed
    name parses back, the text form unmarshals back, the JSON form unmarshals back (for any
    quoting function `q` with left inverse `uq`; C05 proves that of the encoder's quoting). -/
theorem name_round_trip (r : Registry) (hc : Consistent r) (l : Int) (s : Bytes)
    (h : r.levelToString.lookup l = some s) : r.parse (r.name l) = some l := by
  simp [Registry.name, Registry.parse, h, hc.1 l s h]

theorem text_round_trip (r : Registry) (hc : Consistent r) (l : Int) (s : Bytes)
    (h : r.marshalText l = some s) : r.unmarshalText s = some l := by
  unfold Registry.marshalText at h
  simp [Registry.unmarshalText, Registry.parse, hc.1 l s h]

theorem json_round_trip (r : Registry) (hc : Consistent r) (q : Bytes → Bytes) (uq : Bytes → Option Bytes)
    (hq : ∀ s, uq (q s) = some s) (l : Int) (j : Bytes) (h : r.marshalJSON q l = some j) :
    r.unmarshalJSON uq j = some l := by
  unfold Registry.marshalJSON at h
  cases ht : r.marshalText l with
  | none => simp [ht] at h
  | some s =>
    simp [ht] at h; subst h
    simp [Registry.unmarshalJSON, hq, text_round_trip r hc l s ht]

/-- (5') The JSON round trip with the quoting the code really uses (Go-syntax quoting written by
    MarshalJSON, strconv.Unquote in UnmarshalJSON): the hypothesis of `json_round_trip` is a theorem
    (Lemmas/QuoteRoundTrip: for every byte string). -/
theorem json_round_trip_as_coded (r : Registry) (hc : Consistent r) (l : Int) (j : Bytes)
    (h : r.marshalJSON (goQuote isPrintTable) l = some j) : r.unmarshalJSON goUnquote j = some l :=
  json_round_trip r hc (goQuote isPrintTable) goUnquote (goUnquote_goQuote isPrintTable Lemmas.isPrintTable_safe) l j h

/-- (6) What a successful registration establishes. -/
theorem registered_answers_to_title (r r' : Registry) (v : Int) (t : Bytes) (p : RegPack)
    (h : r.register v t p = some r') :
    r'.name v = t ∧ r'.parse t = some v ∧ v ∈ r'.allLevels := by
  unfold Registry.register at h
  split at h
  · simp at h
  split at h
  · simp at h
  simp only [Option.some.injEq] at h; subst h
  simp [Registry.name, Registry.parse, lookup_assocSet_self]

theorem registered_treated_as (r r' : Registry) (v : Int) (t : Bytes) (p : RegPack)
    (h : r.register v t p = some r') (ht : p.treatAs < Lv.max) : r'.treatAs.lookup v = some p.treatAs := by
  unfold Registry.register at h
  split at h
  · simp at h
  split at h
  · simp at h
  simp only [Option.some.injEq] at h; subst h
  simp [ht, lookup_assocSet_self]

theorem registered_error_device (r r' : Registry) (v : Int) (t : Bytes) (p : RegPack)
    (h : r.register v t p = some r') (he : p.toErr = true) : (r'.errorDevice.lookup v).isSome = true := by
  unfold Registry.register at h
  split at h
  · simp at h
  split at h
  · simp at h
  simp only [Option.some.injEq] at h; subst h
  simp [he, lookup_assocSet_self]

/-- (7) ShortTag(n) of a level without custom tag for that width is exactly n bytes, n = 1 … 5;
    outside 1 … 5 it is the documented panic. -/
theorem shortTag_length (r : Registry) (l : Int) (n : Nat) (hn : 1 ≤ n ∧ n ≤ 5)
    (hno : r.hasCustomTag l n = false) :
    ∃ t, r.shortTag l n = some t ∧ t.length = n := by
  have h1 : ¬ ((n : Int) ≤ 0 ∨ (n : Int) ≥ maxLengthShortTag) := by
    simp [maxLengthShortTag]; omega
  unfold Registry.hasCustomTag at hno
  have hnone : (List.lookup n r.shortTags).bind (fun row => List.lookup l row) = none := by
    cases hx : (List.lookup n r.shortTags).bind (fun row => List.lookup l row) <;> simp_all
  simp only [Registry.shortTag, h1, ↓reduceIte, Int.toNat_natCast, hnone]
  by_cases hl : (r.name l).length > 0
  · simp only [hl, ↓reduceIte]
    by_cases he : (r.name l).length = n
    · exact ⟨r.name l, by simp [he], he⟩
    · by_cases hlt : (r.name l).length < n
      · exact ⟨(r.name l ++ List.replicate n 32).take n, by simp [he, hlt], by simp⟩
      · exact ⟨(r.name l).take n, by simp [he, hlt], by simp; omega⟩
  · exact ⟨List.replicate n 63, by simp [hl], by simp⟩

theorem shortTag_panics_outside (r : Registry) (l n : Int) (h : n ≤ 0 ∨ n ≥ 6) : r.shortTag l n = none := by
  simp [Registry.shortTag, maxLengthShortTag, h]

-- non-vacuity: a registration accepted by the built-in registry, one refused for its value, one for its title
example : (Bridge.genRegistry.register 17 [78, 79, 84] {}).isSome = true ∧
          (Bridge.genRegistry.register 4 [102] {}).isNone = true ∧
          (Bridge.genRegistry.register 17 [119, 97, 114, 110] {}).isNone = true := by decide
example : Bridge.genRegistry.shortTag 4 3 = some [73, 78, 70] ∧ Bridge.genRegistry.shortTag 4 6 = none := by decide

end Logg.Props.C17
