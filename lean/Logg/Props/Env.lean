/-
  What the package takes from outside a call (regenerated). Every correspondence run and every oracle of the
  harness observes the code in the environments the harness creates: its own, and those of the environment
  probes (harness/envprobe.go: DEBUG, NO_COLOR, the locale, HOME, TZ, a replaced states holder, the order of
  the first calls). That those observations say something about other environments rests on the facts below:
  the only environment variable the package reads itself is DEBUG (once, in init.go); the only values captured
  once at start-up are the four process-kind flags (test binary, benchmark, debugger, debug build) and the unit
  table of the duration parser; the only once-only initialisers are the package init guard and the table of
  time formats. A new read of the environment, a new value computed at start-up or a new lazy initialiser makes
  this fail: behaviour may then depend on an environment or an order of first calls no check has looked at.
-/
import Logg.Gen.Facts

namespace Logg.Props.Env
open Logg

theorem outside_inputs :
    Gen.envReads = ["slog/init.go:os.Getenv(\"DEBUG\")"] ∧
    Gen.initCaptures = ["slog/entry.go:inBenching", "slog/entry.go:inTesting", "slog/entry.go:isDebug",
      "slog/entry.go:isDebugging", "slog/internal/times/dur.go:unitMap"] ∧
    Gen.onceSites = ["slog/cmn.go:onceInit", "slog/internal/times/time.go:onceFormats"] := by decide

end Logg.Props.Env
