/-
  C19 (continued) — the buffer model refines a queue specification (Model/BufferSpec): whatever the
  capacity, the nil-ness of the slice and the slice arithmetic do, every operation gives the result the
  specification gives on (consumed bytes, unread bytes, kind of the last read), and the only freedom
  is that making room may forget the consumed bytes.
-/
import Logg.Lemmas.BufferRefine

namespace Logg.Props.C19
open Logg

/-- (R1) **Refinement, one operation.** In every state that satisfies the representation invariant,
    every operation of the listed interface — with any argument, any capacities granted by the runtime —
    is the specification's operation on the abstracted state: same result (value, error, panic) and
    the abstraction of the new state is the specification's new state for one of the two choices
    "the consumed bytes were kept / forgotten". The one excluded outcome is the "too large" panic,
    which depends on the capacity (it needs a buffer of more than 2^62 bytes). -/
theorem step_refines_spec (s : Buf) (op : BufOp) (caps : List Nat) (h : Inv s)
    (hne : (bufStep s op caps).2 ≠ .panic .tooLarge) :
    ∃ forget, ((bufStep s op caps).1.abs, (bufStep s op caps).2) = specStep s.abs op forget := by
  cases op with
  | write p => exact refines_write s p caps h hne
  | writeString p => exact refines_writeString s p caps h hne
  | writeByte c => exact refines_writeByte s c caps h hne
  | writeRune r => exact refines_writeRune s r caps h hne
  | read n => exact refines_read s n caps
  | readByte => exact refines_readByte s caps
  | readRune => exact refines_readRune s caps
  | unreadByte => exact refines_unreadByte s caps h
  | unreadRune => exact refines_unreadRune s caps h
  | next n => exact refines_next s n caps
  | readBytes d => exact refines_readBytes s d caps h
  | readString d => exact refines_readString s d caps h
  | readFrom steps => exact refines_readFrom s steps caps h hne
  | writeTo a f => exact refines_writeTo s a f caps
  | truncate n => exact refines_truncate s n caps h
  | grow n => exact refines_grow s n caps h hne
  | reset => exact refines_reset s caps
  | len => exact refines_len s caps
  | bytes => exact refines_bytes s caps
  | string => exact refines_string s caps

/-- the results of a sequence of operations on the model -/
def bufTrace : Buf → List (BufOp × List Nat) → List BufRes
  | _, [] => []
  | s, (op, caps) :: rest => (bufStep s op caps).2 :: bufTrace (bufStep s op caps).1 rest

/-- … and on the specification, for a list of keep / forget choices -/
def specTrace : Zip → List BufOp → List Bool → List BufRes
  | _, [], _ => []
  | q, op :: rest, f :: fs => (specStep q op f).2 :: specTrace (specStep q op f).1 rest fs
  | q, op :: rest, [] => (specStep q op false).2 :: specTrace (specStep q op false).1 rest []

/-- (R2) **Refinement, whole histories.** For every sequence of operations from a state satisfying the
    invariant (the empty buffer does), if no "too large" panic occurs, the sequence of results is a
    sequence of results of the specification. -/
theorem run_refines_spec (ops : List (BufOp × List Nat)) : ∀ (s : Buf), Inv s →
    (∀ r ∈ bufTrace s ops, r ≠ .panic .tooLarge) →
    ∃ fs, fs.length = ops.length ∧ specTrace s.abs (ops.map (·.1)) fs = bufTrace s ops := by
  induction ops with
  | nil => intro s _ _; exact ⟨[], rfl, rfl⟩
  | cons oc rest ih =>
    intro s h hne
    obtain ⟨op, caps⟩ := oc
    have hne1 : (bufStep s op caps).2 ≠ .panic .tooLarge := hne _ (by simp [bufTrace])
    obtain ⟨f, hf⟩ := step_refines_spec s op caps h hne1
    have h1 := congrArg Prod.fst hf
    have h2 := congrArg Prod.snd hf
    simp only at h1 h2
    obtain ⟨fs, hlen, hfs⟩ := ih (bufStep s op caps).1 (step_inv s op caps h)
      (fun r hr => hne r (by simp [bufTrace, hr]))
    refine ⟨f :: fs, by simp [hlen], ?_⟩
    simp only [List.map_cons, specTrace, bufTrace]
    rw [← h1, ← h2, hfs]

/-- the result of a specification step does not depend on the keep / forget choice -/
theorem spec_result_choice_free (q : Zip) (op : BufOp) (f g : Bool) : (specStep q op f).2 = (specStep q op g).2 := by
  cases op <;> simp only [specStep] <;> (repeat' split) <;> rfl

/-- (R3) **Capacity does not show.** Two buffers with the same consumed bytes, unread bytes and last-read
    kind — whatever their capacities, whether their slice is nil, whatever the runtime grants them
    when they grow — answer every operation with the same result (unless one of them reports
    "too large"). -/
theorem result_independent_of_representation (s₁ s₂ : Buf) (op : BufOp) (c₁ c₂ : List Nat)
    (h₁ : Inv s₁) (h₂ : Inv s₂) (hab : s₁.abs = s₂.abs)
    (n₁ : (bufStep s₁ op c₁).2 ≠ .panic .tooLarge) (n₂ : (bufStep s₂ op c₂).2 ≠ .panic .tooLarge) :
    (bufStep s₁ op c₁).2 = (bufStep s₂ op c₂).2 := by
  obtain ⟨f₁, e₁⟩ := step_refines_spec s₁ op c₁ h₁ n₁
  obtain ⟨f₂, e₂⟩ := step_refines_spec s₂ op c₂ h₂ n₂
  have a := congrArg Prod.snd e₁
  have b := congrArg Prod.snd e₂
  simp only at a b
  rw [a, b, hab]
  exact spec_result_choice_free _ _ _ _

/-- non-vacuity: "héllo" written, a rune read and unread, two bytes read, Grow that slides — the
    specification's results on the empty queue -/
example : specTrace Zip.empty [.writeString [104, 195, 169], .readByte, .readRune, .unreadRune, .len, .next 5, .unreadByte, .bytes]
      [true, false, false, false, false, false, false, false] =
    [.nErr 3 "", .byteErr 104 "", .rune 233 2 "", .err "", .n 2, .bytes [195, 169], .err "", .bytes [169]] := by
  decide
example : Inv { data := [], cap := 0 } := by simp [Inv]

end Logg.Props.C19
