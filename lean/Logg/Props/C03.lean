/-
  C03 — Severity routing and writer-set configuration follow the documented model.
  `Gen.dualGet`, `Gen.findWriterSrc` are regenerated from dualWriter.Get / Entry.findWriter.
-/
import Logg.Model.Pipeline
import Logg.Gen.Facts

namespace Logg.Props.C03
open Logg

/-- (1) Routing, as the code does it now, is the routing of the statement — for every
    severity (any integer), any registry, any configuration, configured or not. -/
theorem route_is_spec (g : Globals) (c : WriterCfg) (sev : Int) : routeGen g c sev = routeSpec g c sev := by
  unfold routeGen routeSpec Gen.findWriterSrc Gen.dualGet Lv.off
  cases c with
  | none =>
    simp only [Option.isSome_none, ensure, Option.getD_none, DualWriter.factory, List.lookup]
    by_cases h7 : sev = 7
    · subst h7; simp
    · have : (sev == 7) = false := by simpa using h7
      cases he : List.lookup sev g.errorDevice <;> simp [this, h7, he]
  | some d =>
    simp only [Option.isSome_some, ensure, Option.getD_some]
    by_cases h7 : sev = 7
    · subst h7; simp
    · have : (sev == 7) = false := by simpa using h7
      cases hl : List.lookup sev d.leveled with
      | none => cases he : List.lookup sev g.errorDevice <;> simp [this, h7, hl, he]
      | some ws =>
        cases ws with
        | nil => cases he : List.lookup sev g.errorDevice <;> simp [this, h7, hl, he]
        | cons w ws => simp [this, h7, hl]

/-- (2) A logger never given writers uses the package defaults: stderr for error-class
    severities, stdout otherwise. -/
theorem unconfigured_uses_defaults (g : Globals) (sev : Int) (h : sev ≠ Lv.off) :
    routeSpec g none sev = if (g.errorDevice.lookup sev).isSome then [stderrId] else [stdoutId] := by
  simp [routeSpec, ensure, DualWriter.factory, h, List.lookup]

/-- The abstract meaning of the configuring calls on the three lists: set replaces, add appends,
    remove deletes that writer (its first occurrence), reset restores the defaults; a nil writer
    changes nothing. -/
def specStep (d : DualWriter) : WriterOp → DualWriter
  | .setWriter w => if w = 0 then d else { d with normal := [w] }
  | .addWriter w => if w = 0 then d else { d with normal := d.normal ++ [w] }
  | .removeWriter w => if w = 0 then d else { d with normal := d.normal.erase w }
  | .setErrorWriter w => if w = 0 then d else { d with error := [w] }
  | .addErrorWriter w => if w = 0 then d else { d with error := d.error ++ [w] }
  | .removeErrorWriter w => if w = 0 then d else { d with error := d.error.erase w }
  | .addLevelWriter lvl w => if w = 0 then d else
      { d with leveled := assocSet d.leveled lvl ((d.leveled.lookup lvl).getD [] ++ [w]) }
  | .removeLevelWriter lvl w => if w = 0 then d else
      match d.leveled.lookup lvl with
      | some ws => { d with leveled := assocSet d.leveled lvl (ws.erase w) }
      | none => d
  | .resetLevelWriter lvl => { d with leveled := assocDel d.leveled lvl }
  | .resetLevelWriters => { d with leveled := [] }
  | .resetWriters => DualWriter.factory

/-- Writers the user can name are never the package defaults. -/
def userOp : WriterOp → Prop
  | .removeWriter w | .removeErrorWriter w => w ≠ stdoutId ∧ w ≠ stderrId
  | _ => True

/-- (3) One configuring call does to the effective configuration (own, or the defaults for a
    logger that has none yet) exactly what it denotes — including the lazily created writer set
    and the calls on a fresh logger. -/
theorem step_refines_spec (c : WriterCfg) (op : WriterOp) (h : userOp op) :
    ensure (cfgStep c op) = specStep (ensure c) op := by
  cases op with
  | removeWriter w =>
    cases c with
    | some d => simp [cfgStep, specStep, ensure, eraseFirst]
    | none =>
      obtain ⟨h1, h2⟩ := h
      by_cases hw : w = 0
      · simp [cfgStep, specStep, ensure, hw]
      · have : (stdoutId == w) = false := by simpa using fun e => h1 e.symm
        simp [cfgStep, specStep, ensure, hw, DualWriter.factory, this]
  | removeErrorWriter w =>
    cases c with
    | some d => simp [cfgStep, specStep, ensure, eraseFirst]
    | none =>
      obtain ⟨h1, h2⟩ := h
      by_cases hw : w = 0
      · simp [cfgStep, specStep, ensure, hw]
      · have : (stderrId == w) = false := by simpa using fun e => h2 e.symm
        simp [cfgStep, specStep, ensure, hw, DualWriter.factory, this]
  | removeLevelWriter lvl w =>
    cases c <;> simp only [cfgStep, specStep, ensure, eraseFirst, Option.getD_some, Option.getD_none] <;>
      split <;> (try rfl) <;> split <;> rfl
  | setWriter w | addWriter w | setErrorWriter w | addErrorWriter w =>
    cases c <;> simp only [cfgStep, specStep, ensure, Option.getD_some, Option.getD_none] <;> split <;> rfl
  | addLevelWriter lvl w =>
    cases c <;> simp only [cfgStep, specStep, ensure, Option.getD_some, Option.getD_none] <;> split <;> rfl
  | resetLevelWriter lvl => cases c <;> rfl
  | resetLevelWriters => cases c <;> rfl
  | resetWriters => cases c <;> rfl

/-- (4) After any sequence of set / add / remove / reset calls the configuration is what the
    sequence denotes. -/
theorem config_refines_spec (c : WriterCfg) (ops : List WriterOp) (h : ∀ op ∈ ops, userOp op) :
    ensure (cfgRun c ops) = ops.foldl specStep (ensure c) := by
  induction ops generalizing c with
  | nil => rfl
  | cons op ops ih =>
    simp only [cfgRun, List.foldl_cons]
    have h1 := h op (by simp)
    have h2 : ∀ o ∈ ops, userOp o := fun o ho => h o (by simp [ho])
    rw [← step_refines_spec c op h1]
    exact ih _ h2

def isWrite : WEvent → Bool
  | .write _ _ => true
  | _ => false

def eventWriter : WEvent → Wid
  | .tell w _ => w
  | .write w _ => w

/-- (5) Writers outside the selected set receive nothing; every selected writer gets exactly one
    write, in list order. -/
theorem only_selected_written (settable : Wid → Bool) (fails : Nat → Bool) (start : Nat) (dests : List Wid) (sev : Int) :
    (((deliver settable fails start dests sev).1.filter isWrite).map eventWriter) = dests ∧
    ∀ e ∈ (deliver settable fails start dests sev).1, eventWriter e ∈ dests := by
  unfold deliver
  constructor
  · simp only [List.filter_append, List.map_append]
    have h1 : (List.filter isWrite (List.map (fun w => WEvent.tell w sev) (List.filter settable dests))) = [] := by
      rw [List.filter_eq_nil_iff]
      intro a ha
      simp only [List.mem_map] at ha
      obtain ⟨w, _, rfl⟩ := ha
      simp [isWrite]
    have h2 : ∀ (l : List (Wid × Nat)), List.map eventWriter (List.filter isWrite
        (List.map (fun x => WEvent.write x.1 (!fails (start + x.2))) l)) = l.map (·.1) := by
      intro l; induction l with
      | nil => rfl
      | cons x l ih =>
        simp only [List.map_cons, List.filter_cons, isWrite, ↓reduceIte, eventWriter]
        rw [ih]
    rw [h1]
    simp only [List.map_nil, List.nil_append]
    have := h2 dests.zipIdx
    simpa using this
  · intro e he
    simp only [List.mem_append, List.mem_map, List.mem_filter] at he
    rcases he with ⟨w, ⟨hw, _⟩, rfl⟩ | ⟨⟨w, i⟩, hx, rfl⟩
    · exact hw
    · simp only [eventWriter]
      exact (List.mem_zipIdx hx).2.2 ▸ List.getElem_mem _

/-- (6) A destination that asks to be told the severity is told it — the severity of this very
    record — before its write, and nothing else happens to it in between. -/
theorem told_before_write (settable : Wid → Bool) (fails : Nat → Bool) (start : Nat) (dests : List Wid) (sev : Int)
    (w : Wid) (hw : w ∈ dests) (hs : settable w = true) :
    WEvent.tell w sev ∈ (deliver settable fails start dests sev).1 ∧
    ∀ e ∈ (deliver settable fails start dests sev).1, ∀ s', e = WEvent.tell w s' → s' = sev := by
  unfold deliver
  constructor
  · simp [hw, hs]
  · intro e he s' hes
    subst hes
    simp only [List.mem_append, List.mem_map, List.mem_filter] at he
    rcases he with ⟨w', _, h⟩ | ⟨x, _, h⟩
    · injection h with _ h2; exact h2.symm
    · cases h

/-- (7) What printOut does with the destination list the routing selected, as the code says it now
    (regenerated): the destination is told the severity, then written to once, and only then a failure
    is reported; nothing leaves printOut before the Write, so every routed record is handed over, and
    the list hands it to each member, whatever the earlier members answered. -/
theorem handover_facts :
    Gen.printOutSeq = ["tell", "write", "warn"] ∧ Gen.writesPerPrintOut = 1 ∧ Gen.printOutExitsBeforeWrite = 0 ∧
    Gen.lwsWriteLoops = 1 ∧ Gen.lwsWriteEarlyExit = false := by decide

-- non-vacuity: add then remove on a fresh logger; a leveled writer takes precedence; empty leveled list falls back
example : cfgRun none [.addWriter 5, .addWriter 6, .removeWriter 5] = some { normal := [stdoutId, 6], error := [stderrId], leveled := [] } := by decide
example : routeSpec { errorDevice := [(2, true)] } (cfgRun none [.setWriter 5, .addLevelWriter 2 7]) 2 = [7] ∧
          routeSpec { errorDevice := [(2, true)] } (cfgRun none [.setWriter 5, .addLevelWriter 2 7, .removeLevelWriter 2 7]) 2 = [stderrId] ∧
          routeSpec { errorDevice := [(2, true)] } (cfgRun none [.setWriter 5]) 4 = [5] := by decide

end Logg.Props.C03
