/-
  C02 — Exactly-once delivery: each admitted call is one whole Write, for any arguments.
  The model of the call (Logg.Model.Args) composes the regenerated gate, the argument parser,
  the encoder and the regenerated routing.
-/
import Logg.Model.Args
import Logg.Props.C03
import Logg.Props.C12
import Logg.Props.C13
import Logg.Gen.Facts

namespace Logg.Props.C02
open Logg

/-! ### the argument list -/

theorem argsRun_append (st : ArgSt) (xs ys : List Arg) : argsRun st (xs ++ ys) = argsRun (argsRun st xs) ys := by
  simp [argsRun, List.foldl_append]

theorem argsRun_one (st : ArgSt) (a : Arg) : argsRun st [a] = argStep st a := rfl

theorem argStep_str_nokey (st : ArgSt) (k : Bytes) (h0 : st.key = []) : argStep st (.str k) = { st with key := k } := by
  simp [argStep, h0]

theorem argStep_val_nokey (st : ArgSt) (v : Val) (h0 : st.key = []) : argStep st (.val v) = st := by
  simp [argStep, h0]

/-- an argument that can stand in value position -/
inductive ValueArg where
  | str (s : Bytes)
  | val (v : Val)

def ValueArg.arg : ValueArg → Arg
  | .str s => .str s
  | .val v => .val v

def ValueArg.value : ValueArg → Val
  | .str s => .str s
  | .val v => v

theorem asValue_valueArg (v : ValueArg) : v.arg.asValue = some v.value := by cases v <;> rfl

/-- one key/value pair with a non-empty key adds exactly that attribute and leaves no pending key -/
theorem pair_step (st : ArgSt) (k : Bytes) (v : ValueArg) (hk : k ≠ []) (h0 : st.key = []) :
    argsRun st [.str k, v.arg] = { st with acc := st.acc ++ [some (k, false, v.value)], key := [] } := by
  have hk' : k.isEmpty = false := by cases k <;> simp_all
  simp [argsRun, argStep, h0, hk', asValue_valueArg]

/-- (1) Well-formed lists: `k1, v1, k2, v2, …` with non-empty keys and values of any kind (strings,
    nil, anything) become exactly those attributes, in order — none lost, none invented. -/
theorem pairs_kept (init : List Attr) (kvs : List (Bytes × ValueArg)) (hk : ∀ p ∈ kvs, p.1 ≠ []) :
    argsToAttrs init (kvs.flatMap fun p => [.str p.1, p.2.arg]) =
      some (init ++ kvs.map fun p => some (p.1, false, p.2.value)) := by
  have key : ∀ (st : ArgSt), st.key = [] →
      argsRun st (kvs.flatMap fun p => [.str p.1, p.2.arg]) =
        { st with acc := st.acc ++ kvs.map fun p => some (p.1, false, p.2.value), key := [] } := by
    induction kvs with
    | nil => intro st h0; cases st; simp_all [argsRun]
    | cons p ps ih =>
      intro st h0
      have hp : p.1 ≠ [] := hk p (by simp)
      have hps : ∀ q ∈ ps, q.1 ≠ [] := fun q hq => hk q (by simp [hq])
      rw [List.flatMap_cons, argsRun_append, pair_step st p.1 p.2 hp h0, ih hps _ rfl]
      simp
  unfold argsToAttrs
  have := key { acc := init, key := [] } rfl
  simp [this]

/-- (2) Attribute arguments (`Attr`, `[]Attr`, `Attrs`) between pairs are appended whole, in place. -/
theorem attr_args_appended (st : ArgSt) (h0 : st.key = []) (a : Attr) (xs : List Attr) :
    argsRun st [.attr a] = { st with acc := st.acc ++ [a] } ∧
    argsRun st [.attrs xs] = { st with acc := st.acc ++ xs } := by
  simp [argsRun, argStep, h0]

/-- (3) A dangling key (a string with nothing after it) adds nothing. -/
theorem dangling_key_dropped (init : List Attr) (xs : List Arg) (k : Bytes)
    (h0 : (argsRun { acc := init, key := [] } xs).key = []) :
    argsToAttrs init (xs ++ [.str k]) = argsToAttrs init xs := by
  unfold argsToAttrs
  rw [argsRun_append, argsRun_one, argStep_str_nokey _ _ h0]

/-- (4) A non-string value in key position is skipped and does not shift the pairing of what
    follows: the list behaves as if it were not there. -/
theorem bad_key_skipped (init : List Attr) (xs ys : List Arg) (v : Val)
    (h0 : (argsRun { acc := init, key := [] } xs).key = []) :
    argsToAttrs init (xs ++ [.val v] ++ ys) = argsToAttrs init (xs ++ ys) := by
  unfold argsToAttrs
  rw [List.append_assoc, argsRun_append, argsRun_append _ xs ys, List.singleton_append, argsRun, List.foldl_cons,
    argStep_val_nokey _ _ h0]
  rfl

/-- (5) An empty string in key position is not a key: the next argument is read as a key again. -/
theorem empty_key_skipped (init : List Attr) (xs ys : List Arg)
    (h0 : (argsRun { acc := init, key := [] } xs).key = []) :
    argsToAttrs init (xs ++ [.str []] ++ ys) = argsToAttrs init (xs ++ ys) := by
  have hs : argStep (argsRun { acc := init, key := [] } xs) (.str []) = argsRun { acc := init, key := [] } xs := by
    rw [argStep_str_nokey _ _ h0]
    cases hst : argsRun { acc := init, key := [] } xs with
    | mk acc key ok => rw [hst] at h0; simp at h0; simp [h0]
  unfold argsToAttrs
  rw [List.append_assoc, argsRun_append, argsRun_append _ xs ys, List.singleton_append, argsRun, List.foldl_cons, hs]
  rfl

/-- (6) The parser is total on the modelled domain: lists without an attribute in value position
    always yield attributes (strings, nil, any value kind, dangling and malformed keys included). -/
theorem args_total (init : List Attr) (args : List Arg)
    (h : ∀ a ∈ args, (∃ s, a = .str s) ∨ (∃ v, a = .val v)) : (argsToAttrs init args).isSome = true := by
  have key : ∀ (st : ArgSt), st.ok = true → (argsRun st args).ok = true := by
    induction args with
    | nil => intro st hs; simpa [argsRun] using hs
    | cons a as ih =>
      intro st hs
      have ha := h a (by simp)
      have has : ∀ b ∈ as, (∃ s, b = .str s) ∨ (∃ v, b = .val v) := fun b hb => h b (by simp [hb])
      show (argsRun (argStep st a) as).ok = true
      apply ih has
      rcases ha with ⟨s, rfl⟩ | ⟨v, rfl⟩ <;> unfold argStep <;> split <;> simp_all [Arg.asValue]
  unfold argsToAttrs
  have := key { acc := init, key := [] } rfl
  simp [this]

/-! ### the payload -/

/-- (7) Every payload ends with a line feed, in every format, for every record. -/
theorem payload_ends_with_newline (f : Fmt) (isPrint : Nat → Bool) (p : Presentation) (depth : Nat) (r : Record)
    (out : Bytes) (h : encodeRecord f isPrint p depth r = some out) : out.getLast? = some 10 := by
  unfold encodeRecord at h
  by_cases hb : (r.lvl == Lv.always && isBlank r.msg) = true
  · rw [if_pos hb] at h; cases h; rfl
  · rw [if_neg hb] at h
    cases f with
    | json => simp only at h; cases h; simp
    | logfmt => simp only at h; cases h; simp
    | color =>
      simp only at h
      revert h
      cases p.reg.shortTag r.lvl p.tagWidth with
      | none => intro h; cases h
      | some tag =>
        simp only
        intro h
        split at h
        · cases h
        · cases h; simp [← List.append_assoc]

/-- (8) JSON and logfmt produce a payload for every record whatsoever (any message bytes, any
    attributes): the encoder has no failing input there. Colored mode does whenever the tag width
    is one ShortTag accepts and the message has no markup characters. -/
theorem plain_formats_total (f : Fmt) (hf : f ≠ .color) (isPrint : Nat → Bool) (p : Presentation) (depth : Nat) (r : Record) :
    (encodeRecord f isPrint p depth r).isSome = true := by
  unfold encodeRecord
  split
  · rfl
  · cases f <;> simp_all

/-- (9) A blank Print/Println — severity Always, message empty or only white space — is exactly
    one line feed, whatever the format, the arguments and the logger's attributes. -/
theorem blank_print_is_one_newline (k : CallShape) (msg : Bytes) (args : List Arg) (hb : isBlank msg = true)
    (hd : (argsToAttrs k.loggerAttrs args).isSome = true) :
    callPayload k Lv.always msg args = some [10] := by
  unfold callPayload
  cases h : argsToAttrs k.loggerAttrs args with
  | none => simp [h] at hd
  | some attrs => simp [encodeRecord, hb]

/-- The shortcut as the code has it now (regenerated from printImpl). -/
theorem blank_shortcut_decision (lvl : Int) (blank : Bool) :
    Gen.blankShortcut lvl blank = (lvl == Lv.always && blank) := by
  simp [Gen.blankShortcut, Lv.always]

/-! ### delivery -/

/-- (10) An admitted call: the destinations written to are exactly the ones selected for the
    severity — each occurrence once, in order — and every one of those Writes carries the same
    whole payload, which ends with a line feed. -/
theorem admitted_once_each (c : CallCtx) (k : CallShape) (sev : Int) (msg : Bytes) (args : List Arg)
    (ha : Gen.enabled c.g c.level sev = true) (ws : List (Wid × Bytes))
    (h : callWrites c k sev msg args = some ws) :
    ∃ payload, callPayload k sev msg args = some payload ∧ payload.getLast? = some 10 ∧
      ws.map Prod.fst = routeSpec c.g c.cfg sev ∧ ∀ e ∈ ws, e.2 = payload := by
  unfold callWrites at h
  rw [if_pos ha] at h
  cases hp : callPayload k sev msg args with
  | none => simp [hp] at h
  | some payload =>
    simp only [hp, Option.map_some, Option.some.injEq] at h
    refine ⟨payload, rfl, ?_, ?_, ?_⟩
    · unfold callPayload at hp
      split at hp
      · cases hp
      · exact payload_ends_with_newline _ _ _ _ _ _ hp
    · subst h; simp [C03.route_is_spec, Function.comp_def]
    · subst h; intro e he; simp at he; obtain ⟨w, _, rfl⟩ := he; rfl

/-- (11) A call that is not admitted writes to no destination at all — whatever its arguments
    (even ones outside the modelled domain: they are never looked at). -/
theorem not_admitted_silent (c : CallCtx) (k : CallShape) (sev : Int) (msg : Bytes) (args : List Arg)
    (h : Gen.enabled c.g c.level sev = false) : callWrites c k sev msg args = some [] := by
  simp [callWrites, h]

/-- (12) The Write events of the call are those of the delivery model of C03/C13 (one attempt
    per selected destination); with healthy destinations there is no second record. -/
theorem writes_agree_with_delivery (c : CallCtx) (k : CallShape) (sev : Int) (msg : Bytes) (args : List Arg)
    (ws : List (Wid × Bytes)) (h : callWrites c k sev msg args = some ws) (hh : ∀ n, c.fails n = false) :
    (logCall c 0 sev).1.length ≤ 1 ∧
    ws.map Prod.fst = ((logCall c 0 sev).1.flatMap fun ev => (ev.filter C03.isWrite).map C03.eventWriter) := by
  refine ⟨C13.no_diagnostic_without_failure c 0 sev hh, ?_⟩
  unfold callWrites at h
  by_cases ha : Gen.enabled c.g c.level sev = true
  · rw [if_pos ha] at h
    cases hp : callPayload k sev msg args with
    | none => simp [hp] at h
    | some payload =>
      simp only [hp, Option.map_some, Option.some.injEq] at h
      subst h
      have hw : Gen.warnOnFailure (emitRecord c 0 sev).2.1 sev = false := by
        simp [C13.warnOnFailure_spec, emitRecord, deliver, hh]
      have hs := C13.siblings_served c 0 sev
      simp [logCall, ha, hw, hs, C03.route_is_spec, Function.comp_def]
  · have ha' : Gen.enabled c.g c.level sev = false := by simpa using ha
    rw [if_neg ha] at h
    cases h
    simp [logCall, ha']

/-- (13) The call returns normally for every severity other than Panic and Fatal (regenerated
    termination decision), whatever the flags. -/
theorem non_terminating_returns (g : Globals) (sev : Int) (h0 : sev ≠ Lv.panic) (h1 : sev ≠ Lv.fatal) :
    Gen.terminate g sev = Outcome.continue :=
  C12.others_never_terminate g sev h0 h1

/-- (14) One Write per destination per record: the structure of printOut and LWs.Write the
    delivery model rests on (regenerated). printOut has no way out (return, panic, exit) before the
    Write call: whether a record that reached it is handed over does not depend on any other record
    being in flight. -/
theorem one_write_per_record : Gen.writesPerPrintOut = 1 ∧ Gen.lwsWriteLoops = 1 ∧ Gen.lwsWriteEarlyExit = false ∧
    Gen.printOutExitsBeforeWrite = 0 := by decide

/-! ### Println -/

/-- (15) `Println(x, rest…)` with a non-string `x` logs `fmt.Sprint(x)` as the message and `rest`
    as the attributes — it does not drop the record; `Println()` logs the empty message. -/
theorem println_split (x : Arg) (rest : List Arg) (sprint : Bytes) :
    (printlnSplit [] sprint = ([], [])) ∧
    (∀ s, printlnSplit (.str s :: rest) sprint = (s, rest)) ∧
    ((∀ s, x ≠ .str s) → printlnSplit (x :: rest) sprint = (sprint, rest)) := by
  refine ⟨rfl, fun _ => rfl, ?_⟩
  intro h
  cases x with
  | str s => exact absurd rfl (h s)
  | val _ => rfl
  | attr _ => rfl
  | attrs _ => rfl

/-! ### whole histories of calls with healthy destinations -/

/-- With healthy destinations one call yields exactly one record if it is admitted and none
    otherwise, wherever the history stands. -/
theorem healthy_call_once (c : CallCtx) (start : Nat) (sev : Int) (hh : ∀ n, c.fails n = false) :
    (logCall c start sev).1.length = if Gen.enabled c.g c.level sev then 1 else 0 := by
  rw [C13.logCall_proj]
  have hw : Gen.warnOnFailure (emitRecord c start sev).2.1 sev = false := by
    simp [C13.warnOnFailure_spec, emitRecord, deliver, hh]
  split <;> simp [hw]

/-- (15) Exactly once, for whole histories: over any sequence of calls with healthy
    destinations, the output of the history is the per-call output of each call taken on its own
    (nothing is carried from call to call, nothing is delivered later or twice), and each call
    contributes exactly one record when admitted and none when not. -/
theorem healthy_history_once_each (c : CallCtx) (start : Nat) (sevs : List Int) (hh : ∀ n, c.fails n = false) :
    (runCalls c start sevs).1 = sevs.map (fun sev => (logCall c 0 sev).1) ∧
    (runCalls c start sevs).1.map List.length = sevs.map (fun sev => if Gen.enabled c.g c.level sev then 1 else 0) := by
  have hc : ∀ st, ({ c with fails := fun i => c.fails (st + i) } : CallCtx) = c := by
    intro st
    have : (fun i => c.fails (st + i)) = c.fails := by funext i; simp [hh]
    rw [this]
  induction sevs generalizing start with
  | nil => simp [runCalls]
  | cons sev rest ih =>
    have h1 : (logCall c start sev).1 = (logCall c 0 sev).1 := by
      rw [C13.no_sticky_state c start sev, hc start]
    have h := ih (logCall c start sev).2
    refine ⟨by simp [runCalls, h1, h.1], ?_⟩
    simp only [runCalls, List.map_cons, h.2]
    rw [healthy_call_once c start sev hh]


/-- (16) Delivery is independent of the history: whatever calls came before (admitted or not, at
    any severity), a call on healthy destinations delivers exactly what it delivers as the first
    call of a fresh run, and the earlier output is left as it was. -/
theorem call_independent_of_history (c : CallCtx) (start : Nat) (before : List Int) (sev : Int)
    (hh : ∀ n, c.fails n = false) :
    (runCalls c start (before ++ [sev])).1 = (runCalls c start before).1 ++ [(logCall c 0 sev).1] := by
  rw [C13.history_splits, (healthy_history_once_each c _ [sev] hh).1]
  rfl

-- non-vacuity: an Info logger with healthy destinations 5 (normal) and 6 (error); the history
-- Info, Debug, Trace, Warn yields one record each for the admitted calls and none for the others
example :
    (runCalls { g := { errorDevice := [(3, true)] }, level := 4, cfg := some { normal := [5], error := [6], leveled := [] },
                settable := fun _ => false, fails := fun _ => false } 0 [4, 5, 6, 3]).1
      = [[[.write 5 true]], [], [], [[.write 6 true]]] := by decide

-- non-vacuity: a JSON logger at Info with one normal destination; `Info("m", 7, "k", nil, "dangling")`
-- is written once, the malformed key and the dangling key leave `k=null` only
example :
    argsToAttrs [] [.val (.int 7), .str [107], .val .nil, .str [100]] = some [some ([107], false, .nil)] := by
  simp [argsToAttrs, argsRun, argStep, Arg.asValue]

end Logg.Props.C02
