/-
  C04 — JSON mode: each record is one line of valid JSON decoding to what was logged.

  Proved here, for the encoder model tied byte for byte to the code: the JSON escaper is safe for ALL byte
  strings (well-formed string body, no control byte), every valid UTF-8 string decodes back to itself,
  a whole record is one line, and the object structure reads back: a member reader (strings with
  their escapes, nested brackets and braces, split at the commas and colons of depth 0) finds in the
  record's line exactly one member per logged field, in the order written, each under its own key
  literal, a group again an object of exactly its members — at any depth (`json_record_reads_back`,
  `json_group_reads_back`). Key literals and string values then decode by (1'). What remains with the
  encoding/json oracle: that Go's decoder agrees with this reader (compared on every generated line,
  `Q jmem` probes) and the numeric / time value texts.
-/
import Logg.Lemmas.EncoderClean
import Logg.Lemmas.JsonRoundTrip
import Logg.Lemmas.EncoderJson
import Logg.Gen.Facts

namespace Logg.Props.C04
open Logg Logg.Lemmas

/-- (1) Whatever bytes a message, a key, the logger name or a string-like value contains (quotes,
    backslashes, CR/LF, control characters, invalid UTF-8), what is written is `"` body `"` where body
    is a well-formed JSON string body: no unescaped quote, no raw control byte, only the escapes
    `\" \\ \n \r \t \uXXXX`. No input can close the string early, break the line or forge a member. -/
theorem json_string_wellformed (s : Bytes) :
    ∃ body, jsonQuote s = 34 :: body ++ [34] ∧ jsonBodyOK body = true := jsonQuote_wellformed s

theorem json_string_has_no_control_byte (s : Bytes) : NoC0 (jsonQuote s) := jsonQuote_noC0 s

/-- (1') Value preservation for strings: what `encoding/json` reads from the written literal is the
    logged value byte for byte, whenever that value is valid UTF-8 — for all such strings (quotes,
    backslashes, CR/LF, every control character, U+2028/U+2029, astral runes included). -/
theorem json_string_decodes_back (s : Bytes) (h : isValidUtf8 s = true) : jsonUnquote (jsonQuote s) = some s :=
  jsonUnquote_jsonQuote s h

/-- keys are written through the same escaper -/
theorem json_keys_are_escaped (isPrint : Nat → Bool) (k : Bytes) :
    ({ fmt := .json, isPrint := isPrint } : EncCfg).key k = jsonQuote k := rfl

/-- (2) A JSON record occupies exactly one line: `{ … }` followed by one line feed, with no control byte
    before it — for every message, logger name, key and value (nothing is assumed about them), groups
    nested to any depth. Only the texts rendered by the standard library (timestamp, floats, times) are
    assumed free of control bytes. -/
theorem json_one_line (p : Presentation) (depth : Nat) (r : Record) (out : Bytes)
    (hts : NoC0 r.ts) (hattrs : ∀ a ∈ r.attrs, attrOK false depth a = true)
    (h : encodeRecord .json isPrintTable p depth r = some out) :
    ∃ body, out = body ++ [10] ∧ NoC0 body := by
  unfold encodeRecord at h
  split at h
  · cases h; exact ⟨[], rfl, fun c hc => by simp at hc⟩
  · simp only [] at h
    cases h
    refine ⟨_, rfl, ?_⟩
    exact plainBody_noC0 { fmt := .json, isPrint := isPrintTable } ⟨by decide, isPrintTable_safe⟩ _ depth r hts
      (by intro a ha; have := hattrs a ha; simpa [EncCfg.json] using this)

/-- (3) The record is an object: it starts with `{` and ends with `}` before the line feed. -/
theorem json_record_is_braced (isPrint : Nat → Bool) (name : Bytes) (depth : Nat) (r : Record) :
    ∃ mid, plainBody { fmt := .json, isPrint := isPrint } name depth r = 123 :: mid ++ [125] := by
  refine ⟨(plainHead { fmt := .json, isPrint := isPrint } name r).drop 1 ++
      encTopAttrs { fmt := .json, isPrint := isPrint } depth r.attrs ++ plainCaller { fmt := .json, isPrint := isPrint } r, ?_⟩
  simp [plainBody, plainHead, EncCfg.json]

/-- (4) Values: nil is `null`; a group is a nested object `{…}`; unsigned, float and complex numbers are
    written as strings holding the exact decimal text, signed integers as numbers. -/
theorem json_values (isPrint : Nat → Bool) (pfx : Bytes) (fuel : Nat) :
    let c : EncCfg := { fmt := .json, isPrint := isPrint }
    encVal c fuel pfx .nil = [110, 117, 108, 108] ∧
    (∀ i, encVal c fuel pfx (.int i) = intDigits i) ∧
    (∀ n, encVal c fuel pfx (.uint n) = [34] ++ natDigits n ++ [34]) ∧
    (∀ t, encVal c fuel pfx (.float t) = [34] ++ t ++ [34]) ∧
    (∀ items, ∃ mid, encVal c (fuel + 1) pfx (.group items) = [123] ++ mid ++ [125]) := by
  refine ⟨?_, ?_, ?_, ?_, ?_⟩
  · cases fuel <;> simp [encVal, EncCfg.json]
  · intro i; cases fuel <;> simp [encVal]
  · intro n; cases fuel <;> simp [encVal, jsonQuoted, EncCfg.json]
  · intro t; cases fuel <;> simp [encVal, jsonQuoted, EncCfg.json]
  · intro items; exact ⟨encAttrs { fmt := .json, isPrint := isPrint } fuel pfx true (prepAttrs items), by simp [encVal, EncCfg.json]⟩

/-- (5) **The record reads back.** For every JSON record (any message, name, severity, attribute list
    with groups nested to any depth, any key bytes, caller on or off) the line is `object ++ LF`, and the
    member reader finds in `object` exactly: `"time"`, `"logger"` (if named), `"level"`, `"msg"`, one
    member per attribute (after de-duplication, in key order) whose key literal is the escaped key and
    whose value text is the encoder's rendering of the value, then `"caller"` — nothing more, nothing
    less. No key or value can close a string or an object early, add a member or a second record.
    Assumed (decidable): the texts the standard library renders and the encoder writes raw between
    quotes (timestamp, floats, complex numbers, times) contain no quote or backslash. -/
theorem json_record_reads_back (isPrint : Nat → Bool) (p : Presentation) (depth : Nat) (r : Record) (out : Bytes)
    (hnb : (r.lvl == Lv.always && isBlank r.msg) = false)
    (hts : inqB r.ts = true) (hattrs : ∀ a ∈ r.attrs, attrOKJ depth a = true)
    (h : encodeRecord .json isPrint p depth r = some out) :
    let c : EncCfg := { fmt := .json, isPrint := isPrint }
    ∃ object, out = object ++ [10] ∧ jsonMembers object = some (jsonFields c (p.reg.name r.lvl) depth r) := by
  intro c
  unfold encodeRecord at h
  rw [hnb] at h
  simp only [Bool.false_eq_true, ↓reduceIte, Option.some.injEq] at h
  exact ⟨_, h.symm, plainBody_members c ⟨rfl⟩ (p.reg.name r.lvl) depth r hts hattrs⟩

/-- (5') A group value is itself an object whose members are exactly the group's attributes (last
    occurrence of a key, ascending key order), each value text again the encoder's rendering — so (5)
    applies at every level of nesting. -/
theorem json_group_reads_back (isPrint : Nat → Bool) (fuel : Nat) (pfx : Bytes) (items : List Attr)
    (hok : okJ (fuel + 1) (.group items) = true) :
    let c : EncCfg := { fmt := .json, isPrint := isPrint }
    jsonMembers (encVal c (fuel + 1) pfx (.group items)) = some (memsOf c fuel (prepAttrs items)) :=
  group_members _ ⟨rfl⟩ fuel pfx items hok

/-- the message member is there, and its text decodes to the message (valid UTF-8) -/
theorem json_msg_member (isPrint : Nat → Bool) (levelName : Bytes) (depth : Nat) (r : Record) (hu : isValidUtf8 r.msg = true) :
    let c : EncCfg := { fmt := .json, isPrint := isPrint }
    (jsonQuote kMsg, jsonQuote r.msg) ∈ jsonFields c levelName depth r ∧ jsonUnquote (jsonQuote r.msg) = some r.msg := by
  intro c
  have hq : c.quote r.msg = jsonQuote r.msg := (⟨rfl⟩ : JsonCfg c).quote _
  refine ⟨?_, jsonUnquote_jsonQuote _ hu⟩
  simp only [jsonFields, headMems, List.mem_append, List.mem_cons, hq]
  left; left; right; right; right; left; trivial

set_option maxRecDepth 8000 in
/-- The escaping of the model is the escaping of the code (regenerated): the table of ASCII bytes that
    are copied as they are is `safeSet`, byte for byte; the bytes with a short escape are the cases of
    the byte switch; the only code points the function compares against are U+FFFD (an undecodable
    byte), U+2028 and U+2029 - every other code point is copied; and the literal pieces it writes are
    `u00`, `\ufffd` and `\u202`. -/
theorem json_escape_follows_the_code :
    (∀ n, n < 128 → jsonSafe (UInt8.ofNat n) = Gen.jsonSafeSet.getD n false) ∧ Gen.jsonSafeSet.length = 128 ∧
    Gen.jsonEscRunes = [runeError, 0x2028, 0x2029] ∧
    Gen.jsonEscCases = ["92", "34", "10", "13", "9", "default"] ∧
    Gen.jsonEscLits = ["u00", "\\ufffd", "\\u202"] := by
  refine ⟨by decide +kernel, by decide, by decide, by decide, by decide⟩

-- non-vacuity: the reader on a line with a forged member inside a string, a nested object and an array
example : jsonMembers [123, 34, 97, 34, 58, 34, 120, 92, 34, 44, 34, 98, 34, 58, 49, 34, 44, 34, 103, 34, 58, 123, 34, 107, 34, 58, 91, 49, 44, 50, 93, 125, 125] =
    some [([34, 97, 34], [34, 120, 92, 34, 44, 34, 98, 34, 58, 49, 34]), ([34, 103, 34], [123, 34, 107, 34, 58, 91, 49, 44, 50, 93, 125])] := by
  decide

-- non-vacuity: BEL, VT, an invalid byte and U+2028 inside a string
example : jsonQuote [7, 11, 255, 0xE2, 0x80, 0xA8] =
    [34, 92, 117, 48, 48, 48, 55, 92, 117, 48, 48, 48, 98, 92, 117, 102, 102, 102, 100, 92, 117, 50, 48, 50, 56, 34] := by decide

end Logg.Props.C04
