/-
  C04 — JSON mode: each record is one line of valid JSON decoding to what was logged.

  Proved here, for the encoder model tied byte for byte to the code: the JSON escaper is safe for ALL byte
  strings (well-formed string body, no control byte), every valid UTF-8 string decodes back to itself,
  and a whole record is one line. That the nested structure is a valid JSON object decoding to the
  logged values is decided per generated record by the encoding/json oracle — see DESIGN.md.
-/
import Logg.Lemmas.EncoderClean
import Logg.Lemmas.JsonRoundTrip

namespace Logg.Props.C04
open Logg Logg.Lemmas

/-- (1) Whatever bytes a message, a key, the logger name or a string-like value contains (quotes,
    backslashes, CR/LF, control characters, invalid UTF-8), what is written is `"` body `"` where body
    is a well-formed JSON string body: no unescaped quote, no raw control byte, only the escapes
    `\" \\ \n \r \t \uXXXX`. No input can close the string early, break the line or forge a member. -/
theorem json_string_wellformed (s : Bytes) :
    ∃ body, jsonQuote s = 34 :: body ++ [34] ∧ jsonBodyOK body = true := jsonQuote_wellformed s

theorem json_string_has_no_control_byte (s : Bytes) : NoC0 (jsonQuote s) := jsonQuote_noC0 s

/-- (1') Value preservation for strings: what `encoding/json` reads from the written literal is the
    logged value byte for byte, whenever that value is valid UTF-8 — for all such strings (quotes,
    backslashes, CR/LF, every control character, U+2028/U+2029, astral runes included). -/
theorem json_string_decodes_back (s : Bytes) (h : isValidUtf8 s = true) : jsonUnquote (jsonQuote s) = some s :=
  jsonUnquote_jsonQuote s h

/-- keys are written through the same escaper -/
theorem json_keys_are_escaped (isPrint : Nat → Bool) (k : Bytes) :
    ({ fmt := .json, isPrint := isPrint } : EncCfg).key k = jsonQuote k := rfl

/-- (2) A JSON record occupies exactly one line: `{ … }` followed by one line feed, with no control byte
    before it — for every message, logger name, key and value (nothing is assumed about them), groups
    nested to any depth. Only the texts rendered by the standard library (timestamp, floats, times) are
    assumed free of control bytes. -/
theorem json_one_line (p : Presentation) (depth : Nat) (r : Record) (out : Bytes)
    (hts : NoC0 r.ts) (hattrs : ∀ a ∈ r.attrs, attrOK false depth a = true)
    (h : encodeRecord .json isPrintTable p depth r = some out) :
    ∃ body, out = body ++ [10] ∧ NoC0 body := by
  unfold encodeRecord at h
  split at h
  · cases h; exact ⟨[], rfl, fun c hc => by simp at hc⟩
  · simp only [] at h
    cases h
    refine ⟨_, rfl, ?_⟩
    exact plainBody_noC0 { fmt := .json, isPrint := isPrintTable } ⟨by decide, isPrintTable_safe⟩ _ depth r hts
      (by intro a ha; have := hattrs a ha; simpa [EncCfg.json] using this)

/-- (3) The record is an object: it starts with `{` and ends with `}` before the line feed. -/
theorem json_record_is_braced (isPrint : Nat → Bool) (name : Bytes) (depth : Nat) (r : Record) :
    ∃ mid, plainBody { fmt := .json, isPrint := isPrint } name depth r = 123 :: mid ++ [125] := by
  refine ⟨(plainHead { fmt := .json, isPrint := isPrint } name r).drop 1 ++
      encTopAttrs { fmt := .json, isPrint := isPrint } depth r.attrs ++ plainCaller { fmt := .json, isPrint := isPrint } r, ?_⟩
  simp [plainBody, plainHead, EncCfg.json]

/-- (4) Values: nil is `null`; a group is a nested object `{…}`; unsigned, float and complex numbers are
    written as strings holding the exact decimal text, signed integers as numbers. -/
theorem json_values (isPrint : Nat → Bool) (pfx : Bytes) (fuel : Nat) :
    let c : EncCfg := { fmt := .json, isPrint := isPrint }
    encVal c fuel pfx .nil = [110, 117, 108, 108] ∧
    (∀ i, encVal c fuel pfx (.int i) = intDigits i) ∧
    (∀ n, encVal c fuel pfx (.uint n) = [34] ++ natDigits n ++ [34]) ∧
    (∀ t, encVal c fuel pfx (.float t) = [34] ++ t ++ [34]) ∧
    (∀ items, ∃ mid, encVal c (fuel + 1) pfx (.group items) = [123] ++ mid ++ [125]) := by
  refine ⟨?_, ?_, ?_, ?_, ?_⟩
  · cases fuel <;> simp [encVal, EncCfg.json]
  · intro i; cases fuel <;> simp [encVal]
  · intro n; cases fuel <;> simp [encVal, jsonQuoted, EncCfg.json]
  · intro t; cases fuel <;> simp [encVal, jsonQuoted, EncCfg.json]
  · intro items; exact ⟨encAttrs { fmt := .json, isPrint := isPrint } fuel pfx true (prepAttrs items), by simp [encVal, EncCfg.json]⟩

-- non-vacuity: BEL, VT, an invalid byte and U+2028 inside a string
example : jsonQuote [7, 11, 255, 0xE2, 0x80, 0xA8] =
    [34, 92, 117, 48, 48, 48, 55, 92, 117, 48, 48, 48, 98, 92, 117, 102, 102, 102, 100, 92, 117, 50, 48, 50, 56, 34] := by decide

end Logg.Props.C04
