/-
  C19 — PrintCtx's buffer API behaves exactly like bytes.Buffer.
  (theorems: representation invariant and documented panics; the equivalence itself is the
  composition of the two correspondences against this model)
-/
import Logg.Model.Buffer

namespace Logg.Props.C19
open Logg

/-- representation invariant: the read offset never passes the end of the data -/
def Inv (s : Buf) : Prop := s.off ≤ s.data.length

theorem reset_inv (s : Buf) : Inv s.reset := by simp [Inv, Buf.reset]


theorem normalize_inv (s : Buf) (h : Inv s) : Inv s.normalize ∧ s.normalize.unread = s.unread := by
  unfold Buf.normalize
  split
  · rename_i hm
    have hlen : s.len = 0 := by simp only [Bool.and_eq_true, beq_iff_eq] at hm; exact hm.1
    refine ⟨reset_inv s, ?_⟩
    unfold Buf.len at hlen
    simp only [Buf.unread, Buf.reset, List.drop_nil]
    symm; apply List.drop_eq_nil_of_le; unfold Inv at h; omega
  · exact ⟨h, rfl⟩

theorem growCore_inv (s : Buf) (n : Nat) (caps : List Nat) (s' : Buf) (caps' : List Nat)
    (hg : s.growCore n caps = .ok (s', caps')) (h : Inv s) : Inv s' ∧ s'.unread = s.unread := by
  unfold Buf.growCore at hg
  split at hg
  · cases hg; exact ⟨h, rfl⟩
  · split at hg
    · cases hg; exact ⟨h, rfl⟩
    · simp only [] at hg
      split at hg
      · cases hg; exact ⟨by simp [Inv], by simp [Buf.unread]⟩
      · split at hg
        · cases hg
        · split at hg <;> cases hg <;> exact ⟨by simp [Inv], by simp [Buf.unread]⟩

theorem growRoom_inv (s : Buf) (n : Nat) (caps : List Nat) (s' : Buf) (caps' : List Nat)
    (h : Inv s) (hg : s.growRoom n caps = .ok (s', caps')) : Inv s' ∧ s'.unread = s.unread := by
  unfold Buf.growRoom at hg
  have hn := normalize_inv s h
  have := growCore_inv _ n caps s' caps' hg hn.1
  exact ⟨this.1, this.2.trans hn.2⟩
theorem append_inv (t : Buf) (p : Bytes) (caps : List Nat) (t' : Buf) (c' : List Nat)
    (ht : Inv t) (ha : t.append p caps = .ok (t', c')) : Inv t' := by
  unfold Buf.append at ha
  split at ha
  · simp only [pure, Except.pure, bind, Except.bind] at ha
    cases ha; simp [Inv] at ht ⊢; omega
  · cases hg : t.growRoom p.length caps with
    | error e => simp [hg, bind, Except.bind] at ha
    | ok r =>
      obtain ⟨t1, c1⟩ := r
      simp only [hg, bind, Except.bind, pure, Except.pure] at ha
      cases ha
      have := (growRoom_inv t p.length caps t1 _ ht hg).1
      simp [Inv] at this ⊢; omega

theorem inv_lastRead (s : Buf) (k : Int) (h : Inv s) : Inv { s with lastRead := k } := h

theorem decodeRune_width (p : Bytes) : (decodeRune p).2 ≤ p.length := by
  unfold decodeRune
  repeat' split
  all_goals simp only [List.length_cons, List.length_nil, apply_ite Prod.snd]
  all_goals (repeat' split)
  all_goals omega

theorem readFrom_inv (st : List (Bytes × ReadErr)) : ∀ (t : Buf) (c : List Nat) (n : Int),
    Inv t → Inv (readFromLoop st t c n).1 := by
  induction st with
  | nil => intro t c n ht; simpa [readFromLoop] using ht
  | cons x xs ih =>
    intro t c n ht
    obtain ⟨chunk, e⟩ := x
    simp only [readFromLoop]
    cases hg : t.growRoom minRead c with
    | error p => simpa using ht
    | ok pr =>
      obtain ⟨t1, c1⟩ := pr
      have h1 := (growRoom_inv t minRead c t1 c1 ht hg).1
      simp only []
      split
      · exact h1
      · have h2 : Inv { t1 with data := t1.data ++ chunk } := by simp [Inv] at h1 ⊢; omega
        cases e
        · exact ih _ _ _ h2
        · exact h2
        · exact h2
        · exact ih _ _ _ h2
theorem step_inv (s : Buf) (op : BufOp) (caps : List Nat) (h : Inv s) : Inv (bufStep s op caps).1 := by
  cases op with
  | write p =>
    simp only [bufStep]
    cases ha : Buf.append { s with lastRead := 0 } p caps with
    | ok r => obtain ⟨s', c'⟩ := r; exact append_inv _ p caps s' c' (inv_lastRead s 0 h) ha
    | error e => exact h
  | writeString p =>
    simp only [bufStep]
    cases ha : Buf.append { s with lastRead := 0 } p caps with
    | ok r => obtain ⟨s', c'⟩ := r; exact append_inv _ p caps s' c' (inv_lastRead s 0 h) ha
    | error e => exact h
  | writeByte c =>
    simp only [bufStep]
    cases ha : Buf.append { s with lastRead := 0 } [c] caps with
    | ok r => obtain ⟨s', c'⟩ := r; exact append_inv _ [c] caps s' c' (inv_lastRead s 0 h) ha
    | error e => exact h
  | writeRune r =>
    simp only [bufStep]
    split
    · cases ha : Buf.append { s with lastRead := 0 } [r.toNat.toUInt8] caps with
      | ok q => obtain ⟨s', c'⟩ := q; exact append_inv _ _ caps s' c' (inv_lastRead s 0 h) ha
      | error e => exact h
    · split
      · rename_i s1 c1 heq
        split at heq
        · cases heq; simp [Inv] at h ⊢; omega
        · have := (growRoom_inv _ 4 caps s1 c1 (inv_lastRead s 0 h) heq).1
          simp [Inv] at this ⊢; omega
      · exact h
  | read n =>
    simp only [bufStep]
    split
    · exact reset_inv _
    · rename_i he
      simp [Inv, Buf.empty, Buf.len] at he h ⊢; omega
  | next n =>
    simp only [bufStep]
    by_cases hgt : n > ((Buf.len { s with lastRead := 0 } : Nat) : Int)
    · simp only [hgt, ↓reduceIte]
      split
      · exact h
      · simp [Inv, Buf.len] at h ⊢; omega
    · simp only [hgt, ↓reduceIte]
      split
      · exact h
      · rename_i hn
        simp [Inv, Buf.len] at h hn hgt ⊢; omega
  | readByte =>
    simp only [bufStep]
    split
    · exact reset_inv _
    · rename_i he; simp [Inv, Buf.empty] at he h ⊢; omega
  | readRune =>
    simp only [bufStep]
    split
    · exact reset_inv _
    · rename_i he
      split
      · simp [Inv, Buf.empty] at he h ⊢; omega
      · have hw := decodeRune_width s.unread
        simp [Inv, Buf.unread, Buf.empty] at hw he h ⊢; omega
  | unreadRune =>
    simp only [bufStep]
    split
    · exact h
    · simp only [Inv] at h ⊢; split <;> omega
  | unreadByte =>
    simp only [bufStep]
    split
    · exact h
    · simp only [Inv] at h ⊢; split <;> omega
  | readBytes d =>
    simp only [bufStep]
    split
    · rename_i i hi
      have : i < s.unread.length := by
        unfold indexByte at hi
        exact (List.findIdx?_eq_some_iff_findIdx_eq.mp hi).1
      simp [Inv, Buf.unread] at this h ⊢; omega
    · simp [Inv]
  | readString d =>
    simp only [bufStep]
    split
    · rename_i i hi
      have : i < s.unread.length := by
        unfold indexByte at hi
        exact (List.findIdx?_eq_some_iff_findIdx_eq.mp hi).1
      simp [Inv, Buf.unread] at this h ⊢; omega
    · simp [Inv]
  | readFrom steps => exact readFrom_inv steps _ caps 0 (inv_lastRead s 0 h)
  | writeTo accept fail =>
    simp only [bufStep]
    split
    · split
      · exact h
      · split
        · exact h
        · rename_i h1 h2
          have : accept.toNat ≤ s.data.length - s.off := by simp [Buf.len] at h1; omega
          split
          · simp [Inv] at h ⊢; omega
          · split
            · simp [Inv] at h ⊢; omega
            · exact reset_inv _
    · exact reset_inv _
  | truncate n =>
    simp only [bufStep]
    split
    · exact reset_inv _
    · split
      · exact h
      · rename_i hn
        simp [Inv, Buf.len] at h hn ⊢; omega
  | grow n =>
    simp only [bufStep]
    split
    · exact h
    · cases hg : s.growRoom n.toNat caps with
      | ok q => obtain ⟨s', c'⟩ := q; exact (growRoom_inv s _ caps s' c' h hg).1
      | error e => exact h
  | reset => exact reset_inv s
  | len => exact h
  | bytes => exact h
  | string => exact h

def bufRun (s : Buf) (ops : List (BufOp × List Nat)) : Buf := ops.foldl (fun s oc => (bufStep s oc.1 oc.2).1) s

/-- (1) The representation invariant holds after every sequence of the listed operations, from any
    well-formed start and whatever capacities the runtime grants: no slice expression of the buffer
    code is ever out of range. -/
theorem run_inv (s : Buf) (ops : List (BufOp × List Nat)) (h : Inv s) : Inv (bufRun s ops) := by
  induction ops generalizing s with
  | nil => exact h
  | cons oc ops ih => exact ih _ (step_inv s oc.1 oc.2 h)

/-- (2) Growing never changes the unread contents (whether it reslices, slides or reallocates, and
    whatever capacity the runtime grants). -/
theorem grow_keeps_contents (s : Buf) (n : Nat) (caps : List Nat) (s' : Buf) (c' : List Nat)
    (h : Inv s) (hg : s.growRoom n caps = .ok (s', c')) : s'.unread = s.unread :=
  (growRoom_inv s n caps s' c' h hg).2

theorem growCore_error (s : Buf) (n : Nat) (caps : List Nat) (e : BufPanic)
    (h : s.growCore n caps = .error e) : e = .tooLarge := by
  unfold Buf.growCore at h
  split at h
  · cases h
  · split at h
    · cases h
    · simp only [] at h
      split at h
      · cases h
      · split at h
        · cases h; rfl
        · split at h <;> cases h

theorem append_error (s : Buf) (p : Bytes) (caps : List Nat) (e : BufPanic)
    (h : s.append p caps = .error e) : e = .tooLarge := by
  unfold Buf.append at h
  split at h
  · simp [pure, Except.pure, bind, Except.bind] at h
  · cases hg : s.growRoom p.length caps with
    | error e' =>
      simp only [hg, bind, Except.bind] at h
      cases h
      exact growCore_error _ _ _ _ hg
    | ok r => simp [hg, bind, Except.bind, pure, Except.pure] at h

theorem readFrom_panic (st : List (Bytes × ReadErr)) : ∀ (t : Buf) (c : List Nat) (n : Int) (p : BufPanic),
    (readFromLoop st t c n).2 = .panic p → p = .tooLarge ∨ p = .negativeRead := by
  induction st with
  | nil => intro t c n p h; simp [readFromLoop] at h
  | cons x xs ih =>
    intro t c n p h
    obtain ⟨chunk, e⟩ := x
    simp only [readFromLoop] at h
    cases hg : t.growRoom minRead c with
    | error q =>
      simp only [hg] at h
      cases h
      exact Or.inl (growCore_error _ _ _ _ hg)
    | ok pr =>
      obtain ⟨t1, c1⟩ := pr
      simp only [hg] at h
      split at h
      · cases h; exact Or.inr rfl
      · cases e <;> simp only [] at h
        · exact ih _ _ _ _ h
        · cases h
        · cases h
        · exact ih _ _ _ _ h

/-- (2') An undocumented (runtime) panic can only come from a negative count given to Next, or from
    a writer that reports a negative count to WriteTo — exactly as with bytes.Buffer. Every other
    panic of the model is one of the documented ones (truncation out of range, negative Grow count,
    too large, negative Read count, invalid Write count). -/
theorem runtime_panic_only_from_bad_arguments (s : Buf) (op : BufOp) (caps : List Nat)
    (hp : (bufStep s op caps).2 = .panic .runtime) :
    (∃ n, op = .next n ∧ n < 0) ∨ (∃ a f, op = .writeTo a f ∧ a < 0) := by
  cases op with
  | write p | writeString p =>
    simp only [bufStep] at hp
    split at hp
    · cases hp
    · rename_i e heq; cases hp; exact absurd (append_error _ _ _ _ heq) (by decide)
  | writeByte c =>
    simp only [bufStep] at hp
    split at hp
    · cases hp
    · rename_i e heq; cases hp; exact absurd (append_error _ _ _ _ heq) (by decide)
  | writeRune r =>
    simp only [bufStep] at hp
    split at hp
    · split at hp
      · cases hp
      · rename_i e heq; cases hp; exact absurd (append_error _ _ _ _ heq) (by decide)
    · split at hp
      · cases hp
      · rename_i e heq
        cases hp
        split at heq
        · cases heq
        · exact absurd (growCore_error _ _ _ _ heq) (by decide)
  | read n => simp only [bufStep] at hp; split at hp <;> (try split at hp) <;> cases hp
  | next n =>
    left
    refine ⟨n, rfl, ?_⟩
    simp only [bufStep] at hp
    by_cases hgt : n > ((Buf.len { s with lastRead := 0 } : Nat) : Int)
    · simp only [hgt, ↓reduceIte] at hp
      split at hp
      · rename_i hneg; omega
      · cases hp
    · simp only [hgt, ↓reduceIte] at hp
      split at hp
      · rename_i hneg; exact hneg
      · cases hp
  | readByte => simp only [bufStep] at hp; split at hp <;> cases hp
  | readRune => simp only [bufStep] at hp; split at hp <;> (try split at hp) <;> cases hp
  | unreadRune => simp only [bufStep] at hp; split at hp <;> cases hp
  | unreadByte => simp only [bufStep] at hp; split at hp <;> cases hp
  | readBytes d | readString d => simp only [bufStep] at hp; split at hp <;> cases hp
  | readFrom steps =>
    simp only [bufStep] at hp
    rcases readFrom_panic steps _ caps 0 _ hp with h | h <;> cases h
  | writeTo accept fail =>
    right
    refine ⟨accept, fail, rfl, ?_⟩
    simp only [bufStep] at hp
    split at hp
    · split at hp
      · cases hp
      · split at hp
        · rename_i h; exact h
        · split at hp
          · cases hp
          · split at hp <;> cases hp
    · cases hp
  | truncate n => simp only [bufStep] at hp; split at hp <;> (try split at hp) <;> cases hp
  | grow n =>
    simp only [bufStep] at hp
    split at hp
    · cases hp
    · split at hp
      · cases hp
      · rename_i e heq; cases hp; exact absurd (growCore_error _ _ _ _ heq) (by decide)
  | reset | len | bytes | string => simp [bufStep] at hp

/-- (3) Reset empties the buffer; Len/Bytes/String do not change it. -/
theorem reset_empties (s : Buf) (caps : List Nat) :
    (bufStep s .reset caps).1.unread = [] ∧ (bufStep s .len caps).1 = s ∧ (bufStep s .string caps).1 = s := by
  simp [bufStep, Buf.reset, Buf.unread]

-- non-vacuity: write, read a byte, grow enough to reallocate, unread — the unread has no effect after the slide
example :
    let s0 : Buf := { data := [], cap := 8 }
    let s1 := (bufStep s0 (.write [1, 2, 3, 4, 5, 6]) []).1
    let s2 := (bufStep s1 .readByte []).1
    let s3 := (bufStep s2 (.grow 100) [128]).1
    let s4 := (bufStep s3 .unreadByte []).1
    s2.unread = [2, 3, 4, 5, 6] ∧ s3.cap = 128 ∧ s3.off = 0 ∧ s4.unread = [2, 3, 4, 5, 6] := by decide

end Logg.Props.C19
