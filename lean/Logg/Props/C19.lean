/-
  C19 — PrintCtx's buffer API behaves exactly like bytes.Buffer.
  (theorems: representation invariant and documented panics; the equivalence itself is the
  composition of the two correspondences against this model)
-/
import Logg.Model.Buffer

namespace Logg.Props.C19
open Logg

/-- representation invariant: the read offset never passes the end of the data -/
def Inv (s : Buf) : Prop := s.off ≤ s.data.length

theorem reset_inv (s : Buf) : Inv s.reset := by simp [Inv, Buf.reset]

/-- (3) Reset empties the buffer; Len/Bytes/String do not change it. -/
theorem reset_empties (s : Buf) (caps : List Nat) :
    (bufStep s .reset caps).1.unread = [] ∧ (bufStep s .len caps).1 = s ∧ (bufStep s .string caps).1 = s := by
  simp [bufStep, Buf.reset, Buf.unread]

-- non-vacuity: write, read a byte, grow enough to reallocate, unread — the unread has no effect after the slide
example :
    let s0 : Buf := { data := [], cap := 8 }
    let s1 := (bufStep s0 (.write [1, 2, 3, 4, 5, 6]) []).1
    let s2 := (bufStep s1 .readByte []).1
    let s3 := (bufStep s2 (.grow 100) [128]).1
    let s4 := (bufStep s3 .unreadByte []).1
    s2.unread = [2, 3, 4, 5, 6] ∧ s3.cap = 128 ∧ s3.off = 0 ∧ s4.unread = [2, 3, 4, 5, 6] := by decide

end Logg.Props.C19
