/-
  C13 — Failing destinations: bounded reaction, no lost records elsewhere, recovery.
  `Gen.warnOnFailure` is regenerated from the error branch of printOut, `Gen.lwsWriteEarlyExit`
  / `Gen.lwsWriteLoops` / `Gen.printOutSeq` from LWs.Write and printOut.
-/
import Logg.Props.C03
import Logg.Gen.Facts

namespace Logg.Props.C13
open Logg

/-- (0) The structural facts the delivery model rests on: `LWs.Write` is one loop over all
    members with no early exit; `printOut` performs tell → one Write → (maybe) Warn. -/
theorem fanout_facts :
    Gen.lwsWriteLoops = 1 ∧ Gen.lwsWriteEarlyExit = false ∧ Gen.writesPerPrintOut = 1 ∧
    Gen.printOutSeq = ["tell", "write", "warn"] ∧ Gen.printOutExitsBeforeWrite = 0 := by decide

/-- The reaction condition, as the code says it now: a failure, and the record is not a warning. -/
theorem warnOnFailure_spec (failed : Bool) (lvl : Int) :
    Gen.warnOnFailure failed lvl = (failed && lvl != Lv.warn) := by
  simp [Gen.warnOnFailure, Lv.warn]

/-- (1) At most one diagnostic per user call, whatever fails: never a cascade. (The call always
    returns: `logCall` is a total function.) -/
theorem at_most_one_diagnostic (c : CallCtx) (start : Nat) (sev : Int) : (logCall c start sev).1.length ≤ 2 := by
  unfold logCall warnRecord
  by_cases ha : Gen.enabled c.g c.level sev = true
  · by_cases hf : Gen.warnOnFailure (emitRecord c start sev).2.1 sev = true
    · by_cases hw : Gen.enabled c.g c.level Lv.warn = true <;> simp [ha, hf, hw]
    · simp [ha, hf]
  · simp [ha]

/-- (2) None if the failing record was itself a warning. -/
theorem no_diagnostic_for_warnings (c : CallCtx) (start : Nat) : (logCall c start Lv.warn).1.length ≤ 1 := by
  unfold logCall
  split
  · simp [warnOnFailure_spec]
  · simp

/-- (3) None if the logger does not admit warnings (the diagnostic is gated like any call). -/
theorem no_diagnostic_if_warn_not_admitted (c : CallCtx) (start : Nat) (sev : Int)
    (h : Gen.enabled c.g c.level Lv.warn = false) : (logCall c start sev).1.length ≤ 1 := by
  unfold logCall warnRecord
  split <;> (try split) <;> simp [h]

/-- (4) None without a failure. -/
theorem no_diagnostic_without_failure (c : CallCtx) (start : Nat) (sev : Int) (h : ∀ n, c.fails n = false) :
    (logCall c start sev).1.length ≤ 1 := by
  unfold logCall emitRecord deliver
  split
  · simp [warnOnFailure_spec, h]
  · simp

/-- (5) Exactly one, routed as a warning, when an attempt of the record fails, the record is not
    a warning and the logger admits warnings. -/
theorem one_diagnostic_routed_as_warning (c : CallCtx) (start : Nat) (sev : Int)
    (ha : Gen.enabled c.g c.level sev = true) (hw : Gen.enabled c.g c.level Lv.warn = true) (hs : sev ≠ Lv.warn)
    (hf : (emitRecord c start sev).2.1 = true) :
    (logCall c start sev).1 =
      [(emitRecord c start sev).1,
       (deliver c.settable c.fails (emitRecord c start sev).2.2 (routeSpec c.g c.cfg Lv.warn) Lv.warn).1] := by
  have hne : (sev != Lv.warn) = true := by simpa using hs
  unfold emitRecord at hf
  rw [C03.route_is_spec] at hf
  simp [logCall, warnRecord, ha, hw, warnOnFailure_spec, hne, emitRecord, C03.route_is_spec, hf]

/-- (6) Every destination selected for the record still gets exactly one attempt with it,
    whichever of the attempts fail. -/
theorem siblings_served (c : CallCtx) (start : Nat) (sev : Int) :
    (((emitRecord c start sev).1.filter C03.isWrite).map C03.eventWriter) = routeSpec c.g c.cfg sev := by
  unfold emitRecord
  rw [C03.route_is_spec]
  exact (C03.only_selected_written _ _ _ _ _).1

/-- (7) A call that is not admitted touches no destination and consumes no attempt. -/
theorem not_admitted_silent (c : CallCtx) (start : Nat) (sev : Int) (h : Gen.enabled c.g c.level sev = false) :
    logCall c start sev = ([], start) := by
  simp [logCall, h]

/-- (8) No sticky state: what a call does depends on earlier failures only through where the
    failure schedule stands — a call at attempt index `start` behaves exactly like the same call
    on a fresh logger with the remaining schedule. The configuration is never changed by a call. -/
theorem no_sticky_state (c : CallCtx) (start : Nat) (sev : Int) :
    (logCall c start sev).1 = (logCall { c with fails := fun i => c.fails (start + i) } 0 sev).1 := by
  unfold logCall warnRecord emitRecord deliver
  simp only [Nat.zero_add, Nat.add_assoc]
  split <;> (try split) <;> (try split) <;> simp_all

-- non-vacuity: one normal writer that fails on the first attempt; the Info record is followed by one warning
example :
    (logCall { g := { errorDevice := [(3, true)] }, level := 4, cfg := some { normal := [5], error := [6], leveled := [] },
               settable := fun _ => false, fails := fun n => n == 0 } 0 4).1
      = [[.write 5 false], [.write 6 true]] := by decide

/-! ### Sequences of calls (the property quantifies over fault sequences across calls) -/

/-- The attempt counter only moves forward. -/
theorem emit_counter (c : CallCtx) (start : Nat) (sev : Int) : start ≤ (emitRecord c start sev).2.2 := by
  simp [emitRecord, deliver]

theorem warn_counter (c : CallCtx) (start : Nat) : start ≤ (warnRecord c start).2 := by
  unfold warnRecord
  split
  · exact emit_counter c start Lv.warn
  · exact Nat.le_refl _

theorem logCall_proj (c : CallCtx) (start : Nat) (sev : Int) :
    logCall c start sev =
      if Gen.enabled c.g c.level sev then
        if Gen.warnOnFailure (emitRecord c start sev).2.1 sev then
          ((emitRecord c start sev).1 :: (warnRecord c (emitRecord c start sev).2.2).1,
           (warnRecord c (emitRecord c start sev).2.2).2)
        else ([(emitRecord c start sev).1], (emitRecord c start sev).2.2)
      else ([], start) := by
  unfold logCall
  rcases he : emitRecord c start sev with ⟨ev, failed, next⟩
  rcases hw : warnRecord c next with ⟨evs, next'⟩
  simp [hw]

theorem counter_monotone (c : CallCtx) (start : Nat) (sev : Int) : start ≤ (logCall c start sev).2 := by
  rw [logCall_proj]
  split
  · split
    · exact Nat.le_trans (emit_counter c start sev) (warn_counter c _)
    · exact emit_counter c start sev
  · exact Nat.le_refl _

/-- (5b) The converse of (5): a second record appears only if an attempt of the call's own record
    failed, the record was not a warning, the call was admitted and the logger admits warnings —
    so over a history there are never more diagnostics than calls with a failed attempt. -/
theorem diagnostic_only_after_failure (c : CallCtx) (start : Nat) (sev : Int)
    (h : (logCall c start sev).1.length = 2) :
    Gen.enabled c.g c.level sev = true ∧ (emitRecord c start sev).2.1 = true ∧ sev ≠ Lv.warn ∧
    Gen.enabled c.g c.level Lv.warn = true := by
  rw [logCall_proj] at h
  by_cases ha : Gen.enabled c.g c.level sev = true
  · by_cases hf : Gen.warnOnFailure (emitRecord c start sev).2.1 sev = true
    · by_cases hw : Gen.enabled c.g c.level Lv.warn = true
      · rw [warnOnFailure_spec] at hf
        simp only [Bool.and_eq_true, bne_iff_ne, ne_eq] at hf
        exact ⟨ha, hf.1, hf.2, hw⟩
      · simp [ha, hf, warnRecord, hw] at h
    · simp [ha, hf] at h
  · simp [ha] at h

/-- (9) Over any sequence of calls and any failure schedule: one entry per call, and every call
    produces at most two records (its own and at most one diagnostic) — the reaction is bounded
    per call for the whole history, so a history of `n` calls never produces more than `2 n`. -/
theorem sequence_bounded (c : CallCtx) (start : Nat) (sevs : List Int) :
    (runCalls c start sevs).1.length = sevs.length ∧ ∀ recs ∈ (runCalls c start sevs).1, recs.length ≤ 2 := by
  induction sevs generalizing start with
  | nil => simp [runCalls]
  | cons sev rest ih =>
    have h := ih (logCall c start sev).2
    refine ⟨by simp [runCalls, h.1], ?_⟩
    intro recs hr
    simp only [runCalls, List.mem_cons] at hr
    rcases hr with rfl | hr
    · exact at_most_one_diagnostic c start sev
    · exact h.2 recs hr

/-- One call after the failures are over behaves like the same call on a logger whose
    destinations never failed. -/
theorem call_after_recovery (c : CallCtx) (start start' : Nat) (sev : Int)
    (h : ∀ n, start ≤ n → c.fails n = false) :
    (logCall c start sev).1 = (logCall { c with fails := fun _ => false } start' sev).1 := by
  rw [no_sticky_state c start sev, no_sticky_state { c with fails := fun _ => false } start' sev]
  have : (fun i => c.fails (start + i)) = fun _ => false := by
    funext i; exact h _ (Nat.le_add_right _ _)
  simp [this]

/-- (10) Recovery, for whole histories: once the schedule holds no further failure (every
    destination works again from attempt `start` on), every later call — whatever happened
    before, however many failures and diagnostics — produces exactly what a logger whose
    destinations never failed produces: every selected destination is written successfully and
    no diagnostic appears. -/
theorem recovery (c : CallCtx) (start start' : Nat) (sevs : List Int)
    (h : ∀ n, start ≤ n → c.fails n = false) :
    (runCalls c start sevs).1 = (runCalls { c with fails := fun _ => false } start' sevs).1 := by
  induction sevs generalizing start start' with
  | nil => simp [runCalls]
  | cons sev rest ih =>
    simp only [runCalls]
    rw [call_after_recovery c start start' sev h]
    congr 1
    exact ih _ _ (fun n hn => h n (Nat.le_trans (counter_monotone c start sev) hn))

/-- (11) A history splits at any point: the calls after the first `k` behave as a run that
    starts where the first `k` left the schedule — no other state is carried across calls. -/
theorem history_splits (c : CallCtx) (start : Nat) (xs ys : List Int) :
    (runCalls c start (xs ++ ys)).1 = (runCalls c start xs).1 ++ (runCalls c (runCalls c start xs).2 ys).1 := by
  induction xs generalizing start with
  | nil => simp [runCalls]
  | cons x xs ih => simp [runCalls, ih]

-- non-vacuity: the only destination fails on the first two attempts, then works: the first Info
-- call yields the record and a (failing) warning, the second call is delivered normally.
example :
    (runCalls { g := { errorDevice := [(3, true)] }, level := 4, cfg := some { normal := [5], error := [5], leveled := [] },
                settable := fun _ => false, fails := fun n => n < 2 } 0 [4, 4]).1
      = [[[.write 5 false], [.write 5 false]], [[.write 5 true]]] := by decide

end Logg.Props.C13
