/-
  C13 — Failing destinations: bounded reaction, no lost records elsewhere, recovery.
  `Gen.warnOnFailure` is regenerated from the error branch of printOut, `Gen.lwsWriteEarlyExit`
  / `Gen.lwsWriteLoops` / `Gen.printOutSeq` from LWs.Write and printOut.
-/
import Logg.Props.C03
import Logg.Gen.Facts

namespace Logg.Props.C13
open Logg

/-- (0) The structural facts the delivery model rests on: `LWs.Write` is one loop over all
    members with no early exit; `printOut` performs tell → one Write → (maybe) Warn. -/
theorem fanout_facts :
    Gen.lwsWriteLoops = 1 ∧ Gen.lwsWriteEarlyExit = false ∧ Gen.writesPerPrintOut = 1 ∧
    Gen.printOutSeq = ["tell", "write", "warn"] ∧ Gen.printOutExitsBeforeWrite = 0 := by decide

/-- The reaction condition, as the code says it now: a failure, and the record is not a warning. -/
theorem warnOnFailure_spec (failed : Bool) (lvl : Int) :
    Gen.warnOnFailure failed lvl = (failed && lvl != Lv.warn) := by
  simp [Gen.warnOnFailure, Lv.warn]

/-- (1) At most one diagnostic per user call, whatever fails: never a cascade. (The call always
    returns: `logCall` is a total function.) -/
theorem at_most_one_diagnostic (c : CallCtx) (start : Nat) (sev : Int) : (logCall c start sev).1.length ≤ 2 := by
  unfold logCall warnRecord
  by_cases ha : Gen.enabled c.g c.level sev = true
  · by_cases hf : Gen.warnOnFailure (emitRecord c start sev).2.1 sev = true
    · by_cases hw : Gen.enabled c.g c.level Lv.warn = true <;> simp [ha, hf, hw]
    · simp [ha, hf]
  · simp [ha]

/-- (2) None if the failing record was itself a warning. -/
theorem no_diagnostic_for_warnings (c : CallCtx) (start : Nat) : (logCall c start Lv.warn).1.length ≤ 1 := by
  unfold logCall
  split
  · simp [warnOnFailure_spec]
  · simp

/-- (3) None if the logger does not admit warnings (the diagnostic is gated like any call). -/
theorem no_diagnostic_if_warn_not_admitted (c : CallCtx) (start : Nat) (sev : Int)
    (h : Gen.enabled c.g c.level Lv.warn = false) : (logCall c start sev).1.length ≤ 1 := by
  unfold logCall warnRecord
  split <;> (try split) <;> simp [h]

/-- (4) None without a failure. -/
theorem no_diagnostic_without_failure (c : CallCtx) (start : Nat) (sev : Int) (h : ∀ n, c.fails n = false) :
    (logCall c start sev).1.length ≤ 1 := by
  unfold logCall emitRecord deliver
  split
  · simp [warnOnFailure_spec, h]
  · simp

/-- (5) Exactly one, routed as a warning, when an attempt of the record fails, the record is not
    a warning and the logger admits warnings. -/
theorem one_diagnostic_routed_as_warning (c : CallCtx) (start : Nat) (sev : Int)
    (ha : Gen.enabled c.g c.level sev = true) (hw : Gen.enabled c.g c.level Lv.warn = true) (hs : sev ≠ Lv.warn)
    (hf : (emitRecord c start sev).2.1 = true) :
    (logCall c start sev).1 =
      [(emitRecord c start sev).1,
       (deliver c.settable c.fails (emitRecord c start sev).2.2 (routeSpec c.g c.cfg Lv.warn) Lv.warn).1] := by
  have hne : (sev != Lv.warn) = true := by simpa using hs
  unfold emitRecord at hf
  rw [C03.route_is_spec] at hf
  simp [logCall, warnRecord, ha, hw, warnOnFailure_spec, hne, emitRecord, C03.route_is_spec, hf]

/-- (6) Every destination selected for the record still gets exactly one attempt with it,
    whichever of the attempts fail. -/
theorem siblings_served (c : CallCtx) (start : Nat) (sev : Int) :
    (((emitRecord c start sev).1.filter C03.isWrite).map C03.eventWriter) = routeSpec c.g c.cfg sev := by
  unfold emitRecord
  rw [C03.route_is_spec]
  exact (C03.only_selected_written _ _ _ _ _).1

/-- (7) A call that is not admitted touches no destination and consumes no attempt. -/
theorem not_admitted_silent (c : CallCtx) (start : Nat) (sev : Int) (h : Gen.enabled c.g c.level sev = false) :
    logCall c start sev = ([], start) := by
  simp [logCall, h]

/-- (8) No sticky state: what a call does depends on earlier failures only through where the
    failure schedule stands — a call at attempt index `start` behaves exactly like the same call
    on a fresh logger with the remaining schedule. The configuration is never changed by a call. -/
theorem no_sticky_state (c : CallCtx) (start : Nat) (sev : Int) :
    (logCall c start sev).1 = (logCall { c with fails := fun i => c.fails (start + i) } 0 sev).1 := by
  unfold logCall warnRecord emitRecord deliver
  simp only [Nat.zero_add, Nat.add_assoc]
  split <;> (try split) <;> (try split) <;> simp_all

-- non-vacuity: one normal writer that fails on the first attempt; the Info record is followed by one warning
example :
    (logCall { g := { errorDevice := [(3, true)] }, level := 4, cfg := some { normal := [5], error := [6], leveled := [] },
               settable := fun _ => false, fails := fun n => n == 0 } 0 4).1
      = [[.write 5 false], [.write 6 true]] := by decide

end Logg.Props.C13
