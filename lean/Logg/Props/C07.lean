/-
  C07 — Attribute assembly: sources, precedence, uniqueness and order.
  The guards of collectArgs / walkParentAttrs are regenerated (`Gen.collect*`, `Gen.walk*`);
  `Gen.sortFunc` names the sort the code calls.
-/
import Logg.Lemmas.KeyOrder
import Logg.Gen.Facts

namespace Logg.Props.C07
open Logg Logg.Lemmas

/-! ### sources and their order -/

theorem flag_constant : Gen.LattrsR = Fl.attrsR := by decide

def inheritOn (g : Globals) : Bool := Nat.land g.flags Fl.attrsR != 0

/-- With the inherit flag on, the walk yields the whole chain, outermost first — for chains of
    any depth and any (also empty) attribute lists. -/
theorem walk_inherit (g : Globals) (h : inheritOn g = true) (chain : Chain) :
    walkParents g chain = chain.reverse.flatten := by
  have hr : Gen.walkRecurses g = true := by simpa [Gen.walkRecurses, inheritOn, Fl.attrsR] using h
  have hs : ∀ n, Gen.walkSkips g n = false := by
    intro n; simp only [Gen.walkSkips]; simp [inheritOn, Fl.attrsR] at h; simp [h]
  induction chain with
  | nil => rfl
  | cons own rest ih => simp [walkParents, hr, hs, ih]

/-- With the flag off, only the logger's own attributes. -/
theorem walk_no_inherit (g : Globals) (h : inheritOn g = false) (own : List KV) (rest : Chain) :
    walkParents g (own :: rest) = own := by
  have hr : Gen.walkRecurses g = false := by simpa [Gen.walkRecurses, inheritOn, Fl.attrsR] using h
  simp only [walkParents, hr]
  by_cases hs : Gen.walkSkips g own.length = true
  · have : own = [] := by
      simp only [Gen.walkSkips, Bool.and_eq_true, beq_iff_eq, List.length_eq_zero_iff] at hs
      exact hs.1
    simp [hs, this]
  · simp [hs]

/-- (1) Sources and order: context values, then ancestors outermost first when and only when the
    inherit flag is on, then the logger's own attributes, then the call's arguments. -/
theorem collect_is_spec (g : Globals) (nCtxKeys : Nat) (fromCtx : List KV) (chain : Chain) (args : List KV)
    (hctx : nCtxKeys = 0 → fromCtx = []) (hne : chain ≠ []) :
    collect g nCtxKeys fromCtx chain args = assembleSpec (inheritOn g) fromCtx chain args := by
  obtain ⟨own, rest, rfl⟩ := List.exists_cons_of_ne_nil hne
  unfold collect assembleSpec
  have h1 : (if Gen.collectFromCtx nCtxKeys = true then fromCtx else []) = fromCtx := by
    by_cases hn : nCtxKeys = 0
    · simp [hctx hn]
    · simp [Gen.collectFromCtx, Nat.pos_of_ne_zero hn]
  have h3 : (if Gen.collectArgsGuard args.length = true then args else []) = args := by
    cases args <;> simp [Gen.collectArgsGuard]
  rw [h1, h3]
  congr 2
  simp only [List.headD_cons]
  cases hi : inheritOn g
  · simp only [Bool.false_eq_true, ↓reduceIte]
    by_cases hw : Gen.collectWalks g own.length = true
    · simp [hw, walk_no_inherit g hi]
    · have : own = [] := by
        simp only [Gen.collectWalks, Bool.or_eq_true, decide_eq_true_eq, not_or, Nat.not_lt, Nat.le_zero_eq,
          List.length_eq_zero_iff] at hw
        exact hw.1
      subst this
      simp only [List.length_nil] at hw
      simp [hw]
  · have hw : Gen.collectWalks g own.length = true := by
      have hi' : (Nat.land g.flags 32 != 0) = true := hi
      unfold Gen.collectWalks
      rw [hi']; simp
    simp [hw, walk_inherit g hi]

/-! ### uniqueness, order, precedence -/

def keyLt (a c : KV) : Prop := bytesLe a.key c.key = true ∧ a.key ≠ c.key

theorem dedupeLast_subset (s : List KV) : ∀ x ∈ dedupeLast s, x ∈ s := by
  induction s with
  | nil => simp [dedupeLast]
  | cons a t ih =>
    cases t with
    | nil => simp [dedupeLast]
    | cons c rest =>
      intro x hx
      simp only [dedupeLast] at hx
      split at hx
      · exact List.mem_cons_of_mem _ (ih x hx)
      · rcases List.mem_cons.mp hx with h | h
        · simp [h]
        · exact List.mem_cons_of_mem _ (ih x h)

/-- In a list sorted by key, if the head's key differs from the next one it differs from all. -/
theorem head_key_unique (a c : KV) (rest : List KV)
    (hs : List.Pairwise (fun x y => kvLe x y = true) (a :: c :: rest)) (hne : a.key ≠ c.key) :
    ∀ y ∈ c :: rest, a.key ≠ y.key := by
  intro y hy heq
  rw [List.pairwise_cons] at hs
  obtain ⟨ha, hrest⟩ := hs
  have hac := ha c (by simp)
  rcases List.mem_cons.mp hy with h | h
  · subst h; exact hne heq
  · rw [List.pairwise_cons] at hrest
    have hcy := hrest.1 y h
    have hya : bytesLe y.key a.key = true := by rw [← heq]; exact bytesLe_refl _
    have hca : bytesLe c.key a.key = true := bytesLe_trans _ _ _ hcy hya
    exact hne (bytesLe_antisymm _ _ hac hca)

theorem dedupeLast_strict (s : List KV) (hs : List.Pairwise (fun x y => kvLe x y = true) s) :
    List.Pairwise keyLt (dedupeLast s) := by
  induction s with
  | nil => simp [dedupeLast]
  | cons a t ih =>
    cases t with
    | nil => simp [dedupeLast]
    | cons c rest =>
      have htail := (List.pairwise_cons.mp hs).2
      simp only [dedupeLast]
      split
      · exact ih htail
      · rename_i hne
        have hne' : a.key ≠ c.key := by simpa using hne
        rw [List.pairwise_cons]
        refine ⟨?_, ih htail⟩
        intro y hy
        have hy' := dedupeLast_subset _ y hy
        exact ⟨(List.pairwise_cons.mp hs).1 y hy', head_key_unique a c rest hs hne' y hy'⟩

/-- (2) Each distinct key is printed exactly once and attributes come in ascending key order:
    the emitted list is strictly ascending by key — for lists of any length. -/
theorem keys_strictly_ascending (xs : List KV) : List.Pairwise keyLt (emitAttrs xs) :=
  dedupeLast_strict _ (List.pairwise_mergeSort kvLe_trans kvLe_total xs)

/-- A strictly ascending list has no run to collapse. -/
theorem dedupeLast_of_strict (s : List KV) (h : List.Pairwise keyLt s) : dedupeLast s = s := by
  induction s with
  | nil => rfl
  | cons a t ih =>
    cases t with
    | nil => rfl
    | cons c rest =>
      have hac : keyLt a c := (List.pairwise_cons.mp h).1 c (by simp)
      have hne : (a.key == c.key) = false := by simpa using hac.2
      have iht := ih (List.pairwise_cons.mp h).2
      simp [dedupeLast, hne, iht]

/-- (2b) Preparing an already prepared list changes nothing: sorting and de-duplicating is
    idempotent, for lists of any length (so what a record carries after the first preparation is
    in its final form — no order or value can change on a second pass). -/
theorem emit_idempotent (xs : List KV) : emitAttrs (emitAttrs xs) = emitAttrs xs := by
  have hs := keys_strictly_ascending xs
  have hle : List.Pairwise (fun x y => kvLe x y = true) (emitAttrs xs) :=
    hs.imp (fun h => h.1)
  unfold emitAttrs at hs hle ⊢
  rw [List.mergeSort_of_pairwise hle]
  exact dedupeLast_of_strict _ hs

/-- The value printed under key `k` by a de-duplicated sorted list is that of the last element
    with key `k`. -/
theorem dedupeLast_last (s : List KV) (hs : List.Pairwise (fun x y => kvLe x y = true) s) (k : Bytes) :
    (dedupeLast s).find? (fun x => x.key == k) = (s.filter (fun x => x.key == k)).getLast? := by
  induction s with
  | nil => simp [dedupeLast]
  | cons a t ih =>
    cases t with
    | nil =>
      by_cases h : a.key = k <;> simp [dedupeLast, h]
    | cons c rest =>
      have htail := (List.pairwise_cons.mp hs).2
      simp only [dedupeLast]
      split
      · rename_i heq
        have heq' : a.key = c.key := by simpa using heq
        rw [ih htail]
        by_cases hk : a.key = k
        · have hck : (c.key == k) = true := by simpa [← heq'] using hk
          have hak : (a.key == k) = true := by simpa using hk
          simp only [List.filter_cons, hak, hck, ↓reduceIte]
          rw [List.getLast?_cons_cons]
        · have hak : (a.key == k) = false := by simpa using hk
          simp [List.filter_cons, hak]
      · rename_i hne
        have hne' : a.key ≠ c.key := by simpa using hne
        by_cases hk : a.key = k
        · have hak : (a.key == k) = true := by simpa using hk
          have hnone : (c :: rest).filter (fun x => x.key == k) = [] := by
            rw [List.filter_eq_nil_iff]
            intro y hy
            have := head_key_unique a c rest hs hne' y hy
            simpa [← hk] using fun e => this e.symm
          simp only [List.find?_cons, hak]
          rw [List.filter_cons]
          simp [hak, hnone]
        · have hak : (a.key == k) = false := by simpa using hk
          simp only [List.find?_cons, hak]
          rw [ih htail]
          have : List.filter (fun x => x.key == k) (a :: c :: rest) = List.filter (fun x => x.key == k) (c :: rest) :=
            List.filter_cons_of_neg (by simp [hak])
          rw [this]

/-- A stable sort leaves the elements of one key in their original relative order. -/
theorem mergeSort_filter_key (xs : List KV) (k : Bytes) :
    (xs.mergeSort kvLe).filter (fun x => x.key == k) = xs.filter (fun x => x.key == k) := by
  have hsorted : List.Pairwise (fun a c => kvLe a c = true) (xs.filter (fun x => x.key == k)) := by
    rw [List.pairwise_iff_forall_sublist]
    intro a c hac
    have ha : a ∈ xs.filter (fun x => x.key == k) := hac.subset (by simp)
    have hc : c ∈ xs.filter (fun x => x.key == k) := hac.subset (by simp)
    simp only [List.mem_filter, beq_iff_eq] at ha hc
    simp [kvLe, ha.2, hc.2, bytesLe_refl]
  have hsub : (xs.filter (fun x => x.key == k)).Sublist (xs.mergeSort kvLe) :=
    List.sublist_mergeSort kvLe_trans kvLe_total hsorted List.filter_sublist
  have hsub2 := List.Sublist.filter (fun x => x.key == k) hsub
  rw [List.filter_filter] at hsub2
  simp only [Bool.and_self] at hsub2
  have hlen := (List.Perm.filter (fun x => x.key == k) (List.mergeSort_perm xs kvLe)).length_eq
  exact (hsub2.eq_of_length hlen.symm).symm

/-- (3) Precedence: of several occurrences of a key the last one in assembly order wins — call
    site over logger over ancestor over context — for any number of attributes. -/
theorem last_occurrence_wins (xs : List KV) (k : Bytes) :
    (emitAttrs xs).find? (fun x => x.key == k) = (xs.filter (fun x => x.key == k)).getLast? := by
  unfold emitAttrs
  rw [dedupeLast_last _ (List.pairwise_mergeSort kvLe_trans kvLe_total xs) k, mergeSort_filter_key]

/-- The code sorts with the stable sort (the model's `mergeSort` is stable; an unstable sort would
    not be described by it). -/
theorem sort_is_stable : Gen.sortFunc = "SortStableFunc" ∧ Gen.sortsItsParameter = true := by decide

-- non-vacuity: thirteen attributes with one repeated key; the value of the last occurrence is printed
example : (emitAttrs ((List.range 13).map fun i => { key := [107], vid := i })).find? (fun x => x.key == [107])
    = some { key := [107], vid := 12 } := by
  rw [last_occurrence_wins]; decide
example : dedupeLast [⟨[97], 2⟩, ⟨[97], 4⟩, ⟨[98], 1⟩, ⟨[98], 3⟩] = [⟨[97], 4⟩, ⟨[98], 3⟩] := by decide
example : collect { flags := 32 } 0 [] [[⟨[99], 1⟩], [], [⟨[97], 2⟩]] [⟨[100], 3⟩] = [⟨[97], 2⟩, ⟨[99], 1⟩, ⟨[100], 3⟩] := by decide

end Logg.Props.C07
