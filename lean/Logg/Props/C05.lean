/-
  C05 — logfmt mode: one line of key=value pairs that parses back to what was logged.
-/
import Logg.Model.Encoder
import Logg.Model.Unquote

namespace Logg.Props.C05
open Logg

-- placeholder example (theorems follow)
example : goQuote (fun _ => true) [97] = [34, 97, 34] := by decide

end Logg.Props.C05
