/-
  C05 — logfmt mode: one line of key=value pairs that parses back to what was logged.

  The encoder model (Logg.Model.Encoder / Quote) is tied to the code byte for byte by the
  correspondence; `isPrint` is strconv.IsPrint through the regenerated table.
  Proved here: cleanliness of the quoting for ALL byte strings, the round trip unquote ∘ quote = id
  for ALL byte strings, and the one-line theorem for whole records (groups at any depth and
  position), and the parse-back of a whole line: a logfmt reader (split at the spaces outside quotes,
  then at the first '=') finds exactly one `key=value` pair per field, in the order written, groups
  flattened under dotted keys at any depth, whatever bytes the string values contain
  (`logfmt_line_parses_back`); each string value then reads back exactly (`quoted_value_parses_back`).
  The reader model is compared with the oracle's tokenizer on every generated line (`Q tok` probes).
-/
import Logg.Lemmas.EncoderClean
import Logg.Lemmas.QuoteRoundTrip
import Logg.Lemmas.EncoderLogfmt

namespace Logg.Props.C05
open Logg Logg.Lemmas

/-- (1) Every string-like value (message, logger name, strings, errors, Stringers, durations, []byte,
    the %v fallback) is written through Go-syntax quoting, and whatever bytes go in — CR, LF, quotes,
    backslashes, control bytes, invalid UTF-8 — no control byte and no DEL comes out: nothing can split
    the line or reach the terminal raw. -/
theorem quoted_value_has_no_control_byte (s : Bytes) : Clean (goQuote isPrintTable s) :=
  goQuote_clean isPrintTable isPrintTable_safe s

/-- the quoted form starts and ends with a quote -/
theorem quoted_value_is_delimited (isPrint : Nat → Bool) (s : Bytes) :
    ∃ body, goQuote isPrint s = 34 :: body ++ [34] := ⟨_, rfl⟩

/-- (1') Exact value: reading the quoted form back with `strconv.Unquote` gives the original
    bytes — for EVERY byte string: CR/LF, quotes, backslashes, control bytes, invalid UTF-8,
    unprintable and astral runes (\x, \u, \U escapes) included. This is the value half of "parsing the
    line gives back … every attribute … with its exact value" for all string-like kinds. -/
theorem quoted_value_parses_back (s : Bytes) : goUnquote (goQuote isPrintTable s) = some s :=
  goUnquote_goQuote isPrintTable isPrintTable_safe s

/-- the same for any printability table that never calls a control byte printable (the property does
    not depend on the Unicode tables of the Go release) -/
theorem quoted_value_parses_back_any_table (isPrint : Nat → Bool) (hp : PrintSafe isPrint) (s : Bytes) :
    goUnquote (goQuote isPrint s) = some s := goUnquote_goQuote isPrint hp s

/-- (2) A logfmt record is exactly one line: the payload is `body ++ [LF]` and `body` contains no control
    byte at all — for every message, logger name, severity, attribute list with groups nested to any depth
    at any position, caller on or off. Assumed: the texts rendered by the standard library (timestamp,
    floats, times) and the keys (legal logfmt keys) contain no control byte. -/
theorem logfmt_one_line (p : Presentation) (depth : Nat) (r : Record) (out : Bytes)
    (hts : NoC0 r.ts) (hattrs : ∀ a ∈ r.attrs, attrOK true depth a = true)
    (h : encodeRecord .logfmt isPrintTable p depth r = some out) :
    ∃ body, out = body ++ [10] ∧ NoC0 body := by
  unfold encodeRecord at h
  split at h
  · cases h; exact ⟨[], rfl, fun c hc => by simp at hc⟩
  · simp only [] at h
    cases h
    refine ⟨_, rfl, ?_⟩
    exact plainBody_noC0 { fmt := .logfmt, isPrint := isPrintTable } ⟨by decide, isPrintTable_safe⟩ _ depth r hts
      (by intro a ha; have := hattrs a ha; simpa [EncCfg.json] using this)

/-- (3) A blank Print (Always severity, whitespace-only message) is exactly one line feed. -/
theorem blank_print_is_newline (f : Fmt) (isPrint : Nat → Bool) (p : Presentation) (depth : Nat) (r : Record)
    (hl : r.lvl = Lv.always) (hb : isBlank r.msg = true) : encodeRecord f isPrint p depth r = some [10] := by
  simp [encodeRecord, hl, hb]

/-- (4) **The line parses back.** For every logfmt record (any message, name, severity, attribute list
    with groups nested to any depth at any position, caller on or off) the reader splits the line into
    exactly the fields that were logged: `time`, `logger` (if named), `level`, `msg`, one pair per scalar
    attribute under its dotted key, then the caller fields — in that order, nothing more, nothing less;
    no value can split a token or forge a pair. Assumed (decidable, checked on every generated record by
    the harness): keys contain no space, quote or '='; the texts rendered bare by the standard library
    (floats, complex numbers) contain no space or quote; the timestamp and time texts contain no quote or
    backslash; only groups are written without their own key. -/
theorem logfmt_line_parses_back (isPrint : Nat → Bool) (p : Presentation) (depth : Nat) (r : Record) (out : Bytes)
    (hnb : (r.lvl == Lv.always && isBlank r.msg) = false)
    (hts : inqB r.ts = true) (hattrs : ∀ a ∈ r.attrs, attrTokOK depth a = true)
    (h : encodeRecord .logfmt isPrint p depth r = some out) :
    let c : EncCfg := { fmt := .logfmt, isPrint := isPrint }
    let fields := logfmtPairs c (p.reg.name r.lvl) depth r
    ∃ body, out = body ++ [10] ∧ logfmtTokens body = fields.map tokOf ∧
      (logfmtTokens body).map splitPair = fields.map some := by
  intro c fields
  unfold encodeRecord at h
  rw [hnb] at h
  simp only [Bool.false_eq_true, ↓reduceIte, Option.some.injEq] at h
  have hc : LogfmtCfg c := ⟨rfl⟩
  have htok := plainBody_tokens c hc (p.reg.name r.lvl) depth r hts hattrs
  refine ⟨_, h.symm, htok, ?_⟩
  rw [htok, List.map_map]
  apply List.map_congr_left
  intro q hq
  exact splitPair_tokOf q (logfmtPairs_keys c (p.reg.name r.lvl) depth r hattrs q hq)

/-- the value text of every string-like field is the Go-quoted string, which reads back exactly:
    message, logger name and level name -/
theorem head_values_read_back (isPrint : Nat → Bool) (hp : PrintSafe isPrint) (levelName : Bytes) (r : Record) :
    let c : EncCfg := { fmt := .logfmt, isPrint := isPrint }
    (kMsg, c.quote r.msg) ∈ headPairs c levelName r ∧ goUnquote (c.quote r.msg) = some r.msg ∧
    goUnquote (c.quote levelName) = some levelName ∧ goUnquote (c.quote r.name) = some r.name := by
  intro c
  have hq : ∀ s, c.quote s = goQuote isPrint s := fun s => (⟨rfl⟩ : LogfmtCfg c).quote s
  refine ⟨by simp [headPairs], ?_, ?_, ?_⟩ <;> (rw [hq]; exact goUnquote_goQuote isPrint hp _)

-- non-vacuity: a record with a forged pair in the message, a space in a value and a nested group
def exCfg : EncCfg := { fmt := .logfmt, isPrint := fun r => decide (32 ≤ r) && decide (r < 127) }
def exRec : Record :=
  { lvl := 5, ts := [49], name := [], msg := [97, 32, 120, 61, 34, 49, 34],
    attrs := [some ([103], true, Val.group [some ([107], false, Val.str [98, 32, 99]), some ([106], false, Val.int 7)])] }
example : flatAttrs exCfg 3 [103] [some ([107], false, Val.str [98, 32, 99]), none, some ([106], false, Val.int 7)] =
    [([103, 46, 107], exCfg.quote [98, 32, 99]), ([103, 46, 106], [55])] := by
  simp only [flatAttrs, flatVal, dotPrefix, encVal]
  decide
example : logfmtTokens [97, 61, 34, 120, 32, 92, 34, 32, 121, 34, 32, 32, 98, 61, 49] = [[97, 61, 34, 120, 32, 92, 34, 32, 121, 34], [98, 61, 49]] ∧
    splitPair [97, 61, 34, 120, 61, 34] = some ([97], [34, 120, 61, 34]) := by decide
example : (∀ a ∈ exRec.attrs, attrTokOK 3 a = true) ∧ inqB exRec.ts = true := by decide

-- non-vacuity: a value with a line feed, a quote and an invalid byte (any isPrint that accepts 'a')
example : goQuote (fun r => r == 97) [97, 10, 34, 255] = [34, 97, 92, 110, 92, 34, 92, 120, 102, 102, 34] := by decide

end Logg.Props.C05
