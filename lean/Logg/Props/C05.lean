/-
  C05 — logfmt mode: one line of key=value pairs that parses back to what was logged.

  The encoder model (Logg.Model.Encoder / Quote) is tied to the code byte for byte by the
  correspondence; `isPrint` is strconv.IsPrint through the regenerated table.
  Proved here: cleanliness of the quoting for ALL byte strings, the round trip unquote ∘ quote = id
  for ALL byte strings, and the one-line theorem for whole records (groups at any depth and
  position). The tokenisation of a whole line into its pairs is decided per generated record by the
  oracle (tokenizer + strconv.Unquote) — see DESIGN.md.
-/
import Logg.Lemmas.EncoderClean
import Logg.Lemmas.QuoteRoundTrip

namespace Logg.Props.C05
open Logg Logg.Lemmas

/-- (1) Every string-like value (message, logger name, strings, errors, Stringers, durations, []byte,
    the %v fallback) is written through Go-syntax quoting, and whatever bytes go in — CR, LF, quotes,
    backslashes, control bytes, invalid UTF-8 — no control byte and no DEL comes out: nothing can split
    the line or reach the terminal raw. -/
theorem quoted_value_has_no_control_byte (s : Bytes) : Clean (goQuote isPrintTable s) :=
  goQuote_clean isPrintTable isPrintTable_safe s

/-- the quoted form starts and ends with a quote -/
theorem quoted_value_is_delimited (isPrint : Nat → Bool) (s : Bytes) :
    ∃ body, goQuote isPrint s = 34 :: body ++ [34] := ⟨_, rfl⟩

/-- (1') Exact value: reading the quoted form back with `strconv.Unquote` gives the original
    bytes — for EVERY byte string: CR/LF, quotes, backslashes, control bytes, invalid UTF-8,
    unprintable and astral runes (\x, \u, \U escapes) included. This is the value half of "parsing the
    line gives back … every attribute … with its exact value" for all string-like kinds. -/
theorem quoted_value_parses_back (s : Bytes) : goUnquote (goQuote isPrintTable s) = some s :=
  goUnquote_goQuote isPrintTable isPrintTable_safe s

/-- the same for any printability table that never calls a control byte printable (the property does
    not depend on the Unicode tables of the Go release) -/
theorem quoted_value_parses_back_any_table (isPrint : Nat → Bool) (hp : PrintSafe isPrint) (s : Bytes) :
    goUnquote (goQuote isPrint s) = some s := goUnquote_goQuote isPrint hp s

/-- (2) A logfmt record is exactly one line: the payload is `body ++ [LF]` and `body` contains no control
    byte at all — for every message, logger name, severity, attribute list with groups nested to any depth
    at any position, caller on or off. Assumed: the texts rendered by the standard library (timestamp,
    floats, times) and the keys (legal logfmt keys) contain no control byte. -/
theorem logfmt_one_line (p : Presentation) (depth : Nat) (r : Record) (out : Bytes)
    (hts : NoC0 r.ts) (hattrs : ∀ a ∈ r.attrs, attrOK true depth a = true)
    (h : encodeRecord .logfmt isPrintTable p depth r = some out) :
    ∃ body, out = body ++ [10] ∧ NoC0 body := by
  unfold encodeRecord at h
  split at h
  · cases h; exact ⟨[], rfl, fun c hc => by simp at hc⟩
  · simp only [] at h
    cases h
    refine ⟨_, rfl, ?_⟩
    exact plainBody_noC0 { fmt := .logfmt, isPrint := isPrintTable } ⟨by decide, isPrintTable_safe⟩ _ depth r hts
      (by intro a ha; have := hattrs a ha; simpa [EncCfg.json] using this)

/-- (3) A blank Print (Always severity, whitespace-only message) is exactly one line feed. -/
theorem blank_print_is_newline (f : Fmt) (isPrint : Nat → Bool) (p : Presentation) (depth : Nat) (r : Record)
    (hl : r.lvl = Lv.always) (hb : isBlank r.msg = true) : encodeRecord f isPrint p depth r = some [10] := by
  simp [encodeRecord, hl, hb]

-- non-vacuity: a value with a line feed, a quote and an invalid byte (any isPrint that accepts 'a')
example : goQuote (fun r => r == 97) [97, 10, 34, 255] = [34, 97, 92, 110, 92, 34, 92, 120, 102, 102, 34] := by decide

end Logg.Props.C05
