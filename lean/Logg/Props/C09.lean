/-
  C09 — History independence: a record's bytes depend only on that call.

  In the model the payload is `encodeRecord fmt isPrint presentation depth record`: a function of the
  call (configuration, severity, timestamp text, message, attributes) and of the global presentation
  settings — there is no hidden state, so independence from the history holds by construction. What
  ties this to the code, where formatting goes through a pooled, recycled PrintCtx, is (a) the
  byte-exact correspondence after arbitrary histories and adversarially seeded pool contents, and
  (b) the regenerated structural facts below: every field of PrintCtx is either reset by set/setentry,
  or written before it is read, or restored after each use, or constant.
-/
import Logg.Model.Encoder
import Logg.Gen.Facts

namespace Logg.Props.C09
open Logg

/-- fields re-initialised for every record by `PrintCtx.set` / `setentry` (regenerated) -/
def resetPerRecord : List String := Gen.setAssigns ++ Gen.setentryAssigns

/-- fields the encoder writes before it reads them within one record (colored mode: the message split;
    the caller / error source cache is fully overwritten by Extract before use) -/
def writtenBeforeRead : List String := ["firstLine", "restLines", "eol", "cachedSource"]

/-- fields saved on entry and restored on exit of every use (dotted-key prefix, nested-object comma
    switch), or never set to anything but their initial value -/
def selfRestoring : List String := ["prefix", "skipComma", "inGroupedMode"]

/-- fields that never change after construction -/
def constants : List String := ["noQuoted", "dedupeAttrs"]

/-- read position bookkeeping of the buffer API (only user marshallers move it; outside the domain) -/
def bufferBookkeeping : List String := ["off", "lastRead"]

/-- (1) Every field of the pooled PrintCtx, as the struct is declared now, falls in one of these
    classes: nothing a record leaves behind in a recycled context can reach the next record. A new field
    (a cache, a flag) that is not reset makes this fail. -/
theorem every_field_accounted_for :
    ∀ f ∈ Gen.printCtxFields,
      f ∈ resetPerRecord ∨ f ∈ writtenBeforeRead ∨ f ∈ selfRestoring ∨ f ∈ constants ∨ f ∈ bufferBookkeeping := by
  decide

/-- (1b) The fields classed as constants are constants of the code as it is now (regenerated): no
    statement of the package assigns a field of that name, increments it or takes its address; they
    keep the value the constructor gave them, in every context of the pool alike. -/
theorem constants_are_never_assigned : ∀ f ∈ constants, f ∉ Gen.printCtxFieldNamesAssigned := by
  decide

/-- (2) In particular the colours (the field pair that leaked into levels without registered colours),
    the mode bits, the layout, the severity, the message, the attributes and the timestamp are reset. -/
theorem reset_includes_the_call :
    ∀ f ∈ ["clr", "bg", "jsonMode", "noColor", "layout", "utcTime", "lvl", "msg", "kvps", "now", "stackFrame", "buf", "valueStringer"],
      f ∈ resetPerRecord := by
  decide

/-- (3) The context is taken from the pool, set, used and returned — in this order, once. -/
theorem pool_bracket : Gen.printBracket = ["Get", "set", "printImpl", "Put"] ∧ Gen.setCallsSetentry = true := by
  decide

/-- (4) History independence of the model: two calls with the same configuration and the same record
    produce the same bytes, whatever was formatted before (the model has no other input). Levels
    without registered colours get the fixed default colours. -/
theorem same_call_same_bytes (f : Fmt) (isPrint : Nat → Bool) (p : Presentation) (depth : Nat) (r₁ r₂ : Record)
    (h : r₁ = r₂) : encodeRecord f isPrint p depth r₁ = encodeRecord f isPrint p depth r₂ := by
  rw [h]

theorem unregistered_level_colors_fixed (p : Presentation) (lvl : Int) (h : p.colors.lookup lvl = none) :
    levelColors p lvl = (95, -1) := by
  simp [levelColors, h]

end Logg.Props.C09
