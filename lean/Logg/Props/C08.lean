/-
  C08 — Concurrent logging never tears or loses a record.
  The interleaving model (Logg.Model.Concurrent) rests on structural facts about the code that the
  extractor regenerates on every run (Gen.Facts); the theorems hold for every number of goroutines,
  every program of calls and every schedule. What a model cannot exhibit — data races at the
  memory level — is left to the race detector in the stress harness (see DESIGN.md).
-/
import Logg.Lemmas.Concurrent
import Logg.Gen.Facts

namespace Logg.Props.C08
open Logg

/-- (0) The facts the model rests on, as the code says them now: one Get and one Put of the print
    context around printImpl in Entry.print, and every function of the package that touches the
    pool takes exactly one context and returns exactly one (no second Put anywhere); group members are cloned before they are sorted,
    and the sort works on its parameter only; logger attributes are copied into the per-call
    slice; the shared size hint is only touched through sync/atomic; one Write per record, with no way out
    of printOut before it (a record is never dropped because another one is in flight), and the
    destination list is walked to its end whatever its members answer. -/
theorem model_facts :
    Gen.printBracket = ["Get", "set", "printImpl", "Put"] ∧
    ("Entry.print", 1, 1) ∈ Gen.printCtxPoolUse ∧ (∀ u ∈ Gen.printCtxPoolUse, u.2.1 = 1 ∧ u.2.2 = 1) ∧
    Gen.groupItemsCloned = true ∧ Gen.sortsItsParameter = true ∧ Gen.loggerAttrsCopied = true ∧
    Gen.fixedSizeNonAtomicUses = 0 ∧ Gen.writesPerPrintOut = 1 ∧
    Gen.printOutExitsBeforeWrite = 0 ∧ Gen.lwsWriteLoops = 1 ∧ Gen.lwsWriteEarlyExit = false := by decide

theorem inv_run (payload : CallId → Bytes) (total : List Bytes) (w : World) (sched : List Nat)
    (h : Inv payload total w) : Inv payload total (run payload w sched) := by
  induction sched generalizing w with
  | nil => exact h
  | cons g gs ih => exact ih _ (inv_step payload total w g h)

/-- (1) Mutual exclusion: in every reachable state, under every schedule, no print context is in
    two hands (held by two goroutines, or held and in the pool, or twice in the pool). -/
theorem contexts_never_shared (payload : CallId → Bytes) (progs : List (List CallId)) (sched : List Nat) :
    ((run payload (World.init progs) sched).pool ++ held (run payload (World.init progs) sched).gs).Nodup :=
  (inv_run payload _ _ sched (inv_init payload progs)).nodup

/-- (2) Every Write payload a destination observes, under every schedule, is the complete record
    of one of the calls — never a mixture, never a torn buffer. -/
theorem every_write_is_one_whole_record (payload : CallId → Bytes) (progs : List (List CallId)) (sched : List Nat) :
    ∀ b ∈ (run payload (World.init progs) sched).out, ∃ c ∈ progs.flatten, b = payload c := by
  intro b hb
  have hacc := (inv_run payload _ _ sched (inv_init payload progs)).account
  have : b ∈ progs.flatten.map payload := hacc.mem_iff.mp (by simp [hb])
  obtain ⟨c, hc, rfl⟩ := List.mem_map.mp this
  exact ⟨c, hc, rfl⟩

theorem pending_quiescent (gs : List GState) (h : ∀ s ∈ gs, s.todo = []) : pending gs = [] := by
  induction gs with
  | nil => rfl
  | cons s ss ih =>
    have hs : s.todo = [] := h s (by simp)
    have : pend s = [] := by unfold pend; split <;> simp [hs]
    simp [pending, List.flatMap_cons, this] at ih ⊢
    exact ih (fun t ht => h t (by simp [ht]))

/-- (3) No record lost, none duplicated: once every goroutine has finished its calls, the multiset
    of delivered payloads equals the multiset of the calls' records — for all programs, all
    numbers of goroutines and all schedules. -/
theorem delivered_equals_admitted (payload : CallId → Bytes) (progs : List (List CallId)) (sched : List Nat)
    (hq : quiescent (run payload (World.init progs) sched)) :
    (run payload (World.init progs) sched).out.Perm (progs.flatten.map payload) := by
  have hacc := (inv_run payload _ _ sched (inv_init payload progs)).account
  rw [pending_quiescent _ hq] at hacc
  simpa using hacc

/-- (4) At no point is a record delivered more often than it was issued (prefix safety): the
    delivered payloads together with those still to come are exactly the issued ones. -/
theorem never_more_than_issued (payload : CallId → Bytes) (progs : List (List CallId)) (sched : List Nat) :
    ((run payload (World.init progs) sched).out ++ (pending (run payload (World.init progs) sched).gs).map payload).Perm
      (progs.flatten.map payload) :=
  (inv_run payload _ _ sched (inv_init payload progs)).account

/-! ### the model discriminates: why the single Put matters -/

def pay (c : CallId) : Bytes := [c.toUInt8]

/-- With a second Put per call (a context returned to the pool twice) there is a schedule of two
    goroutines on which one record is delivered twice and another is lost. -/
theorem double_put_tears :
    ([0, 0, 0, 0, 0, 1, 0, 1, 1, 0, 1].foldl (stepWith 2 pay) (World.init [[1, 2], [3]])).out = [[1], [3], [3]] := by
  decide

-- non-vacuity: two goroutines, three calls, a schedule that interleaves them and reuses a context
example : (run pay (World.init [[1, 2], [3]]) [0, 1, 0, 1, 0, 1, 0, 1, 0, 0, 0, 0]).out = [[1], [3], [2]] ∧
    quiescent (run pay (World.init [[1, 2], [3]]) [0, 1, 0, 1, 0, 1, 0, 1, 0, 0, 0, 0]) := by
  refine ⟨by decide, ?_⟩
  intro s hs
  have : (run pay (World.init [[1, 2], [3]]) [0, 1, 0, 1, 0, 1, 0, 1, 0, 0, 0, 0]).gs = [{ todo := [] }, { todo := [] }] := by decide
  rw [this] at hs
  simp at hs
  rcases hs with rfl | rfl <;> rfl

end Logg.Props.C08
