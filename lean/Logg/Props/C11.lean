/-
  C11 — Output format is a per-logger three-state machine; getters and bytes agree.
  `Gen.setJSONMode`, `Gen.setColorMode`, `Gen.setentryMode` are regenerated from
  Entry.SetJSONMode / Entry.SetColorMode / PrintCtx.setentry on every run.
-/
import Logg.Model.Format
import Logg.Gen.Decisions
import Logg.Gen.Facts

namespace Logg.Props.C11
open Logg

/-- One mode call on the two mode bits, as the code performs it. -/
def implCall (s : ModeBits) : ModeCall → ModeBits
  | .setJSON bs => Gen.setJSONMode s.1 s.2 bs
  | .setColor bs => Gen.setColorMode s.1 s.2 bs

/-- The invariant: the two bits are never both set. -/
def WellFormed (s : ModeBits) : Prop := ¬ (s.1 = true ∧ s.2 = true)

theorem foldl_last (bs : List Bool) (m : Bool) :
    List.foldl (fun _ bb => bb) m bs = bs.foldl (fun _ b => b) m := rfl

theorem setJSON_eq (j c : Bool) (bs : List Bool) :
    Gen.setJSONMode j c bs = (lastArg bs, if lastArg bs then false else c) := by
  unfold Gen.setJSONMode lastArg
  cases h : List.foldl (fun mode bb => bb) true bs <;> simp [h]

theorem setColor_eq (j c : Bool) (bs : List Bool) :
    Gen.setColorMode j c bs = (false, lastArg bs) := by
  unfold Gen.setColorMode lastArg
  rfl

/-- A freshly created detached logger is colored; every mode call preserves well-formedness,
    so (JSON ∧ colour) is unreachable — the logger is always in exactly one of three formats. -/
theorem initial_wellFormed : WellFormed (false, true) := by simp [WellFormed]

theorem call_preserves_wellFormed (s : ModeBits) (c : ModeCall) : WellFormed (implCall s c) := by
  cases c with
  | setJSON bs => simp only [implCall, setJSON_eq, WellFormed]; cases lastArg bs <;> simp
  | setColor bs => simp [implCall, setColor_eq, WellFormed]

theorem format_total (s : ModeBits) (calls : List ModeCall) (h : WellFormed s) :
    WellFormed (calls.foldl implCall s) := by
  induction calls generalizing s with
  | nil => simpa using h
  | cons c cs ih => exact ih _ (call_preserves_wellFormed s c)

/-- One call moves the format exactly as the statement says: SetJSONMode(true) → JSON,
    SetColorMode(true) → colored, SetColorMode(false) → logfmt, SetJSONMode(false) turns JSON
    into logfmt and leaves a text format as it is. Variadic: last argument wins, none = true. -/
theorem call_refines_spec (s : ModeBits) (c : ModeCall) (h : WellFormed s) :
    fmtOf (implCall s c) = specCall (fmtOf s) c := by
  obtain ⟨j, cl⟩ := s
  cases c with
  | setJSON bs =>
    simp only [implCall, setJSON_eq, specCall, fmtOf]
    cases lastArg bs <;> cases j <;> cases cl <;> simp_all [WellFormed]
  | setColor bs =>
    simp only [implCall, setColor_eq, specCall, fmtOf]
    cases lastArg bs <;> simp

/-- Any sequence of mode calls: the format is what the sequence denotes. -/
theorem calls_refine_spec (s : ModeBits) (calls : List ModeCall) (h : WellFormed s) :
    fmtOf (calls.foldl implCall s) = calls.foldl specCall (fmtOf s) := by
  induction calls generalizing s with
  | nil => rfl
  | cons c cs ih =>
    simp only [List.foldl_cons]
    rw [ih _ (call_preserves_wellFormed s c), call_refines_spec s c h]

/-- The most recent mode call decides (apart from SetJSONMode(false), which depends on the
    format before it — exactly as stated). -/
theorem last_mode_call_decides (s : ModeBits) (calls : List ModeCall) (c : ModeCall) (h : WellFormed s) :
    fmtOf ((calls ++ [c]).foldl implCall s) = specCall (fmtOf (calls.foldl implCall s)) c := by
  rw [List.foldl_append]
  exact call_refines_spec _ c (format_total s calls h)

/-- The getters (`JSONMode()` = first bit, `ColorMode()` = second bit) agree with the format. -/
theorem getters_agree (s : ModeBits) (h : WellFormed s) :
    (s.1 = true ↔ fmtOf s = .json) ∧ (s.2 = true ↔ fmtOf s = .color) := by
  obtain ⟨j, c⟩ := s
  cases j <;> cases c <;> simp_all [fmtOf, WellFormed]

/-- The per-record copy that drives the encoder (`jsonMode`, `noColor`) selects the encoder
    of the logger's format — even for the unreachable (true, true) pair. -/
theorem encoder_agrees (s : ModeBits) :
    (Gen.setentryMode s.1 s.2).1 = (fmtOf s == .json) ∧
    (Gen.setentryMode s.1 s.2).2 = (fmtOf s != .color) := by
  obtain ⟨j, c⟩ := s
  cases j <;> cases c <;> decide

/-- A child starts with its parent's bits (`newentry`), so it starts well-formed too; and a
    mode call on logger `i` of a tree leaves every other logger's bits alone. -/
theorem other_loggers_untouched (tree : List ModeBits) (i j : Nat) (c : ModeCall) (hij : j ≠ i) :
    (tree.set i (implCall (tree.getD i (false, true)) c))[j]? = tree[j]? := by
  simp [Ne.symm hij]

-- non-vacuity: JSON(false) on a JSON logger gives logfmt, on a colored logger stays colored
example : fmtOf (implCall (true, false) (.setJSON [false])) = .logfmt ∧
          fmtOf (implCall (false, true) (.setJSON [false])) = .color ∧
          fmtOf (implCall (false, true) (.setJSON [])) = .json ∧
          fmtOf (implCall (true, false) (.setColor [true, false])) = .logfmt := by decide

/-- `other_loggers_untouched` is about the model's list of loggers; for the code it rests on the regenerated
    fact that the format bits (like every per-logger setting) are only ever assigned through the receiver of
    the method or option the assignment stands in: no statement copies a format into another logger. -/
theorem format_written_through_the_receiver_only : Gen.foreignSettingWrites = [] := by decide

end Logg.Props.C11
