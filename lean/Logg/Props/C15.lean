/-
  C15 — log/slog handler and std log bridge preserve content, severity and gating.
  `Gen.convertLogSlogLevel`, `Gen.handlerEnabled`, `Gen.bridgeAdmits`, `Gen.logsloglevel2Level`,
  the level tables and the mode setters are regenerated from the source.
-/
import Logg.Model.Adapter
import Logg.Gen.Facts
import Logg.Props.C02
import Logg.Props.C12

namespace Logg.Props.C15
open Logg

/-! ### content: every attribute, every kind, groups nested, LogValuers resolved -/

mutual
/-- the content of log/slog attributes as the statement reads them: the scalar leaves with their
    key paths, in order, LogValuers replaced by what they resolve to -/
def sLeavesVal (path : List Bytes) : SVal → List (List Bytes × Val)
  | .bool b => [(path, .bool b)]
  | .time t => [(path, .time t)]
  | .dur t => [(path, .dur t)]
  | .float t => [(path, .float t)]
  | .int i => [(path, .int i)]
  | .str s => [(path, .str s)]
  | .uint n => [(path, .uint n)]
  | .group items => sLeaves path items
  | .valuer v => sLeavesVal path v
  | .any v => [(path, v)]
def sLeaves (path : List Bytes) : SAttrs → List (List Bytes × Val)
  | .nil => []
  | .cons k v rest => sLeavesVal (path ++ [k]) v ++ sLeaves path rest
end

mutual
/-- the same reading of the library's own attributes (nil attributes carry nothing); `fuel`
    bounds the nesting depth looked at -/
def leavesVal : Nat → List Bytes → Val → List (List Bytes × Val)
  | fuel + 1, path, .group items => leaves fuel path items
  | 0, _, .group _ => []
  | _, path, v => [(path, v)]
def leaves : Nat → List Bytes → List Attr → List (List Bytes × Val)
  | _, _, [] => []
  | fuel, path, none :: rest => leaves fuel path rest
  | fuel, path, some (k, _, v) :: rest => leavesVal fuel (path ++ [k]) v ++ leaves fuel path rest
end

mutual
def sDepthVal : SVal → Nat
  | .group items => sDepth items + 1
  | .valuer v => sDepthVal v
  | _ => 0
def sDepth : SAttrs → Nat
  | .nil => 0
  | .cons _ v rest => max (sDepthVal v) (sDepth rest)
end

def Val.isGroup : Val → Bool
  | .group _ => true
  | _ => false

mutual
/-- a KindAny value never holds the library's own group type (log/slog has KindGroup for that) -/
def anyScalarVal : SVal → Bool
  | .group items => anyScalar items
  | .valuer v => anyScalarVal v
  | .any v => !Val.isGroup v
  | _ => true
def anyScalar : SAttrs → Bool
  | .nil => true
  | .cons _ v rest => anyScalarVal v && anyScalar rest
end

theorem leavesVal_scalar (fuel : Nat) (path : List Bytes) (v : Val) (h : Val.isGroup v = false) :
    leavesVal fuel path v = [(path, v)] := by
  cases v <;> cases fuel <;> simp_all [leavesVal, Val.isGroup]

mutual
theorem leavesVal_convert (v : SVal) (fuel : Nat) (path : List Bytes) (h : sDepthVal v ≤ fuel) (ha : anyScalarVal v = true) :
    leavesVal fuel path (convertVal v).2 = sLeavesVal path v := by
  cases v with
  | bool b => cases fuel <;> simp [convertVal, leavesVal, sLeavesVal]
  | time t => cases fuel <;> simp [convertVal, leavesVal, sLeavesVal]
  | dur t => cases fuel <;> simp [convertVal, leavesVal, sLeavesVal]
  | float t => cases fuel <;> simp [convertVal, leavesVal, sLeavesVal]
  | int i => cases fuel <;> simp [convertVal, leavesVal, sLeavesVal]
  | str s => cases fuel <;> simp [convertVal, leavesVal, sLeavesVal]
  | uint n => cases fuel <;> simp [convertVal, leavesVal, sLeavesVal]
  | group items =>
    cases fuel with
    | zero => simp [sDepthVal] at h
    | succ f =>
      have hf : sDepth items ≤ f := by simp [sDepthVal] at h; omega
      have hi : anyScalar items = true := by simpa [anyScalarVal] using ha
      simp [convertVal, leavesVal, leaves, sLeavesVal, leaves_convert items f path hf hi]
  | valuer w =>
    have hw : sDepthVal w ≤ fuel := by simpa [sDepthVal] using h
    have hv : anyScalarVal w = true := by simpa [anyScalarVal] using ha
    simp [convertVal, sLeavesVal, leavesVal_convert w fuel path hw hv]
  | any w =>
    have hg : Val.isGroup w = false := by simpa [anyScalarVal] using ha
    simp [convertVal, sLeavesVal, leavesVal_scalar fuel path w hg]
theorem leaves_convert (as : SAttrs) (fuel : Nat) (path : List Bytes) (h : sDepth as ≤ fuel) (ha : anyScalar as = true) :
    leaves fuel path (convertAttrs as) = sLeaves path as := by
  cases as with
  | nil => simp [convertAttrs, leaves, sLeaves]
  | cons k v rest =>
    have h1 : sDepthVal v ≤ fuel := by simp [sDepth] at h; omega
    have h2 : sDepth rest ≤ fuel := by simp [sDepth] at h; omega
    have a1 : anyScalarVal v = true := by simp [anyScalar] at ha; exact ha.1
    have a2 : anyScalar rest = true := by simp [anyScalar] at ha; exact ha.2
    simp [convertAttrs, leaves, sLeaves, leavesVal_convert v fuel (path ++ [k]) h1 a1, leaves_convert rest fuel path h2 a2]
end

/-- (1) Content: the converted attributes carry exactly the leaves of the record's attributes —
    every kind, nested groups under their key paths, LogValuers (chains too, and inside groups)
    replaced by what they resolve to; none lost, none invented, order kept. -/
theorem content_preserved (as : SAttrs) (h : anyScalar as = true) :
    leaves (sDepth as) [] (convertAttrs as) = sLeaves [] as :=
  leaves_convert as _ [] (Nat.le_refl _) h

/-- groups stay groups (printed without a `key=` of their own in the text formats), scalars scalars -/
theorem group_marking (items : SAttrs) (b : Bool) : (convertVal (.group items)).1 = true ∧ (convertVal (.bool b)).1 = false := by
  simp [convertVal]

/-! ### the conversion of the model is the switch of the code (regenerated) -/

/-- the kind of a log/slog value, under the name the code switches on -/
def kindOf : SVal → String
  | .bool _ => "KindBool" | .time _ => "KindTime" | .dur _ => "KindDuration" | .float _ => "KindFloat64"
  | .int _ => "KindInt64" | .str _ => "KindString" | .uint _ => "KindUint64" | .group _ => "KindGroup"
  | .valuer _ => "KindLogValuer" | .any _ => "default"

/-- what `convertVal` does with a value of that kind, spelled as the calls of the code: the constructor
    of the same name applied to the value read by the accessor of the same name; a group converted
    member by member; a LogValuer resolved and converted again; anything else handed on as it is -/
def howOf : SVal → String
  | .bool _ => "Bool>attr.Value.Bool" | .time _ => "Time>attr.Value.Time" | .dur _ => "Duration>attr.Value.Duration"
  | .float _ => "Float64>attr.Value.Float64" | .int _ => "Int64>attr.Value.Int64" | .str _ => "String>attr.Value.String"
  | .uint _ => "Uint64>attr.Value.Uint64" | .group _ => "Group>convertGroupToFields>attr.Value.Group"
  | .valuer _ => "convertAttrToField>attr.Value.Resolve" | .any _ => "Any>attr.Value.Any"

/-- (1b) For every log/slog value, the case the model's conversion takes is the case of the code's switch
    over `attr.Value.Kind()`, and the switch has no further case: ten kinds, no depth or size
    argument, no condition. -/
theorem convert_follows_the_switch (v : SVal) :
    (kindOf v, howOf v) ∈ Gen.convertKindTable ∧ Gen.convertKindTable.length = 10 := by
  cases v <;> simp only [kindOf, howOf] <;> decide

/-- (1c) The members of a group and the attributes of a record are converted one by one, all of
    them, unconditionally: the loops have no condition, no early exit and no other call. -/
theorem conversion_is_unconditional :
    Gen.convertGroupToFieldsCalls = ["append", "convertAttrToField"] ∧ Gen.convertGroupToFieldsConditions = 0 ∧
    Gen.convertLogSlogRecordAttrsCalls = ["make", "rec.NumAttrs", "rec.Attrs", "append", "convertAttrToField"] ∧
    Gen.convertLogSlogRecordAttrsConditions = 0 := by decide

/-- (1d) `Handle` hands the record's own time, its message and the converted attributes to the
    logger (`WriteThru`, or `LogAttrs` for a logger that cannot take a time), whatever the context
    says, and has one way out: `return nil` at its end. -/
theorem handle_hands_over_the_record :
    Gen.handleReturns = ["nil"] ∧ Gen.handleWriteThru = ["ctx,lvl,rec.Time,rec.PC,rec.Message,fields"] ∧
    Gen.handleLogAttrs = ["ctx,lvl,rec.Message,fields"] := by decide

/-! ### severity -/

/-- (2) The four standard log/slog levels map to their namesakes, in the handler and wherever a
    log/slog level is accepted (`Entry.Log`). -/
theorem standard_levels_namesakes :
    Gen.convertLogSlogLevel (-4) = Lv.debug ∧ Gen.convertLogSlogLevel 0 = Lv.info ∧
    Gen.convertLogSlogLevel 4 = Lv.warn ∧ Gen.convertLogSlogLevel 8 = Lv.error ∧
    Gen.logsloglevel2Level (-4) = Lv.debug ∧ Gen.logsloglevel2Level 0 = Lv.info ∧
    Gen.logsloglevel2Level 4 = Lv.warn ∧ Gen.logsloglevel2Level 8 = Lv.error := by decide

/-- (3) No log/slog level value reaches a terminating severity through the handler; through
    `Entry.Log` only the explicit LevelFatal / LevelPanic constants do — for all integers. -/
theorem no_implicit_termination (l : Int) :
    Gen.convertLogSlogLevel l ≠ Lv.panic ∧ Gen.convertLogSlogLevel l ≠ Lv.fatal ∧
    (Gen.logsloglevel2Level l = Lv.panic → l = Gen.LevelPanic) ∧
    (Gen.logsloglevel2Level l = Lv.fatal → l = Gen.LevelFatal) :=
  ⟨(C12.slog_handler_levels_never_terminate l).1, (C12.slog_handler_levels_never_terminate l).2,
   (C12.slog_levels_terminate_only_explicitly l).1, (C12.slog_levels_terminate_only_explicitly l).2⟩

/-! ### gating -/

/-- (4) For Debug/Info/Warn/Error the handler's Enabled is exactly the logger's gate on the
    namesake severity — whatever the logger level, the registry and the debug mode. -/
theorem enabled_is_the_loggers_gate (g : Globals) (L l : Int) (h : l = -4 ∨ l = 0 ∨ l = 4 ∨ l = 8) :
    Gen.handlerEnabled g L l = Gen.enabled g L (Gen.convertLogSlogLevel l) := by
  rcases h with rfl | rfl | rfl | rfl <;> rfl

/-- other level values are always handed to Handle (and come out at Always) -/
theorem other_levels_enabled (g : Globals) (L l : Int) (h : l ≠ -4 ∧ l ≠ 0 ∧ l ≠ 4 ∧ l ≠ 8) :
    Gen.handlerEnabled g L l = true ∧ Gen.convertLogSlogLevel l = Lv.always := by
  obtain ⟨h0, h1, h2, h3⟩ := h
  have e0 : (l == -4) = false := by simpa using h0
  have e1 : (l == 0) = false := by simpa using h1
  have e2 : (l == 4) = false := by simpa using h2
  have e3 : (l == 8) = false := by simpa using h3
  simp [Gen.handlerEnabled, Gen.convertLogSlogLevel, Gen.mLogSlogLevelToLevel, List.lookup, Lv.always, e0, e1, e2, e3]

/-! ### one record, once -/

/-- (5) A handled record is written once to each destination selected for the converted
    severity, and every one of those Writes carries the same payload: the encoding of the same
    message, the record's own time text, the converted attributes — terminated by a line feed. -/
theorem handled_once (c : CallCtx) (k : CallShape) (l : Int) (msg : Bytes) (attrs : SAttrs) (ws : List (Wid × Bytes))
    (h : handleWrites c k l msg attrs = some ws) :
    ∃ payload,
      encodeRecord k.fmt isPrintTable k.present k.depth
        { lvl := Gen.convertLogSlogLevel l, ts := k.ts, name := k.name, msg := msg, attrs := convertAttrs attrs, caller := k.caller } = some payload ∧
      payload.getLast? = some 10 ∧
      ws.map Prod.fst = routeSpec c.g c.cfg (Gen.convertLogSlogLevel l) ∧ ∀ e ∈ ws, e.2 = payload := by
  unfold handleWrites at h
  cases hp : encodeRecord k.fmt isPrintTable k.present k.depth
      { lvl := Gen.convertLogSlogLevel l, ts := k.ts, name := k.name, msg := msg, attrs := convertAttrs attrs, caller := k.caller } with
  | none => simp [hp] at h
  | some payload =>
    simp only [hp, Option.map_some, Option.some.injEq] at h
    refine ⟨payload, rfl, C02.payload_ends_with_newline _ _ _ _ _ _ hp, ?_, ?_⟩
    · subst h; simp [C03.route_is_spec, Function.comp_def]
    · subst h; intro e he; simp at he; obtain ⟨w, _, rfl⟩ := he; rfl

/-- (6) What log/slog.Logger does with the handler: a standard level the logger does not admit
    produces no Write at all. -/
theorem not_enabled_silent (c : CallCtx) (k : CallShape) (l : Int) (msg : Bytes) (attrs : SAttrs)
    (h : Gen.handlerEnabled c.g c.level l = false) : slogLoggerCall c k l msg attrs = some [] := by
  simp [slogLoggerCall, h]

/-- (7) The handler's format follows its options: JSON wins, otherwise NoColor selects logfmt. -/
theorem handler_format (o : HandlerOpts) (uj uc : Bool) :
    handlerFmt o uj uc = if o.json then .json else if o.noColor then .logfmt else .color := by
  cases o with
  | mk nc js lv => cases nc <;> cases js <;> cases uj <;> cases uc <;> rfl

/-! ### the std log bridge -/

/-- (8) The bridge admits a message exactly when the logger admits the bridge's severity. -/
theorem bridge_admits_iff (g : Globals) (L s : Int) : Gen.bridgeAdmits g L s = Gen.enabled g L s := rfl

/-- what `log.Logger.Output` hands to the writer: the message with a line feed appended unless it
    already ends with one -/
def stdLogLine (m : Bytes) : Bytes := if m.getLast? == some 10 then m else m ++ [10]

/-- (9) The record's message is the std-log message minus its trailing newline: unchanged when it
    had none, shortened by exactly one line feed when it had (further line feeds are content). -/
theorem bridge_message (m : Bytes) :
    stripOneLF (stdLogLine m) = if m.getLast? == some 10 then m.dropLast else m := by
  unfold stripOneLF stdLogLine
  by_cases h : m.getLast? = some 10
  · simp [h]
  · simp [h]

/-- (10) An admitted message is one record at the bridge's severity, once per selected
    destination, and the writer reports the whole buffer as written; a message that is not
    admitted writes nothing. -/
theorem bridge_once (c : CallCtx) (k : CallShape) (s : Int) (buf : Bytes) :
    (Gen.enabled c.g c.level s = false → bridgeWrite c k s buf = (0, some [])) ∧
    (Gen.enabled c.g c.level s = true → ∀ ws, (bridgeWrite c k s buf).2 = some ws →
      (bridgeWrite c k s buf).1 = buf.length ∧
      ∃ payload,
        encodeRecord k.fmt isPrintTable k.present k.depth
          { lvl := s, ts := k.ts, name := k.name, msg := stripOneLF buf, attrs := [], caller := k.caller } = some payload ∧
        payload.getLast? = some 10 ∧ ws.map Prod.fst = routeSpec c.g c.cfg s ∧ ∀ e ∈ ws, e.2 = payload) := by
  constructor
  · intro h; simp [bridgeWrite, bridge_admits_iff, h]
  · intro h ws hw
    simp only [bridgeWrite, bridge_admits_iff, h, if_true] at hw ⊢
    refine ⟨trivial, ?_⟩
    cases hp : encodeRecord k.fmt isPrintTable k.present k.depth
        { lvl := s, ts := k.ts, name := k.name, msg := stripOneLF buf, attrs := [], caller := k.caller } with
    | none => simp [hp] at hw
    | some payload =>
      simp only [hp, Option.map_some, Option.some.injEq] at hw
      refine ⟨payload, rfl, C02.payload_ends_with_newline _ _ _ _ _ _ hp, ?_, ?_⟩
      · subst hw; simp [C03.route_is_spec, Function.comp_def]
      · subst hw; intro e he; simp at he; obtain ⟨w, _, rfl⟩ := he; rfl

/-! ### derived handlers — the statement does not hold of the code (known finding) -/

/-- what a handler carries -/
structure HandlerState where
  cfg : WriterCfg
  useJSON : Bool
  useColor : Bool
  level : Int
  deriving DecidableEq

/-- `withFields`: `New().SetAttrs(fields...)` — a brand-new detached logger (package level
    `pkgLevel`, colored, no writers of its own); nothing of the receiver is kept -/
def deriveHandler (pkgLevel : Int) (_h : HandlerState) : HandlerState :=
  { cfg := none, useJSON := false, useColor := true, level := pkgLevel }

/-- The statement "handlers derived with WithAttrs/WithGroup keep the destination, format and
    level" is false of the code: witness — a JSON handler at Debug with its own destination. -/
theorem derived_handler_keeps_nothing_witness :
    ∃ h : HandlerState, ∃ pkgLevel, (deriveHandler pkgLevel h).cfg ≠ h.cfg ∧
      (deriveHandler pkgLevel h).useJSON ≠ h.useJSON ∧ (deriveHandler pkgLevel h).level ≠ h.level :=
  ⟨{ cfg := some { normal := [1], error := [2], leveled := [] }, useJSON := true, useColor := false, level := 5 }, 3, by decide⟩

/-- what does hold (partial): a derived handler converts attributes and levels exactly like its
    parent — the conversion functions do not depend on the handler. -/
theorem derived_partial (as : SAttrs) (h : anyScalar as = true) :
    leaves (sDepth as) [] (convertAttrs as) = sLeaves [] as := content_preserved as h

-- non-vacuity: a group holding a LogValuer that resolves to a group holding a string
example :
    sLeaves [] (.cons [103] (.group (.cons [118] (.valuer (.group (.cons [115] (.str [120]) .nil))) .nil)) .nil)
      = [([[103], [118], [115]], .str [120])] := by
  simp [sLeaves, sLeavesVal]

end Logg.Props.C15
