/-
  C01 — Level gating: one admission rule, identical at every entry point.

  Property theorems only. `Gen.*` is regenerated from /repo on every run, so each theorem is
  re-checked against what the code says now.
-/
import Logg.Bridge.Level

namespace Logg.Props.C01
open Logg

/-- Does a call through one `logContext` site of an entry point emit a record?
    `arg` is the caller-supplied level argument (ignored by fixed-severity verbs). -/
def siteEmits (g : Globals) (L arg : Int) (s : EmitSite) : Bool :=
  if s.gated then Gen.enabled g L (sevValue Gen.logsloglevel2Level arg s.gateSev) else true

/-- The severity of the record a site emits. -/
def siteSeverity (arg : Int) (s : EmitSite) : Int := sevValue Gen.logsloglevel2Level arg s.emitSev

/-- (1) The gate of the code is the admission rule of the statement: Off beats everything,
    then Always, then debug mode for Debug, then the treated-as comparison. All integer
    levels, any registry, debug mode on and off. -/
theorem gate_is_admission_rule (g : Globals) (L r : Int) : Gen.enabled g L r = admits g L r :=
  Bridge.enabled_eq_admits g L r

/-- (2) Every `logContext` call reachable from a public entry point sits behind a gate, the
    gate is asked of the logger that emits, and it is asked about the severity that is emitted. -/
theorem entry_points_uniform :
    ∀ ep ∈ Gen.entryPoints, ∀ s ∈ ep.sites,
      s.gated = true ∧ s.sameLogger = true ∧ s.gateSev = s.emitSev ∧ s.emitSev ≠ Sev.unknown := by
  decide

/-- (3) Hence: for every public entry point, every logger level, every severity argument and
    every registry / debug-mode state, a record is emitted iff its severity is admitted. -/
theorem emits_iff_admitted (g : Globals) (L arg : Int) :
    ∀ ep ∈ Gen.entryPoints, ∀ s ∈ ep.sites, siteEmits g L arg s = admits g L (siteSeverity arg s) := by
  intro ep hep s hs
  obtain ⟨hg, _, hsev, _⟩ := entry_points_uniform ep hep s hs
  simp [siteEmits, siteSeverity, hg, hsev, gate_is_admission_rule]

/-- The public ways of issuing a severity that the statement lists are all in the table
    (so (2)/(3) are not vacuous): 13 verbs and their Context variants, LogAttrs/Logit/Log and
    the printf verbs on a logger; the 13 verbs and Context variants at package level. -/
def expectedLoggerEntryPoints : List String :=
  ["Panic", "Fatal", "Error", "Warn", "Info", "Debug", "Trace", "Print", "Println", "OK", "Success", "Fail", "Verbose",
   "PanicContext", "FatalContext", "ErrorContext", "WarnContext", "InfoContext", "DebugContext", "TraceContext",
   "PrintContext", "PrintlnContext", "OKContext", "SuccessContext", "FailContext", "VerboseContext",
   "LogAttrs", "Logit", "Log", "Infof", "Warnf", "Errorf"]

def expectedPackageEntryPoints : List String :=
  ["Panic", "Fatal", "Error", "Warn", "Info", "Debug", "Trace", "Print", "Println", "OK", "Success", "Fail", "Verbose",
   "PanicContext", "FatalContext", "ErrorContext", "WarnContext", "InfoContext", "DebugContext", "TraceContext",
   "PrintContext", "PrintlnContext", "OKContext", "SuccessContext", "FailContext", "VerboseContext"]

theorem entry_points_complete :
    (∀ n ∈ expectedLoggerEntryPoints, ∃ ep ∈ Gen.entryPoints, ep.name = n ∧ ep.recv = EpRecv.logger) ∧
    (∀ n ∈ expectedPackageEntryPoints, ∃ ep ∈ Gen.entryPoints, ep.name = n ∧ ep.recv = EpRecv.pkg) := by
  decide

/-- Every entry point other than Verbose really does reach an emitting site. -/
theorem non_verbose_entry_points_emit :
    ∀ ep ∈ Gen.entryPoints, ep.name ≠ "Verbose" → ep.name ≠ "VerboseContext" → ep.sites ≠ [] := by
  decide

/-- (4) Verbose emits nothing in a default build: no emitting site, empty bodies. -/
theorem verbose_silent :
    Gen.verboseBodiesEmpty = true ∧
    ∀ ep ∈ Gen.entryPoints, (ep.name = "Verbose" ∨ ep.name = "VerboseContext") → ep.sites = [] := by
  decide

/-! ### histories -/

def isSetDebug : GateOp → Bool
  | .setDebug _ => true
  | _ => false

/-- (5) `SetLevel(Debug)` on any logger switches the process-wide debug mode on … -/
theorem setLevel_debug_switches_on (s : GateState) (k : Nat) :
    (gateStep s (.setLevel k Lv.debug)).g.debugMode = true := by
  simp [gateStep]

/-- … and no later logger or registry operation switches it off again (only an explicit
    call of the debug switch from outside the library can). -/
theorem debug_mode_sticky (s : GateState) (ops : List GateOp)
    (h : s.g.debugMode = true) (hops : ∀ op ∈ ops, isSetDebug op = false) :
    (gateRun s ops).g.debugMode = true := by
  induction ops generalizing s with
  | nil => simpa [gateRun] using h
  | cons op ops ih =>
    have hop := hops op (by simp)
    have hrest : ∀ o ∈ ops, isSetDebug o = false := fun o ho => hops o (by simp [ho])
    have : (gateStep s op).g.debugMode = true := by
      cases op <;> simp_all [gateStep, isSetDebug]
    simpa [gateRun] using ih (gateStep s op) this hrest

/-- What a history does to the level of logger `k`, read off the history alone: each
    `SetLevel` on `k` replaces it, nothing else touches it. -/
def levelTrack (k : Nat) (a : Option Int) : GateOp → Option Int
  | .setLevel j l => if j = k then a.map (fun _ => l) else a
  | _ => a

theorem step_level (s : GateState) (k : Nat) (op : GateOp) :
    (gateStep s op).levels[k]? = levelTrack k s.levels[k]? op := by
  cases op with
  | setLevel j l =>
    simp only [gateStep, levelTrack, List.getElem?_set]
    by_cases hjk : j = k
    · subst hjk
      by_cases hlt : j < s.levels.length <;> simp [hlt]
    · simp [hjk]
  | register v t => simp [gateStep, levelTrack]
  | setDebug on => simp [gateStep, levelTrack]

/-- (5b) For every history: the level a logger gates with is the one given by the last
    `SetLevel` on that very logger (its initial level if there was none) — no `SetLevel` on
    another logger, no registration and no debug switch ever changes it. -/
theorem level_is_last_set (s : GateState) (k : Nat) (ops : List GateOp) :
    (gateRun s ops).levels[k]? = ops.foldl (levelTrack k) s.levels[k]? := by
  induction ops generalizing s with
  | nil => simp [gateRun]
  | cons op ops ih =>
    have := ih (gateStep s op)
    simp only [gateRun, List.foldl_cons] at this ⊢
    rw [this, step_level]

/-- Corollary: a history without a `SetLevel` on logger `k` leaves its level alone. -/
theorem level_untouched (s : GateState) (k : Nat) (ops : List GateOp)
    (h : ∀ j l, GateOp.setLevel j l ∈ ops → j ≠ k) :
    (gateRun s ops).levels[k]? = s.levels[k]? := by
  rw [level_is_last_set]
  induction ops generalizing s with
  | nil => rfl
  | cons op ops ih =>
    have hrest : ∀ j l, GateOp.setLevel j l ∈ ops → j ≠ k := fun j l hm => h j l (by simp [hm])
    have hop : levelTrack k s.levels[k]? op = s.levels[k]? := by
      cases op with
      | setLevel j l => simp [levelTrack, h j l (by simp)]
      | register v t => rfl
      | setDebug on => rfl
    simp only [List.foldl_cons, hop]
    exact ih s hrest

-- non-vacuity: three loggers, a history touching loggers 1 and 2; logger 1 ends at its last SetLevel
example : (gateRun { g := {}, levels := [4, 4, 4] }
    [.setLevel 1 2, .setLevel 2 7, .register 9 (some 3), .setLevel 1 6, .setDebug false]).levels = [4, 6, 7] := by decide

theorem admits_congr_non_debug (g g' : Globals) (L r : Int) (hr : r ≠ Lv.debug)
    (ht : g'.treatAs = g.treatAs) : admits g' L r = admits g L r := by
  unfold admits effective
  rw [ht]
  simp [hr]

/-- (6) Setting the level of one logger changes the gating of another logger at most for
    the Debug severity (through the debug switch), and never its level. -/
theorem setLevel_other_loggers (s : GateState) (k j : Nat) (lvl r : Int) (hjk : j ≠ k)
    (hr : r ≠ Lv.debug) :
    (gateStep s (.setLevel k lvl)).levels[j]? = s.levels[j]? ∧
    ∀ L, admits (gateStep s (.setLevel k lvl)).g L r = admits s.g L r := by
  constructor
  · simp [gateStep, Ne.symm hjk]
  · intro L
    exact admits_congr_non_debug _ _ L r hr rfl

/-- (7) A registered level is gated as the level it is treated as. -/
theorem registered_level_gated_as (g : Globals) (v t L : Int) (ht : t < Lv.max)
    (hv : v ≠ Lv.off) (hv' : v ≠ Lv.always) (hv'' : v ≠ Lv.debug)
    (hL : L ≠ Lv.off) (hL' : L ≠ Lv.always) :
    admits { g with treatAs := regTreat g.treatAs v (some t) } L v = decide (t ≤ L) := by
  have hlk : List.lookup v (assocSet g.treatAs v t) = some t := by
    induction g.treatAs with
    | nil => simp [assocSet]
    | cons p m ih =>
      obtain ⟨a, c⟩ := p
      by_cases hav : a = v
      · subst hav; simp [assocSet]
      · have : (v == a) = false := by simpa using fun h => hav h.symm
        simp [assocSet, hav, List.lookup, this, ih]
  simp [admits, effective, regTreat, ht, hv, hv', hv'', hL, hL', hlk]

/-! ### the hypotheses are met by concrete states (non-vacuity) -/

-- a level 17 treated as Info: refused by a Warn logger, admitted by an Info logger
example : admits { treatAs := [(17, 4)] } Lv.warn 17 = false ∧ admits { treatAs := [(17, 4)] } Lv.info 17 = true := by decide
-- debug mode lets Debug through a Warn logger, and only Debug
example : admits { debugMode := true } Lv.warn Lv.debug = true ∧ admits { debugMode := true } Lv.warn Lv.trace = false ∧
    admits {} Lv.warn Lv.debug = false := by decide
-- Off beats Always on either side
example : admits {} Lv.off Lv.always = false ∧ admits {} Lv.always Lv.off = false ∧ admits {} Lv.always Lv.trace = true := by decide
-- a history after which the switch is on although every logger is back at Warn
example : (gateRun { g := {}, levels := [3, 3] } [.setLevel 1 Lv.debug, .setLevel 1 Lv.warn]).g.debugMode = true := by decide

end Logg.Props.C01
