/-
  Bridge theorems for C01: the hand-written admission rule agrees with the function
  regenerated from `Level.Enabled`, and the hand-written level numbers with the iota block.
-/
import Logg.Model.Level
import Logg.Gen.Decisions
import Logg.Gen.EntryPoints
import Logg.Gen.Facts

namespace Logg.Bridge
open Logg

theorem level_constants :
    Gen.PanicLevel = Lv.panic ∧ Gen.FatalLevel = Lv.fatal ∧ Gen.ErrorLevel = Lv.error ∧
    Gen.WarnLevel = Lv.warn ∧ Gen.InfoLevel = Lv.info ∧ Gen.DebugLevel = Lv.debug ∧
    Gen.TraceLevel = Lv.trace ∧ Gen.OffLevel = Lv.off ∧ Gen.AlwaysLevel = Lv.always ∧
    Gen.OKLevel = Lv.ok ∧ Gen.SuccessLevel = Lv.success ∧ Gen.FailLevel = Lv.fail ∧
    Gen.MaxLevel = Lv.max := by decide

/-- `Level.Enabled`, as the code says it now, is the admission rule of the statement —
    for all integer levels and any registry. -/
theorem enabled_eq_admits (g : Globals) (L r : Int) : Gen.enabled g L r = admits g L r := by
  unfold Gen.enabled admits effective Lv.off Lv.always Lv.debug
  cases hlk : List.lookup r g.treatAs <;>
    by_cases h1 : L = 7 <;> by_cases h2 : r = 7 <;> by_cases h3 : L = 8 <;> by_cases h4 : r = 8 <;>
    by_cases h5 : r = 5 <;> cases hd : g.debugMode <;> simp_all
