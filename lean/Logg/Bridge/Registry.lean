/- The registry as the code initialises it (regenerated tables), in the model's vocabulary. -/
import Logg.Model.Registry
import Logg.Gen.Tables

namespace Logg.Bridge
open Logg

/-- The built-in registry, read off the composite literals of slog/level.go. -/
def genRegistry : Registry where
  allLevels := Gen.allLevels
  levelToString := Gen.levelToString
  stringToLevel := Gen.stringToLevel
  shortTags := Gen.shortTagMap
  treatAs := Gen.mLevelIsEnabledAs
  errorDevice := Gen.mLevelUseErrorDevice
  colors := Gen.mLevelColors

end Logg.Bridge
