/-
  Round trip of the JSON string quoting: encoding/json's reading of a string literal (model
  jsonUnquote) applied to what appendEscapedJSONString wrote (model jsonQuote) gives the value back
  byte for byte, for every valid UTF-8 string.
-/
import Logg.Lemmas.QuoteRoundTrip
namespace Logg
open Logg.Lemmas

theorem jsonUnquoteChar_safe (c : UInt8) (rest : Bytes) (h0 : c < 0x80) (hs : jsonSafe c = true) :
    jsonUnquoteChar ([c] ++ rest) = some ([c], rest) := by
  simp only [jsonSafe, Bool.and_eq_true, decide_eq_true_eq, bne_iff_ne, ne_eq] at hs
  obtain ⟨⟨h1, h2⟩, h3⟩ := hs
  have n1 : ¬ c < 0x20 := by
    rw [UInt8.lt_iff_toNat_lt]; rw [UInt8.le_iff_toNat_le] at h1; simp at h1 ⊢; omega
  simp [jsonUnquoteChar, h2, h3, n1, h0]

theorem hexValue_00 (n : Nat) : hexValue (([48, 48] : Bytes) ++ hex2 n) = some (n % 256) := by
  simp only [hexValue, hex2, List.cons_append, List.nil_append, hexValue.hexValueAcc, unhex_hexChar, Option.bind_eq_bind, Option.bind_some]
  have : unhex 48 = some 0 := by decide
  simp only [this, Option.bind_some]
  congr 1; omega

theorem jsonUnquoteChar_escapeByte (c : UInt8) (rest : Bytes) (h0 : c < 0x80) (hs : jsonSafe c = false) :
    jsonUnquoteChar (jsonEscapeByte c ++ rest) = some ([c], rest) := by
  have hr : c.toNat < 128 := by have := UInt8.lt_iff_toNat_lt.mp h0; simpa using this
  unfold jsonEscapeByte
  by_cases h1 : c = 34
  · subst h1; simp [jsonUnquoteChar]
  by_cases h2 : c = 92
  · subst h2; simp [jsonUnquoteChar]
  by_cases h3 : c = 10
  · subst h3; simp [jsonUnquoteChar]
  by_cases h4 : c = 13
  · subst h4; simp [jsonUnquoteChar]
  by_cases h5 : c = 9
  · subst h5; simp [jsonUnquoteChar]
  have e1 : (c == 34 || c == 92) = false := by simp [h1, h2]
  simp only [e1, beq_iff_eq, h3, h4, h5, Bool.false_eq_true, if_false]
  -- \\u00XX
  have ht : ((([48, 48] : Bytes) ++ hex2 c.toNat) ++ rest).take 4 = ([48, 48] : Bytes) ++ hex2 c.toNat := by simp [hex2]
  have hd : ((([48, 48] : Bytes) ++ hex2 c.toNat) ++ rest).drop 4 = rest := by simp [hex2]
  have hm : c.toNat % 256 = c.toNat := Nat.mod_eq_of_lt (by omega)
  have hv := hexValue_00 c.toNat
  rw [hm] at hv
  have hns : isHighSurrogate c.toNat = false := by simp [isHighSurrogate]; omega
  have hnl : isLowSurrogate c.toNat = false := by simp [isLowSurrogate]; omega
  have henc : encodeRune c.toNat = [c] := by rw [encodeRune_ascii _ (by omega), toUInt8_toNat]
  have hshape : (([92, 117, 48, 48] : Bytes) ++ hex2 c.toNat ++ rest) = 92 :: 117 :: ((([48, 48] : Bytes) ++ hex2 c.toNat) ++ rest) := by simp
  rw [hshape]
  simp only [jsonUnquoteChar]
  have hv' : hexValue [48, 48, hexChar (c.toNat / 16), hexChar c.toNat] = some c.toNat := by simpa [hex2] using hv
  simp [hv', hns, hnl, henc, hex2]

/-- the raw UTF-8 encoding of a valid non-ASCII rune is copied -/
theorem jsonUnquoteChar_raw (r : Nat) (h0 : 0x80 ≤ r) (hv : validRune r = true) (rest : Bytes) :
    jsonUnquoteChar (encodeRune r ++ rest) = some (encodeRune r, rest) := by
  have hhigh := encodeRune_high r h0
  have hpos := encodeRune_pos r
  cases he : encodeRune r with
  | nil => rw [he] at hpos; simp at hpos
  | cons c cs =>
    have hc : 128 ≤ c.toNat := hhigh c (by rw [he]; simp)
    have c34 : (c == 34) = false := by
      cases h : c == 34 with
      | false => rfl
      | true => have : c = 34 := by simpa using h
                subst this; simp at hc
    have c92 : (c == 92) = false := by
      cases h : c == 92 with
      | false => rfl
      | true => have : c = 92 := by simpa using h
                subst this; simp at hc
    have c20 : ¬ c < 0x20 := by rw [UInt8.lt_iff_toNat_lt]; simp; omega
    have c80 : ¬ c < 0x80 := by rw [UInt8.lt_iff_toNat_lt]; simp; omega
    have hd := decode_encode r h0 hv rest
    rw [he] at hd
    simp only [List.cons_append] at hd ⊢
    simp only [jsonUnquoteChar, c34, c92, c20, c80, Bool.false_or, decide_false, Bool.false_eq_true, if_false, hd]
    have hne : ¬ (r = runeError ∧ (c :: cs).length = 1) := by
      intro ⟨h1, h2⟩
      have : (encodeRune r).length = 1 := by rw [he]; exact h2
      subst h1
      simp [encodeRune, validRune, runeError, maxRune] at this
    have hcond : (r == runeError && (c :: cs).length == 1) = false := by
      cases hh : (r == runeError && (c :: cs).length == 1) with
      | false => rfl
      | true =>
        simp only [Bool.and_eq_true, beq_iff_eq] at hh
        exact absurd hh hne
    simp only [List.length_cons] at hcond hne ⊢
    simp only [hcond, Bool.false_eq_true, if_false]
    simp

theorem jsonUnquoteChar_ls (r : Nat) (hr : r = 0x2028 ∨ r = 0x2029) (rest : Bytes) :
    jsonUnquoteChar (([92, 117, 50, 48, 50] : Bytes) ++ [hexChar r] ++ rest) = some (encodeRune r, rest) := by
  rcases hr with rfl | rfl
  · have hv : hexValue [50, 48, 50, hexChar 0x2028] = some 0x2028 := by decide
    have : hexChar 0x2028 = 56 := by decide
    simp [jsonUnquoteChar, this, isHighSurrogate, isLowSurrogate]
    have hv' : hexValue [50, 48, 50, 56] = some 0x2028 := by decide
    simp [hv']
  · have : hexChar 0x2029 = 57 := by decide
    simp [jsonUnquoteChar, this, isHighSurrogate, isLowSurrogate]
    have hv' : hexValue [50, 48, 50, 57] = some 0x2029 := by decide
    simp [hv']

theorem jsonUnquoteBody_step (f : Nat) (E Q out : Bytes) (hE : 0 < E.length) (h : jsonUnquoteChar (E ++ Q) = some (out, Q)) :
    jsonUnquoteBody (f + 1) (E ++ Q) = (jsonUnquoteBody f Q).map (out ++ ·) := by
  cases E with
  | nil => simp at hE
  | cons e es =>
    simp only [List.cons_append] at h ⊢
    simp only [jsonUnquoteBody, h]

theorem jsonEscapeByte_pos (c : UInt8) : 0 < (jsonEscapeByte c).length := by
  unfold jsonEscapeByte
  repeat' split
  all_goals simp [hex2]

/-- Reading back what `jsonEscape` wrote gives the original bytes, for every valid UTF-8 string. -/
theorem jsonUnquoteBody_jsonEscape :
    ∀ (fuel : Nat) (s : Bytes), s.length ≤ fuel → validUtf8 fuel s = true →
      ∀ fuel', (jsonEscape fuel s).length ≤ fuel' → jsonUnquoteBody fuel' (jsonEscape fuel s) = some s := by
  intro fuel
  induction fuel with
  | zero =>
    intro s hs _ fuel' _
    have : s = [] := List.eq_nil_of_length_eq_zero (by omega)
    subst this
    cases fuel' <;> simp [jsonEscape, jsonUnquoteBody]
  | succ fuel ih =>
    intro s hs hval fuel' hf
    cases s with
    | nil => cases fuel' <;> simp [jsonEscape, jsonUnquoteBody]
    | cons b0 t =>
      have hlen : t.length ≤ fuel := by simp at hs; omega
      by_cases hb : b0 < 0x80
      · have hd : decodeRune (b0 :: t) = (b0.toNat, 1) := by simp [decodeRune, hb]
        have hr : b0.toNat < 128 := by have := UInt8.lt_iff_toNat_lt.mp hb; simpa using this
        have hvt : validUtf8 fuel t = true := by
          have hne : (b0.toNat == runeError) = false := by simp [runeError]; omega
          simpa [validUtf8, hd, hne] using hval
        by_cases hsafe : jsonSafe b0 = true
        · have hq : jsonEscape (fuel + 1) (b0 :: t) = [b0] ++ jsonEscape fuel t := by simp [jsonEscape, hb, hsafe]
          rw [hq] at hf ⊢
          cases fuel' with
          | zero => rw [List.length_append] at hf; simp at hf
          | succ f =>
            rw [jsonUnquoteBody_step f _ _ [b0] (by simp) (jsonUnquoteChar_safe b0 _ hb hsafe)]
            rw [ih t hlen hvt f (by rw [List.length_append] at hf; simp at hf; omega)]
            simp
        · have hsafe' : jsonSafe b0 = false := by simpa using hsafe
          have hq : jsonEscape (fuel + 1) (b0 :: t) = jsonEscapeByte b0 ++ jsonEscape fuel t := by simp [jsonEscape, hb, hsafe']
          rw [hq] at hf ⊢
          have hpos := jsonEscapeByte_pos b0
          cases fuel' with
          | zero => rw [List.length_append] at hf; omega
          | succ f =>
            rw [jsonUnquoteBody_step f _ _ [b0] hpos (jsonUnquoteChar_escapeByte b0 _ hb hsafe')]
            rw [ih t hlen hvt f (by rw [List.length_append] at hf; omega)]
            simp
      · cases hd : decodeRune (b0 :: t) with
        | mk r w =>
          have hinv : ¬ (w = 1 ∧ r = runeError) := by
            intro ⟨h1, h2⟩
            simp [validUtf8, hd, h1, h2] at hval
          have hcond : (r == runeError && w == 1) = false := by
            cases hh : (r == runeError && w == 1) with
            | false => rfl
            | true => simp only [Bool.and_eq_true, beq_iff_eq] at hh; exact absurd ⟨hh.2, hh.1⟩ hinv
          have hvt : validUtf8 fuel ((b0 :: t).drop w) = true := by
            simpa [validUtf8, hd, hcond] using hval
          obtain ⟨henc, hv, h80, hw⟩ := decode_canonical b0 t hb r w hd hinv
          have hdl : ((b0 :: t).drop w).length ≤ fuel := by simp at hs ⊢; omega
          by_cases hls : r = 0x2028 ∨ r = 0x2029
          · have hls' : (r == 0x2028 || r == 0x2029) = true := by simpa using hls
            have hq : jsonEscape (fuel + 1) (b0 :: t) = (([92, 117, 50, 48, 50] : Bytes) ++ [hexChar r]) ++ jsonEscape fuel ((b0 :: t).drop w) := by
              simp [jsonEscape, hb, hd, hcond, hls']
            rw [hq] at hf ⊢
            cases fuel' with
            | zero => simp at hf
            | succ f =>
              rw [jsonUnquoteBody_step f _ _ (encodeRune r) (by simp) (jsonUnquoteChar_ls r hls _)]
              rw [ih _ hdl hvt f (by rw [List.length_append] at hf; simp at hf; omega)]
              simp [henc]
          · have hls' : (r == 0x2028 || r == 0x2029) = false := by simpa using hls
            have hq : jsonEscape (fuel + 1) (b0 :: t) = (b0 :: t).take w ++ jsonEscape fuel ((b0 :: t).drop w) := by
              simp [jsonEscape, hb, hd, hcond, hls']
            rw [hq, ← henc] at hf ⊢
            have hpos := encodeRune_pos r
            cases fuel' with
            | zero => rw [List.length_append] at hf; omega
            | succ f =>
              rw [jsonUnquoteBody_step f _ _ (encodeRune r) hpos (jsonUnquoteChar_raw r h80 hv _)]
              rw [ih _ hdl hvt f (by rw [List.length_append] at hf; omega)]
              simp [henc]

/-- **Round trip of the JSON string quoting**: decoding the string literal the encoder writes
    gives the value back byte for byte whenever it is valid UTF-8. -/
theorem jsonUnquote_jsonQuote (s : Bytes) (hv : isValidUtf8 s = true) : jsonUnquote (jsonQuote s) = some s := by
  generalize hq : jsonEscape s.length s = body
  have hrt := jsonUnquoteBody_jsonEscape s.length s (Nat.le_refl _) hv body.length (by rw [hq]; exact Nat.le_refl _)
  rw [hq] at hrt
  unfold jsonUnquote jsonQuote
  rw [hq]
  have hlast : (34 :: body ++ [34] : Bytes).getLast? = some 34 := by
    rw [show (34 :: body ++ [34] : Bytes) = (34 :: body) ++ [34] from rfl, List.getLast?_append]; rfl
  have hbody : ((34 :: body ++ [34] : Bytes).drop 1).dropLast = body := by simp
  have hlast' : (34 :: (body ++ [34]) : Bytes).getLast? = some 34 := hlast
  simp [hlast', hrt]
end Logg
