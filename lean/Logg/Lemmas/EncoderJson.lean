/-
  Logg.Lemmas.EncoderJson — the JSON member reader applied to the JSON encoder: for every record the
  line is one object whose members are exactly the fields that were logged, in the order written,
  each value text the encoder's rendering of that value (a nested group again such an object).
-/
import Logg.Model.Encoder
import Logg.Lemmas.JsonRead
import Logg.Lemmas.EncoderLogfmt

namespace Logg
open Logg.Lemmas

/-- a JSON configuration -/
structure JsonCfg (c : EncCfg) : Prop where
  fmt : c.fmt = .json

theorem JsonCfg.json {c : EncCfg} (h : JsonCfg c) : c.json = true := by simp [EncCfg.json, h.fmt]
theorem JsonCfg.noColor {c : EncCfg} (h : JsonCfg c) : c.noColor = true := by simp [EncCfg.noColor, h.fmt]
theorem JsonCfg.quote {c : EncCfg} (h : JsonCfg c) (s : Bytes) : c.quote s = jsonQuote s := by
  simp [EncCfg.quote, quoteValue, h.json]
theorem JsonCfg.comma {c : EncCfg} (h : JsonCfg c) : c.comma = [44] := by simp [EncCfg.comma, h.json]
theorem JsonCfg.colon {c : EncCfg} (h : JsonCfg c) : c.colon = [58] := by simp [EncCfg.colon, h.json]
theorem JsonCfg.key {c : EncCfg} (h : JsonCfg c) (k : Bytes) : c.key k = jsonQuote k := by simp [EncCfg.key, h.json]

/-- the texts a value carries that are written raw between quotes: no quote, no backslash -/
def okJ : (fuel : Nat) → Val → Bool
  | _, .float t => inqB t
  | _, .complex re im => inqB re && inqB im
  | _, .time t => inqB t
  | _, .tstamp t => inqB t
  | _, .floats xs => xs.all inqB
  | _, .complexes xs => xs.all fun p => inqB p.1 && inqB p.2
  | _, .times xs => xs.all inqB
  | 0, .group _ => true
  | fuel + 1, .group items => items.all fun a =>
      match a with
      | none => true
      | some (_, _, v) => okJ fuel v
  | _, _ => true

def attrOKJ (fuel : Nat) : Attr → Bool
  | none => true
  | some (_, _, v) => okJ fuel v

/-- the members a list of attributes stands for: (key literal, value text) -/
def memsOf (c : EncCfg) (fuel : Nat) (as : List Attr) : List (Bytes × Bytes) :=
  as.filterMap fun a => a.map fun kgv => (jsonQuote kgv.1, encVal c fuel kgv.1 kgv.2.2)

/-- step 1 (bytes only): in JSON mode the attribute loop writes its members comma-led, or comma-separated
    when it starts a nested object -/
theorem encAttrs_json (c : EncCfg) (hc : JsonCfg c) (fuel : Nat) (pfx : Bytes) (as : List Attr) :
    encAttrs c fuel pfx false as = commaEach ((memsOf c fuel as).map memOf) ∧
    encAttrs c fuel pfx true as = joinC ((memsOf c fuel as).map memOf) := by
  induction as with
  | nil => simp [encAttrs, memsOf, commaEach, joinC]
  | cons a rest ih =>
    cases a with
    | none => simp only [encAttrs, memsOf, List.filterMap_cons, Option.map_none]; exact ih
    | some kgv =>
      obtain ⟨k, g, v⟩ := kgv
      have hm : memsOf c fuel (some (k, g, v) :: rest) = (jsonQuote k, encVal c fuel k v) :: memsOf c fuel rest := by
        simp [memsOf]
      rw [hm]
      simp only [encAttrs, hc.json, hc.noColor, hc.comma, hc.colon, hc.key, Bool.not_true, Bool.and_false, Bool.false_eq_true, ↓reduceIte,
        List.map_cons, commaEach, joinC, memOf, ih.1, List.nil_append, List.append_assoc, List.cons_append, and_self]

/-! ### every value is one token -/

theorem plainJ_digit (c : UInt8) (h : 48 ≤ c.toNat ∧ c.toNat ≤ 57) : plainJ c = true := by
  simp only [plainJ, Bool.and_eq_true, bne_iff_ne, ne_eq]
  refine ⟨⟨⟨⟨⟨⟨?_, ?_⟩, ?_⟩, ?_⟩, ?_⟩, ?_⟩, ?_⟩ <;> (intro e; subst e; simp at h)

theorem jtok_natDigits (n : Nat) : JTok (natDigits n) :=
  jtok_plain _ (fun c hc => plainJ_digit c (decDigits_digit _ _ c hc))

theorem jtok_intDigits (i : Int) : JTok (intDigits i) := by
  unfold intDigits
  split
  · exact jtok_append (a := [45]) (jtok_plain _ (by decide)) (jtok_natDigits _)
  · exact jtok_natDigits _

theorem jtok_boolText (b : Bool) : JTok (boolText b) := by
  cases b <;> exact jtok_plain _ (by decide)

theorem jinq_of_inqB {t : Bytes} (h : inqB t = true) : JInq t :=
  jinq_plain t (fun c hc => by have := List.all_eq_true.mp h c hc; simpa using this)

theorem jinq_digits (n : Nat) : JInq (natDigits n) :=
  jinq_plain _ (fun c hc => by
    have := decDigits_digit _ _ c hc
    constructor <;> (intro e; subst e; simp at this))

theorem jtok_rawQuoted (t : Bytes) (h : JInq t) : JTok ([34] ++ t ++ [34]) := by
  have := jtok_string t h
  simpa using this

theorem jinq_complexText (re im : Bytes) (h1 : inqB re = true) (h2 : inqB im = true) : JInq (complexText re im) := by
  have l40 : JInq ([40] : Bytes) := jinq_plain _ (by decide)
  have l43 : JInq ([43] : Bytes) := jinq_plain _ (by decide)
  have lend : JInq ([105, 41] : Bytes) := jinq_plain _ (by decide)
  unfold complexText
  split
  · exact jinq_append (jinq_append (jinq_append l40 (jinq_of_inqB h1)) (jinq_of_inqB h2)) lend
  · exact jinq_append (jinq_append (jinq_append l40 (jinq_of_inqB h1)) (jinq_of_inqB h2)) lend
  · exact jinq_append (jinq_append (jinq_append (jinq_append l40 (jinq_of_inqB h1)) l43) (jinq_of_inqB h2)) lend

theorem jin_joinWith (xs : List Bytes) (h : ∀ x ∈ xs, JTok x) : JIn (joinWith [44] xs) := by
  match xs, h with
  | [], _ => exact jin_nil
  | [x], h => simp only [joinWith]; exact jin_of_tok (h x (by simp))
  | x :: y :: rest, h =>
    simp only [joinWith]
    exact jin_append (jin_append (jin_of_tok (h x (by simp))) (jin_byte 44 (Or.inl rfl)))
      (jin_joinWith (y :: rest) (fun z hz => h z (by simp [hz])))

theorem jtok_bracketList (xs : List Bytes) (h : ∀ x ∈ xs, JTok x) : JTok (bracket xs) := by
  unfold bracket
  have := jtok_bracket 91 93 (Or.inl rfl) (Or.inl rfl) _ (jin_joinWith xs h)
  simpa using this

theorem jtok_quote {c : EncCfg} (hc : JsonCfg c) (s : Bytes) : JTok (c.quote s) := by
  rw [hc.quote]; exact jsonQuote_jtok s

def kMessage : Bytes := [109, 101, 115, 115, 97, 103, 101]

theorem scalar_jtok (c : EncCfg) (hc : JsonCfg c) (fuel : Nat) (pfx : Bytes) (v : Val)
    (hok : okJ fuel v = true) (hng : isGroupVal v = false) : JTok (encVal c fuel pfx v) := by
  have hq := jtok_quote hc
  have hj := hc.json
  have hnc := hc.noColor
  cases v with
  | nil => cases fuel <;> (simp only [encVal, hj, ↓reduceIte]; exact jtok_plain _ (by decide))
  | str s => cases fuel <;> (simp only [encVal]; exact hq s)
  | bool b => cases fuel <;> (simp only [encVal]; exact jtok_boolText b)
  | int i => cases fuel <;> (simp only [encVal]; exact jtok_intDigits i)
  | uint n => cases fuel <;> (simp only [encVal, jsonQuoted, hj, ↓reduceIte]; exact jtok_rawQuoted _ (jinq_digits n))
  | float t => cases fuel <;> (simp only [encVal, jsonQuoted, hj, ↓reduceIte]; simp only [okJ] at hok; exact jtok_rawQuoted _ (jinq_of_inqB hok))
  | complex re im =>
    cases fuel <;> (simp only [encVal, jsonQuoted, hj, ↓reduceIte]; simp only [okJ, Bool.and_eq_true] at hok
                    exact jtok_rawQuoted _ (jinq_complexText _ _ hok.1 hok.2))
  | dur t => cases fuel <;> (simp only [encVal]; exact hq t)
  | time t => cases fuel <;> (simp only [encVal, timeText, hnc, ↓reduceIte]; simp only [okJ] at hok; exact jtok_rawQuoted _ (jinq_of_inqB hok))
  | tstamp t => cases fuel <;> (simp only [encVal, tstampText, hnc, ↓reduceIte]; simp only [okJ] at hok; exact jtok_rawQuoted _ (jinq_of_inqB hok))
  | err m =>
    cases fuel <;> (
      simp only [encVal, hc.fmt]
      have := jtok_object [(jsonQuote kMessage, c.quote m)] (by intro p hp; simp only [List.mem_singleton] at hp; subst hp; exact jsonQuote_jtok _)
        (by intro p hp; simp only [List.mem_singleton] at hp; subst hp; exact hq m)
      simpa [joinC, commaEach, memOf, kMessage] using this)
  | bytes bs => cases fuel <;> (simp only [encVal]; exact hq bs)
  | strs xs => cases fuel <;> (simp only [encVal]; exact jtok_bracketList _ (by intro x hx; simp only [List.mem_map] at hx; obtain ⟨y, _, rfl⟩ := hx; exact hq y))
  | bools xs => cases fuel <;> (simp only [encVal]; exact jtok_bracketList _ (by intro x hx; simp only [List.mem_map] at hx; obtain ⟨y, _, rfl⟩ := hx; exact jtok_boolText y))
  | ints xs => cases fuel <;> (simp only [encVal]; exact jtok_bracketList _ (by intro x hx; simp only [List.mem_map] at hx; obtain ⟨y, _, rfl⟩ := hx; exact jtok_intDigits y))
  | uints xs => cases fuel <;> (simp only [encVal]; exact jtok_bracketList _ (by intro x hx; simp only [List.mem_map] at hx; obtain ⟨y, _, rfl⟩ := hx; exact jtok_natDigits y))
  | floats xs =>
    cases fuel <;> (simp only [encVal]; simp only [okJ] at hok
                    exact jtok_bracketList _ (by
                      intro x hx; simp only [List.mem_map] at hx; obtain ⟨y, hy, rfl⟩ := hx
                      simp only [jsonQuoted, hj, ↓reduceIte]; exact jtok_rawQuoted _ (jinq_of_inqB (all_of_all hok y hy))))
  | complexes xs =>
    cases fuel <;> (simp only [encVal]; simp only [okJ, List.all_eq_true, Bool.and_eq_true] at hok
                    exact jtok_bracketList _ (by
                      intro x hx; simp only [List.mem_map] at hx; obtain ⟨y, hy, rfl⟩ := hx
                      simp only [jsonQuoted, hj, ↓reduceIte]
                      exact jtok_rawQuoted _ (jinq_complexText _ _ (hok y hy).1 (hok y hy).2)))
  | durs xs => cases fuel <;> (simp only [encVal]; exact jtok_bracketList _ (by intro x hx; simp only [List.mem_map] at hx; obtain ⟨y, _, rfl⟩ := hx; exact hq y))
  | times xs =>
    cases fuel <;> (simp only [encVal]; simp only [okJ] at hok
                    exact jtok_bracketList _ (by
                      intro x hx; simp only [List.mem_map] at hx; obtain ⟨y, hy, rfl⟩ := hx
                      simp only [timeText, hnc, ↓reduceIte]; exact jtok_rawQuoted _ (jinq_of_inqB (all_of_all hok y hy))))
  | fallback t => cases fuel <;> (simp only [encVal]; exact hq t)
  | textm t fb => cases fuel <;> (simp only [encVal]; split <;> exact hq _)
  | group items => simp [isGroupVal] at hng

def ValStmtJ (c : EncCfg) (fuel : Nat) : Prop :=
  ∀ (v : Val) (pfx : Bytes), okJ fuel v = true → JTok (encVal c fuel pfx v)

theorem memsOf_keys (c : EncCfg) (fuel : Nat) (as : List Attr) : ∀ p ∈ memsOf c fuel as, JTok p.1 := by
  intro p hp
  simp only [memsOf, List.mem_filterMap] at hp
  obtain ⟨a, _, ha⟩ := hp
  cases a with
  | none => simp at ha
  | some kgv => simp only [Option.map_some, Option.some.injEq] at ha; subst ha; exact jsonQuote_jtok _

theorem memsOf_vals (c : EncCfg) (fuel : Nat) (as : List Attr) (hv : ValStmtJ c fuel)
    (hok : ∀ a ∈ as, attrOKJ fuel a = true) : ∀ p ∈ memsOf c fuel as, JTok p.2 := by
  intro p hp
  simp only [memsOf, List.mem_filterMap] at hp
  obtain ⟨a, hmem, ha⟩ := hp
  cases a with
  | none => simp at ha
  | some kgv =>
    obtain ⟨k, g, v⟩ := kgv
    simp only [Option.map_some, Option.some.injEq] at ha; subst ha
    have := hok _ hmem
    simp only [attrOKJ] at this
    exact hv v k this

theorem group_text (c : EncCfg) (hc : JsonCfg c) (fuel : Nat) (pfx : Bytes) (items : List Attr) :
    encVal c (fuel + 1) pfx (.group items) = 123 :: (joinC ((memsOf c fuel (prepAttrs items)).map memOf) ++ [125]) := by
  simp only [encVal, hc.json, ↓reduceIte, (encAttrs_json c hc fuel pfx (prepAttrs items)).2, List.cons_append, List.nil_append]

theorem items_ok (fuel : Nat) (items : List Attr) (hok : okJ (fuel + 1) (.group items) = true) :
    ∀ a ∈ prepAttrs items, attrOKJ fuel a = true := by
  simp only [okJ, List.all_eq_true] at hok
  intro a ha
  have := hok a (prepAttrs_subset items a ha)
  cases a with
  | none => rfl
  | some kgv => obtain ⟨k, g, v⟩ := kgv; simpa [attrOKJ] using this

theorem vals_all_J (c : EncCfg) (hc : JsonCfg c) : ∀ fuel, ValStmtJ c fuel
  | 0 => by
    intro v pfx hok
    cases hgv : isGroupVal v with
    | false => exact scalar_jtok c hc 0 pfx v hok hgv
    | true =>
      cases v with
      | group items => simp only [encVal]; exact jtok_nil
      | _ => simp [isGroupVal] at hgv
  | fuel + 1 => by
    intro v pfx hok
    cases hgv : isGroupVal v with
    | false => exact scalar_jtok c hc (fuel + 1) pfx v hok hgv
    | true =>
      cases v with
      | group items =>
        rw [group_text c hc fuel pfx items]
        exact jtok_object _ (memsOf_keys c fuel _) (memsOf_vals c fuel _ (vals_all_J c hc fuel) (items_ok fuel items hok))
      | _ => simp [isGroupVal] at hgv

/-- a nested group is again an object whose members are exactly the group's attributes -/
theorem group_members (c : EncCfg) (hc : JsonCfg c) (fuel : Nat) (pfx : Bytes) (items : List Attr)
    (hok : okJ (fuel + 1) (.group items) = true) :
    jsonMembers (encVal c (fuel + 1) pfx (.group items)) = some (memsOf c fuel (prepAttrs items)) := by
  rw [group_text c hc fuel pfx items]
  exact jsonMembers_object _ (memsOf_keys c fuel _) (memsOf_vals c fuel _ (vals_all_J c hc fuel) (items_ok fuel items hok))

/-! ### the whole record -/

def kCaller : Bytes := [99, 97, 108, 108, 101, 114]
def kFile : Bytes := [102, 105, 108, 101]
def kLine : Bytes := [108, 105, 110, 101]
def kFunction : Bytes := [102, 117, 110, 99, 116, 105, 111, 110]

/-- time, logger (if named), level, msg: key literals and value texts -/
def headMems (c : EncCfg) (levelName : Bytes) (r : Record) : List (Bytes × Bytes) :=
  (jsonQuote kTime, 34 :: (r.ts ++ [34])) ::
    ((if r.name.isEmpty then [] else [(jsonQuote kLogger, jsonQuote r.name)]) ++
      [(jsonQuote kLevel, c.quote levelName), (jsonQuote kMsg, c.quote r.msg)])

def callerObjMems (c : EncCfg) (file : Bytes) (line : Int) (fn : Bytes) : List (Bytes × Bytes) :=
  [(jsonQuote kFile, c.quote file), (jsonQuote kLine, intDigits line), (jsonQuote kFunction, c.quote fn)]

def callerMems (c : EncCfg) (r : Record) : List (Bytes × Bytes) :=
  match r.caller with
  | none => []
  | some (file, line, fn, _) => [(jsonQuote kCaller, 123 :: (joinC ((callerObjMems c file line fn).map memOf) ++ [125]))]

/-- every member of the record's object, in the order written -/
def jsonFields (c : EncCfg) (levelName : Bytes) (depth : Nat) (r : Record) : List (Bytes × Bytes) :=
  headMems c levelName r ++ memsOf c depth (prepAttrs r.attrs) ++ callerMems c r

theorem plainHead_json (c : EncCfg) (hc : JsonCfg c) (levelName : Bytes) (r : Record) :
    plainHead c levelName r = 123 :: joinC ((headMems c levelName r).map memOf) := by
  by_cases hn : r.name.isEmpty = true
  · simp only [plainHead, headMems, hc.json, hc.comma, hc.colon, hc.key, hn, ↓reduceIte, List.map_cons, List.map_nil, joinC, commaEach, memOf,
      kTime, kLevel, kMsg, List.nil_append, List.append_assoc, List.cons_append, List.append_nil]
  · simp only [plainHead, headMems, hc.json, hc.comma, hc.colon, hc.key, hn, Bool.false_eq_true, ↓reduceIte, List.map_cons, List.map_nil, joinC, commaEach, memOf,
      kTime, kLevel, kMsg, kLogger, List.nil_append, List.append_assoc, List.cons_append, List.append_nil]

theorem plainCaller_json (c : EncCfg) (hc : JsonCfg c) (r : Record) :
    plainCaller c r = commaEach ((callerMems c r).map memOf) := by
  unfold plainCaller callerMems
  cases r.caller with
  | none => rfl
  | some cl =>
    obtain ⟨file, line, fn, shown⟩ := cl
    simp only [hc.json, hc.comma, ↓reduceIte, callerObjMems, List.map_cons, List.map_nil, joinC, commaEach, memOf, kCaller, kFile, kLine, kFunction,
      List.nil_append, List.append_assoc, List.cons_append, List.append_nil]

theorem plainBody_json (c : EncCfg) (hc : JsonCfg c) (levelName : Bytes) (depth : Nat) (r : Record) :
    plainBody c levelName depth r = 123 :: (joinC ((jsonFields c levelName depth r).map memOf) ++ [125]) := by
  have htop : encTopAttrs c depth r.attrs = commaEach ((memsOf c depth (prepAttrs r.attrs)).map memOf) := by
    unfold encTopAttrs
    simp only [hc.noColor, ↓reduceIte, List.append_nil, (encAttrs_json c hc depth [] (prepAttrs r.attrs)).1]
  unfold plainBody
  rw [plainHead_json c hc, htop, plainCaller_json c hc]
  obtain ⟨h0, H, hH⟩ : ∃ h0 H, headMems c levelName r = h0 :: H := ⟨_, _, rfl⟩
  simp only [hc.json, ↓reduceIte, jsonFields, hH, List.map_append, List.map_cons, joinC, commaEach_append, List.cons_append, List.append_assoc]

theorem jsonFields_keys (c : EncCfg) (levelName : Bytes) (depth : Nat) (r : Record) : ∀ p ∈ jsonFields c levelName depth r, JTok p.1 := by
  intro p hp
  simp only [jsonFields, List.mem_append] at hp
  rcases hp with (h | h) | h
  · simp only [headMems, List.mem_cons, List.mem_append, List.not_mem_nil, or_false] at h
    rcases h with h | (h | h | h)
    · rw [h]; exact jsonQuote_jtok _
    · split at h
      · simp at h
      · rw [List.mem_singleton.mp h]; exact jsonQuote_jtok _
    · rw [h]; exact jsonQuote_jtok _
    · rw [h]; exact jsonQuote_jtok _
  · exact memsOf_keys c depth _ p h
  · unfold callerMems at h
    split at h
    · simp at h
    · rw [List.mem_singleton.mp h]; exact jsonQuote_jtok _

theorem jsonFields_vals (c : EncCfg) (hc : JsonCfg c) (levelName : Bytes) (depth : Nat) (r : Record)
    (hts : inqB r.ts = true) (hattrs : ∀ a ∈ r.attrs, attrOKJ depth a = true) : ∀ p ∈ jsonFields c levelName depth r, JTok p.2 := by
  have hq := jtok_quote hc
  intro p hp
  simp only [jsonFields, List.mem_append] at hp
  rcases hp with (h | h) | h
  · simp only [headMems, List.mem_cons, List.mem_append, List.not_mem_nil, or_false] at h
    rcases h with h | (h | h | h)
    · rw [h]; exact jtok_string _ (jinq_of_inqB hts)
    · split at h
      · simp at h
      · rw [List.mem_singleton.mp h]; exact jsonQuote_jtok _
    · rw [h]; exact hq _
    · rw [h]; exact hq _
  · exact memsOf_vals c depth _ (vals_all_J c hc depth) (fun a ha => hattrs a (prepAttrs_subset r.attrs a ha)) p h
  · unfold callerMems at h
    split at h
    · simp at h
    · rw [List.mem_singleton.mp h]
      apply jtok_object
      · intro q hq'
        simp only [callerObjMems, List.mem_cons, List.not_mem_nil, or_false] at hq'
        rcases hq' with h' | h' | h' <;> (rw [h']; exact jsonQuote_jtok _)
      · intro q hq'
        simp only [callerObjMems, List.mem_cons, List.not_mem_nil, or_false] at hq'
        rcases hq' with h' | h' | h'
        · rw [h']; exact hq _
        · rw [h']; exact jtok_intDigits _
        · rw [h']; exact hq _

/-- **the record's object reads back as exactly its fields** -/
theorem plainBody_members (c : EncCfg) (hc : JsonCfg c) (levelName : Bytes) (depth : Nat) (r : Record)
    (hts : inqB r.ts = true) (hattrs : ∀ a ∈ r.attrs, attrOKJ depth a = true) :
    jsonMembers (plainBody c levelName depth r) = some (jsonFields c levelName depth r) := by
  rw [plainBody_json c hc]
  exact jsonMembers_object _ (jsonFields_keys c levelName depth r) (jsonFields_vals c hc levelName depth r hts hattrs)

end Logg
