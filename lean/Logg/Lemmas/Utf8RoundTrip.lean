/-
  UTF-8 round trips: a well-formed multi-byte sequence is the canonical encoding of the rune it
  decodes to (decode_canonical), and decoding the encoding of a valid rune gives the rune back
  whatever follows (decode_encode2/3/4).
-/
import Logg.Lemmas.Utf8
import Logg.Lemmas.Hex
import Logg.Lemmas.QuoteClean
namespace Logg
open Logg.Lemmas

/-- the sequence decoded at the head of `s` is the canonical encoding of the rune it yields -/
theorem decode_canonical (b0 : UInt8) (rest : Bytes) (hb : ¬ b0 < 0x80) (r w : Nat)
    (h : decodeRune (b0 :: rest) = (r, w)) (hne : ¬ (w = 1 ∧ r = runeError)) :
    encodeRune r = (b0 :: rest).take w ∧ validRune r = true ∧ 0x80 ≤ r ∧ 2 ≤ w := by
  simp only [decodeRune] at h
  rw [if_neg hb] at h
  by_cases h1 : b0 < 0xC2
  · rw [if_pos h1] at h; cases h; exact absurd ⟨rfl, rfl⟩ hne
  rw [if_neg h1] at h
  have n0 : 0xC2 ≤ b0.toNat := by
    rw [UInt8.lt_iff_toNat_lt] at h1; simpa using h1
  by_cases h2 : b0 < 0xE0
  · rw [if_pos h2] at h
    have n0' : b0.toNat < 0xE0 := by have := UInt8.lt_iff_toNat_lt.mp h2; simpa using this
    cases rest with
    | nil => cases h; exact absurd ⟨rfl, rfl⟩ hne
    | cons b1 t =>
      simp only at h
      by_cases hc : isCont b1 = true
      · rw [if_pos hc] at h; cases h
        have hc' := hc
        simp only [isCont, Bool.and_eq_true, decide_eq_true_eq] at hc'
        have m1 : 0x80 ≤ b1.toNat := by have := UInt8.le_iff_toNat_le.mp hc'.1; simpa using this
        have m2 : b1.toNat ≤ 0xBF := by have := UInt8.le_iff_toNat_le.mp hc'.2; simpa using this
        have e := two_byte b0 b1 n0 n0' m1 m2
        refine ⟨by rw [e]; rfl, ?_, ?_, by omega⟩
        · rw [rune2]; simp [validRune]; omega
        · rw [rune2]; omega
      · rw [if_neg hc] at h; cases h; exact absurd ⟨rfl, rfl⟩ hne
  rw [if_neg h2] at h
  have n1 : 0xE0 ≤ b0.toNat := by rw [UInt8.lt_iff_toNat_lt] at h2; simpa using h2
  by_cases h3 : b0 < 0xF0
  · rw [if_pos h3] at h
    have n1' : b0.toNat < 0xF0 := by have := UInt8.lt_iff_toNat_lt.mp h3; simpa using this
    match rest, h with
    | [], h => cases h; exact absurd ⟨rfl, rfl⟩ hne
    | [_], h => cases h; exact absurd ⟨rfl, rfl⟩ hne
    | b1 :: b2 :: t, h =>
      simp only at h
      generalize hcond : (decide ((if (b0 == 224) = true then (160 : UInt8) else 128) ≤ b1) &&
        decide (b1 ≤ if (b0 == 237) = true then (159 : UInt8) else 191) && isCont b2) = cond at h
      cases cond with
      | false => simp at h; obtain ⟨rfl, rfl⟩ := h; exact absurd ⟨rfl, rfl⟩ hne
      | true =>
        simp only [if_true] at h
        have hc := hcond
        cases h
        simp only [Bool.and_eq_true, decide_eq_true_eq, isCont] at hc
        obtain ⟨⟨c1, c2⟩, c3, c4⟩ := hc
        have m1 : (if b0.toNat = 0xE0 then 0xA0 else 0x80) ≤ b1.toNat := by
          by_cases hb0 : b0 = 224
          · subst hb0; have := UInt8.le_iff_toNat_le.mp c1; simpa using this
          · have hb0' : b0.toNat ≠ 224 := fun hh => hb0 (UInt8.toNat_inj.mp (by simpa using hh))
            have hbe : (b0 == 224) = false := by simpa using hb0
            rw [hbe] at c1
            rw [if_neg hb0']
            have := UInt8.le_iff_toNat_le.mp c1; simpa using this
        have m1' : b1.toNat ≤ (if b0.toNat = 0xED then 0x9F else 0xBF) := by
          by_cases hb0 : b0 = 237
          · subst hb0; have := UInt8.le_iff_toNat_le.mp c2; simpa using this
          · have hb0' : b0.toNat ≠ 237 := fun hh => hb0 (UInt8.toNat_inj.mp (by simpa using hh))
            have hbe : (b0 == 237) = false := by simpa using hb0
            rw [hbe] at c2
            rw [if_neg hb0']
            have := UInt8.le_iff_toNat_le.mp c2; simpa using this
        have m2 : 0x80 ≤ b2.toNat := by have := UInt8.le_iff_toNat_le.mp c3; simpa using this
        have m2' : b2.toNat ≤ 0xBF := by have := UInt8.le_iff_toNat_le.mp c4; simpa using this
        obtain ⟨e, v, lo⟩ := three_byte b0 b1 b2 n1 n1' m1 m1' m2 m2'
        exact ⟨by rw [e]; rfl, v, by omega, by omega⟩
  rw [if_neg h3] at h
  have n2 : 0xF0 ≤ b0.toNat := by rw [UInt8.lt_iff_toNat_lt] at h3; simpa using h3
  by_cases h4 : b0 < 0xF5
  · rw [if_pos h4] at h
    have n2' : b0.toNat < 0xF5 := by have := UInt8.lt_iff_toNat_lt.mp h4; simpa using this
    match rest, h with
    | [], h => cases h; exact absurd ⟨rfl, rfl⟩ hne
    | [_], h => cases h; exact absurd ⟨rfl, rfl⟩ hne
    | [_, _], h => cases h; exact absurd ⟨rfl, rfl⟩ hne
    | b1 :: b2 :: b3 :: t, h =>
      simp only at h
      generalize hcond : (decide ((if (b0 == 240) = true then (144 : UInt8) else 128) ≤ b1) &&
        decide (b1 ≤ if (b0 == 244) = true then (143 : UInt8) else 191) && isCont b2 && isCont b3) = cond at h
      cases cond with
      | false => simp at h; obtain ⟨rfl, rfl⟩ := h; exact absurd ⟨rfl, rfl⟩ hne
      | true =>
        simp only [if_true] at h
        have hc := hcond
        cases h
        simp only [Bool.and_eq_true, decide_eq_true_eq, isCont] at hc
        obtain ⟨⟨⟨c1, c2⟩, c3, c4⟩, c5, c6⟩ := hc
        have m1 : (if b0.toNat = 0xF0 then 0x90 else 0x80) ≤ b1.toNat := by
          by_cases hb0 : b0 = 240
          · subst hb0; have := UInt8.le_iff_toNat_le.mp c1; simpa using this
          · have hb0' : b0.toNat ≠ 240 := fun hh => hb0 (UInt8.toNat_inj.mp (by simpa using hh))
            have hbe : (b0 == 240) = false := by simpa using hb0
            rw [hbe] at c1
            rw [if_neg hb0']
            have := UInt8.le_iff_toNat_le.mp c1; simpa using this
        have m1' : b1.toNat ≤ (if b0.toNat = 0xF4 then 0x8F else 0xBF) := by
          by_cases hb0 : b0 = 244
          · subst hb0; have := UInt8.le_iff_toNat_le.mp c2; simpa using this
          · have hb0' : b0.toNat ≠ 244 := fun hh => hb0 (UInt8.toNat_inj.mp (by simpa using hh))
            have hbe : (b0 == 244) = false := by simpa using hb0
            rw [hbe] at c2
            rw [if_neg hb0']
            have := UInt8.le_iff_toNat_le.mp c2; simpa using this
        have m2 : 0x80 ≤ b2.toNat := by have := UInt8.le_iff_toNat_le.mp c3; simpa using this
        have m2' : b2.toNat ≤ 0xBF := by have := UInt8.le_iff_toNat_le.mp c4; simpa using this
        have m3 : 0x80 ≤ b3.toNat := by have := UInt8.le_iff_toNat_le.mp c5; simpa using this
        have m3' : b3.toNat ≤ 0xBF := by have := UInt8.le_iff_toNat_le.mp c6; simpa using this
        obtain ⟨e, v, lo⟩ := four_byte b0 b1 b2 b3 n2 n2' m1 m1' m2 m2' m3 m3'
        exact ⟨by rw [e]; rfl, v, by omega, by omega⟩
  · rw [if_neg h4] at h; cases h; exact absurd ⟨rfl, rfl⟩ hne
theorem decode_encode2 (r : Nat) (h0 : 0x80 ≤ r) (h1 : r < 0x800) (t : Bytes) :
    decodeRune (encodeRune r ++ t) = (r, 2) := by
  have hv : validRune r = true := by simp [validRune]; omega
  unfold encodeRune
  simp only [hv, if_true]
  rw [if_neg (by omega), if_pos h1, lead2 r h1, cont0 r]
  generalize hb0 : (192 + r / 64).toUInt8 = b0
  generalize hb1 : (128 + r % 64).toUInt8 = b1
  have e0 : b0.toNat = 192 + r / 64 := by rw [← hb0]; exact toUInt8_toNat_small _ (by omega)
  have e1 : b1.toNat = 128 + r % 64 := by rw [← hb1]; exact toUInt8_toNat_small _ (by omega)
  simp only [List.cons_append, List.nil_append, decodeRune]
  have c0 : ¬ b0 < 0x80 := by rw [UInt8.lt_iff_toNat_lt]; simp; omega
  have c1 : ¬ b0 < 0xC2 := by rw [UInt8.lt_iff_toNat_lt]; simp; omega
  have c2 : b0 < 0xE0 := by rw [UInt8.lt_iff_toNat_lt]; simp; omega
  have c3 : isCont b1 = true := by
    simp only [isCont, Bool.and_eq_true, decide_eq_true_eq, UInt8.le_iff_toNat_le]; simp; omega
  rw [if_neg c0, if_neg c1, if_pos c2, if_pos c3, rune2, e0, e1]
  congr 1
  omega

theorem decode_encode3 (r : Nat) (h0 : 0x800 ≤ r) (h1 : r < 0x10000) (hv : validRune r = true) (t : Bytes) :
    decodeRune (encodeRune r ++ t) = (r, 3) := by
  have hs : r < 0xD800 ∨ 0xDFFF < r := by
    simp [validRune, maxRune] at hv; omega
  unfold encodeRune
  simp only [hv, if_true]
  rw [if_neg (by omega), if_neg (by omega), if_pos h1, lead3 r h1, cont6 r, cont0 r]
  generalize hb0 : (224 + r / 4096).toUInt8 = b0
  generalize hb1 : (128 + r / 64 % 64).toUInt8 = b1
  generalize hb2 : (128 + r % 64).toUInt8 = b2
  have e0 : b0.toNat = 224 + r / 4096 := by rw [← hb0]; exact toUInt8_toNat_small _ (by omega)
  have e1 : b1.toNat = 128 + r / 64 % 64 := by rw [← hb1]; exact toUInt8_toNat_small _ (by omega)
  have e2 : b2.toNat = 128 + r % 64 := by rw [← hb2]; exact toUInt8_toNat_small _ (by omega)
  simp only [List.cons_append, List.nil_append, decodeRune]
  have c0 : ¬ b0 < 0x80 := by rw [UInt8.lt_iff_toNat_lt]; simp; omega
  have c1 : ¬ b0 < 0xC2 := by rw [UInt8.lt_iff_toNat_lt]; simp; omega
  have c2 : ¬ b0 < 0xE0 := by rw [UInt8.lt_iff_toNat_lt]; simp; omega
  have c3 : b0 < 0xF0 := by rw [UInt8.lt_iff_toNat_lt]; simp; omega
  have c4 : (decide ((if (b0 == 224) = true then (160 : UInt8) else 128) ≤ b1) &&
        decide (b1 ≤ if (b0 == 237) = true then (159 : UInt8) else 191) && isCont b2) = true := by
    simp only [isCont, Bool.and_eq_true, decide_eq_true_eq]
    refine ⟨⟨?_, ?_⟩, ?_, ?_⟩
    · by_cases hb : b0 = 224
      · have : b0.toNat = 224 := by rw [hb]; rfl
        simp only [hb, beq_self_eq_true, if_true, UInt8.le_iff_toNat_le]; simp; omega
      · have hbe : (b0 == 224) = false := by simpa using hb
        simp only [hbe, UInt8.le_iff_toNat_le]; simp; omega
    · by_cases hb : b0 = 237
      · have : b0.toNat = 237 := by rw [hb]; rfl
        simp only [hb, beq_self_eq_true, if_true, UInt8.le_iff_toNat_le]; simp; omega
      · have hbe : (b0 == 237) = false := by simpa using hb
        simp only [hbe, UInt8.le_iff_toNat_le]; simp; omega
    · rw [UInt8.le_iff_toNat_le]; simp; omega
    · rw [UInt8.le_iff_toNat_le]; simp; omega
  rw [if_neg c0, if_neg c1, if_neg c2, if_pos c3]
  simp only [c4, if_true]
  rw [rune3, e0, e1, e2]
  congr 1
  omega

theorem decode_encode4 (r : Nat) (h0 : 0x10000 ≤ r) (hv : validRune r = true) (t : Bytes) :
    decodeRune (encodeRune r ++ t) = (r, 4) := by
  have hs : r ≤ 0x10FFFF := by
    unfold validRune maxRune at hv
    simp only [Bool.or_eq_true, Bool.and_eq_true, decide_eq_true_eq] at hv
    omega
  unfold encodeRune
  simp only [hv, if_true]
  rw [if_neg (by omega), if_neg (by omega), if_neg (by omega), lead4 r (by omega), cont12 r, cont6 r, cont0 r]
  generalize hb0 : (240 + r / 262144).toUInt8 = b0
  generalize hb1 : (128 + r / 4096 % 64).toUInt8 = b1
  generalize hb2 : (128 + r / 64 % 64).toUInt8 = b2
  generalize hb3 : (128 + r % 64).toUInt8 = b3
  have e0 : b0.toNat = 240 + r / 262144 := by rw [← hb0]; exact toUInt8_toNat_small _ (by omega)
  have e1 : b1.toNat = 128 + r / 4096 % 64 := by rw [← hb1]; exact toUInt8_toNat_small _ (by omega)
  have e2 : b2.toNat = 128 + r / 64 % 64 := by rw [← hb2]; exact toUInt8_toNat_small _ (by omega)
  have e3 : b3.toNat = 128 + r % 64 := by rw [← hb3]; exact toUInt8_toNat_small _ (by omega)
  simp only [List.cons_append, List.nil_append, decodeRune]
  have c0 : ¬ b0 < 0x80 := by rw [UInt8.lt_iff_toNat_lt]; simp; omega
  have c1 : ¬ b0 < 0xC2 := by rw [UInt8.lt_iff_toNat_lt]; simp; omega
  have c2 : ¬ b0 < 0xE0 := by rw [UInt8.lt_iff_toNat_lt]; simp; omega
  have c3 : ¬ b0 < 0xF0 := by rw [UInt8.lt_iff_toNat_lt]; simp; omega
  have c3' : b0 < 0xF5 := by rw [UInt8.lt_iff_toNat_lt]; simp; omega
  have c4 : (decide ((if (b0 == 240) = true then (144 : UInt8) else 128) ≤ b1) &&
        decide (b1 ≤ if (b0 == 244) = true then (143 : UInt8) else 191) && isCont b2 && isCont b3) = true := by
    simp only [isCont, Bool.and_eq_true, decide_eq_true_eq]
    refine ⟨⟨⟨?_, ?_⟩, ?_, ?_⟩, ?_, ?_⟩
    · by_cases hb : b0 = 240
      · have : b0.toNat = 240 := by rw [hb]; rfl
        simp only [hb, beq_self_eq_true, if_true, UInt8.le_iff_toNat_le]; simp; omega
      · have hbe : (b0 == 240) = false := by simpa using hb
        simp only [hbe, UInt8.le_iff_toNat_le]; simp; omega
    · by_cases hb : b0 = 244
      · have : b0.toNat = 244 := by rw [hb]; rfl
        simp only [hb, beq_self_eq_true, if_true, UInt8.le_iff_toNat_le]; simp; omega
      · have hbe : (b0 == 244) = false := by simpa using hb
        simp only [hbe, UInt8.le_iff_toNat_le]; simp; omega
    · rw [UInt8.le_iff_toNat_le]; simp; omega
    · rw [UInt8.le_iff_toNat_le]; simp; omega
    · rw [UInt8.le_iff_toNat_le]; simp; omega
    · rw [UInt8.le_iff_toNat_le]; simp; omega
  rw [if_neg c0, if_neg c1, if_neg c2, if_neg c3, if_pos c3']
  simp only [c4, if_true]
  rw [rune4, e0, e1, e2, e3]
  congr 1
  omega
end Logg
