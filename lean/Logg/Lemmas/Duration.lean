/-
  Logg.Lemmas.Duration — the parser reads back what the formatter wrote (C20).

  `leadingInt` / `leadingFraction` over digit lists, the value of `decDigits` and `fracDigits`
  as digit lists, `unitSpan` over the concrete unit texts, and one round of `parseLoop` over a
  printed field.
-/
import Logg.Model.Duration
import Logg.Lemmas.SgrBase

namespace Logg
open Logg.Lemmas

/-- value of a digit list read most-significant first on top of x -/
def dval (ds : Bytes) (x : Nat) : Nat := ds.foldl (fun x c => x * 10 + (c.toNat - 48)) x

@[simp] theorem dval_nil (x : Nat) : dval [] x = x := by simp only [dval, List.foldl_nil]
@[simp] theorem dval_cons (c : UInt8) (ds : Bytes) (x : Nat) : dval (c :: ds) x = dval ds (x * 10 + (c.toNat - 48)) := by
  simp only [dval, List.foldl_cons]
theorem dval_append (a b : Bytes) (x : Nat) : dval (a ++ b) x = dval b (dval a x) := by
  simp [dval, List.foldl_append]

theorem dval_ge (ds : Bytes) (x : Nat) : x ≤ dval ds x := by
  induction ds generalizing x with
  | nil => simp
  | cons c ds ih => have := ih (x * 10 + (c.toNat - 48)); simp only [dval_cons]; omega

def AllDig (ds : Bytes) : Prop := ∀ c ∈ ds, 48 ≤ c.toNat ∧ c.toNat ≤ 57

theorem notDigitTest_of_dig (c : UInt8) (h : 48 ≤ c.toNat ∧ c.toNat ≤ 57) : (c < 48 || c > 57) = false := by
  have h1 : ¬ c < 48 := by rw [UInt8.lt_iff_toNat_lt]; simp; omega
  have h2 : ¬ c > 57 := by show ¬ (57 : UInt8) < c; rw [UInt8.lt_iff_toNat_lt]; simp; omega
  simp [h1, h2]

theorem two63_val : two63 = 9223372036854775808 := by decide

/-- what follows a number: nothing, or a byte that is not a digit -/
def Stops (rest : Bytes) : Prop := match rest with
  | [] => True
  | c :: _ => (c < 48 || c > 57) = true

theorem leadingInt_stop (rest : Bytes) (y : Nat) (h : Stops rest) : leadingInt rest y = some (y, rest) := by
  cases rest with
  | nil => rfl
  | cons c r => simp only [Stops] at h; simp only [leadingInt, h, ↓reduceIte]

theorem leadingInt_digits (ds rest : Bytes) (x : Nat) (hd : AllDig ds) (hb : dval ds x ≤ two63) :
    leadingInt (ds ++ rest) x = leadingInt rest (dval ds x) := by
  induction ds generalizing x with
  | nil => simp
  | cons c ds ih =>
    have hc := notDigitTest_of_dig c (hd c (by simp))
    have hge := dval_ge ds (x * 10 + (c.toNat - 48))
    simp only [dval_cons] at hb
    have h1 : ¬ x > two63 / 10 := by rw [two63_val] at *; omega
    have h2 : ¬ x * 10 + (c.toNat - 48) > two63 := by omega
    simp only [List.cons_append, leadingInt, hc, h1, h2, ↓reduceIte, Bool.false_eq_true, dval_cons]
    exact ih _ (fun c' hc' => hd c' (by simp [hc'])) hb

/-- decimal digits of v have value v -/
theorem dval_decDigits (f v : Nat) (hv : v < 10 ^ f) : dval (decDigits f v) 0 = v := by
  induction f generalizing v with
  | zero => simp at hv; subst hv; rfl
  | succ f ih =>
    simp only [decDigits]
    split
    · rename_i h; simp; omega
    · rename_i h
      have hdiv : v / 10 < 10 ^ f := by
        rw [Nat.div_lt_iff_lt_mul (by decide)]; rw [Nat.pow_succ] at hv; exact hv
      have hm : v % 10 < 10 := Nat.mod_lt _ (by decide)
      rw [dval_append, ih _ hdiv]
      simp
      omega

theorem decDigits_ne_nil (f v : Nat) : decDigits (f + 1) v ≠ [] := by
  simp only [decDigits]; split <;> simp

theorem fmtInt_allDig (v : Nat) : AllDig (fmtInt v) := decDigits_digit _ _

theorem fmtInt_val (v : Nat) : dval (fmtInt v) 0 = v :=
  dval_decDigits _ _ (by have := Nat.lt_pow_self (show 1 < 10 by decide) (n := v + 1); omega)

theorem fmtInt_ne_nil (v : Nat) : fmtInt v ≠ [] := decDigits_ne_nil _ _

theorem leadingInt_fmtInt (v : Nat) (rest : Bytes) (hv : v ≤ two63) (hr : Stops rest) :
    leadingInt (fmtInt v ++ rest) 0 = some (v, rest) := by
  rw [leadingInt_digits _ _ _ (fmtInt_allDig v) (by rw [fmtInt_val]; exact hv), fmtInt_val]
  exact leadingInt_stop _ _ hr

/-! ### the fraction -/

theorem leadingFraction_stop (rest : Bytes) (x k : Nat) (h : Stops rest) :
    leadingFraction rest x k false = (x, k, rest) := by
  cases rest with
  | nil => rfl
  | cons c r => simp only [Stops] at h; simp only [leadingFraction, h, ↓reduceIte]

theorem leadingFraction_digits (ds rest : Bytes) (x k m : Nat) (hd : AllDig ds) (hx : x < 10 ^ m) (hm : m + ds.length ≤ 18) :
    leadingFraction (ds ++ rest) x k false = leadingFraction rest (dval ds x) (k + ds.length) false ∧ dval ds x < 10 ^ (m + ds.length) := by
  induction ds generalizing x k m with
  | nil => simp [hx]
  | cons c ds ih =>
    have hcd := hd c (by simp)
    have hc := notDigitTest_of_dig c hcd
    simp only [List.length_cons] at hm
    have hy : x * 10 + (c.toNat - 48) < 10 ^ (m + 1) := by rw [Nat.pow_succ]; omega
    have hp : 10 ^ (m + 1) ≤ 10 ^ 18 := Nat.pow_le_pow_right (by decide) (by omega)
    have hp0 : 10 ^ m ≤ 10 ^ 17 := Nat.pow_le_pow_right (by decide) (by omega)
    have h1 : ¬ x > (two63 - 1) / 10 := by rw [two63_val]; omega
    have h2 : ¬ x * 10 + (c.toNat - 48) > two63 := by rw [two63_val]; omega
    have := ih (x * 10 + (c.toNat - 48)) (k + 1) (m + 1) (fun c' hc' => hd c' (by simp [hc'])) hy (by omega)
    simp only [List.cons_append, leadingFraction, hc, h1, h2, ↓reduceIte, Bool.false_eq_true, dval_cons, List.length_cons]
    constructor
    · rw [this.1]; congr 1; omega
    · have e : m + 1 + ds.length = m + (ds.length + 1) := by omega
      rw [← e]; exact this.2

/-! ### `fracDigits` as a digit list -/

theorem fracDigits_allDig (p v : Nat) (pr : Bool) : AllDig (fracDigits p v pr) := by
  induction p generalizing v pr with
  | zero => intro c hc; simp [fracDigits] at hc
  | succ p ih =>
    intro c hc
    simp only [fracDigits] at hc
    rcases List.mem_append.mp hc with h | h
    · exact ih _ _ c h
    · split at h
      · have := List.mem_singleton.mp h; subst this
        have : v % 10 < 10 := Nat.mod_lt _ (by decide)
        rw [toUInt8_toNat_small _ (by omega)]; omega
      · simp at h

theorem fracDigits_length_le (p v : Nat) (pr : Bool) : (fracDigits p v pr).length ≤ p := by
  induction p generalizing v pr with
  | zero => simp [fracDigits]
  | succ p ih =>
    simp only [fracDigits]
    have := ih (v / 10) (pr || v % 10 != 0)
    split <;> simp <;> omega

theorem mod_pow_succ (v p : Nat) : v % 10 ^ (p + 1) = v % 10 + 10 * (v / 10 % 10 ^ p) := by
  rw [Nat.pow_succ, Nat.mul_comm, Nat.mod_mul]

theorem fracDigits_true (p v : Nat) : (fracDigits p v true).length = p ∧ dval (fracDigits p v true) 0 = v % 10 ^ p := by
  induction p generalizing v with
  | zero => simp [fracDigits, Nat.mod_one]
  | succ p ih =>
    have hm : v % 10 < 10 := Nat.mod_lt _ (by decide)
    have := ih (v / 10)
    simp only [fracDigits, Bool.true_or, ↓reduceIte, List.length_append, List.length_singleton, dval_append, this.1, this.2,
      dval_cons, dval_nil, toUInt8_toNat_small _ (by omega : 48 + v % 10 < 256), mod_pow_succ]
    constructor
    · trivial
    · omega

theorem fracDigits_false (p v : Nat) :
    dval (fracDigits p v false) 0 * 10 ^ (p - (fracDigits p v false).length) = v % 10 ^ p := by
  induction p generalizing v with
  | zero => simp [fracDigits, Nat.mod_one]
  | succ p ih =>
    have hm : v % 10 < 10 := Nat.mod_lt _ (by decide)
    by_cases h0 : v % 10 = 0
    · have hl := fracDigits_length_le p (v / 10) false
      have := ih (v / 10)
      have e : p + 1 - (fracDigits p (v / 10) false).length = (p - (fracDigits p (v / 10) false).length) + 1 := by omega
      simp only [fracDigits, h0, Bool.false_or, bne_self_eq_false, Bool.false_eq_true, ↓reduceIte, List.append_nil, mod_pow_succ]
      rw [e, Nat.pow_succ, ← Nat.mul_assoc, this]; omega
    · have := fracDigits_true p (v / 10)
      have hb : (v % 10 != 0) = true := by simp [h0]
      simp only [fracDigits, hb, Bool.false_or, ↓reduceIte, List.length_append, List.length_singleton, dval_append, this.1, this.2,
        dval_cons, dval_nil, toUInt8_toNat_small _ (by omega : 48 + v % 10 < 256), mod_pow_succ, Nat.sub_self, Nat.pow_zero]
      omega

/-! ### units -/

/-- a byte that can start a number -/
def numStart (c : UInt8) : Bool := c == 46 || (48 ≤ c && c ≤ 57)

/-- what follows a unit: nothing, or the start of the next number -/
def Starts (rest : Bytes) : Prop := match rest with
  | [] => True
  | c :: _ => numStart c = true

theorem unitSpan_unit (u rest : Bytes) (hu : ∀ c ∈ u, numStart c = false) (hr : Starts rest) :
    unitSpan (u ++ rest) = (u, rest) := by
  induction u with
  | nil =>
    cases rest with
    | nil => rfl
    | cons c r => simp only [Starts, numStart] at hr; simp only [List.nil_append, unitSpan, hr, ↓reduceIte]
  | cons c u ih =>
    have hc := hu c (by simp)
    simp only [numStart] at hc
    simp only [List.cons_append, unitSpan, hc, Bool.false_eq_true, ↓reduceIte, ih (fun c' hc' => hu c' (by simp [hc']))]

theorem fmtInt_head (v : Nat) : ∃ c t, fmtInt v = c :: t ∧ numStart c = true := by
  have hne := fmtInt_ne_nil v
  cases h : fmtInt v with
  | nil => exact absurd h hne
  | cons c t =>
    refine ⟨c, t, rfl, ?_⟩
    have hd := fmtInt_allDig v c (by rw [h]; simp)
    have h1 : (48 : UInt8) ≤ c := by rw [UInt8.le_iff_toNat_le]; simp; omega
    have h2 : c ≤ (57 : UInt8) := by rw [UInt8.le_iff_toNat_le]; simp; omega
    simp [numStart, h1, h2]

theorem stops_of_notNumStart (c : UInt8) (r : Bytes) (h : numStart c = false) : Stops (c :: r) := by
  simp only [numStart, Bool.or_eq_false_iff, Bool.and_eq_false_iff, decide_eq_false_iff_not] at h
  simp only [Stops, Bool.or_eq_true, decide_eq_true_eq]
  rcases h.2 with h2 | h2
  · left; rw [UInt8.lt_iff_toNat_lt]; rw [UInt8.le_iff_toNat_le] at h2; omega
  · right; show (57 : UInt8) < c; rw [UInt8.lt_iff_toNat_lt]; rw [UInt8.le_iff_toNat_le] at h2; omega

/-- a unit text as the formatter writes it -/
structure UnitText (u : Bytes) : Prop where
  ne : u ≠ []
  clean : ∀ c ∈ u, numStart c = false

theorem UnitText.stops {u : Bytes} (hu : UnitText u) (rest : Bytes) : Stops (u ++ rest) := by
  cases u with
  | nil => exact absurd rfl hu.ne
  | cons c t => exact stops_of_notNumStart c _ (hu.clean c (by simp))

theorem UnitText.head_ne_dot {u : Bytes} (hu : UnitText u) : ∃ c t, u = c :: t ∧ c ≠ 46 := by
  cases u with
  | nil => exact absurd rfl hu.ne
  | cons c t =>
    refine ⟨c, t, rfl, ?_⟩
    have := hu.clean c (by simp)
    intro h; subst h; simp [numStart] at this

/-! ### one round over a printed field -/

theorem fracPart_none (c : UInt8) (t : Bytes) (h : c ≠ 46) : fracPart (c :: t) = (0, 0, c :: t, false) := by
  unfold fracPart
  split
  · rename_i heq; injection heq with h1 _; exact absurd h1 h
  · rfl

theorem fracPart_dot (ds rest : Bytes) (hd : AllDig ds) (hl : ds.length ≤ 18) (hne : ds ≠ []) (hr : Stops rest) :
    fracPart (46 :: (ds ++ rest)) = (dval ds 0, ds.length, rest, true) := by
  have h := (leadingFraction_digits ds rest 0 0 0 hd (by decide) (by omega)).1
  rw [leadingFraction_stop _ _ _ hr] at h
  have hlen : (rest.length != (ds ++ rest).length) = true := by
    have : ds.length ≠ 0 := by cases ds with
      | nil => exact absurd rfl hne
      | cons _ _ => simp
    simp only [List.length_append, bne_iff_ne]; omega
  simp only [fracPart, h, hlen, Nat.zero_add]

/-- a whole-number field: "12h" -/
theorem parseRound_plain (units : List (Bytes × Nat)) (fmul : Nat → Nat → Nat → Nat) (v : Nat) (u rest : Bytes) (U d : Nat)
    (hu : UnitText u) (hr : Starts rest) (hl : units.lookup u = some U) (hU : 0 < U) (hb : d + v * U ≤ two63) :
    parseRound units fmul (fmtInt v ++ (u ++ rest)) d = .ok (rest, d + v * U) := by
  obtain ⟨c, t, hct, hc⟩ := fmtInt_head v
  have hv : v ≤ two63 := by
    have : v ≤ v * U := Nat.le_mul_of_pos_right _ hU
    omega
  have hli := leadingInt_fmtInt v (u ++ rest) hv (hu.stops rest)
  obtain ⟨cu, tu, hcu, hne⟩ := hu.head_ne_dot
  have hus := unitSpan_unit u rest hu.clean hr
  have hdiv : ¬ v > two63 / U := by
    have : v ≤ two63 / U := (Nat.le_div_iff_mul_le hU).mpr (by omega)
    omega
  have hlen : ((u ++ rest).length != (fmtInt v ++ (u ++ rest)).length) = true := by
    have : (fmtInt v).length ≠ 0 := by rw [hct]; simp
    simp only [List.length_append, bne_iff_ne]; omega
  have hmod : (d + v * U) % 2 ^ 64 = d + v * U := Nat.mod_eq_of_lt (by rw [two63_val] at hb; omega)
  have hnu : u.isEmpty = false := by rw [hcu]; rfl
  simp only [numStart] at hc
  unfold parseRound roundScan unitApply
  rw [hct] at hli hlen ⊢
  simp only [List.cons_append] at hli hlen ⊢
  simp only [hc, hli, hlen, Bool.not_true, Bool.false_eq_true, ↓reduceIte]
  rw [hcu] at hus hnu hl ⊢
  simp only [List.cons_append] at hus ⊢
  have : ¬ d + v * U > two63 := by omega
  simp only [fracPart_none cu _ hne, Bool.not_false, Bool.and_true, Bool.false_eq_true, ↓reduceIte, hus, hnu, hl, hdiv, Nat.lt_irrefl,
      Bool.false_and, hmod, decide_false, this]

theorem fmtFrac_fst (w p : Nat) : (fmtFrac w p).1 = if (fracDigits p w false).isEmpty then [] else 46 :: fracDigits p w false := rfl

/-- a field with a fraction: "1.5µs", "10.000000001s" (the unit is 10^p and p digits were available) -/
theorem parseRound_frac (units : List (Bytes × Nat)) (i w p : Nat) (u rest : Bytes) (d : Nat)
    (hp : p ≤ 18) (hu : UnitText u) (hr : Starts rest) (hl : units.lookup u = some (10 ^ p))
    (hb : d + i * 10 ^ p + w % 10 ^ p ≤ two63) :
    parseRound units fmulExact (fmtInt i ++ ((fmtFrac w p).1 ++ (u ++ rest))) d = .ok (rest, d + i * 10 ^ p + w % 10 ^ p) := by
  have hU : 0 < 10 ^ p := Nat.pow_pos (by decide)
  have hval := fracDigits_false p w
  have hlen := fracDigits_length_le p w false
  rw [fmtFrac_fst]
  generalize hds : fracDigits p w false = ds at hval hlen
  cases ds with
  | nil =>
    simp only [dval_nil, Nat.zero_mul] at hval
    have := parseRound_plain units fmulExact i u rest (10 ^ p) d hu hr hl hU (by omega)
    simp only [List.isEmpty_nil, ↓reduceIte, List.nil_append, ← hval, Nat.add_zero]
    exact this
  | cons c0 t0 =>
    have hdig : AllDig (c0 :: t0) := by rw [← hds]; exact fracDigits_allDig _ _ _
    obtain ⟨c, t, hct, hc⟩ := fmtInt_head i
    have hi : i ≤ two63 := by
      have : i ≤ i * 10 ^ p := Nat.le_mul_of_pos_right _ hU
      omega
    have hstop : Stops (46 :: (c0 :: t0 ++ (u ++ rest))) := by simp [Stops]
    have hli := leadingInt_fmtInt i _ hi hstop
    have hfp := fracPart_dot (c0 :: t0) (u ++ rest) hdig (by omega) (by simp) (hu.stops rest)
    have hus := unitSpan_unit u rest hu.clean hr
    have hnu : u.isEmpty = false := by
      cases u with
      | nil => exact absurd rfl hu.ne
      | cons _ _ => rfl
    have hdiv : ¬ i > two63 / 10 ^ p := by
      have : i ≤ two63 / 10 ^ p := (Nat.le_div_iff_mul_le hU).mpr (by omega)
      omega
    have hfm : fmulExact (dval (c0 :: t0) 0) (10 ^ p) (c0 :: t0).length = w % 10 ^ p := by
      unfold fmulExact
      rw [Nat.pow_div hlen (by decide)]; exact hval
    have hsum : (if dval (c0 :: t0) 0 > 0 then i * 10 ^ p + fmulExact (dval (c0 :: t0) 0) (10 ^ p) (c0 :: t0).length else i * 10 ^ p)
        = i * 10 ^ p + w % 10 ^ p := by
      split
      · rw [hfm]
      · rename_i h0
        have : dval (c0 :: t0) 0 = 0 := by omega
        rw [this, Nat.zero_mul] at hval; omega
    have hmod : (d + (i * 10 ^ p + w % 10 ^ p)) % 2 ^ 64 = d + i * 10 ^ p + w % 10 ^ p :=
      by rw [← Nat.add_assoc]; exact Nat.mod_eq_of_lt (by rw [two63_val] at hb; omega)
    have hle : ¬ i * 10 ^ p + w % 10 ^ p > two63 := by omega
    have hle2 : ¬ d + i * 10 ^ p + w % 10 ^ p > two63 := by omega
    simp only [numStart] at hc
    unfold parseRound roundScan unitApply
    rw [hct] at hli ⊢
    simp only [List.cons_append, List.isEmpty_cons, Bool.false_eq_true, ↓reduceIte] at hli hfp ⊢
    simp only [hc, hli, hfp, Bool.not_true, Bool.false_eq_true, ↓reduceIte, hus, hnu, hl, hdiv, hsum,
      hle, decide_false, Bool.and_false, hmod, hle2]

/-! ### the loop over a row of printed fields -/

/-- (value, unit text, unit in ns) -/
abbrev Fld := Nat × Bytes × Nat

def fieldsText : List Fld → Bytes
  | [] => []
  | (v, u, _) :: r => fmtInt v ++ (u ++ fieldsText r)

def fieldsSum : List Fld → Nat
  | [] => 0
  | (v, _, U) :: r => v * U + fieldsSum r

/-- zero fields omitted, as the compact style writes them -/
def optText : List Fld → Bytes
  | [] => []
  | (v, u, _) :: r => field v u ++ optText r

def GoodFld (units : List (Bytes × Nat)) (f : Fld) : Prop := UnitText f.2.1 ∧ units.lookup f.2.1 = some f.2.2 ∧ 0 < f.2.2

theorem optText_eq (fs : List Fld) : optText fs = fieldsText (fs.filter (fun f => decide (f.1 > 0))) := by
  induction fs with
  | nil => rfl
  | cons f r ih =>
    obtain ⟨v, u, U⟩ := f
    by_cases h : v > 0
    · simp only [optText, field, h, ↓reduceIte, List.filter_cons, decide_true, fieldsText, ih, List.append_assoc]
    · simp only [optText, field, h, ↓reduceIte, List.filter_cons, decide_false, ih, List.nil_append, Bool.false_eq_true]

theorem fieldsSum_filter (fs : List Fld) : fieldsSum (fs.filter (fun f => decide (f.1 > 0))) = fieldsSum fs := by
  induction fs with
  | nil => rfl
  | cons f r ih =>
    obtain ⟨v, u, U⟩ := f
    by_cases h : v > 0
    · simp only [List.filter_cons, h, decide_true, ↓reduceIte, fieldsSum, ih]
    · have : v = 0 := by omega
      subst this
      simp only [List.filter_cons, h, decide_false, ↓reduceIte, fieldsSum, ih, Nat.zero_mul, Nat.zero_add, Bool.false_eq_true]

theorem starts_fieldsText (fs : List Fld) (rest : Bytes) (hr : Starts rest) : Starts (fieldsText fs ++ rest) := by
  cases fs with
  | nil => exact hr
  | cons f r =>
    obtain ⟨v, u, U⟩ := f
    obtain ⟨c, t, hct, hc⟩ := fmtInt_head v
    simp only [fieldsText, hct, List.cons_append, Starts, hc]

theorem starts_fmtInt (v : Nat) (rest : Bytes) : Starts (fmtInt v ++ rest) := by
  obtain ⟨c, t, hct, hc⟩ := fmtInt_head v
  simp only [hct, List.cons_append, Starts, hc]

theorem parseLoop_fields (units : List (Bytes × Nat)) (fmul : Nat → Nat → Nat → Nat) (fs : List Fld) (rest : Bytes) (fuel d : Nat)
    (hg : ∀ f ∈ fs, GoodFld units f) (hr : Starts rest) (hb : d + fieldsSum fs ≤ two63) :
    parseLoop units fmul (fs.length + fuel) (fieldsText fs ++ rest) d = parseLoop units fmul fuel rest (d + fieldsSum fs) := by
  induction fs generalizing d with
  | nil => simp [fieldsText, fieldsSum]
  | cons f r ih =>
    obtain ⟨v, u, U⟩ := f
    obtain ⟨hu, hl, hU⟩ := hg (v, u, U) (by simp)
    simp only [fieldsSum] at hb
    have hround := parseRound_plain units fmul v u (fieldsText r ++ rest) U d hu (starts_fieldsText r rest hr) hl hU (by omega)
    have hne : (fmtInt v ++ (u ++ (fieldsText r ++ rest))).isEmpty = false := by
      obtain ⟨c, t, hct, _⟩ := fmtInt_head v
      rw [hct]; rfl
    have e : (((v, u, U) :: r).length + fuel) = (r.length + fuel) + 1 := by simp only [List.length_cons]; omega
    rw [e]
    simp only [fieldsText, List.append_assoc, parseLoop, hne, Bool.false_eq_true, ↓reduceIte, hround, fieldsSum]
    rw [ih _ (fun f hf => hg f (by simp [hf])) (by omega), Nat.add_assoc]

theorem parseLoop_nil (units : List (Bytes × Nat)) (fmul : Nat → Nat → Nat → Nat) (fuel d : Nat) :
    parseLoop units fmul fuel [] d = .ok d := by
  cases fuel <;> simp [parseLoop]

theorem fieldsText_length (fs : List Fld) : fs.length ≤ (fieldsText fs).length := by
  induction fs with
  | nil => simp
  | cons f r ih =>
    obtain ⟨v, u, U⟩ := f
    have : (fmtInt v).length ≠ 0 := by obtain ⟨c, t, hct, _⟩ := fmtInt_head v; rw [hct]; simp
    simp only [fieldsText, List.length_cons, List.length_append]; omega

/-- a row of whole-number fields read by the loop with any sufficient fuel -/
theorem parseLoop_row (units : List (Bytes × Nat)) (fmul : Nat → Nat → Nat → Nat) (fs : List Fld) (fuel : Nat)
    (hg : ∀ f ∈ fs, GoodFld units f) (hb : fieldsSum fs ≤ two63) (hf : fs.length ≤ fuel) :
    parseLoop units fmul fuel (fieldsText fs) 0 = .ok (fieldsSum fs) := by
  have := parseLoop_fields units fmul fs [] (fuel - fs.length) 0 hg trivial (by omega)
  rw [List.append_nil, parseLoop_nil, Nat.zero_add, Nat.add_sub_cancel' hf] at this
  exact this

/-- a row of whole-number fields followed by one field with a fraction -/
theorem parseLoop_row_frac (units : List (Bytes × Nat)) (fs : List Fld) (i w p : Nat) (u : Bytes) (fuel : Nat)
    (hg : ∀ f ∈ fs, GoodFld units f) (hp : p ≤ 18) (hu : UnitText u) (hl : units.lookup u = some (10 ^ p))
    (hb : fieldsSum fs + i * 10 ^ p + w % 10 ^ p ≤ two63) (hf : fs.length + 1 ≤ fuel) :
    parseLoop units fmulExact fuel (fieldsText fs ++ (fmtInt i ++ ((fmtFrac w p).1 ++ u))) 0 = .ok (fieldsSum fs + i * 10 ^ p + w % 10 ^ p) := by
  have h1 := parseLoop_fields units fmulExact fs (fmtInt i ++ ((fmtFrac w p).1 ++ u)) (fuel - fs.length) 0 hg (starts_fmtInt _ _) (by omega)
  rw [Nat.add_sub_cancel' (by omega), Nat.zero_add] at h1
  rw [h1]
  have hround := parseRound_frac units i w p u [] (fieldsSum fs) hp hu trivial hl hb
  rw [List.append_nil] at hround
  have hne : (fmtInt i ++ ((fmtFrac w p).1 ++ u)).isEmpty = false := by
    obtain ⟨c, t, hct, _⟩ := fmtInt_head i
    rw [hct]; rfl
  obtain ⟨k, hk⟩ : ∃ k, fuel - fs.length = k + 1 := ⟨fuel - fs.length - 1, by omega⟩
  rw [hk]
  simp only [parseLoop, hne, Bool.false_eq_true, ↓reduceIte, hround, parseLoop_nil]

/-! ### the sign and the shortcuts of `ParseDuration` -/

theorem signSplit_neg (b : Bytes) : signSplit (45 :: b) = (true, b) := rfl

theorem signSplit_num (c : UInt8) (t : Bytes) (h : numStart c = true) : signSplit (c :: t) = (false, c :: t) := by
  have h45 : c ≠ 45 := by intro e; subst e; simp [numStart] at h
  have h43 : c ≠ 43 := by intro e; subst e; simp [numStart] at h
  unfold signSplit
  split
  · rename_i heq; injection heq with h1 _; exact absurd h1 h45
  · rename_i heq; injection heq with h1 _; exact absurd h1 h43
  · rfl

theorem ne_zeroText (b : Bytes) (h : b.length ≠ 1) : (b == ([48] : Bytes)) = false := by
  cases hb : b == ([48] : Bytes) with
  | false => rfl
  | true => have := eq_of_beq hb; subst this; simp at h

/-- the outer function, given what the loop returns for the body -/
theorem parseDuration_body (units : List (Bytes × Nat)) (fmul : Nat → Nat → Nat → Nat) (body : Bytes) (u : Nat) (neg : Bool)
    (hhead : ∃ c t, body = c :: t ∧ numStart c = true) (hlen : body.length ≠ 1)
    (hloop : parseLoop units fmul body.length body 0 = .ok u) :
    parseDuration units fmul (if neg then 45 :: body else body) =
      if neg then .ok (-(u : Int)) else if u > two63 - 1 then .error .invalid else .ok (u : Int) := by
  obtain ⟨c, t, hct, hc⟩ := hhead
  have hz := ne_zeroText body hlen
  have hne : body.isEmpty = false := by rw [hct]; rfl
  cases neg with
  | true =>
    simp only [↓reduceIte, parseDuration, signSplit_neg, hz, Bool.false_eq_true, hne, hloop]
  | false =>
    have hs : signSplit body = (false, body) := by rw [hct]; exact signSplit_num c t hc
    simp only [Bool.false_eq_true, ↓reduceIte, parseDuration, hs, hz, hne, hloop]

theorem fieldsText_shape (units : List (Bytes × Nat)) (fs : List Fld) (rest : Bytes) (hg : ∀ f ∈ fs, GoodFld units f) (hne : fs ≠ []) :
    (∃ c t, fieldsText fs ++ rest = c :: t ∧ numStart c = true) ∧ 2 ≤ (fieldsText fs ++ rest).length := by
  cases fs with
  | nil => exact absurd rfl hne
  | cons f r =>
    obtain ⟨v, u, U⟩ := f
    obtain ⟨hu, _, _⟩ := hg (v, u, U) (by simp)
    obtain ⟨c, t, hct, hc⟩ := fmtInt_head v
    obtain ⟨cu, tu, hcu, _⟩ := hu.head_ne_dot
    simp only at hcu
    constructor
    · exact ⟨c, _, by simp only [fieldsText, hct, List.cons_append]; rfl, hc⟩
    · simp only [fieldsText, hct, hcu, List.cons_append, List.length_cons, List.length_append]; omega

theorem fracField_shape (i w p : Nat) (u : Bytes) (hu : UnitText u) :
    (∃ c t, fmtInt i ++ ((fmtFrac w p).1 ++ u) = c :: t ∧ numStart c = true) ∧ 2 ≤ (fmtInt i ++ ((fmtFrac w p).1 ++ u)).length := by
  obtain ⟨c, t, hct, hc⟩ := fmtInt_head i
  obtain ⟨cu, tu, hcu, _⟩ := hu.head_ne_dot
  constructor
  · exact ⟨c, _, by simp only [hct, List.cons_append]; rfl, hc⟩
  · simp only [hct, hcu, List.cons_append, List.length_cons, List.length_append]; omega

theorem fieldsSum_pos_ne_nil (fs : List Fld) (h : 0 < fieldsSum fs) : fs ≠ [] := by
  intro e; subst e; simp [fieldsSum] at h

/-! ### the same parser over time.ParseDuration's unit table -/

theorem lookup_std_ne (units : List (Bytes × Nat)) (u : Bytes) (h : u ≠ [100]) :
    (stdUnitsOf units).lookup u = units.lookup u := by
  induction units with
  | nil => rfl
  | cons p r ih =>
    obtain ⟨k, b⟩ := p
    unfold stdUnitsOf at ih ⊢
    by_cases hk : k = [100]
    · subst hk
      have : (u == ([100] : Bytes)) = false := by simpa using h
      simp only [List.filter_cons, bne_self_eq_false, Bool.false_eq_true, ↓reduceIte, List.lookup_cons, this, ih]
    · have : (k != ([100] : Bytes)) = true := by simpa using hk
      simp only [List.filter_cons, this, ↓reduceIte, List.lookup_cons, ih]

theorem lookup_std_day (units : List (Bytes × Nat)) : (stdUnitsOf units).lookup ([100] : Bytes) = none := by
  induction units with
  | nil => rfl
  | cons p r ih =>
    obtain ⟨k, b⟩ := p
    unfold stdUnitsOf at ih ⊢
    by_cases hk : k = [100]
    · subst hk
      simp only [List.filter_cons, bne_self_eq_false, Bool.false_eq_true, ↓reduceIte, ih]
    · have h1 : (k != ([100] : Bytes)) = true := by simpa using hk
      have h2 : (([100] : Bytes) == k) = false := by simpa using (fun e => hk e.symm)
      simp only [List.filter_cons, h1, ↓reduceIte, List.lookup_cons, h2, ih]

def dayErr : DurErr := .unknownUnit [100]

theorem parseRound_std (units : List (Bytes × Nat)) (fmul : Nat → Nat → Nat → Nat) (s : Bytes) (d : Nat) :
    parseRound (stdUnitsOf units) fmul s d = parseRound units fmul s d ∨
      parseRound (stdUnitsOf units) fmul s d = .error dayErr := by
  unfold parseRound
  cases roundScan s with
  | error e => left; rfl
  | ok r =>
    obtain ⟨v, f, k, u, s3⟩ := r
    by_cases hu : u = [100]
    · subst hu; right; simp only [lookup_std_day, dayErr]
    · left; simp only [lookup_std_ne units u hu]

theorem parseLoop_std (units : List (Bytes × Nat)) (fmul : Nat → Nat → Nat → Nat) (fuel : Nat) (s : Bytes) (d : Nat) :
    parseLoop (stdUnitsOf units) fmul fuel s d = parseLoop units fmul fuel s d ∨
      parseLoop (stdUnitsOf units) fmul fuel s d = .error dayErr := by
  induction fuel generalizing s d with
  | zero => left; rfl
  | succ fuel ih =>
    unfold parseLoop
    cases hs : s.isEmpty with
    | true => left; rfl
    | false =>
      simp only [Bool.false_eq_true, ↓reduceIte]
      rcases parseRound_std units fmul s d with h | h
      · rw [h]
        cases parseRound units fmul s d with
        | error e => left; rfl
        | ok r => obtain ⟨s3, d'⟩ := r; exact ih s3 d'
      · right; rw [h]

theorem parseDuration_std (units : List (Bytes × Nat)) (fmul : Nat → Nat → Nat → Nat) (s : Bytes) :
    parseDuration (stdUnitsOf units) fmul s = parseDuration units fmul s ∨
      parseDuration (stdUnitsOf units) fmul s = .error dayErr := by
  unfold parseDuration
  generalize signSplit s = sp
  obtain ⟨neg, s1⟩ := sp
  simp only
  cases s1 == ([48] : Bytes) with
  | true => left; rfl
  | false =>
    cases s1.isEmpty with
    | true => left; rfl
    | false =>
      simp only [Bool.false_eq_true, ↓reduceIte]
      rcases parseLoop_std units fmul s1.length s1 0 with h | h
      · left; rw [h]
      · right; rw [h]

end Logg
