/- hexadecimal digits: reading back what hex2 / hex4 / hex8 wrote -/
import Logg.Model.Unquote
namespace Logg

theorem hexChar_mod (n : Nat) : hexChar n = hexChar (n % 16) := by simp [hexChar]

theorem unhex_hexChar_small : ∀ k : Fin 16, unhex (hexChar k.val) = some k.val := by decide

theorem unhex_hexChar (n : Nat) : unhex (hexChar n) = some (n % 16) := by
  rw [hexChar_mod]
  exact unhex_hexChar_small ⟨n % 16, Nat.mod_lt _ (by decide)⟩

theorem hexValue_hex2 (n : Nat) : hexValue (hex2 n) = some (n % 256) := by
  simp only [hexValue, hex2, hexValue.hexValueAcc, unhex_hexChar, Option.bind_eq_bind, Option.bind_some]
  congr 1; omega

theorem hexValue_hex4 (n : Nat) : hexValue (hex4 n) = some (n % 65536) := by
  simp only [hexValue, hex4, hexValue.hexValueAcc, unhex_hexChar, Option.bind_eq_bind, Option.bind_some]
  congr 1; omega

theorem hexValue_hex8 (n : Nat) : hexValue (hex8 n) = some (n % 4294967296) := by
  simp only [hexValue, hex8, hex4, List.cons_append, List.nil_append, hexValue.hexValueAcc, unhex_hexChar, Option.bind_eq_bind, Option.bind_some]
  congr 1; omega
end Logg
