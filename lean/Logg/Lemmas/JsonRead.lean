/-
  Logg.Lemmas.JsonRead — the JSON member reader over balanced pieces: string literals written by the
  JSON escaper are single tokens whatever they contain; brackets and braces nest; a row of comma-led
  members splits back into exactly those members, each at its own colon.
-/
import Logg.Model.JsonRead
import Logg.Lemmas.Logfmt

namespace Logg
open Logg.Lemmas

/-- scanning x from s: never a closing bracket below depth 0, no `bad` byte outside strings at depth 0 -/
def scanJ (bad : UInt8 → Bool) : JSt → Bytes → Option JSt
  | s, [] => some s
  | s, c :: rest =>
    if s = (.out, 0) ∧ bad c = true then none
    else match jStep s c with
      | none => none
      | some s' => scanJ bad s' rest

theorem scanJ_append (bad : UInt8 → Bool) (s : JSt) (a b : Bytes) :
    scanJ bad s (a ++ b) = (scanJ bad s a).bind (fun s' => scanJ bad s' b) := by
  induction a generalizing s with
  | nil => rfl
  | cons c a ih =>
    simp only [List.cons_append, scanJ]
    split
    · rfl
    · split
      · rfl
      · exact ih _

theorem splitTop_scan (sep : UInt8) (s s' : JSt) (cur x rest : Bytes) (h : scanJ (· == sep) s x = some s') :
    splitTopFrom sep s cur (x ++ rest) = splitTopFrom sep s' (cur ++ x) rest := by
  induction x generalizing s cur with
  | nil => simp only [scanJ, Option.some.injEq] at h; subst h; simp
  | cons c x ih =>
    simp only [scanJ, beq_iff_eq] at h
    split at h
    · cases h
    · rename_i hc
      cases hj : jStep s c with
      | none => rw [hj] at h; cases h
      | some s1 =>
        rw [hj] at h
        simp only [List.cons_append, splitTopFrom, hc, ↓reduceIte, hj]
        rw [ih _ _ h, List.append_assoc]; rfl

theorem splitFirst_scan (sep : UInt8) (s s' : JSt) (cur x rest : Bytes) (h : scanJ (· == sep) s x = some s') :
    splitFirstFrom sep s cur (x ++ rest) = splitFirstFrom sep s' (cur ++ x) rest := by
  induction x generalizing s cur with
  | nil => simp only [scanJ, Option.some.injEq] at h; subst h; simp
  | cons c x ih =>
    simp only [scanJ, beq_iff_eq] at h
    split at h
    · cases h
    · rename_i hc
      cases hj : jStep s c with
      | none => rw [hj] at h; cases h
      | some s1 =>
        rw [hj] at h
        simp only [List.cons_append, splitFirstFrom, hc, ↓reduceIte, hj]
        rw [ih _ _ h, List.append_assoc]; rfl

/-- a weaker set of forbidden bytes only makes scanning easier -/
theorem scanJ_mono (bad bad' : UInt8 → Bool) (hb : ∀ c, bad' c = true → bad c = true) (s s' : JSt) (x : Bytes)
    (h : scanJ bad s x = some s') : scanJ bad' s x = some s' := by
  induction x generalizing s with
  | nil => exact h
  | cons c x ih =>
    simp only [scanJ] at h ⊢
    split at h
    · cases h
    · rename_i hc
      have hc' : ¬ (s = (.out, 0) ∧ bad' c = true) := fun hh => hc ⟨hh.1, hb c hh.2⟩
      simp only [hc', ↓reduceIte]
      cases hj : jStep s c with
      | none => rw [hj] at h; cases h
      | some s1 => rw [hj] at h; simp only; exact ih _ h

theorem jStep_lift (s : QSt) (d : Nat) (c : UInt8) (s1 : QSt) (d1 k : Nat) (h : jStep (s, d) c = some (s1, d1)) :
    jStep (s, d + k) c = some (s1, d1 + k) := by
  cases s with
  | out =>
    simp only [jStep] at h ⊢
    by_cases h34 : (c == 34) = true
    · simp only [h34, ↓reduceIte, Option.some.injEq, Prod.mk.injEq] at h ⊢; exact ⟨h.1, by omega⟩
    · simp only [h34, Bool.false_eq_true, ↓reduceIte] at h ⊢
      by_cases ho : (c == 123 || c == 91) = true
      · simp only [ho, ↓reduceIte, Option.some.injEq, Prod.mk.injEq] at h ⊢; exact ⟨h.1, by omega⟩
      · simp only [ho, Bool.false_eq_true, ↓reduceIte] at h ⊢
        by_cases hcl : (c == 125 || c == 93) = true
        · simp only [hcl, ↓reduceIte] at h ⊢
          by_cases hd : d = 0
          · simp [hd] at h
          · have : ¬ d + k = 0 := by omega
            simp only [hd, this, ↓reduceIte, Option.some.injEq, Prod.mk.injEq] at h ⊢; exact ⟨h.1, by omega⟩
        · simp only [hcl, Bool.false_eq_true, ↓reduceIte, Option.some.injEq, Prod.mk.injEq] at h ⊢; exact ⟨h.1, by omega⟩
  | inq =>
    simp only [jStep] at h ⊢
    by_cases h92 : (c == 92) = true
    · simp only [h92, ↓reduceIte, Option.some.injEq, Prod.mk.injEq] at h ⊢; exact ⟨h.1, by omega⟩
    · simp only [h92, Bool.false_eq_true, ↓reduceIte] at h ⊢
      by_cases h34 : (c == 34) = true
      · simp only [h34, ↓reduceIte, Option.some.injEq, Prod.mk.injEq] at h ⊢; exact ⟨h.1, by omega⟩
      · simp only [h34, Bool.false_eq_true, ↓reduceIte, Option.some.injEq, Prod.mk.injEq] at h ⊢; exact ⟨h.1, by omega⟩
  | esc =>
    simp only [jStep, Option.some.injEq, Prod.mk.injEq] at h ⊢; exact ⟨h.1, by omega⟩

/-- what scans at some depth scans the same way deeper inside -/
theorem scanJ_lift (bad : UInt8 → Bool) (x : Bytes) : ∀ (s : QSt) (d : Nat) (s' : QSt) (d' k : Nat),
    scanJ bad (s, d) x = some (s', d') → scanJ bad (s, d + k) x = some (s', d' + k) := by
  induction x with
  | nil => intro s d s' d' k h; simp only [scanJ, Option.some.injEq, Prod.mk.injEq] at h ⊢; exact ⟨h.1, by omega⟩
  | cons c x ih =>
    intro s d s' d' k h
    simp only [scanJ] at h ⊢
    split at h
    · cases h
    · rename_i hc
      cases hj : jStep (s, d) c with
      | none => rw [hj] at h; cases h
      | some s1 =>
        obtain ⟨q1, d1⟩ := s1
        rw [hj] at h
        have hc' : ¬ ((s, d + k) = ((QSt.out, 0) : JSt) ∧ bad c = true) := by
          intro hh
          apply hc
          have h1 := hh.1
          simp only [Prod.mk.injEq] at h1
          exact ⟨by simp only [Prod.mk.injEq]; exact ⟨h1.1, by omega⟩, hh.2⟩
        simp only [hc', ↓reduceIte, jStep_lift s d c q1 d1 k hj]
        exact ih q1 d1 s' d' k h

/-- neither a comma nor a colon outside strings at depth 0 -/
def badCC (c : UInt8) : Bool := c == 44 || c == 58

/-- a value or key token -/
def JTok (x : Bytes) : Prop := scanJ badCC (.out, 0) x = some (.out, 0)
/-- a piece of the inside of a string -/
def JInq (x : Bytes) : Prop := ∀ d, scanJ badCC (.inq, d) x = some (.inq, d)
/-- a piece of the inside of a bracket or brace (commas and colons allowed) -/
def JIn (x : Bytes) : Prop := ∀ d, scanJ badCC (.out, d + 1) x = some (.out, d + 1)

theorem jtok_nil : JTok [] := rfl
theorem jinq_nil : JInq [] := fun _ => rfl
theorem jin_nil : JIn [] := fun _ => rfl

theorem jtok_append {a b : Bytes} (ha : JTok a) (hb : JTok b) : JTok (a ++ b) := by
  unfold JTok at *; rw [scanJ_append, ha]; exact hb
theorem jinq_append {a b : Bytes} (ha : JInq a) (hb : JInq b) : JInq (a ++ b) := by
  intro d; rw [scanJ_append, ha d]; exact hb d
theorem jin_append {a b : Bytes} (ha : JIn a) (hb : JIn b) : JIn (a ++ b) := by
  intro d; rw [scanJ_append, ha d]; exact hb d

theorem jin_of_tok {x : Bytes} (h : JTok x) : JIn x := by
  intro d
  have := scanJ_lift badCC x .out 0 .out 0 (d + 1) h
  simpa using this

/-- bytes that mean nothing to the scanner outside strings -/
def plainJ (c : UInt8) : Bool := c != 34 && c != 44 && c != 58 && c != 91 && c != 93 && c != 123 && c != 125

theorem jtok_plain (x : Bytes) (h : ∀ c ∈ x, plainJ c = true) : JTok x := by
  induction x with
  | nil => rfl
  | cons c x ih =>
    have hc := h c (by simp)
    simp only [plainJ, Bool.and_eq_true, bne_iff_ne, ne_eq] at hc
    obtain ⟨⟨⟨⟨⟨⟨h34, h44⟩, h58⟩, h91⟩, h93⟩, h123⟩, h125⟩ := hc
    have b34 : (c == 34) = false := by simpa using h34
    have b44 : (c == 44) = false := by simpa using h44
    have b58 : (c == 58) = false := by simpa using h58
    have b91 : (c == 91) = false := by simpa using h91
    have b93 : (c == 93) = false := by simpa using h93
    have b123 : (c == 123) = false := by simpa using h123
    have b125 : (c == 125) = false := by simpa using h125
    unfold JTok
    simp only [scanJ, badCC, b44, b58, Bool.or_self, Bool.false_eq_true, and_false, ↓reduceIte, jStep, b34, b91, b93, b123, b125]
    exact ih (fun c' hc' => h c' (by simp [hc']))

theorem jinq_plain (x : Bytes) (h : ∀ c ∈ x, c ≠ 34 ∧ c ≠ 92) : JInq x := by
  induction x with
  | nil => exact jinq_nil
  | cons c x ih =>
    have hc := h c (by simp)
    have h34 : (c == 34) = false := by simpa using hc.1
    have h92 : (c == 92) = false := by simpa using hc.2
    intro d
    simp only [scanJ, Prod.mk.injEq, reduceCtorEq, false_and, ↓reduceIte, jStep, h34, h92, Bool.false_eq_true]
    exact ih (fun c' hc' => h c' (by simp [hc'])) d

theorem jinq_escape (c : UInt8) : JInq [92, c] := by
  intro d; simp [scanJ, jStep]

theorem jtok_string (body : Bytes) (h : JInq body) : JTok (34 :: (body ++ [34])) := by
  unfold JTok
  simp only [scanJ, badCC, show ((34 : UInt8) == 44) = false by decide, show ((34 : UInt8) == 58) = false by decide, Bool.or_self,
    Bool.false_eq_true, and_false, ↓reduceIte, jStep, beq_self_eq_true]
  rw [scanJ_append, h 0]
  simp [scanJ, jStep]

theorem jtok_bracket (o cl : UInt8) (ho : o = 91 ∨ o = 123) (hc : cl = 93 ∨ cl = 125) (inner : Bytes) (h : JIn inner) :
    JTok (o :: (inner ++ [cl])) := by
  have hopen : jStep (.out, 0) o = some (.out, 1) := by rcases ho with rfl | rfl <;> rfl
  have hclose : jStep (.out, 1) cl = some (.out, 0) := by rcases hc with rfl | rfl <;> rfl
  have hbo : badCC o = false := by rcases ho with rfl | rfl <;> rfl
  unfold JTok
  simp only [scanJ, hbo, Bool.false_eq_true, and_false, ↓reduceIte, hopen]
  rw [scanJ_append, h 0]
  simp [scanJ, hclose]

theorem jin_byte (c : UInt8) (h : c = 44 ∨ c = 58) : JIn [c] := by
  intro d
  rcases h with rfl | rfl <;> simp [scanJ, jStep]

/-! ### what the JSON escaper writes stays inside the string -/

theorem jinq_of_high {bs : Bytes} (h : ∀ c ∈ bs, 128 ≤ c.toNat) : JInq bs :=
  jinq_plain bs (fun c hc => by
    have := h c hc
    constructor <;> (intro e; subst e; simp at this))

theorem jinq_hex2 (n : Nat) : JInq (hex2 n) := jinq_plain _ (by
  intro c hc; simp only [hex2, List.mem_cons, List.not_mem_nil, or_false] at hc
  rcases hc with rfl | rfl <;> exact hexChar_plain _)

theorem jinq_escapeByte (b0 : UInt8) : JInq (jsonEscapeByte b0) := by
  unfold jsonEscapeByte
  split
  · exact jinq_escape _
  · split
    · exact jinq_escape _
    · split
      · exact jinq_escape _
      · split
        · exact jinq_escape _
        · have : ([92, 117, 48, 48] : Bytes) = [92, 117] ++ [48, 48] := rfl
          rw [this]
          exact jinq_append (jinq_append (jinq_escape _) (jinq_plain _ (by decide))) (jinq_hex2 _)

theorem jinq_jsonEscape (fuel : Nat) : ∀ s, JInq (jsonEscape fuel s) := by
  induction fuel with
  | zero => intro s; exact jinq_nil
  | succ f ih =>
    intro s
    cases s with
    | nil => exact jinq_nil
    | cons b0 t =>
      simp only [jsonEscape]
      split
      · apply jinq_append _ (ih _)
        split
        · rename_i hs
          apply jinq_plain
          intro c hc
          simp only [List.mem_singleton] at hc; subst hc
          simp only [jsonSafe, Bool.and_eq_true, bne_iff_ne, ne_eq] at hs
          exact ⟨hs.1.2, hs.2⟩
        · exact jinq_escapeByte _
      · rename_i hb
        split
        · have : ([92, 117, 102, 102, 102, 100] : Bytes) = [92, 117] ++ [102, 102, 102, 100] := rfl
          rw [this]
          exact jinq_append (jinq_append (jinq_escape _) (jinq_plain _ (by decide))) (ih _)
        · split
          · have : ([92, 117, 50, 48, 50] : Bytes) = [92, 117] ++ [50, 48, 50] := rfl
            rw [this]
            exact jinq_append (jinq_append (jinq_append (jinq_escape _) (jinq_plain _ (by decide)))
              (jinq_plain _ (by intro c hc; simp only [List.mem_singleton] at hc; subst hc; exact hexChar_plain _))) (ih _)
          · exact jinq_append (jinq_of_high (decodeRune_take_high b0 t hb)) (ih _)

/-- a JSON-quoted string is one token, whatever bytes went in -/
theorem jsonQuote_jtok (s : Bytes) : JTok (jsonQuote s) := jtok_string _ (jinq_jsonEscape _ s)

/-! ### members and rows of members -/

/-- `key:value` -/
def memOf (p : Bytes × Bytes) : Bytes := p.1 ++ 58 :: p.2

/-- a member: no comma outside strings at depth 0 -/
def JMem (t : Bytes) : Prop := scanJ (· == 44) (.out, 0) t = some (.out, 0)

theorem jmem_of (k v : Bytes) (hk : JTok k) (hv : JTok v) : JMem (memOf (k, v)) := by
  have mono : ∀ x, JTok x → scanJ (· == 44) (.out, 0) x = some (.out, 0) := fun x hx =>
    scanJ_mono badCC (· == 44) (fun c hc => by simp only [badCC, Bool.or_eq_true]; left; exact hc) _ _ x hx
  unfold JMem memOf
  have : k ++ 58 :: v = k ++ ([58] ++ v) := rfl
  rw [this, scanJ_append, mono k hk]
  simp only [Option.bind_some, scanJ_append]
  have h58 : scanJ (· == 44) (.out, 0) [58] = some (.out, 0) := by simp [scanJ, jStep]
  rw [h58]; exact mono v hv

theorem splitMember_of (k v : Bytes) (hk : JTok k) : splitMember (memOf (k, v)) = some (k, v) := by
  have hk' : scanJ (· == 58) (.out, 0) k = some (.out, 0) :=
    scanJ_mono badCC (· == 58) (fun c hc => by simp only [badCC, Bool.or_eq_true]; right; exact hc) _ _ k hk
  unfold splitMember memOf
  rw [splitFirst_scan 58 _ _ [] k (58 :: v) hk']
  simp [splitFirstFrom]

/-- members each led by a comma -/
def commaEach : List Bytes → Bytes
  | [] => []
  | t :: T => 44 :: (t ++ commaEach T)

/-- members separated by commas -/
def joinC : List Bytes → Bytes
  | [] => []
  | t :: T => t ++ commaEach T

theorem commaEach_append (A B : List Bytes) : commaEach (A ++ B) = commaEach A ++ commaEach B := by
  induction A with
  | nil => rfl
  | cons t T ih => simp only [List.cons_append, commaEach, ih, List.append_assoc]

theorem splitTop_commaEach (T : List Bytes) (hT : ∀ t ∈ T, JMem t) (cur : Bytes) :
    splitTopFrom 44 (.out, 0) cur (commaEach T) = some (cur :: T) := by
  induction T generalizing cur with
  | nil => simp [commaEach, splitTopFrom]
  | cons t T ih =>
    have ht := hT t (by simp)
    simp only [commaEach, splitTopFrom, and_self, ↓reduceIte]
    rw [splitTop_scan 44 _ _ [] t (commaEach T) ht, List.nil_append, ih (fun t' h' => hT t' (by simp [h'])) t]
    rfl

theorem splitTop_joinC (t : Bytes) (T : List Bytes) (ht : JMem t) (hT : ∀ t ∈ T, JMem t) :
    splitTopFrom 44 (.out, 0) [] (joinC (t :: T)) = some (t :: T) := by
  simp only [joinC]
  rw [splitTop_scan 44 _ _ [] t (commaEach T) ht, List.nil_append, splitTop_commaEach T hT t]

/-- the inside of an object or array made of tokens and commas -/
theorem jin_commaEach (T : List Bytes) (hT : ∀ t ∈ T, JIn t) : JIn (commaEach T) := by
  induction T with
  | nil => exact jin_nil
  | cons t T ih =>
    have : commaEach (t :: T) = [44] ++ (t ++ commaEach T) := rfl
    rw [this]
    exact jin_append (jin_byte 44 (Or.inl rfl)) (jin_append (hT t (by simp)) (ih (fun t' h' => hT t' (by simp [h']))))

theorem jin_joinC (T : List Bytes) (hT : ∀ t ∈ T, JIn t) : JIn (joinC T) := by
  cases T with
  | nil => exact jin_nil
  | cons t T => exact jin_append (hT t (by simp)) (jin_commaEach T (fun t' h' => hT t' (by simp [h'])))

theorem jin_memOf (k v : Bytes) (hk : JTok k) (hv : JTok v) : JIn (memOf (k, v)) := by
  have : memOf (k, v) = k ++ ([58] ++ v) := rfl
  rw [this]
  exact jin_append (jin_of_tok hk) (jin_append (jin_byte 58 (Or.inr rfl)) (jin_of_tok hv))

/-- **an object text reads back as its members**: `{` k1:v1 `,` k2:v2 … `}` -/
theorem jsonMembers_object (ps : List (Bytes × Bytes)) (hk : ∀ p ∈ ps, JTok p.1) (hv : ∀ p ∈ ps, JTok p.2) :
    jsonMembers (123 :: (joinC (ps.map memOf) ++ [125])) = some ps := by
  unfold jsonMembers
  simp only [List.reverse_append, List.reverse_cons, List.reverse_nil, List.nil_append, List.singleton_append, List.reverse_reverse]
  cases ps with
  | nil => simp [joinC]
  | cons p ps =>
    have hne : (joinC ((p :: ps).map memOf)).isEmpty = false := by
      obtain ⟨k, v⟩ := p
      simp only [List.map_cons, joinC, memOf]
      cases k <;> rfl
    have hm : ∀ t ∈ (p :: ps).map memOf, JMem t := by
      intro t ht
      obtain ⟨q, hq, rfl⟩ := List.mem_map.mp ht
      exact jmem_of q.1 q.2 (hk q hq) (hv q hq)
    simp only [List.map_cons] at hm hne ⊢
    rw [hne]
    simp only [Bool.false_eq_true, ↓reduceIte]
    rw [splitTop_joinC _ _ (hm _ (by simp)) (fun t ht => hm t (by simp [ht]))]
    simp only [Option.bind_some]
    have : ∀ qs : List (Bytes × Bytes), (∀ q ∈ qs, JTok q.1) → (qs.map memOf).mapM splitMember = some qs := by
      intro qs
      induction qs with
      | nil => intro _; rfl
      | cons q qs ih =>
        intro h
        simp only [List.map_cons, List.mapM_cons, splitMember_of q.1 q.2 (h q (by simp)), ih (fun q' h' => h q' (by simp [h'])),
          Option.pure_def, Option.bind_eq_bind, Option.bind_some]
    have := this (p :: ps) hk
    simpa using this

/-- an object text is itself one token -/
theorem jtok_object (ps : List (Bytes × Bytes)) (hk : ∀ p ∈ ps, JTok p.1) (hv : ∀ p ∈ ps, JTok p.2) :
    JTok (123 :: (joinC (ps.map memOf) ++ [125])) :=
  jtok_bracket 123 125 (Or.inr rfl) (Or.inr rfl) _ (jin_joinC _ (by
    intro t ht
    obtain ⟨q, hq, rfl⟩ := List.mem_map.mp ht
    exact jin_memOf q.1 q.2 (hk q hq) (hv q hq)))

end Logg
