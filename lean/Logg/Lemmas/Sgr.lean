/-
  SGR hygiene of colored records: transition predicates over the scanner of Lemmas/SgrBase and the
  record-level theorem colored_record_hygiene.
-/
import Logg.Lemmas.EncoderColor
import Logg.Lemmas.SgrBase
namespace Logg
open Logg.Lemmas

/-- between sequences and no colour on -/
def Rst (s : Sgr) : Prop := Txt s ∧ s.colored = false

/-- scanning `bs` from any between-sequences state ends between sequences (nothing bad happened) -/
def SgrKeep (bs : Bytes) : Prop := ∀ s, Txt s → Txt (sgrScan s bs)
/-- … and with every colour off -/
def SgrEnd (bs : Bytes) : Prop := ∀ s, Txt s → Rst (sgrScan s bs)
/-- from "all off" to "all off" (line feeds allowed) -/
def SgrLine (bs : Bytes) : Prop := ∀ s, Rst s → Rst (sgrScan s bs)

theorem keep_nil : SgrKeep [] := fun _ h => h
theorem keep_app {a b : Bytes} (ha : SgrKeep a) (hb : SgrKeep b) : SgrKeep (a ++ b) := by
  intro s hs; rw [sgrScan_append]; exact hb _ (ha s hs)
theorem keep_plain {bs : Bytes} (h : NoC0 bs) : SgrKeep bs := by
  intro s hs; rw [sgrScan_plain s hs.1 bs h]; exact hs
theorem keep_esc (n : Int) (hn : 0 ≤ n) : SgrKeep (esc n) := by
  intro s hs; rw [sgrScan_esc s hs n hn]; exact ⟨hs.1, hs.2.1, hs.2.2⟩

theorem sgrKeep_closed : ColorClosed SgrKeep := ⟨keep_nil, keep_app, keep_plain, keep_esc⟩

theorem end_reset : SgrEnd escReset := by
  intro s hs
  rw [escReset_eq, sgrScan_esc s hs 0 (by decide)]
  exact ⟨⟨hs.1, hs.2.1, hs.2.2⟩, by simp⟩

theorem end_of_keep {a b : Bytes} (ha : SgrKeep a) (hb : SgrEnd b) : SgrEnd (a ++ b) := by
  intro s hs; rw [sgrScan_append]; exact hb _ (ha s hs)

theorem line_of_end {bs : Bytes} (h : SgrEnd bs) : SgrLine bs := fun s hs => h s hs.1
theorem line_nil : SgrLine [] := fun _ h => h
theorem line_app {a b : Bytes} (ha : SgrLine a) (hb : SgrLine b) : SgrLine (a ++ b) := by
  intro s hs; rw [sgrScan_append]; exact hb _ (ha s hs)
theorem line_plain {bs : Bytes} (h : NoC0 bs) : SgrLine bs := by
  intro s hs; rw [sgrScan_plain s hs.1.1 bs h]; exact hs
theorem line_lf : SgrLine [10] := by
  intro s hs
  obtain ⟨⟨h0, h1, h2⟩, h3⟩ := hs
  have : sgrScan s [10] = s := by
    cases s with
    | mk c m nz b => simp only at h0 h1 h2 h3; subst h0 h1 h2 h3; rfl
  rw [this]; exact ⟨⟨h0, h1, h2⟩, h3⟩

theorem keep_echoColor (n : Int) (hn : -1 ≤ n) : SgrKeep (echoColor n) := P_echoColor sgrKeep_closed n hn

/-- a wrapped text: colours on, the text, reset -/
theorem end_wrap (text : Bytes) (clr bg : Int) (hc : -1 ≤ clr) (hb : -1 ≤ bg) (ht : NoC0 text) :
    SgrEnd (wrapColorAndBg text clr bg) := by
  unfold wrapColorAndBg
  exact end_of_keep (keep_app (keep_app (keep_echoColor bg hb) (keep_echoColor clr hc)) (keep_plain ht)) end_reset

theorem line_join (xs : List Bytes) (h : ∀ x ∈ xs, SgrLine x) : SgrLine (joinWith [10] xs) := by
  match xs, h with
  | [], _ => exact line_nil
  | [x], h => simpa [joinWith] using h x (by simp)
  | x :: y :: rest, h =>
    simp only [joinWith]
    exact line_app (line_app (h x (by simp)) line_lf) (line_join (y :: rest) (fun z hz => h z (by simp [hz])))


/-- messages of the fidelity domain: no control byte other than the line feed -/
def MsgOK (m : Bytes) : Prop := ∀ c ∈ m, 32 ≤ c.toNat ∨ c = 10

theorem msgOK_sub {a b : Bytes} (h : MsgOK b) (hs : ∀ c ∈ a, c ∈ b) : MsgOK a := fun c hc => h c (hs c hc)

theorem take_findIdx_noLF : ∀ (s : Bytes) (ix : Nat), s.findIdx? (· == 10) = some ix → ∀ c ∈ s.take ix, c ≠ 10
  | [], ix, h => by simp at h
  | a :: t, ix, h => by
    rw [List.findIdx?_cons] at h
    by_cases ha : (a == 10) = true
    · simp [ha] at h; subst h; intro c hc; simp at hc
    · simp [ha] at h
      obtain ⟨j, hj, rfl⟩ := h
      intro c hc
      simp only [List.take_succ_cons, List.mem_cons] at hc
      rcases hc with rfl | hc
      · simpa using ha
      · exact take_findIdx_noLF t j hj c hc

theorem noC0_of_msgOK_noLF {bs : Bytes} (h : MsgOK bs) (hn : ∀ c ∈ bs, c ≠ 10) : NoC0 bs := by
  intro c hc
  rcases h c hc with h1 | h1
  · exact h1
  · exact absurd h1 (hn c hc)

theorem trimRightNL_sub (s : Bytes) : ∀ c ∈ trimRightNL s, c ∈ s := by
  intro c hc
  unfold trimRightNL at hc
  have := List.mem_reverse.mp hc
  have := (List.dropWhile_sublist _).subset this
  exact List.mem_reverse.mp this

/-- the first line carries no control byte, the remaining lines only line feeds -/
theorem splitFirstRest_ok (m : Bytes) (h : MsgOK m) :
    NoC0 (splitFirstRest m).1 ∧ MsgOK (splitFirstRest m).2.1 := by
  unfold splitFirstRest
  by_cases he : m.isEmpty = true
  · simp [he]; exact ⟨noC0_nil, fun c hc => by simp at hc⟩
  · simp only [he, Bool.false_eq_true, if_false]
    generalize hs : (if (m.getLast? == some 10) = true then trimRightNL m else m) = s
    have hsok : MsgOK s := by
      rw [← hs]; split
      · exact msgOK_sub h (trimRightNL_sub m)
      · exact h
    cases hf : s.findIdx? (· == 10) with
    | none =>
      simp only
      refine ⟨?_, fun c hc => by simp at hc⟩
      apply noC0_of_msgOK_noLF hsok
      intro c hc hc10
      have := List.findIdx?_eq_none_iff.mp hf c hc
      simp [hc10] at this
    | some ix =>
      simp only
      exact ⟨noC0_of_msgOK_noLF (msgOK_sub hsok (fun c hc => List.mem_of_mem_take hc)) (take_findIdx_noLF s ix hf),
             msgOK_sub hsok (fun c hc => List.mem_of_mem_drop hc)⟩

theorem splitLines_ok (s : Bytes) (h : MsgOK s) : ∀ l ∈ splitLines s, NoC0 l := by
  unfold splitLines
  induction s with
  | nil => intro l hl; simp at hl; subst hl; exact noC0_nil
  | cons c t ih =>
    have ht : MsgOK t := fun x hx => h x (by simp [hx])
    have ih' := ih ht
    simp only [List.foldr_cons]
    generalize List.foldr splitStep [[]] t = acc at ih' ⊢
    unfold splitStep
    by_cases hc : (c == 10) = true
    · simp only [hc, if_true]
      intro l hl
      rcases List.mem_cons.mp hl with rfl | hl
      · exact noC0_nil
      · exact ih' l hl
    · simp only [hc, Bool.false_eq_true, if_false]
      have hc32 : 32 ≤ c.toNat := by
        rcases h c (by simp) with h1 | h1
        · exact h1
        · subst h1; simp at hc
      cases acc with
      | nil =>
        intro l hl
        have : l = [c] := by simpa using hl
        subst this; exact noC0_single hc32
      | cons l0 ls =>
        intro l hl
        rcases List.mem_cons.mp hl with rfl | hl
        · exact noC0_cons hc32 (ih' l0 (by simp))
        · exact ih' l (by simp [hl])

theorem rightPad_noC0 (s : Bytes) (w : Nat) (h : NoC0 s) : NoC0 (rightPad s w) := by
  unfold rightPad
  apply noC0_append h
  intro c hc
  have := List.eq_of_mem_replicate hc
  subst this; decide


/-- what the colored layout takes from the registry and the call: nothing with a control byte -/
structure ColorInputs (p : Presentation) (r : Record) (depth : Nat) (tag : Bytes) : Prop where
  ts : NoC0 r.ts
  name : NoC0 r.name
  tag : NoC0 tag
  msg : MsgOK r.msg
  attrs : ∀ a ∈ r.attrs, attrOK true depth a = true
  caller : ∀ file line fn shown, r.caller = some (file, line, fn, shown) → NoC0 file ∧ NoC0 shown
  clr : -1 ≤ (levelColors p r.lvl).1
  bg : -1 ≤ (levelColors p r.lvl).2

/-- **Colour hygiene of a whole colored record.** A terminal that reads the payload starting with
    all attributes off never meets a line feed while a colour or attribute is on, never meets a
    malformed sequence, and ends with everything off — for every record of the fidelity domain
    (message without control bytes other than LF, any attributes, groups at any depth, caller on or
    off, any tag and minimal width). -/
theorem colored_record_hygiene (isPrint : Nat → Bool) (hsafe : PrintSafe isPrint) (p : Presentation) (depth : Nat)
    (r : Record) (out : Bytes) (h : encodeRecord .color isPrint p depth r = some out)
    (hin : ∀ tag, p.reg.shortTag r.lvl p.tagWidth = some tag → ColorInputs p r depth tag) :
    Rst (sgrScan Sgr.init out) := by
  have hinit : Rst Sgr.init := ⟨⟨rfl, rfl, rfl⟩, rfl⟩
  unfold encodeRecord at h
  by_cases hb : (r.lvl == Lv.always && isBlank r.msg) = true
  · rw [if_pos hb] at h; cases h; exact line_lf _ hinit
  rw [if_neg hb] at h
  simp only at h
  cases ht : p.reg.shortTag r.lvl p.tagWidth with
  | none => simp [ht] at h
  | some tag =>
    have hi := hin tag ht
    simp only [ht] at h
    by_cases hn : needsTranslate (rightPad (splitFirstRest r.msg).1 p.minWidth) = true
    · simp [hn] at h
    · simp only [hn, Bool.false_eq_true, if_false, Option.some.injEq] at h
      subst h
      obtain ⟨hfirst, hrest⟩ := splitFirstRest_ok r.msg hi.msg
      have hclr0 := hi.clr
      have hbg0 := hi.bg
      generalize (levelColors p r.lvl).1 = clr at hclr0 ⊢
      generalize (levelColors p r.lvl).2 = bg at hbg0 ⊢
      have hcfg : ColorCfg ({ fmt := .color, isPrint := isPrint, clr := clr, bg := bg } : EncCfg) :=
        ⟨rfl, hsafe, hclr0, hbg0⟩
      -- the pieces
      have k_time : SgrKeep (esc 32 ++ r.ts ++ [124, 32]) :=
        keep_app (keep_app (keep_esc 32 (by decide)) (keep_plain hi.ts)) (keep_plain (noC0_of_B (by decide)))
      have k_logger : SgrKeep (if r.name.isEmpty = true then [] else echoColorAndBg 37 (-1) ++ r.name ++ escReset ++ [32]) := by
        split
        · exact keep_nil
        · exact keep_app (keep_app (keep_app (P_echoColorAndBg sgrKeep_closed 37 (-1) (by decide) (by decide)) (keep_plain hi.name))
            (P_reset sgrKeep_closed)) (keep_plain (noC0_of_B (by decide)))
      have k_sev : SgrKeep (echoColorAndBg clr bg ++ [91] ++ tag ++ [93] ++ escReset ++ [32]) :=
        keep_app (keep_app (keep_app (keep_app (keep_app (P_echoColorAndBg sgrKeep_closed clr bg hclr0 hbg0) (keep_plain (noC0_of_B (by decide))))
          (keep_plain hi.tag)) (keep_plain (noC0_of_B (by decide)))) (P_reset sgrKeep_closed)) (keep_plain (noC0_of_B (by decide)))
      have e_first : SgrEnd (wrapColorAndBg (rightPad (splitFirstRest r.msg).1 p.minWidth) clr bg) :=
        end_wrap _ clr bg hclr0 hbg0 (rightPad_noC0 _ _ hfirst)
      have k_attrs : SgrKeep (encTopAttrs { fmt := .color, isPrint := isPrint, clr := clr, bg := bg } depth r.attrs) :=
        topAttrs_C sgrKeep_closed _ hcfg depth r.attrs hi.attrs
      have e_attrs : SgrEnd (encTopAttrs { fmt := .color, isPrint := isPrint, clr := clr, bg := bg } depth r.attrs) := by
        unfold encTopAttrs
        simp only [color_noColor _ hcfg, Bool.false_eq_true, if_false]
        apply end_of_keep _ end_reset
        apply attrs_all_C sgrKeep_closed _ hcfg depth _ [] false
        · intro a ha; exact hi.attrs a (prepAttrs_subset r.attrs a ha)
        · exact noC0_nil
      have l_caller : SgrLine (match r.caller with
          | none => []
          | some (file, line, _, fnShown) => [32] ++ file ++ [58] ++ intDigits line ++ [32] ++ esc 90 ++ fnShown ++ escReset ++ escReset) := by
        cases hc : r.caller with
        | none => exact line_nil
        | some q =>
          obtain ⟨file, line, fn, shown⟩ := q
          obtain ⟨hf, hs⟩ := hi.caller file line fn shown hc
          simp only
          apply line_of_end
          apply end_of_keep _ end_reset
          exact keep_app (keep_app (keep_app (keep_app (keep_app (keep_app (keep_app (keep_plain (noC0_of_B (by decide))) (keep_plain hf))
            (keep_plain (noC0_of_B (by decide)))) (keep_plain (intDigits_noC0 line))) (keep_plain (noC0_of_B (by decide))))
            (keep_esc 90 (by decide))) (keep_plain hs)) (P_reset sgrKeep_closed)
      have l_rest : SgrLine (if (splitFirstRest r.msg).2.1.isEmpty = true then []
          else [10] ++ (match splitLines (splitFirstRest r.msg).2.1 with
              | [l] => List.replicate 4 32 ++ l
              | ls => joinWith [10] (ls.map fun l => wrapColorAndBg (List.replicate 4 32 ++ l) clr bg)) ++
            (if (splitFirstRest r.msg).2.2 = true then [10] else [])) := by
        split
        · exact line_nil
        · have hlines := splitLines_ok _ hrest
          have hind : ∀ l ∈ splitLines (splitFirstRest r.msg).2.1, NoC0 (List.replicate 4 32 ++ l) := by
            intro l hl
            apply noC0_append _ (hlines l hl)
            intro c hc; have := List.eq_of_mem_replicate hc; subst this; decide
          apply line_app (line_app line_lf _)
          · split
            · exact line_lf
            · exact line_nil
          · split
            · rename_i l heq
              exact line_plain (hind l (by rw [heq]; simp))
            · apply line_join
              intro x hx
              obtain ⟨l, hl, rfl⟩ := List.mem_map.mp hx
              exact line_of_end (end_wrap _ clr bg hclr0 hbg0 (hind l hl))
      -- put together
      have e_head : SgrEnd (esc 32 ++ r.ts ++ [124, 32] ++
          (if r.name.isEmpty = true then [] else echoColorAndBg 37 (-1) ++ r.name ++ escReset ++ [32]) ++
          (echoColorAndBg clr bg ++ [91] ++ tag ++ [93] ++ escReset ++ [32]) ++
          wrapColorAndBg (rightPad (splitFirstRest r.msg).1 p.minWidth) clr bg ++
          encTopAttrs { fmt := .color, isPrint := isPrint, clr := clr, bg := bg } depth r.attrs) := by
        apply end_of_keep _ e_attrs
        exact keep_app (keep_app (keep_app k_time k_logger) k_sev) (fun s hs => (e_first s hs).1)
      have := line_app (line_app (line_app (line_of_end e_head) l_caller) l_rest) line_lf
      exact this _ hinit
end Logg
