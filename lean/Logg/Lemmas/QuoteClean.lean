/-
  Lemmas about the two string escapers (core Lean only): what they emit is free of control bytes,
  and what the JSON escaper puts between the quotes is a well-formed JSON string body.
-/
import Logg.Model.Quote
import Logg.Model.IsPrint

namespace Logg.Lemmas
open Logg


/-- no C0 control byte (in particular no LF / CR / ESC) and no DEL -/
def Clean (bs : Bytes) : Prop := ∀ c ∈ bs, 32 ≤ c.toNat ∧ c.toNat ≠ 127
/-- no C0 control byte -/
def NoC0 (bs : Bytes) : Prop := ∀ c ∈ bs, 32 ≤ c.toNat

theorem clean_append {a c : Bytes} (ha : Clean a) (hc : Clean c) : Clean (a ++ c) := by
  intro x hx; rcases List.mem_append.mp hx with h | h; exact ha x h; exact hc x h
theorem noC0_append {a c : Bytes} (ha : NoC0 a) (hc : NoC0 c) : NoC0 (a ++ c) := by
  intro x hx; rcases List.mem_append.mp hx with h | h; exact ha x h; exact hc x h
theorem clean_noC0 {a : Bytes} (h : Clean a) : NoC0 a := fun c hc => (h c hc).1

theorem toUInt8_toNat_small (n : Nat) (h : n < 256) : n.toUInt8.toNat = n := by
  simp [Nat.toUInt8]; omega

theorem hexChar_range (n : Nat) : 48 ≤ (hexChar n).toNat ∧ (hexChar n).toNat ≤ 102 := by
  unfold hexChar
  have : n % 16 < 16 := Nat.mod_lt _ (by decide)
  split
  · rw [toUInt8_toNat_small _ (by omega)]; omega
  · rw [toUInt8_toNat_small _ (by omega)]; omega

theorem hex_clean (n : Nat) : Clean (hex2 n) ∧ Clean (hex4 n) ∧ Clean (hex8 n) := by
  have h := hexChar_range
  have hc : ∀ m, 32 ≤ (hexChar m).toNat ∧ (hexChar m).toNat ≠ 127 := fun m => by have := h m; omega
  refine ⟨?_, ?_, ?_⟩ <;> intro c hcm <;> simp only [hex2, hex4, hex8, List.mem_cons, List.mem_append, List.not_mem_nil, or_false] at hcm
  · rcases hcm with rfl | rfl <;> exact hc _
  · rcases hcm with rfl | rfl | rfl | rfl <;> exact hc _
  · rcases hcm with (rfl | rfl | rfl | rfl) | (rfl | rfl | rfl | rfl) <;> exact hc _
theorem or_byte (A x : Nat) (hA : A < 256) (hx : x < 256) : A ≤ (A ||| x).toUInt8.toNat := by
  have h1 : A ||| x < 2 ^ 8 := Nat.or_lt_two_pow (by simpa using hA) (by simpa using hx)
  rw [toUInt8_toNat_small _ (by simpa using h1)]
  exact Nat.left_le_or

theorem and63 (x : Nat) : x &&& 0x3F < 256 := by
  have : x &&& 0x3F ≤ 0x3F := Nat.and_le_right
  omega

theorem encodeRune_high (r : Nat) (h : 0x80 ≤ r) : ∀ c ∈ encodeRune r, 128 ≤ c.toNat := by
  unfold encodeRune
  simp only []
  have hr' : 0x80 ≤ (if validRune r = true then r else runeError) := by
    split
    · exact h
    · decide
  have hmax : (if validRune r = true then r else runeError) ≤ 0x10FFFF := by
    by_cases hv : validRune r = true
    · rw [if_pos hv]
      simp [validRune, maxRune] at hv
      rcases hv with h1 | ⟨_, h3⟩
      · omega
      · exact of_decide_eq_true h3
    · rw [if_neg hv]; decide
  generalize (if validRune r = true then r else runeError) = q at hr' hmax
  intro c hc
  split at hc
  · omega
  · split at hc
    · rename_i h1 h2
      have hb : q >>> 6 < 256 := by rw [Nat.shiftRight_eq_div_pow]; omega
      simp only [List.mem_cons, List.not_mem_nil, or_false] at hc
      rcases hc with rfl | rfl
      · have := or_byte 0xC0 (q >>> 6) (by decide) hb; omega
      · have := or_byte 0x80 (q &&& 0x3F) (by decide) (and63 q); omega
    · split at hc
      · have hb : q >>> 12 < 256 := by rw [Nat.shiftRight_eq_div_pow]; omega
        simp only [List.mem_cons, List.not_mem_nil, or_false] at hc
        rcases hc with rfl | rfl | rfl
        · have := or_byte 0xE0 (q >>> 12) (by decide) hb; omega
        · have := or_byte 0x80 ((q >>> 6) &&& 0x3F) (by decide) (and63 _); omega
        · have := or_byte 0x80 (q &&& 0x3F) (by decide) (and63 q); omega
      · have hb : q >>> 18 < 256 := by rw [Nat.shiftRight_eq_div_pow]; omega
        simp only [List.mem_cons, List.not_mem_nil, or_false] at hc
        rcases hc with rfl | rfl | rfl | rfl
        · have := or_byte 0xF0 (q >>> 18) (by decide) hb; omega
        · have := or_byte 0x80 ((q >>> 12) &&& 0x3F) (by decide) (and63 _); omega
        · have := or_byte 0x80 ((q >>> 6) &&& 0x3F) (by decide) (and63 _); omega
        · have := or_byte 0x80 (q &&& 0x3F) (by decide) (and63 q); omega
theorem clean_of_high {bs : Bytes} (h : ∀ c ∈ bs, 128 ≤ c.toNat) : Clean bs := fun c hc => by have := h c hc; omega

theorem clean_lits : Clean [92, 97] ∧ Clean [92, 98] ∧ Clean [92, 102] ∧ Clean [92, 110] ∧ Clean [92, 114] ∧ Clean [92, 116] ∧
    Clean [92, 118] ∧ Clean [92, 120] ∧ Clean [92, 117] ∧ Clean [92, 85] := by
  refine ⟨?_, ?_, ?_, ?_, ?_, ?_, ?_, ?_, ?_, ?_⟩ <;> intro c hc <;> simp at hc <;> rcases hc with rfl | rfl <;> decide

/-- facts about `isPrint` the cleanliness of Go-quoting rests on -/
def PrintSafe (isPrint : Nat → Bool) : Prop := ∀ r, isPrint r = true → 32 ≤ r ∧ r ≠ 127

theorem isPrintTable_safe : PrintSafe isPrintTable := by
  intro r h
  unfold isPrintTable at h
  rw [Bool.and_eq_true, Bool.and_eq_true] at h
  have h2 : (r != 127) = true := h.1.2
  exact ⟨of_decide_eq_true h.1.1, fun e => by subst e; exact absurd h2 (by decide)⟩

theorem escapeRune_clean (isPrint : Nat → Bool) (hp : PrintSafe isPrint) (r : Nat) : Clean (escapeRune isPrint r) := by
  obtain ⟨l1, l2, l3, l4, l5, l6, l7, l8, l9, l10⟩ := clean_lits
  obtain ⟨h2, h4, h8⟩ : (∀ n, Clean (hex2 n)) ∧ (∀ n, Clean (hex4 n)) ∧ (∀ n, Clean (hex8 n)) :=
    ⟨fun n => (hex_clean n).1, fun n => (hex_clean n).2.1, fun n => (hex_clean n).2.2⟩
  unfold escapeRune
  by_cases h : (r == 34 || r == 92) = true
  · rw [if_pos h]
    intro c hc
    simp only [List.mem_cons, List.not_mem_nil, or_false] at hc
    rcases hc with rfl | rfl
    · decide
    · simp only [Bool.or_eq_true, beq_iff_eq] at h
      rcases h with h | h <;> subst h <;> decide
  · rw [if_neg h]
    by_cases hpr : isPrint r = true
    · rw [if_pos hpr]
      have hs := hp r hpr
      by_cases hlow : r < 0x80
      · intro c hc
        have : encodeRune r = [r.toUInt8] := by
          have hv : validRune r = true := by simp [validRune]; omega
          simp [encodeRune, hv, hlow]
        rw [this] at hc
        simp only [List.mem_cons, List.not_mem_nil, or_false] at hc
        subst hc
        rw [toUInt8_toNat_small _ (by omega)]
        exact hs
      · exact clean_of_high (encodeRune_high r (by omega))
    · rw [if_neg hpr]
      by_cases c1 : (r == 7) = true
      · rw [if_pos c1]; exact l1
      rw [if_neg c1]
      by_cases c2 : (r == 8) = true
      · rw [if_pos c2]; exact l2
      rw [if_neg c2]
      by_cases c3 : (r == 12) = true
      · rw [if_pos c3]; exact l3
      rw [if_neg c3]
      by_cases c4 : (r == 10) = true
      · rw [if_pos c4]; exact l4
      rw [if_neg c4]
      by_cases c5 : (r == 13) = true
      · rw [if_pos c5]; exact l5
      rw [if_neg c5]
      by_cases c6 : (r == 9) = true
      · rw [if_pos c6]; exact l6
      rw [if_neg c6]
      by_cases c7 : (r == 11) = true
      · rw [if_pos c7]; exact l7
      rw [if_neg c7]
      by_cases c8 : (decide (r < 32) || r == 127) = true
      · rw [if_pos c8]; exact clean_append l8 (h2 _)
      rw [if_neg c8]
      by_cases c9 : (!validRune r) = true
      · rw [if_pos c9]; exact clean_append l9 (h4 _)
      rw [if_neg c9]
      by_cases c10 : r < 0x10000
      · rw [if_pos c10]; exact clean_append l9 (h4 _)
      rw [if_neg c10]; exact clean_append l10 (h8 _)

theorem quoteBody_clean (isPrint : Nat → Bool) (hp : PrintSafe isPrint) (fuel : Nat) : ∀ s, Clean (quoteBody isPrint fuel s) := by
  induction fuel with
  | zero => intro s; simp [quoteBody, Clean]
  | succ f ih =>
    intro s
    cases s with
    | nil => simp [quoteBody, Clean]
    | cons b0 t =>
      simp only [quoteBody]
      split
      · exact clean_append (escapeRune_clean isPrint hp _) (ih _)
      · split
        · exact clean_append (clean_append clean_lits.2.2.2.2.2.2.2.1 (hex_clean _).1) (ih _)
        · exact clean_append (escapeRune_clean isPrint hp _) (ih _)

/-- Go-syntax quoting never emits a control byte (no CR / LF / ESC …) nor DEL, whatever the input bytes. -/
theorem goQuote_clean (isPrint : Nat → Bool) (hp : PrintSafe isPrint) (s : Bytes) : Clean (goQuote isPrint s) := by
  unfold goQuote
  intro c hc
  simp only [List.mem_cons, List.mem_append, List.not_mem_nil, or_false] at hc
  rcases hc with (rfl | hc) | rfl
  · decide
  · exact quoteBody_clean isPrint hp _ s c hc
  · decide
def isHexB (c : UInt8) : Bool := (48 ≤ c && c ≤ 57) || (97 ≤ c && c ≤ 102) || (65 ≤ c && c ≤ 70)

/-- the inside of a JSON string (RFC 8259 §7), on bytes: unescaped bytes are ≥ 0x20 and neither `"` nor
    `\`; an escape is `\"  \\  \/  \b  \f  \n  \r  \t` or `\u` + four hex digits -/
def jsonBodyOK : Bytes → Bool
  | [] => true
  | c :: rest =>
    if c == 92 then
      match rest with
      | 117 :: a :: b :: cc :: d :: rest' => isHexB a && isHexB b && isHexB cc && isHexB d && jsonBodyOK rest'
      | e :: rest' => (e == 34 || e == 92 || e == 47 || e == 98 || e == 102 || e == 110 || e == 114 || e == 116) && jsonBodyOK rest'
      | [] => false
    else (decide (32 ≤ c) && c != 34) && jsonBodyOK rest

theorem hexChar_isHex (n : Nat) : isHexB (hexChar n) = true := by
  unfold hexChar isHexB
  have : n % 16 < 16 := Nat.mod_lt _ (by decide)
  generalize n % 16 = m at this
  have : m = 0 ∨ m = 1 ∨ m = 2 ∨ m = 3 ∨ m = 4 ∨ m = 5 ∨ m = 6 ∨ m = 7 ∨ m = 8 ∨ m = 9 ∨ m = 10 ∨ m = 11 ∨ m = 12 ∨ m = 13 ∨ m = 14 ∨ m = 15 := by omega
  rcases this with h|h|h|h|h|h|h|h|h|h|h|h|h|h|h|h <;> subst h <;> decide

theorem jsonBodyOK_cons (c : UInt8) (rest : Bytes) :
    jsonBodyOK (c :: rest) =
      if c == 92 then
        match rest with
        | 117 :: a :: b :: cc :: d :: rest' => isHexB a && isHexB b && isHexB cc && isHexB d && jsonBodyOK rest'
        | e :: rest' => (e == 34 || e == 92 || e == 47 || e == 98 || e == 102 || e == 110 || e == 114 || e == 116) && jsonBodyOK rest'
        | [] => false
      else (decide (32 ≤ c) && c != 34) && jsonBodyOK rest := by
  rw [jsonBodyOK.eq_def]; rfl

/-- a plain byte (not a backslash) is one token -/
theorem ok_plain (c : UInt8) (rest : Bytes) (h1 : 32 ≤ c) (h2 : c ≠ 34) (h3 : c ≠ 92) :
    jsonBodyOK (c :: rest) = jsonBodyOK rest := by
  have : (c == 92) = false := by simpa using h3
  rw [jsonBodyOK_cons]
  simp [this, h1, h2]

theorem ok_plain_list (p rest : Bytes) (h : ∀ c ∈ p, 32 ≤ c ∧ c ≠ 34 ∧ c ≠ 92) :
    jsonBodyOK (p ++ rest) = jsonBodyOK rest := by
  induction p with
  | nil => rfl
  | cons c t ih =>
    have hc := h c (by simp)
    rw [List.cons_append, ok_plain c _ hc.1 hc.2.1 hc.2.2]
    exact ih (fun x hx => h x (by simp [hx]))

theorem ok_escape2 (e : UInt8) (rest : Bytes)
    (he : e = 34 ∨ e = 92 ∨ e = 110 ∨ e = 114 ∨ e = 116) : jsonBodyOK (92 :: e :: rest) = jsonBodyOK rest := by
  rw [jsonBodyOK_cons]
  rcases he with h | h | h | h | h <;> subst h <;> simp

theorem ok_u4 (a b cc d : UInt8) (rest : Bytes) (ha : isHexB a = true) (hb : isHexB b = true) (hc : isHexB cc = true) (hd : isHexB d = true) :
    jsonBodyOK (92 :: 117 :: a :: b :: cc :: d :: rest) = jsonBodyOK rest := by
  rw [jsonBodyOK_cons]
  simp [ha, hb, hc, hd]
theorem isCont_high (c : UInt8) (h : isCont c = true) : 128 ≤ c.toNat := by
  simp only [isCont, Bool.and_eq_true, decide_eq_true_eq] at h
  have := h.1
  rw [UInt8.le_iff_toNat_le] at this
  simpa using this

theorem decodeRune_take_high (b0 : UInt8) (t : Bytes) (hb : ¬ b0 < 0x80) :
    ∀ c ∈ (b0 :: t).take (decodeRune (b0 :: t)).2, 128 ≤ c.toNat := by
  have hb0 : 128 ≤ b0.toNat := by
    rw [UInt8.lt_iff_toNat_lt] at hb; simpa using hb
  unfold decodeRune
  simp only [hb, ↓reduceIte]
  repeat' split
  all_goals simp only [List.take_succ_cons, List.take_zero, List.mem_cons, List.not_mem_nil, or_false]
  all_goals (
    intro c hc
    first
    | (subst hc; exact hb0)
    | (rename_i h
       simp only [Bool.and_eq_true, decide_eq_true_eq, isCont, UInt8.le_iff_toNat_le] at h
       simp at h
       rcases hc with rfl | rfl | rfl | rfl <;> omega)
    | (rename_i h
       simp only [Bool.and_eq_true, decide_eq_true_eq, isCont, UInt8.le_iff_toNat_le] at h
       simp at h
       rcases hc with rfl | rfl | rfl <;> omega)
    | (rename_i h
       simp only [Bool.and_eq_true, decide_eq_true_eq, isCont, UInt8.le_iff_toNat_le] at h
       simp at h
       rcases hc with rfl | rfl <;> omega))
theorem plain_of_high (p : Bytes) (h : ∀ c ∈ p, 128 ≤ c.toNat) : ∀ c ∈ p, 32 ≤ c ∧ c ≠ 34 ∧ c ≠ 92 := by
  intro c hc
  have := h c hc
  refine ⟨?_, ?_, ?_⟩
  · rw [UInt8.le_iff_toNat_le]; simpa using (by omega : 32 ≤ c.toNat)
  · intro e; subst e; simp at this
  · intro e; subst e; simp at this

theorem jsonEscapeByte_ok (b0 : UInt8) (rest : Bytes) : jsonBodyOK (jsonEscapeByte b0 ++ rest) = jsonBodyOK rest := by
  unfold jsonEscapeByte
  by_cases h1 : (b0 == 34 || b0 == 92) = true
  · rw [if_pos h1]
    simp only [Bool.or_eq_true, beq_iff_eq] at h1
    exact ok_escape2 b0 rest (by rcases h1 with h | h <;> simp [h])
  rw [if_neg h1]
  by_cases h2 : (b0 == 10) = true
  · rw [if_pos h2]; exact ok_escape2 110 rest (by simp)
  rw [if_neg h2]
  by_cases h3 : (b0 == 13) = true
  · rw [if_pos h3]; exact ok_escape2 114 rest (by simp)
  rw [if_neg h3]
  by_cases h4 : (b0 == 9) = true
  · rw [if_pos h4]; exact ok_escape2 116 rest (by simp)
  rw [if_neg h4]
  show jsonBodyOK (92 :: 117 :: 48 :: 48 :: (hex2 b0.toNat ++ rest)) = _
  simp only [hex2, List.cons_append, List.nil_append]
  exact ok_u4 48 48 _ _ rest (by decide) (by decide) (hexChar_isHex _) (hexChar_isHex _)

/-- (JSON) whatever bytes go in, what `appendEscapedJSONString` puts between the quotes is a well-formed
    JSON string body: no unescaped quote, no raw control byte, only legal escapes. -/
theorem jsonEscape_ok (fuel : Nat) : ∀ (s rest : Bytes), jsonBodyOK (jsonEscape fuel s ++ rest) = jsonBodyOK rest := by
  induction fuel with
  | zero => intro s rest; simp [jsonEscape]
  | succ f ih =>
    intro s rest
    cases s with
    | nil => simp [jsonEscape]
    | cons b0 t =>
      simp only [jsonEscape]
      by_cases hlow : b0 < 0x80
      · simp only [hlow, ↓reduceIte, List.append_assoc]
        by_cases hs : jsonSafe b0 = true
        · simp only [hs, ↓reduceIte, List.cons_append, List.nil_append]
          simp only [jsonSafe, Bool.and_eq_true, decide_eq_true_eq, bne_iff_ne, ne_eq] at hs
          rw [ok_plain b0 _ hs.1.1 hs.1.2 hs.2]
          exact ih _ _
        · simp only [hs, Bool.false_eq_true, ↓reduceIte]
          rw [jsonEscapeByte_ok]
          exact ih _ _
      · simp only [hlow, ↓reduceIte]
        split
        · simp only [List.append_assoc]
          show jsonBodyOK (92 :: 117 :: 102 :: 102 :: 102 :: 100 :: (jsonEscape f (List.drop 1 (b0 :: t)) ++ rest)) = _
          rw [ok_u4 102 102 102 100 _ (by decide) (by decide) (by decide) (by decide)]
          exact ih _ _
        · split
          · simp only [List.append_assoc]
            show jsonBodyOK (92 :: 117 :: 50 :: 48 :: 50 :: ([hexChar (decodeRune (b0 :: t)).1] ++ (jsonEscape f _ ++ rest))) = _
            simp only [List.cons_append, List.nil_append]
            rw [ok_u4 50 48 50 _ _ (by decide) (by decide) (by decide) (hexChar_isHex _)]
            exact ih _ _
          · simp only [List.append_assoc]
            rw [ok_plain_list _ _ (plain_of_high _ (decodeRune_take_high b0 t hlow))]
            exact ih _ _

theorem jsonQuote_wellformed (s : Bytes) :
    ∃ body, jsonQuote s = 34 :: body ++ [34] ∧ jsonBodyOK body = true := by
  refine ⟨jsonEscape s.length s, rfl, ?_⟩
  have := jsonEscape_ok s.length s []
  simpa [jsonBodyOK] using this
theorem noC0_of_high {bs : Bytes} (h : ∀ c ∈ bs, 128 ≤ c.toNat) : NoC0 bs := fun c hc => by have := h c hc; omega

theorem jsonEscapeByte_noC0 (b0 : UInt8) : NoC0 (jsonEscapeByte b0) := by
  unfold jsonEscapeByte
  by_cases h1 : (b0 == 34 || b0 == 92) = true
  · rw [if_pos h1]
    simp only [Bool.or_eq_true, beq_iff_eq] at h1
    intro c hc
    simp only [List.mem_cons, List.not_mem_nil, or_false] at hc
    rcases hc with rfl | rfl
    · decide
    · rcases h1 with h | h <;> subst h <;> decide
  rw [if_neg h1]
  by_cases h2 : (b0 == 10) = true
  · rw [if_pos h2]; intro c hc; simp at hc; rcases hc with rfl | rfl <;> decide
  rw [if_neg h2]
  by_cases h3 : (b0 == 13) = true
  · rw [if_pos h3]; intro c hc; simp at hc; rcases hc with rfl | rfl <;> decide
  rw [if_neg h3]
  by_cases h4 : (b0 == 9) = true
  · rw [if_pos h4]; intro c hc; simp at hc; rcases hc with rfl | rfl <;> decide
  rw [if_neg h4]
  apply noC0_append
  · intro c hc; simp at hc; rcases hc with rfl | rfl | rfl | rfl <;> decide
  · exact clean_noC0 (hex_clean _).1

theorem jsonEscape_noC0 (fuel : Nat) : ∀ s, NoC0 (jsonEscape fuel s) := by
  induction fuel with
  | zero => intro s; simp [jsonEscape, NoC0]
  | succ f ih =>
    intro s
    cases s with
    | nil => simp [jsonEscape, NoC0]
    | cons b0 t =>
      simp only [jsonEscape]
      by_cases hlow : b0 < 0x80
      · simp only [hlow, ↓reduceIte]
        apply noC0_append _ (ih _)
        by_cases hs : jsonSafe b0 = true
        · simp only [hs, ↓reduceIte]
          intro c hc
          simp only [List.mem_cons, List.not_mem_nil, or_false] at hc
          subst hc
          simp only [jsonSafe, Bool.and_eq_true, decide_eq_true_eq] at hs
          have := hs.1.1
          rw [UInt8.le_iff_toNat_le] at this
          simpa using this
        · simp only [hs, Bool.false_eq_true, ↓reduceIte]
          exact jsonEscapeByte_noC0 b0
      · simp only [hlow, ↓reduceIte]
        split
        · apply noC0_append _ (ih _)
          intro c hc; simp at hc; rcases hc with rfl | rfl | rfl | rfl | rfl | rfl <;> decide
        · split
          · apply noC0_append _ (ih _)
            apply noC0_append
            · intro c hc; simp at hc; rcases hc with rfl | rfl | rfl | rfl | rfl <;> decide
            · intro c hc
              simp only [List.mem_cons, List.not_mem_nil, or_false] at hc
              subst hc
              have := hexChar_range (decodeRune (b0 :: t)).1
              omega
          · exact noC0_append (noC0_of_high (decodeRune_take_high b0 t hlow)) (ih _)

theorem jsonQuote_noC0 (s : Bytes) : NoC0 (jsonQuote s) := by
  unfold jsonQuote
  intro c hc
  simp only [List.mem_cons, List.mem_append, List.not_mem_nil, or_false] at hc
  rcases hc with (rfl | hc) | rfl
  · decide
  · exact jsonEscape_noC0 _ s c hc
  · decide

end Logg.Lemmas
