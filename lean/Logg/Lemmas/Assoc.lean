/- Lemmas about association lists standing for Go maps (core Lean only). -/
import Logg.Model.Basic

namespace Logg.Lemmas
open Logg

theorem lookup_assocSet {α β} [BEq α] [LawfulBEq α] (m : List (α × β)) (k k' : α) (v : β) :
    List.lookup k (assocSet m k' v) = if k == k' then some v else List.lookup k m := by
  induction m with
  | nil =>
    by_cases h : k = k'
    · subst h; simp [assocSet, List.lookup]
    · have : (k == k') = false := by simpa using h
      simp [assocSet, List.lookup, this]
  | cons p m ih =>
    obtain ⟨a, c⟩ := p
    by_cases hak : a = k'
    · subst hak
      by_cases h : k = a
      · subst h; simp [assocSet, List.lookup]
      · have : (k == a) = false := by simpa using h
        simp [assocSet, List.lookup, this]
    · have hak' : (a == k') = false := by simpa using hak
      simp only [assocSet, hak', Bool.false_eq_true, ↓reduceIte, List.lookup]
      by_cases h : k = a
      · subst h
        have : (k == k') = false := by simpa using hak
        simp [this]
      · have hka : (k == a) = false := by simpa using h
        simp [hka, ih]

theorem lookup_assocSet_self {α β} [BEq α] [LawfulBEq α] (m : List (α × β)) (k : α) (v : β) :
    List.lookup k (assocSet m k v) = some v := by
  simp [lookup_assocSet]

theorem lookup_assocSet_ne {α β} [BEq α] [LawfulBEq α] (m : List (α × β)) (k k' : α) (v : β) (h : k ≠ k') :
    List.lookup k (assocSet m k' v) = List.lookup k m := by
  have : (k == k') = false := by simpa using h
  simp [lookup_assocSet, this]

end Logg.Lemmas
